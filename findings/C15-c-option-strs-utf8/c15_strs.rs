use std::path::Path;
use std::process::Command;
const PRE: &str = r#"
#[diplomat::bridge]
mod ffi {
    use diplomat_runtime::{DiplomatStrSlice, DiplomatStr16Slice, DiplomatUtf8StrSlice};
    #[diplomat::opaque] pub struct Op(u8);
    impl Op {
"#;
const POST: &str = "\n    }\n}\n";
const CASES: &[(&str, &str)] = &[
    ("strs_utf8", "pub fn f(x: &[DiplomatUtf8StrSlice]) {}"),
    ("strs_unval8", "pub fn f(x: &[DiplomatStrSlice]) {}"),
    ("strs_16", "pub fn f(x: &[DiplomatStr16Slice]) {}"),
    ("opt_strs_utf8", "pub fn f(x: Option<&[DiplomatUtf8StrSlice]>) {}"),
    ("opt_strs_unval8", "pub fn f(x: Option<&[DiplomatStrSlice]>) {}"),
    ("opt_strs_16", "pub fn f(x: Option<&[DiplomatStr16Slice]>) {}"),
];
#[test]
fn sweep() {
    let exe = env!("CARGO_BIN_EXE_diplomat-tool");
    let root = Path::new(env!("CARGO_TARGET_TMPDIR")).join("c15_strs");
    for (name, body) in CASES {
        let dir = root.join(name);
        std::fs::create_dir_all(dir.join("src")).unwrap();
        let entry = dir.join("src/lib.rs");
        std::fs::write(&entry, format!("{PRE}        {body}{POST}")).unwrap();
        for backend in ["c", "cpp", "js", "dart", "demo_gen"] {
            let out = dir.join(backend);
            let _ = std::fs::remove_dir_all(&out);
            std::fs::create_dir_all(&out).unwrap();
            let o = Command::new(exe).arg(backend).arg(&out).arg("--entry").arg(&entry).output().unwrap();
            let err = String::from_utf8_lossy(&o.stderr);
            let verdict = if err.contains("panicked at") {
                let l = err.lines().find(|l| l.contains("panicked at")).unwrap_or("").to_string();
                let m = err.lines().skip_while(|l| !l.contains("panicked at")).nth(1).unwrap_or("").to_string();
                format!("PANIC {l} :: {m}")
            } else if o.status.success() { "ok".to_string() } else {
                format!("rejected: {}", err.lines().find(|l| l.contains("rror")).unwrap_or("").chars().take(140).collect::<String>())
            };
            println!("{name:18} {backend:9} {verdict}");
        }
    }
}
