#[diplomat::bridge]
mod ffi {
    #[diplomat::opaque]
    pub struct Thing(pub u8);

    impl Thing {
        pub fn with_callback(&self, f: impl Fn(&Thing) -> u8) -> u8 {
            f(self)
        }
    }
}
