#!/bin/sh
# usage: demo.sh <path to a diplomat-tool binary built from the tree under test>
# A bridge whose only method takes a callback with a reference parameter: lowering rejects it unless
# unsafe_references_in_callbacks is true for the backend being generated.
B=$1; D=$(dirname "$0"); T=$(mktemp -d)
run() { t=$1; shift; rm -rf "$T/out"; mkdir -p "$T/out"; "$B" "$t" "$T/out" --entry "$D/bridge.rs" --config-file /nonexistent.toml "$@" >"$T/log" 2>&1; echo "$t $* -> exit=$?  $(grep -v '^$' "$T/log" | head -2 | tr '\n' ' ' | cut -c1-150)"; }
run cpp
run cpp --config unsafe_references_in_callbacks=true          # shared key on the command line
run cpp --config cpp.unsafe_references_in_callbacks=true      # language-scoped key, own language
run c   --config c.unsafe_references_in_callbacks=true
run cpp --config kotlin.unsafe_references_in_callbacks=true   # another language's key must NOT apply
rm -rf "$T"
