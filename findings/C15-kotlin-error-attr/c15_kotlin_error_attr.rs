// place in tool/tests/; cargo test -p diplomat-tool --offline --test c15_kotlin_error_attr -- --nocapture
use std::path::Path;
use std::process::Command;
const PRE: &str = r#"
#[diplomat::bridge]
mod ffi {
    #[diplomat::opaque] pub struct Op(u8);
    pub enum En { A, B }
    pub struct St { pub a: u8, pub b: u32 }
    impl Op {
"#;
const POST: &str = "\n    }\n}\n";
const CASES: &[(&str, &str)] = &[
    ("res_struct_enum", "pub fn f() -> Result<St, En> { unimplemented!() }"),
    ("res_unit_struct", "pub fn f() -> Result<(), St> { unimplemented!() }"),
    ("res_box_box", "pub fn f() -> Result<Box<Op>, Box<Op>> { unimplemented!() }"),
    ("res_unit_prim", "pub fn f() -> Result<(), u8> { unimplemented!() }"),
];
#[test]
fn sweep() {
    let exe = env!("CARGO_BIN_EXE_diplomat-tool");
    let root = Path::new(env!("CARGO_TARGET_TMPDIR")).join("c15_kotlin_error_attr");
    let mut panics = 0;
    for (name, body) in CASES {
        let dir = root.join(name);
        std::fs::create_dir_all(dir.join("src")).unwrap();
        let entry = dir.join("src/lib.rs");
        std::fs::write(&entry, format!("{PRE}        {body}{POST}")).unwrap();
        let out = dir.join("kotlin");
        let _ = std::fs::remove_dir_all(&out);
        std::fs::create_dir_all(&out).unwrap();
        let o = Command::new(exe).arg("kotlin").arg(&out).arg("--entry").arg(&entry)
            .arg("--config-file").arg(concat!(env!("CARGO_MANIFEST_DIR"), "/../feature_tests/config.toml")).output().unwrap();
        let err = String::from_utf8_lossy(&o.stderr);
        if let Some(l) = err.lines().find(|l| l.contains("panicked at")) {
            panics += 1;
            let m = err.lines().skip_while(|l| !l.contains("panicked at")).nth(1).unwrap_or("");
            println!("{name:18} PANIC {l} :: {m}");
        } else {
            println!("{name:18} exit={:?}", o.status.code());
        }
    }
    assert_eq!(panics, 0, "the Kotlin backend must report problems through its diagnostics list, not panic");
}
