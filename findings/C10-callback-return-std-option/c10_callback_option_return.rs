use core::ffi::c_void;
#[diplomat::bridge]
mod ffi {
    #[diplomat::opaque]
    pub struct C10Cb(u8);
    impl C10Cb {
        /// returns the payload the callback produced, or 255 for None
        pub fn call(f: impl Fn(u8) -> Option<u8>, x: u8) -> u8 {
            match f(x) { Some(v) => v, None => 255 }
        }
    }
}
// the C side: a callback returning what the C header declares for the callback's result: OptionU8 {union{uint8_t ok}; bool is_ok}
#[repr(C)] #[derive(Clone, Copy)] struct OptionU8 { ok: u8, is_ok: bool }
unsafe extern "C" fn run(_data: *mut c_void, x: u8) -> OptionU8 { OptionU8 { ok: x.wrapping_add(5), is_ok: true } }
#[repr(C)] struct CCallback { data: *mut c_void, run_callback: unsafe extern "C" fn(*mut c_void, u8) -> OptionU8, destructor: Option<unsafe extern "C" fn(*const c_void)> }
#[allow(clashing_extern_declarations, improper_ctypes)]
extern "C" { fn C10Cb_call(f: CCallback, x: u8) -> u8; }
#[test]
fn callback_some_payload_arrives() {
    let r = unsafe { C10Cb_call(CCallback { data: core::ptr::null_mut(), run_callback: run, destructor: None }, 2) };
    assert_eq!(r, 7, "the C callback answered Some(7)");
}
