use std::path::Path;
const SRC: &str = r#"
#[diplomat::bridge]
mod ffi {
    #[diplomat::opaque]
    pub struct C10Cb(u8);
    impl C10Cb {
        pub fn call(f: impl Fn(u8) -> Option<u8>, x: u8) -> u8 { unimplemented!() }
    }
}
"#;
#[test]
fn header() {
    for backend in ["c", "cpp"] {
    let root = Path::new(env!("CARGO_TARGET_TMPDIR")).join("c10_cb");
    let src = root.join("src");
    std::fs::create_dir_all(&src).unwrap();
    let entry = src.join("lib.rs");
    std::fs::write(&entry, SRC).unwrap();
    let out = root.join(backend);
    let _ = std::fs::remove_dir_all(&out);
    std::fs::create_dir_all(&out).unwrap();
    let cfg = diplomat_tool::config::Config::default();
    diplomat_tool::gen(&entry, backend, &out, &diplomat_tool::DocsUrlGenerator::default(), cfg, true).unwrap();
    if backend == "c" { let h = std::fs::read_to_string(out.join("C10Cb.h")).unwrap(); println!("{h}"); }
    }
}
