#[diplomat::bridge]
mod ffi {
    use diplomat_runtime::DiplomatStr16;
    #[diplomat::opaque] pub struct Op(u8);
    impl Op { pub fn f(x: Option<&DiplomatStr16>) {} }
}
