use std::path::{Path, PathBuf};
const BORROWED: &str = r#"
#[diplomat::bridge]
mod ffi {
    #[diplomat::opaque]
    pub struct Op<'a>(&'a [u8]);
    impl<'a> Op<'a> {
        pub fn from_opt_slice(x: Option<&'a [u8]>) -> Box<Op<'a>> { unimplemented!() }
    }
}
"#;
const UNBORROWED: &str = r#"
#[diplomat::bridge]
mod ffi {
    #[diplomat::opaque]
    pub struct Op(u8);
    impl Op {
        pub fn sum(x: Option<&[u8]>) -> u8 { unimplemented!() }
    }
}
"#;
const STRUCT_BORROWED: &str = r#"
#[diplomat::bridge]
mod ffi {
    use diplomat_runtime::DiplomatSlice;
    pub struct S<'a> { pub a: DiplomatSlice<'a, u8> }
    #[diplomat::opaque]
    pub struct Op<'a>(&'a [u8]);
    impl<'a> Op<'a> {
        pub fn from_opt_struct(x: Option<S<'a>>) -> Box<Op<'a>> { unimplemented!() }
    }
}
"#;
fn generate(name: &str, src_text: &str, backend: &str) -> PathBuf {
    let root = Path::new(env!("CARGO_TARGET_TMPDIR")).join(name);
    let src = root.join("src");
    std::fs::create_dir_all(&src).unwrap();
    let entry = src.join("lib.rs");
    std::fs::write(&entry, src_text).unwrap();
    let out = root.join(backend);
    let _ = std::fs::remove_dir_all(&out);
    std::fs::create_dir_all(&out).unwrap();
    diplomat_tool::gen(&entry, backend, &out, &diplomat_tool::DocsUrlGenerator::default(), diplomat_tool::config::Config::default(), true).unwrap();
    out
}
macro_rules! t { ($n:ident, $s:expr, $b:expr) => { #[test] fn $n() { generate(stringify!($n), $s, $b); } } }
t!(borrowed_dart, BORROWED, "dart");
t!(borrowed_js, BORROWED, "js");
t!(borrowed_kotlin, BORROWED, "kotlin");
t!(borrowed_nanobind, BORROWED, "nanobind");
t!(borrowed_c, BORROWED, "c");
t!(borrowed_cpp, BORROWED, "cpp");
t!(unborrowed_dart, UNBORROWED, "dart");
t!(unborrowed_js, UNBORROWED, "js");
t!(unborrowed_kotlin, UNBORROWED, "kotlin");
t!(unborrowed_nanobind, UNBORROWED, "nanobind");
t!(struct_dart, STRUCT_BORROWED, "dart");
t!(struct_js, STRUCT_BORROWED, "js");
t!(struct_kotlin, STRUCT_BORROWED, "kotlin");
t!(struct_nanobind, STRUCT_BORROWED, "nanobind");
