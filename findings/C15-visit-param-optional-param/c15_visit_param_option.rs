#![cfg(feature = "hir")]
use diplomat_core::hir::{BasicAttributeValidator, TypeContext};

fn tcx(src: &str) -> TypeContext {
    let file: syn::File = syn::parse_str(src).expect("parse");
    let mut v = BasicAttributeValidator::new("demo");
    v.support.option = true;
    match TypeContext::from_syn(&file, Default::default(), v) {
        Ok(t) => t,
        Err(e) => {
            for (cx, err) in e { eprintln!("Lowering error: {cx}: {err}"); }
            panic!("lowering failed")
        }
    }
}

fn visit_all(tcx: &TypeContext, ty: &str, method: &str) -> usize {
    let (_, def) = tcx.all_types().find(|(_, d)| d.name().as_str() == ty).expect("type");
    let m = def.methods().iter().find(|m| m.name.as_str() == method).expect("method");
    let mut v = m.borrowing_param_visitor(tcx, false);
    if let Some(s) = &m.param_self { v.visit_param(&s.ty.clone().into(), "self"); }
    for p in &m.params { v.visit_param(&p.ty, p.name.as_str()); }
    v.borrow_map().into_iter().map(|(_, i)| i.incoming_edges.len()).sum()
}

const SRC: &str = r#"
    #[diplomat::bridge]
    mod ffi {
        #[diplomat::opaque]
        pub struct Op<'a>(&'a [u8]);
        impl<'a> Op<'a> {
            pub fn from_opt_slice(x: Option<&'a [u8]>) -> Box<Op<'a>> { unimplemented!() }
            pub fn from_slice(x: &'a [u8]) -> Box<Op<'a>> { unimplemented!() }
        }
    }
"#;

#[test]
fn plain_slice_is_an_edge() {
    let t = tcx(SRC);
    assert_eq!(visit_all(&t, "Op", "from_slice"), 1);
}
#[test]
fn optional_slice_param_borrowed_by_return() {
    let t = tcx(SRC);
    // accepted by lowering; the borrow analysis must report the edge (or at least not panic)
    assert_eq!(visit_all(&t, "Op", "from_opt_slice"), 1);
}
