#[diplomat::bridge]
mod ffi {
    use diplomat_runtime::{DiplomatOption, DiplomatStrSlice};
    pub struct Named<'a> {
        pub id: u8,
        pub name: DiplomatOption<DiplomatStrSlice<'a>>,
    }
    impl<'a> Named<'a> {
        pub fn id(self) -> u8 {
            self.id
        }
    }
}
