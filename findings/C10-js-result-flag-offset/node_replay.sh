#!/bin/sh
# usage: node_replay.sh <diplomat-tool binary>
# Generates the JS bindings for bridge.rs, replaces diplomat-wasm.mjs by a stub whose `Op_color` writes into the out-buffer exactly the 12 bytes
# the real Rust callee writes for Ok(Rgb16 { r: 0x0101, g: 0x0101, b: 0x0101 }) (computed with the real DiplomatResult by res_layout.rs:
# [1,1,1,1,1,1, 0,0, 1, 0,0,0]), and calls the generated wrapper under node.  A correct wrapper returns the Rgb16; a wrapper that reads the flag
# at the wrong byte reports the successful call as an error.
B=$1; D=$(cd "$(dirname "$0")" && pwd); T=$(mktemp -d)
"$B" js "$T" --entry "$D/bridge.rs" --config-file /nonexistent.toml >/dev/null 2>&1 || { echo "generation failed"; exit 2; }
cat > "$T/diplomat-wasm.mjs" <<'EOF'
const memory = new WebAssembly.Memory({ initial: 1 });
let next = 64;
const allocs = [];
const wasm = {
  memory,
  diplomat_alloc(size, align) { next = Math.ceil(next / Math.max(align, 1)) * Math.max(align, 1); const p = next; next += Math.max(size, 1); allocs.push({p, size, align}); return p; },
  diplomat_free(p, size, align) {},
  Op_destroy(p) {},
  Op_color(out, self_) { new Uint8Array(memory.buffer, out, 12).set([1,1,1,1,1,1, 0,0, 1, 0,0,0]); },
};
export default wasm;
export { allocs };
EOF
cat > "$T/run.mjs" <<'EOF'
import { Op } from "./Op.mjs";
import * as rt from "./diplomat-runtime.mjs";
import { allocs } from "./diplomat-wasm.mjs";
const op = new Op(rt.internalConstructor, 8, [{}]);
try {
  const c = op.color();
  console.log("color() returned a value:", JSON.stringify({ r: c.r, g: c.g, b: c.b }), " receive buffer:", JSON.stringify(allocs[allocs.length - 1]));
} catch (e) {
  console.log("color() THREW for a successful Rust call:", e.message, " receive buffer:", JSON.stringify(allocs[allocs.length - 1]), "(the callee writes 12 bytes, is_ok at byte 8)");
}
EOF
node "$T/run.mjs"
rm -rf "$T"
