//! Ground truth for the layouts in README.md: place in runtime/tests/ and run
//! `cargo test -p diplomat-runtime --offline --test res_layout -- --nocapture`.
//! (u16 / u32 / u64 / repr(C) enum have the same size and alignment on wasm32 as on x86_64.)
use diplomat_runtime::DiplomatResult;
#[repr(C)] #[derive(Clone, Copy)] pub struct Rgb16 { pub r: u16, pub g: u16, pub b: u16 }
#[repr(C)] #[derive(Clone, Copy)] pub enum Why { Bad, Worse }
#[repr(C)] #[derive(Clone, Copy)] pub struct Err3 { pub a: u32, pub b: u32, pub c: u32 }
#[repr(C)] #[derive(Clone, Copy)] pub struct Tiny { pub code: u8 }
macro_rules! show { ($t:ty, $e:ty) => {
    println!("DiplomatResult<{}, {}>: size={} align={} is_ok@{}", stringify!($t), stringify!($e), core::mem::size_of::<DiplomatResult<$t, $e>>(),
             core::mem::align_of::<DiplomatResult<$t, $e>>(), core::mem::offset_of!(DiplomatResult<$t, $e>, is_ok));
} }
#[test]
fn layouts() {
    show!(Rgb16, Why); show!(u64, Err3); show!(u32, Why); show!((), Tiny);
    assert_eq!(core::mem::offset_of!(DiplomatResult<Rgb16, Why>, is_ok), 8);
    assert_eq!(core::mem::offset_of!(DiplomatResult<u64, Err3>, is_ok), 16);
    assert_eq!(core::mem::offset_of!(DiplomatResult<(), Tiny>, is_ok), 1);
    let r: DiplomatResult<Rgb16, Why> = Ok(Rgb16 { r: 0x0101, g: 0x0101, b: 0x0101 }).into();
    let bytes: [u8; 12] = unsafe { core::mem::transmute_copy(&r) };
    println!("Ok(Rgb16 0x0101 x3) as bytes = {:?}   (byte 6 is padding, byte 8 is is_ok)", bytes);
}
