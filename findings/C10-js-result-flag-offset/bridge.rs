#[diplomat::bridge]
mod ffi {
    pub struct Rgb16 { pub r: u16, pub g: u16, pub b: u16 }
    pub enum Why { Bad, Worse }
    pub struct Err3 { pub a: u32, pub b: u32, pub c: u32 }
    pub struct Tiny { pub code: u8 }
    #[diplomat::opaque] pub struct Op(u8);
    impl Op {
        pub fn color(&self) -> Result<Rgb16, Why> { unimplemented!() }
        pub fn big(&self) -> Result<u64, Err3> { unimplemented!() }
        pub fn tiny(&self) -> Result<(), Tiny> { unimplemented!() }
        pub fn fine(&self) -> Result<u32, Why> { unimplemented!() }
    }
}
