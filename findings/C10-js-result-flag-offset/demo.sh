#!/bin/sh
# usage: demo.sh <diplomat-tool binary>   — prints the (size, align) of the out-buffers the JS wrapper allocates; the runtime reads is_ok at size-1
B=$1; D=$(dirname "$0"); T=$(mktemp -d)
"$B" js "$T" --entry "$D/bridge.rs" --config-file /nonexistent.toml >/dev/null 2>&1
grep -h "^    [a-z]*() {\|DiplomatReceiveBuf" "$T/Op.mjs" | grep -B1 "ReceiveBuf" | grep -v "^--" | sed 's/^ *//' | paste - -
rm -rf "$T"
