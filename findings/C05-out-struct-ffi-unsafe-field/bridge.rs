#[diplomat::bridge]
mod ffi {
    #[diplomat::opaque]
    pub struct Op(u8);
    #[diplomat::out]
    pub struct Out<'a> { pub s: &'a str, pub t: &'a [u8] }
    pub struct In<'a> { pub s: &'a str }
    impl Op {
        pub fn get<'a>(&'a self) -> Out<'a> { todo!() }
    }
}
