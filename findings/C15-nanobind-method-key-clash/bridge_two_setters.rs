#[diplomat::bridge]
mod ffi {
    #[diplomat::opaque]
    pub struct Op(u8);
    impl Op {
        #[diplomat::attr(auto, setter = "foo")]
        pub fn set_foo(&mut self, v: u8) { }
        #[diplomat::attr(auto, setter = "foo")]
        pub fn set_foo2(&mut self, v: u8) { }
    }
}
