#!/bin/sh
# usage: demo.sh <diplomat-tool binary>
B=$1; D=$(dirname "$0"); T=$(mktemp -d)
for b in bridge bridge_two_getters bridge_two_setters; do for be in nanobind cpp c; do
mkdir -p "$T/$b/$be"; "$B" $be "$T/$b/$be" --entry "$D/$b.rs" --config-file /nonexistent.toml --config lib_name=x >"$T/log" 2>&1
echo "$b $be exit=$? $(grep -A1 panicked "$T/log" | tr '\n' ' ' | cut -c1-200)"
done; done
rm -rf "$T"
