#[diplomat::bridge]
mod ffi {
    #[diplomat::opaque]
    pub struct Op(u8);
    impl Op {
        #[diplomat::attr(auto, getter = "foo")]
        pub fn get_foo(&self) -> u8 { 0 }
        pub fn foo(&self) -> u8 { 0 }
    }
}
