#[diplomat::bridge]
mod ffi {
    #[allow(non_camel_case_types)]
    pub struct Foo_Bar { pub a: u8 }
    pub struct FooBar { pub a: u64, pub b: u64 }
    #[diplomat::opaque]
    pub struct Op(u8);
    impl Op {
        pub fn one(&self) -> Option<Foo_Bar> { todo!() }
        pub fn two(&self) -> Option<FooBar> { todo!() }
    }
}
