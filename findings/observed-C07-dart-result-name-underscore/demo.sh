#!/bin/sh
# usage: demo.sh <diplomat-tool binary>   -- prints the native declarations of Op_one / Op_two and the record they both name
B=$1; D=$(dirname "$0"); T=$(mktemp -d)
"$B" dart "$T" --entry "$D/bridge.rs" --config-file /nonexistent.toml --config lib_name=x >/dev/null 2>&1; echo "dart exit=$?"
grep -n "symbol: 'Op_one'\|symbol: 'Op_two'" "$T/Op.g.dart"
grep -n "factory _ResultFooBarFfiVoid.ok\|^final class _Result" "$T/lib.g.dart"
rm -rf "$T"
