#!/bin/sh
# usage: demo.sh <diplomat-tool binary>
B=$1; D=$(dirname "$0"); T=$(mktemp -d); mkdir -p "$T/out"
"$B" kotlin "$T/out" --entry "$D/bridge.rs" --config-file /nonexistent.toml --config lib_name=x --config kotlin.domain=d >"$T/log" 2>&1
echo "kotlin exit=$?"; grep -v '^$' "$T/log" | head -3
"$B" cpp "$T/out" --entry "$D/bridge.rs" --config-file /nonexistent.toml >"$T/log2" 2>&1; echo "cpp exit=$? (same module, another backend)"
rm -rf "$T"
