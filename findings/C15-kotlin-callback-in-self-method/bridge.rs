#[diplomat::bridge]
mod ffi {
    #[diplomat::opaque]
    pub struct Thing(pub u8);

    impl Thing {
        // a callback parameter of a method WITH self on an opaque type
        pub fn with_callback(&self, f: impl Fn(u8) -> u8) -> u8 {
            f(self.0)
        }
    }

    pub enum Mode {
        A,
        B,
    }

    impl Mode {
        // ... and of enum methods, with and without self
        pub fn apply(self, f: impl Fn(u8) -> u8) -> u8 {
            f(self as u8)
        }
        pub fn apply_static(f: impl Fn(u8) -> u8) -> u8 {
            f(0)
        }
    }
}
