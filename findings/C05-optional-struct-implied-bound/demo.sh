#!/bin/sh
# usage: demo.sh <diplomat-tool binary>   -- before 42d7b64: only Op::plain is rejected; after: both Op::opt and Op::plain
B=$1; D=$(dirname "$0"); T=$(mktemp -d)
"$B" c "$T" --entry "$D/bridge.rs" --config-file /nonexistent.toml 2>&1 | grep "Lowering error"; echo "exit=$?"
rm -rf "$T"
