#[diplomat::bridge]
mod ffi {
    #[diplomat::opaque]
    pub struct Op(u8);
    pub struct Foo<'a, 'b: 'a> { pub x: &'a Op, pub y: &'b Op }
    impl Op {
        pub fn opt<'x, 'y>(&self, foo: Option<Foo<'x, 'y>>) -> u8 { 0 }
        pub fn plain<'x, 'y>(&self, foo: Foo<'x, 'y>) -> u8 { 0 }
    }
}
