pub struct Op(u8);
pub struct Inner<'a, 'b: 'a> { pub x: &'a Op, pub y: &'b Op }
pub struct Outer<'x, 'y> { pub inner: Inner<'x, 'y> }
pub fn f<'p, 'q>(s: Outer<'p, 'q>) -> &'p Op { s.inner.y }
fn main() {}
