//! `-> Result<Option<u8>, ()>`: accepted by lowering (HIR: Fallible(DiplomatOption<u8>, unit)); the C header declares the ok
//! payload as `OptionU8 {union {uint8_t ok;}; bool is_ok;}`.  What does the compiled extern "C" function return?
#[diplomat::bridge]
mod ffi {
    use diplomat_runtime::DiplomatOption;
    #[diplomat::opaque]
    pub struct C10Probe(u8);
    impl C10Probe {
        pub fn nested(x: u8) -> Result<Option<u8>, ()> {
            if x == 0 { Err(()) } else if x == 1 { Ok(None) } else { Ok(Some(x)) }
        }
        pub fn nested_diplomat(x: u8) -> Result<DiplomatOption<u8>, ()> {
            if x == 0 { Err(()) } else if x == 1 { Ok(None.into()) } else { Ok(Some(x).into()) }
        }
    }
}

// what the C header declares (capi.h OptionU8 + the per-function result struct)
#[repr(C)] #[derive(Clone, Copy, Debug)] struct OptionU8 { ok: u8, is_ok: bool }
#[repr(C)] #[derive(Clone, Copy, Debug)] struct NestedResult { ok: OptionU8, is_ok: bool }
#[allow(clashing_extern_declarations, improper_ctypes)]
extern "C" {
    fn C10Probe_nested(x: u8) -> NestedResult;
    fn C10Probe_nested_diplomat(x: u8) -> NestedResult;
}

#[test]
fn diplomat_option_spelling_matches_the_header() {
    let r = unsafe { C10Probe_nested_diplomat(7) };
    assert!(r.is_ok && r.ok.is_ok && r.ok.ok == 7, "{r:?}");
    let r = unsafe { C10Probe_nested_diplomat(1) };
    assert!(r.is_ok && !r.ok.is_ok, "{r:?}");
}
#[test]
fn std_option_spelling_matches_the_header() {
    assert_eq!(core::mem::size_of::<diplomat_runtime::DiplomatResult<Option<u8>, ()>>(), core::mem::size_of::<NestedResult>());
    let r = unsafe { C10Probe_nested(7) };
    assert!(r.is_ok && r.ok.is_ok && r.ok.ok == 7, "Ok(Some(7)) seen through the C declaration: {r:?}");
    let r = unsafe { C10Probe_nested(1) };
    assert!(r.is_ok && !r.ok.is_ok, "Ok(None) seen through the C declaration: {r:?}");
}
