use std::path::Path;
const SRC: &str = r#"
#[diplomat::bridge]
mod ffi {
    #[diplomat::opaque]
    pub struct C10Probe(u8);
    impl C10Probe {
        pub fn nested(x: u8) -> Result<Option<u8>, ()> { unimplemented!() }
    }
}
"#;
#[test]
fn header() {
    let root = Path::new(env!("CARGO_TARGET_TMPDIR")).join("c10_nested");
    let src = root.join("src");
    std::fs::create_dir_all(&src).unwrap();
    let entry = src.join("lib.rs");
    std::fs::write(&entry, SRC).unwrap();
    let out = root.join("c");
    let _ = std::fs::remove_dir_all(&out);
    std::fs::create_dir_all(&out).unwrap();
    diplomat_tool::gen(&entry, "c", &out, &diplomat_tool::DocsUrlGenerator::default(), diplomat_tool::config::Config::default(), true).unwrap();
    let h = std::fs::read_to_string(out.join("C10Probe.h")).unwrap();
    println!("{h}");
    assert!(h.contains("OptionU8 ok"), "header declares the payload as OptionU8");
}
