#[diplomat::bridge]
mod ffi {
    #[diplomat::opaque]
    pub struct Op(u8);
    pub struct Foo<'a> { pub a: &'a Op }
    impl Op {
        pub fn get() -> Foo<'static> { unimplemented!() }
    }
}
