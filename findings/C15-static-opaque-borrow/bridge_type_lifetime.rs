#[diplomat::bridge]
mod ffi {
    use diplomat_runtime::DiplomatWrite;
    #[diplomat::opaque]
    pub struct Op(u8);
    #[diplomat::opaque]
    pub struct Bor<'a>(&'a u8);
    pub struct St<'a> { pub a: &'a Op }
    pub enum En { A, B }
    pub struct Pl { pub x: u8 }
    impl Op { pub fn f(&self) -> Box<Bor<'static>> { todo!() } }
}
