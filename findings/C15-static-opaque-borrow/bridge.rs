#[diplomat::bridge]
mod ffi {
    #[diplomat::opaque]
    pub struct Op(u8);
    impl Op {
        pub fn get() -> &'static Op { unimplemented!() }
    }
}
