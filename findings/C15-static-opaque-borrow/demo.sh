#!/bin/sh
# usage: demo.sh <diplomat-tool binary>
B=$1; D=$(dirname "$0"); T=$(mktemp -d)
for b in bridge bridge_field bridge_struct bridge_type_lifetime; do
for be in dart js demo_gen kotlin c cpp nanobind; do
mkdir -p "$T/$b/$be"; "$B" $be "$T/$b/$be" --entry "$D/$b.rs" --config-file /nonexistent.toml --config lib_name=x --config kotlin.domain=d >"$T/log" 2>&1
echo "$b $be exit=$? $(grep -A1 panicked "$T/log" | tr '\n' ' ' | cut -c1-220)"
done; done
rm -rf "$T"
