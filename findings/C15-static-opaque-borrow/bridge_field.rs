#[diplomat::bridge]
mod ffi {
    #[diplomat::opaque]
    pub struct Op(u8);
    pub struct Foo<'a> {
        pub b: &'static Op,
        pub a: &'a Op,
    }
    impl<'a> Foo<'a> {
        pub fn get(self) -> &'a Op { self.a }
    }
}
