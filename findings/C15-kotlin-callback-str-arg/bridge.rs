#[diplomat::bridge]
mod ffi {
    #[diplomat::opaque]
    pub struct Opq(pub u8);
    impl Opq {
        pub fn each_name(f: impl Fn(&str)) {
            f("x")
        }
    }
}
