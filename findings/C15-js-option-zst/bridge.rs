#[diplomat::bridge]
mod ffi {
    use diplomat_runtime::DiplomatOption;
    pub struct Zs;
    #[diplomat::out]
    pub struct S { pub a: u8, pub x: DiplomatOption<Zs> }
    #[diplomat::opaque] pub struct Op(u8);
    impl Op {
        pub fn h() -> S { unimplemented!() }
    }
}
