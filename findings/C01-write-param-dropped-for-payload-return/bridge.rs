#[diplomat::bridge]
mod ffi {
    use diplomat_runtime::DiplomatWrite;
    #[diplomat::opaque]
    pub struct Op(u8);
    impl Op {
        pub fn w(&self, w: &mut DiplomatWrite) -> u8 { 0 }
        pub fn r(&self, w: &mut DiplomatWrite) -> Result<u8, ()> { Ok(0) }
        pub fn ok(&self, w: &mut DiplomatWrite) -> Result<(), u8> { Ok(()) }
    }
}
