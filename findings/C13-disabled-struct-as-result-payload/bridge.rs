#[diplomat::bridge]
mod ffi {
    // disabled for the backend under test (replace `c` by `js` for the JS half)
    #[diplomat::attr(c, disable)]
    pub struct Hidden { pub code: u32 }
    #[diplomat::opaque] pub struct User(u8);
    impl User {
        pub fn try_it(&self) -> Result<(), Hidden> { Err(Hidden { code: 1 }) }
    }
}
