#[diplomat::bridge]
mod ffi {
    #[diplomat::attr(kotlin, disable)]
    pub struct Hidden { pub code: u32 }
    #[diplomat::attr(kotlin, disable)]
    pub enum HiddenE { A, B }
    #[diplomat::opaque] pub struct User(u8);
    impl User {
        pub fn takes(&self, h: Hidden) {}
        pub fn gives(&self) -> HiddenE { HiddenE::A }
    }
}
