#![cfg(feature = "hir")]
use diplomat_core::hir::{BasicAttributeValidator, TypeContext};

const SRC: &str = r#"
    #[diplomat::bridge]
    mod ffi {
        #[diplomat::opaque]
        pub struct Bar(u8);
        #[diplomat::opaque]
        pub struct Foo<'x, 'y: 'x>(&'x Bar, &'y Bar);
        impl<'a, 'b> Foo<'a, 'b> {
            // compiles: rustc assumes the implied bound 'b: 'a from the impl header's self type
            pub fn pick(&self, other: &'b Bar) -> &'a Bar { other }
        }
    }
"#;

#[test]
fn returned_value_borrows_from_other() {
    let file: syn::File = syn::parse_str(SRC).expect("parse");
    let v = BasicAttributeValidator::new("demo");
    let tcx = match TypeContext::from_syn(&file, Default::default(), v) {
        Ok(t) => t,
        Err(e) => { for (cx, err) in &e { eprintln!("Lowering error: {cx}: {err}"); } assert!(e.iter().any(|(_, err)| err.to_string().contains("should explicitly include this lifetime bound from param self")), "rejected for another reason"); return; // rejected: the user has to restate the bound, after which the edge exists
        }
    };
    let (_, def) = tcx.all_types().find(|(_, d)| d.name().as_str() == "Foo").unwrap();
    let m = def.methods().iter().find(|m| m.name.as_str() == "pick").unwrap();
    let mut vis = m.borrowing_param_visitor(&tcx, false);
    if let Some(s) = &m.param_self { vis.visit_param(&s.ty.clone().into(), "self"); }
    for p in &m.params { vis.visit_param(&p.ty, p.name.as_str()); }
    let map = vis.borrow_map();
    let mut names: Vec<String> = map.into_iter().flat_map(|(_, i)| i.incoming_edges.into_iter().map(|e| e.param_name)).collect();
    names.sort();
    eprintln!("edges: {names:?}");
    assert!(names.contains(&"other".to_string()), "the return value is `other`: it must be kept alive; edges = {names:?}");
}
