// rustc accepts the bridge (implied bound from the impl header)
#[diplomat::bridge]
mod ffi {
    #[diplomat::opaque]
    pub struct C04Bar(pub u8);
    #[diplomat::opaque]
    pub struct C04Foo<'x, 'y: 'x>(pub &'x C04Bar, pub &'y C04Bar);
    impl<'a, 'b> C04Foo<'a, 'b> {
        pub fn pick(&self, other: &'b C04Bar) -> &'a C04Bar { other }
    }
}
#[test]
fn compiles() {}
