use std::path::Path;
const SRC: &str = r#"
#[diplomat::bridge]
mod ffi {
    #[diplomat::opaque]
    pub struct C15Probe(u8);
    impl C15Probe {
        pub fn checked(x: u8) -> Result<u8, i32> { unimplemented!() }
    }
}
"#;
fn gen(backend: &str) {
    let root = Path::new(env!("CARGO_TARGET_TMPDIR")).join(format!("c15_prim_err_{backend}"));
    let src = root.join("src");
    std::fs::create_dir_all(&src).unwrap();
    let entry = src.join("lib.rs");
    std::fs::write(&entry, SRC).unwrap();
    let out = root.join(backend);
    let _ = std::fs::remove_dir_all(&out);
    std::fs::create_dir_all(&out).unwrap();
    diplomat_tool::gen(&entry, backend, &out, &diplomat_tool::DocsUrlGenerator::default(), diplomat_tool::config::Config::default(), true).unwrap();
}
#[test] fn c() { gen("c") }
#[test] fn cpp() { gen("cpp") }
#[test] fn js() { gen("js") }
#[test] fn dart() { gen("dart") }
#[test] fn nanobind() { gen("nanobind") }
#[test] fn demo_gen() { gen("demo_gen") }
