#!/bin/sh
# usage: node_replay.sh <diplomat-tool binary>
# Generates the JS bindings for bridge.rs and calls Op.sum([0x41, 0x1F600, 0x10FFFF]) under node against a stub wasm module whose `Op_sum(ptr, len)`
# does what the Rust callee does: read `len` u32 elements at `ptr` (a DiplomatChar is a u32) and add them up.
B=$1; D=$(cd "$(dirname "$0")" && pwd); T=$(mktemp -d)
"$B" js "$T" --entry "$D/bridge.rs" --config-file /nonexistent.toml >/dev/null 2>&1 || { echo "generation failed"; exit 2; }
cat > "$T/diplomat-wasm.mjs" <<'EOF'
const memory = new WebAssembly.Memory({ initial: 1 });
let next = 64;
const allocs = [];
const wasm = {
  memory,
  diplomat_alloc(size, align) { next = Math.ceil(next / Math.max(align, 1)) * Math.max(align, 1); const p = next; next += Math.max(size, 1); allocs.push({p, size, align}); return p; },
  diplomat_free(p, size, align) {},
  Op_destroy(p) {},
  Op_sum(ptr, len) { const dv = new DataView(memory.buffer); let s = 0; for (let i = 0; i < len; i++) s += dv.getUint32(ptr + 4 * i, true); return s >>> 0; },
};
export default wasm;
export { allocs };
EOF
cat > "$T/run.mjs" <<'EOF'
import { Op } from "./Op.mjs";
import { allocs } from "./diplomat-wasm.mjs";
const chars = [0x41, 0x1F600, 0x10FFFF];
const got = Op.sum(chars);
const want = chars.reduce((a, b) => a + b, 0);
console.log(`Op.sum([0x41, 0x1F600, 0x10FFFF]) = ${got} (Rust would compute ${want}); slice allocation: ${JSON.stringify(allocs[0])} for 3 chars = 12 bytes`);
EOF
node "$T/run.mjs"
rm -rf "$T"
