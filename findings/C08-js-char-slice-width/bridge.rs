#[diplomat::bridge]
mod ffi {
    use diplomat_runtime::DiplomatChar;
    #[diplomat::opaque] pub struct Op(Vec<DiplomatChar>);
    impl Op {
        pub fn sum(x: &[DiplomatChar]) -> u32 { x.iter().sum() }
        pub fn chars<'a>(&'a self) -> &'a [DiplomatChar] { &self.0 }
        pub fn units(x: &[u16]) -> u32 { x.len() as u32 }
    }
}
