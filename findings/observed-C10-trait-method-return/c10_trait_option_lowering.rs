#![cfg(feature = "hir")]
use diplomat_core::hir::{BasicAttributeValidator, TypeContext};
#[test]
fn lowering_verdict() {
    let file: syn::File = syn::parse_str(r#"
    #[diplomat::bridge]
    mod ffi {
        pub trait C10Probe { fn probe(&self, x: u8) -> Option<u8>; }
        pub struct C10TraitUser { pub unused: bool }
        impl C10TraitUser { pub fn call(t: impl C10Probe, x: u8) -> u8 { 0 } }
    }"#).unwrap();
    let mut v = BasicAttributeValidator::new("demo");
    v.support.option = true; v.support.traits = true;
    match TypeContext::from_syn(&file, Default::default(), v) {
        Ok(_) => println!("ACCEPTED"),
        Err(e) => { for (cx, err) in e { println!("Lowering error: {cx}: {err}"); } }
    }
}
