use core::ffi::c_void;
#[diplomat::bridge]
mod ffi {
    pub trait C10Probe {
        fn probe(&self, x: u8) -> Option<u8>;
    }
    pub struct C10TraitUser { pub unused: bool }
    impl C10TraitUser {
        pub fn call(t: impl C10Probe, x: u8) -> u8 {
            match t.probe(x) { Some(v) => v, None => 255 }
        }
    }
}
// the foreign side, with the layouts the (Kotlin/JNA) bindings use: a trait method returning Option<u8> answers OptionU8 {ok, is_ok}
#[repr(C)] #[derive(Clone, Copy)] struct OptionU8 { ok: u8, is_ok: bool }
unsafe extern "C" fn run_probe(_data: *const c_void, x: u8) -> OptionU8 { OptionU8 { ok: x.wrapping_add(5), is_ok: true } }
#[repr(C)] struct CVTable { destructor: Option<unsafe extern "C" fn(*const c_void)>, size: usize, alignment: usize, run_probe_callback: unsafe extern "C" fn(*const c_void, u8) -> OptionU8 }
#[repr(C)] struct CTraitStruct { data: *const c_void, vtable: CVTable }
#[allow(clashing_extern_declarations, improper_ctypes)]
extern "C" { fn C10TraitUser_call(t: CTraitStruct, x: u8) -> u8; }
#[test]
fn trait_method_some_payload_arrives() {
    let t = CTraitStruct { data: core::ptr::null(), vtable: CVTable { destructor: None, size: 0, alignment: 1, run_probe_callback: run_probe } };
    let r = unsafe { C10TraitUser_call(t, 2) };
    assert_eq!(r, 7, "the foreign implementation answered Some(7)");
}
