#[diplomat::bridge]
mod ffi {
    #[diplomat::opaque]
    #[diplomat::attr(*, rename = "Same")]
    pub struct A(u8);
    #[diplomat::opaque]
    #[diplomat::attr(*, rename = "Same")]
    pub struct B(u8);
}
