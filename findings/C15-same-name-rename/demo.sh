#!/bin/sh
# usage: demo.sh <diplomat-tool binary>
B=$1; D=$(dirname "$0"); T=$(mktemp -d)
for be in cpp js dart nanobind demo_gen kotlin c; do
mkdir -p "$T/$be"; "$B" $be "$T/$be" --entry "$D/bridge.rs" --config-file /nonexistent.toml --config lib_name=x --config kotlin.domain=d >"$T/log" 2>&1
echo "$be exit=$? $(grep -A1 panicked "$T/log" | tr '\n' ' ' | cut -c1-220)"
done
rm -rf "$T"
