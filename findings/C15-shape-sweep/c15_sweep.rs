use std::path::Path;
use std::process::Command;
const PRE: &str = r#"
#[diplomat::bridge]
mod ffi {
    use diplomat_runtime::{DiplomatOption, DiplomatStr, DiplomatStr16, DiplomatWrite, DiplomatSlice, DiplomatStrSlice};
    #[diplomat::opaque] pub struct Op(u8);
    #[diplomat::opaque] pub struct Bor<'a>(&'a u8);
    pub enum En { A, B }
    pub struct St { pub a: u8, pub b: u32 }
    pub struct Zs;
    pub struct Sl<'a> { pub s: DiplomatStrSlice<'a>, pub x: DiplomatSlice<'a, u16> }
    pub struct Of { pub o: DiplomatOption<u8>, pub e: DiplomatOption<En>, pub s: DiplomatOption<St> }
    impl Op {
"#;
const POST: &str = "\n    }\n}\n";
const CASES: &[(&str, &str)] = &[
    ("opt_str_param", "pub fn f(x: Option<&str>) {}"),
    ("opt_str16_param", "pub fn f(x: Option<&DiplomatStr16>) {}"),
    ("opt_f64_slice_param", "pub fn f(x: Option<&[f64]>) {}"),
    ("mut_slice_param", "pub fn f(x: &mut [u8]) {}"),
    ("owned_slice_param", "pub fn f(x: Box<[u8]>) {}"),
    ("owned_str_param", "pub fn f(x: Box<str>) {}"),
    ("opt_struct_param", "pub fn f(x: Option<St>) {}"),
    ("opt_enum_param", "pub fn f(x: Option<En>) {}"),
    ("opt_prim_param", "pub fn f(x: Option<u16>) {}"),
    ("struct_with_options_param", "pub fn f(x: Of) {}"),
    ("struct_with_options_ret", "pub fn f() -> Of { unimplemented!() }"),
    ("slices_struct_param", "pub fn f<'a>(x: Sl<'a>) {}"),
    ("slices_struct_borrowed", "pub fn f<'a>(x: Sl<'a>) -> Box<Bor<'a>> { unimplemented!() }"),
    ("res_struct_enum", "pub fn f() -> Result<St, En> { unimplemented!() }"),
    ("res_unit_struct", "pub fn f() -> Result<(), St> { unimplemented!() }"),
    ("res_unit_prim", "pub fn f() -> Result<(), u8> { unimplemented!() }"),
    ("res_prim_unit", "pub fn f() -> Result<u8, ()> { unimplemented!() }"),
    ("res_box_unit", "pub fn f() -> Result<Box<Op>, ()> { unimplemented!() }"),
    ("res_zst_zst", "pub fn f() -> Result<Zs, Zs> { unimplemented!() }"),
    ("res_enum_prim", "pub fn f() -> Result<En, i64> { unimplemented!() }"),
    ("res_write_enum", "pub fn f(&self, w: &mut DiplomatWrite) -> Result<(), En> { unimplemented!() }"),
    ("res_write_prim", "pub fn f(&self, w: &mut DiplomatWrite) -> Result<(), u8> { unimplemented!() }"),
    ("opt_write", "pub fn f(&self, w: &mut DiplomatWrite) -> Option<()> { unimplemented!() }"),
    ("opt_struct_ret", "pub fn f() -> Option<St> { unimplemented!() }"),
    ("opt_enum_ret", "pub fn f() -> Option<En> { unimplemented!() }"),
    ("opt_prim_ret", "pub fn f() -> Option<u8> { unimplemented!() }"),
    ("opt_unit_ret", "pub fn f() -> Option<()> { unimplemented!() }"),
    ("opt_box_ret", "pub fn f() -> Option<Box<Op>> { unimplemented!() }"),
    ("opt_ref_param", "pub fn f(x: Option<&Op>) {}"),
    ("str_ret", "pub fn f<'a>(&'a self) -> &'a str { unimplemented!() }"),
    ("slice_ret", "pub fn f<'a>(&'a self) -> &'a [u16] { unimplemented!() }"),
    ("res_slice_unit", "pub fn f<'a>(&'a self) -> Result<&'a [u8], ()> { unimplemented!() }"),
    ("res_unit_slice", "pub fn f<'a>(&'a self) -> Result<(), &'a DiplomatStr> { unimplemented!() }"),
    ("opt_slice_ret", "pub fn f<'a>(&'a self) -> Option<&'a [u8]> { unimplemented!() }"),
    ("ordering_ret", "pub fn f(&self) -> core::cmp::Ordering { unimplemented!() }"),
    ("char_param", "pub fn f(x: DiplomatChar, b: bool, c: i64, d: f32) {}"),
    ("strs_param", "pub fn f(x: &[&str]) {}"),
    ("opt_opaque_borrowed_ret", "pub fn f<'a>(x: &'a Op) -> Option<&'a Op> { unimplemented!() }"),
    ("bor_two_params", "pub fn f<'a, 'b: 'a>(x: &'a Op, y: &'b [u8]) -> Box<Bor<'a>> { unimplemented!() }"),
    ("zst_self", "pub fn f(z: St, e: En) -> En { unimplemented!() }"),
];
#[test]
fn sweep() {
    let exe = env!("CARGO_BIN_EXE_diplomat-tool");
    let root = Path::new(env!("CARGO_TARGET_TMPDIR")).join("c15_sweep");
    let mut report = String::new();
    for (name, body) in CASES {
        let dir = root.join(name);
        std::fs::create_dir_all(dir.join("src")).unwrap();
        let entry = dir.join("src/lib.rs");
        std::fs::write(&entry, format!("{PRE}        {body}{POST}")).unwrap();
        for backend in ["c", "cpp", "js", "dart", "nanobind", "demo_gen"] {
            let out = dir.join(backend);
            let _ = std::fs::remove_dir_all(&out);
            std::fs::create_dir_all(&out).unwrap();
            let o = Command::new(exe).arg(backend).arg(&out).arg("--entry").arg(&entry).output().unwrap();
            let err = String::from_utf8_lossy(&o.stderr);
            let verdict = if err.contains("panicked at") {
                let l = err.lines().find(|l| l.contains("panicked at")).unwrap_or("").to_string();
                let m = err.lines().skip_while(|l| !l.contains("panicked at")).nth(1).unwrap_or("").to_string();
                format!("PANIC {l} :: {m}")
            } else if o.status.success() { "ok".to_string() } else {
                format!("rejected: {}", err.lines().find(|l| l.contains("error")).unwrap_or("").chars().take(110).collect::<String>())
            };
            if verdict != "ok" { report += &format!("{name:28} {backend:9} {verdict}\n"); }
        }
    }
    println!("{report}");
}
