use std::path::Path;
use std::process::Command;
const PRE: &str = r#"
#[diplomat::bridge]
mod ffi {
    use diplomat_runtime::{DiplomatOption, DiplomatStr, DiplomatStr16, DiplomatWrite, DiplomatSlice, DiplomatStrSlice};
    #[diplomat::opaque] pub struct Op(u8);
    #[diplomat::opaque] pub struct Bor<'a>(&'a u8);
    pub enum En { A, B }
    pub struct St { pub a: u8, pub b: u32 }
    pub struct Zs;
    pub struct Sl<'a> { pub s: DiplomatStrSlice<'a>, pub x: DiplomatSlice<'a, u16> }
    pub struct F1<'a> { pub o: DiplomatOption<DiplomatStrSlice<'a>> }
    pub struct F2<'a> { pub o: DiplomatOption<DiplomatSlice<'a, u32>> }
    pub struct Ne { pub a: St, pub b: u8, pub c: En }
    pub struct Of { pub o: DiplomatOption<u8>, pub e: DiplomatOption<En>, pub s: DiplomatOption<St> }
    impl Op {
"#;
const POST: &str = "\n    }\n}\n";
const CASES: &[(&str, &str)] = &[
    ("fld_opt_str", "pub fn f<'a>(x: F1<'a>) {}"),
    ("fld_opt_slice", "pub fn f<'a>(x: F2<'a>) {}"),
    ("ret_fld_opt_str", "pub fn f<'a>(&'a self) -> F1<'a> { unimplemented!() }"),
    ("ret_opt_struct_with_slice", "pub fn f<'a>(&'a self) -> Option<Sl<'a>> { unimplemented!() }"),
    ("res_struct_with_slice", "pub fn f<'a>(&'a self) -> Result<Sl<'a>, En> { unimplemented!() }"),
    ("opt_struct_with_slice_param", "pub fn f<'a>(x: Option<Sl<'a>>) {}"),
    ("opt_struct_with_slice_borrowed", "pub fn f<'a>(x: Option<Sl<'a>>) -> Box<Bor<'a>> { unimplemented!() }"),
    ("nested_struct", "pub fn f(x: Ne) -> Ne { x }"),
    ("opt_nested_struct_ret", "pub fn f() -> Option<Ne> { unimplemented!() }"),
    ("res_err_opaque", "pub fn f() -> Result<(), Box<Op>> { unimplemented!() }"),
    ("res_ok_ref", "pub fn f<'a>(&'a self) -> Result<&'a Op, En> { unimplemented!() }"),
    ("opt_mut_ref_param", "pub fn f(x: Option<&mut Op>) {}"),
    ("mut_self_write", "pub fn f(&mut self, w: &mut DiplomatWrite) {}"),
    ("enum_self", "pub fn g() {}"),
    ("owned_str16_param", "pub fn f(x: Box<DiplomatStr16>) {}"),
    ("mut_str_slice", "pub fn f(x: &mut [f32]) {}"),
    ("static_str_ret", "pub fn f() -> &'static DiplomatStr { unimplemented!() }"),
    ("static_slice_param", "pub fn f(x: &'static [u8]) {}"),
    ("res_zst_prim", "pub fn f() -> Result<Zs, ()> { unimplemented!() }"),
    ("opt_zst", "pub fn f() -> Option<Zs> { unimplemented!() }"),
    ("two_writes_invalid", "pub fn f(&self, x: u8, w: &mut DiplomatWrite) -> Result<(), ()> { unimplemented!() }"),
    ("self_struct_by_value", "pub fn g2() {}"),
];
#[test]
fn sweep() {
    let exe = env!("CARGO_BIN_EXE_diplomat-tool");
    let root = Path::new(env!("CARGO_TARGET_TMPDIR")).join("c15_sweep2");
    let mut report = String::new();
    for (name, body) in CASES {
        let dir = root.join(name);
        std::fs::create_dir_all(dir.join("src")).unwrap();
        let entry = dir.join("src/lib.rs");
        std::fs::write(&entry, format!("{PRE}        {body}{POST}")).unwrap();
        for backend in ["c", "cpp", "js", "dart", "nanobind", "demo_gen"] {
            let out = dir.join(backend);
            let _ = std::fs::remove_dir_all(&out);
            std::fs::create_dir_all(&out).unwrap();
            let o = Command::new(exe).arg(backend).arg(&out).arg("--entry").arg(&entry).output().unwrap();
            let err = String::from_utf8_lossy(&o.stderr);
            let verdict = if err.contains("panicked at") {
                let l = err.lines().find(|l| l.contains("panicked at")).unwrap_or("").to_string();
                let m = err.lines().skip_while(|l| !l.contains("panicked at")).nth(1).unwrap_or("").to_string();
                format!("PANIC {l} :: {m}")
            } else if o.status.success() { "ok".to_string() } else {
                format!("rejected: {}", err.lines().find(|l| l.contains("error")).unwrap_or("").chars().take(110).collect::<String>())
            };
            if verdict != "ok" { report += &format!("{name:28} {backend:9} {verdict}\n"); }
        }
    }
    println!("{report}");
}
