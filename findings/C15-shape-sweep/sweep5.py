#!/usr/bin/env python3
"""Replay aid (not a check): BORROWING shapes (what the return value borrows from) on every backend.  usage: sweep5.py <diplomat-tool>"""
import os, re, subprocess, sys, tempfile, collections, itertools
B = sys.argv[1]
PRE = '''#[diplomat::bridge]
mod ffi {
    use diplomat_runtime::{DiplomatOption, DiplomatStr, DiplomatStr16, DiplomatWrite, DiplomatSlice, DiplomatStrSlice};
    #[diplomat::opaque] pub struct Op(u8);
    #[diplomat::opaque] pub struct Bor<'a>(&'a u8);
    #[diplomat::opaque] pub struct Bor2<'a, 'b>(&'a u8, &'b u8);
    pub enum En { A, B }
    pub struct Sl<'a> { pub s: DiplomatStrSlice<'a>, pub x: DiplomatSlice<'a, u16> }
    pub struct Rf<'a> { pub r: &'a Op, pub n: u8 }
    pub struct Two<'a, 'b> { pub r: &'a Op, pub s: DiplomatStrSlice<'b> }
    #[diplomat::out] pub struct OutB<'a> { pub b: Box<Bor<'a>>, pub s: DiplomatStrSlice<'a> }
'''
PARAMS = [("ref", "x: &'a Op"), ("mutref", "x: &'a mut Op"), ("str", "x: &'a str"), ("str16", "x: &'a DiplomatStr16"), ("slice", "x: &'a [u8]"), ("mutslice", "x: &'a mut [f32]"),
          ("sl", "x: Sl<'a>"), ("rf", "x: Rf<'a>"), ("two", "x: Two<'a, 'a>"), ("optref", "x: Option<&'a Op>"), ("bor", "x: &'a Bor<'a>"), ("borb", "x: &Bor<'a>"),
          ("two_params", "x: &'a Op, y: &'a str"), ("unrelated", "x: &'a Op, y: &str, z: Rf"), ("strs", "x: &'a [DiplomatStrSlice<'a>]")]
RETS = [("box_bor", "Box<Bor<'a>>"), ("ref", "&'a Op"), ("str", "&'a str"), ("slice", "&'a [u8]"), ("sl", "Sl<'a>"), ("rf", "Rf<'a>"), ("outb", "OutB<'a>"),
        ("opt_ref", "Option<&'a Op>"), ("res_box", "Result<Box<Bor<'a>>, En>"), ("opt_sl", "Option<Sl<'a>>"), ("res_err_bor", "Result<(), Box<Bor<'a>>>"), ("opt_box", "Option<Box<Bor<'a>>>")]
HOSTS = [("Op", ""), ("Op", "&self, "), ("Op", "&'a self, "), ("Rf<'a>", "self, "), ("En", "self, ")]
BACKENDS = ["c", "cpp", "js", "dart", "kotlin", "nanobind", "demo_gen"]
crashes = collections.Counter(); examples = {}; runs = 0; rej = 0
for (pn, p), (rn, r), (h, sp) in itertools.product(PARAMS, RETS, HOSTS):
    if h != "Op" and pn not in ("ref", "str", "sl", "optref"): continue
    if sp.startswith("&self") and rn not in ("box_bor", "sl", "opt_ref"): continue
    il = "<'a>" if "'a" in h else ""
    fl = "" if il else "<'a>"
    src = PRE + f"    impl{il} {h} {{\n        pub fn f{fl}({sp}{p}) -> {r} {{ unimplemented!() }}\n    }}\n}}\n"
    with tempfile.TemporaryDirectory() as d:
        open(os.path.join(d, "lib.rs"), "w").write(src)
        for be in BACKENDS:
            out = os.path.join(d, "out_" + be); os.makedirs(out, exist_ok=True)
            q = subprocess.run([B, be, out, "--entry", os.path.join(d, "lib.rs"), "--config-file", "/nonexistent.toml", "--config", "lib_name=x", "--config", "kotlin.domain=d"], capture_output=True, text=True)
            runs += 1
            if q.returncode == 1: rej += 1
            if q.returncode not in (0, 1):
                ls = q.stderr.splitlines(); i = [k for k, l in enumerate(ls) if "panicked at" in l]
                where = re.sub(r"thread '.*' \(\d+\) ", "", ls[i[0]]) if i else "exit %d" % q.returncode
                msg = ls[i[0] + 1][:140] if i and i[0] + 1 < len(ls) else ""
                key = (be, where, msg); crashes[key] += 1; examples.setdefault(key, f"{h}::f({sp}{p}) -> {r}")
print(runs, "runs;", sum(crashes.values()), "crashes in", len(crashes), "classes;", rej, "rejected (exit 1)")
for k, v in crashes.most_common():
    print(f"{v:4d}  {k[0]:9s} {k[1]} :: {k[2]}   e.g. {examples[k]}")
