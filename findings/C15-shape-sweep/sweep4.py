#!/usr/bin/env python3
"""Replay aid (not a check): struct FIELD shapes, used as parameter / return / self, on every backend.  usage: sweep4.py <diplomat-tool>"""
import os, re, subprocess, sys, tempfile, collections
B = sys.argv[1]
PRE = '''#[diplomat::bridge]
mod ffi {
    use diplomat_runtime::{DiplomatOption, DiplomatStr, DiplomatStr16, DiplomatWrite, DiplomatSlice, DiplomatSliceMut, DiplomatStrSlice, DiplomatStr16Slice, DiplomatChar, DiplomatOwnedSlice};
    #[diplomat::opaque] pub struct Op(u8);
    pub enum En { A, B }
    pub struct Inner { pub a: u8, pub b: u32 }
'''
FIELDS = [("u8","u8"),("bool","bool"),("char","DiplomatChar"),("f32","f32"),("i64","i64"),("isize","isize"),("en","En"),("inner","Inner"),
          ("opt_u8","DiplomatOption<u8>"),("opt_en","DiplomatOption<En>"),("opt_inner","DiplomatOption<Inner>"),("opt_bool","DiplomatOption<bool>"),("opt_f64","DiplomatOption<f64>"),
          ("str","DiplomatStrSlice<'a>"),("str16","DiplomatStr16Slice<'a>"),("slice","DiplomatSlice<'a, u16>"),("slice_mut","DiplomatSliceMut<'a, f32>"),
          ("ref","&'a Op"),("opt_ref","Option<&'a Op>"),("opt_str","DiplomatOption<DiplomatStrSlice<'a>>"),("opt_slice","DiplomatOption<DiplomatSlice<'a, u8>>"),
          ("box","Box<Op>"),("opt_box","Option<Box<Op>>")]
USES = [("param", "pub fn f{lt}(x: S{lt}) {{ }}", False), ("ret", "pub fn f{lt}(o: &{lta} Op) -> S{lt} {{ unimplemented!() }}", True), ("self", "pub fn f(self) -> u8 {{ 0 }}", False),
        ("opt_ret", "pub fn f{lt}(o: &{lta} Op) -> Option<S{lt}> {{ unimplemented!() }}", True), ("res_ret", "pub fn f{lt}(o: &{lta} Op) -> Result<S{lt}, En> {{ unimplemented!() }}", True)]
BACKENDS = ["c", "cpp", "js", "dart", "kotlin", "nanobind", "demo_gen"]
crashes = collections.Counter(); examples = {}; runs = 0; rejected = collections.Counter()
for (fname, fty) in FIELDS:
    for pad in ("", "pub pad: u8, "):
        lt = "<'a>" if "'a" in fty else ""
        out_attr = "#[diplomat::out] " if ("Box" in fty) else ""
        for (uname, tmpl, _) in USES:
            if out_attr and uname in ("param", "self"): continue
            host = "S" + lt if uname == "self" else "Op"
            body = tmpl.format(lt=lt, lta="'a" if lt else "")
            ilt = lt if uname == "self" else ""
            src = PRE + f"    {out_attr}pub struct S{lt} {{ {pad}pub x: {fty} }}\n    impl{ilt} {host} {{\n        {body}\n    }}\n}}\n"
            with tempfile.TemporaryDirectory() as d:
                open(os.path.join(d, "lib.rs"), "w").write(src)
                for be in BACKENDS:
                    out = os.path.join(d, "out_" + be); os.makedirs(out, exist_ok=True)
                    r = subprocess.run([B, be, out, "--entry", os.path.join(d, "lib.rs"), "--config-file", "/nonexistent.toml", "--config", "lib_name=x", "--config", "kotlin.domain=d"], capture_output=True, text=True)
                    runs += 1
                    if r.returncode == 1: rejected[(be, fname)] += 1
                    if r.returncode not in (0, 1):
                        ls = r.stderr.splitlines(); i = [k for k, l in enumerate(ls) if "panicked at" in l]
                        where = re.sub(r"thread '.*' \(\d+\) ", "", ls[i[0]]) if i else "exit %d" % r.returncode
                        msg = ls[i[0] + 1][:140] if i and i[0] + 1 < len(ls) else ""
                        key = (be, where, msg); crashes[key] += 1; examples.setdefault(key, f"field {fname}{' +pad' if pad else ''} used as {uname}")
print(runs, "runs;", sum(crashes.values()), "crashes in", len(crashes), "classes;", sum(rejected.values()), "rejected (exit 1)")
for k, v in crashes.most_common():
    print(f"{v:4d}  {k[0]:9s} {k[1]} :: {k[2]}   e.g. {examples[k]}")
