#!/usr/bin/env python3
"""Replay aid (not a check): method shapes x host kinds (opaque / struct / enum, with and without self) x all backends incl. kotlin,
plus special-method attributes and traits, through a real diplomat-tool binary.  usage: sweep3.py <diplomat-tool>"""
import itertools, os, re, subprocess, sys, tempfile, collections
B = sys.argv[1]
PRE = '''#[diplomat::bridge]
mod ffi {
    use diplomat_runtime::{DiplomatOption, DiplomatStr, DiplomatStr16, DiplomatWrite, DiplomatSlice, DiplomatStrSlice, DiplomatChar};
    #[diplomat::opaque] pub struct Op(u8);
    #[diplomat::opaque] pub struct Bor<'a>(&'a u8);
    pub enum En { A, B }
    pub struct St { pub a: u8, pub b: u32 }
    pub struct Sl<'a> { pub s: DiplomatStrSlice<'a>, pub x: DiplomatSlice<'a, u16> }
    pub struct Of { pub o: DiplomatOption<u8>, pub e: DiplomatOption<En>, pub s: DiplomatOption<St> }
'''
SHAPES = [
 ("opt_str_param", "x: Option<&str>", ""), ("opt_slice_param", "x: Option<&[f64]>", ""), ("mut_slice", "x: &mut [u8]", ""), ("owned_slice", "x: Box<[u8]>", ""),
 ("owned_str", "x: Box<str>", ""), ("opt_struct", "x: Option<St>", ""), ("opt_enum", "x: Option<En>", ""), ("opt_prim", "x: Option<u16>", ""),
 ("of_param", "x: Of", ""), ("of_ret", "", "Of"), ("sl_param", "x: Sl", ""), ("res_st_en", "", "Result<St, En>"), ("res_unit_st", "", "Result<(), St>"),
 ("res_unit_prim", "", "Result<(), u8>"), ("res_prim_unit", "", "Result<u8, ()>"), ("res_box_unit", "", "Result<Box<Op>, ()>"), ("res_en_prim", "", "Result<En, i64>"),
 ("write", "w: &mut DiplomatWrite", ""), ("write_res", "w: &mut DiplomatWrite", "Result<(), En>"), ("write_opt", "w: &mut DiplomatWrite", "Option<()>"),
 ("opt_st_ret", "", "Option<St>"), ("opt_en_ret", "", "Option<En>"), ("opt_prim_ret", "", "Option<u8>"), ("opt_unit_ret", "", "Option<()>"), ("opt_box_ret", "", "Option<Box<Op>>"),
 ("opt_ref_param", "x: Option<&Op>", ""), ("ordering", "", "core::cmp::Ordering"), ("prims", "x: DiplomatChar, b: bool, c: i64, d: f32", ""),
 ("strs", "x: &[DiplomatStrSlice]", ""), ("cb_u8", "f: impl Fn(u8) -> u8", ""), ("cb_st", "f: impl Fn(St) -> En", ""), ("cb_unit", "f: impl Fn()", ""),
 ("cb_res", "f: impl Fn(u8) -> Result<u8, ()>", ""), ("cb_opt", "f: impl Fn() -> DiplomatOption<u8>", ""), ("isize", "x: isize, y: usize", "isize"), ("u128like", "x: u64, y: i8", "f64"),
 ("str16", "x: &DiplomatStr16", ""), ("bytes_str", "x: &DiplomatStr", ""), ("owned_str16", "x: Box<DiplomatStr16>", ""), ("res_err_box", "", "Result<(), Box<Op>>"),
 ("opt_mut_ref", "x: Option<&mut Op>", ""), ("nested_opt_res", "", "Result<Option<Box<Op>>, ()>"),
]
HOSTS = [("Op", "&self"), ("Op", "&mut self"), ("Op", ""), ("St", "self"), ("St", ""), ("En", "self"), ("En", "")]
BACKENDS = ["c", "cpp", "js", "dart", "kotlin", "nanobind", "demo_gen"]
SPECIAL = [("constructor", "", "Box<Op>"), ("named_constructor = \"x\"", "", "Box<Op>"), ("getter", "&self", "u8"), ("setter = \"v\"", "&mut self, v: u8", ""),
           ("stringifier", "&self, w: &mut DiplomatWrite", ""), ("comparison", "&self, o: &Op", "core::cmp::Ordering"), ("indexer", "&self, i: usize", "Option<u8>"),
           ("iterator", "&mut self", "Option<u8>"), ("getter", "", "u8"), ("constructor", "", "Result<Box<Op>, En>"), ("named_constructor = \"y\"", "", "Option<Box<Op>>"),
           ("constructor", "", "St"), ("stringifier", "self, w: &mut DiplomatWrite", ""), ("comparison", "self, o: St", "core::cmp::Ordering")]
crashes = collections.Counter(); examples = {}; runs = 0
OF_LINE = "    pub struct Of { pub o: DiplomatOption<u8>, pub e: DiplomatOption<En>, pub s: DiplomatOption<St> }\n"
rejected = collections.Counter()
def run(src, tag):
    global runs
    with tempfile.TemporaryDirectory() as d:
        open(os.path.join(d, "lib.rs"), "w").write(src)
        open(os.path.join(d, "lib_kt.rs"), "w").write(src.replace(OF_LINE, "") if " Of" not in src.replace(OF_LINE, "") else src)
        for be in BACKENDS:
            out = os.path.join(d, "out_" + be); os.makedirs(out, exist_ok=True)
            r = subprocess.run([B, be, out, "--entry", os.path.join(d, "lib_kt.rs" if be == "kotlin" else "lib.rs"), "--config-file", "/nonexistent.toml", "--config", "lib_name=x", "--config", "kotlin.domain=d",
                                "--config", "unsafe_references_in_callbacks=true"], capture_output=True, text=True)
            runs += 1
            if r.returncode == 1: rejected[be] += 1
            if r.returncode not in (0, 1):
                ls = r.stderr.splitlines(); i = [k for k, l in enumerate(ls) if "panicked at" in l]
                where = re.sub(r"thread '.*' \(\d+\) ", "", ls[i[0]]) if i else "exit %d" % r.returncode
                msg = ls[i[0] + 1][:140] if i and i[0] + 1 < len(ls) else ""
                key = (be, where, msg); crashes[key] += 1; examples.setdefault(key, tag)
def ret(r): return (" -> " + r) if r else ""
for (name, params, r) in SHAPES:
    for (host, selfp) in HOSTS:
        ps = ", ".join(x for x in (selfp, params) if x)
        lt = "<'a>" if re.search(r"\bSl\b", params) else ""
        ps = re.sub(r"\bSl\b", "Sl<'a>", ps)
        run(PRE + f"    impl {host} {{\n        pub fn f{lt}({ps}){ret(r)} {{ unimplemented!() }}\n    }}\n}}\n", f"{name} on {host}({selfp})")
for (attr, params, r) in SPECIAL:
    host = "St" if ("St" in (r + params) and "self" in params and "&" not in params.split(",")[0]) or r == "St" else "Op"
    run(PRE + f"    impl {host} {{\n        #[diplomat::attr(auto, {attr})]\n        pub fn f({params}){ret(r)} {{ unimplemented!() }}\n    }}\n}}\n", f"special {attr} {params} -> {r}")
# traits
for (params, r) in [("&self, x: u8", "u8"), ("&self", ""), ("&self, s: St", "En"), ("&mut self, x: &Op", ""), ("&self, x: &str", "")]:
    run(PRE + f"    pub trait Tr {{\n        fn t({params}){ret(r)};\n    }}\n    impl Op {{\n        pub fn use_tr(t: impl Tr) {{ }}\n    }}\n}}\n", f"trait ({params}) -> {r}")
print(runs, "runs;", sum(crashes.values()), "crashes in", len(crashes), "classes; rejected by lowering (exit 1) per backend:", dict(rejected))
for k, v in crashes.most_common():
    print(f"{v:4d}  {k[0]:9s} {k[1]} :: {k[2]}   e.g. {examples[k]}")
