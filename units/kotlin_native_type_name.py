"""V kotlin_native_type_name: tool/src/kotlin/mod.rs gen_native_type_name — the JNA type of a parameter in a native declaration.
Its last arm is `unreachable!("unknown AST/HIR variant")`, which `Type::DiplomatOption(..)` reaches.  Kotlin declares `option = false`,
so lowering rejects Option<struct/enum/primitive> for it, but not `Option<&str>` / `Option<&[T]>` parameters (the gate does not consult
the flag for slice payloads): known finding (same root as kotlin_field_default)."""
import re
from rsrc import Src, Piece, rule_panics, rule_format_msgs
from verus_engine import VerusFile, CANARY
from common import Undecided
import vhelp

NAME = "kotlin_native_type_name"
ENGINE = "verus"
PROPERTIES = {"C15": "Kotlin gen_native_type_name has no reachable unreachable! for the parameter types lowering lets through for the kotlin backend"}
F = "tool/src/kotlin/mod.rs"

PRELUDE = r"""
#[verifier::external_body] pub struct Rest { x: u8 }
#[verifier::external_body] pub struct PrimitiveType { x: u8 }
impl Clone for PrimitiveType { #[verifier::external_body] fn clone(&self) -> Self { unimplemented!() } }
impl Copy for PrimitiveType {}
#[verifier::external_body] pub struct Text { x: u8 }
impl From<&'static str> for Text { #[verifier::external_body] fn from(s: &'static str) -> Text { unimplemented!() } }
#[verifier::external_body] pub fn __msg() -> Text { unimplemented!() }
pub struct OpaquePath { pub optional: bool, pub rest: Rest }
impl OpaquePath { pub fn is_optional(&self) -> (r: bool) ensures r == self.optional { self.optional } }
pub struct StructPath { pub rest: Rest }
impl StructPath { #[verifier::external_body] pub fn id(&self) -> u32 { unimplemented!() } }
pub struct TraitPath { pub rest: Rest }
impl TraitPath { #[verifier::external_body] pub fn id(&self) -> u32 { unimplemented!() } }
pub enum Type { Primitive(PrimitiveType), Opaque(OpaquePath), Struct(StructPath), Enum(Rest), Slice(Rest), Callback(Rest), ImplTrait(TraitPath), DiplomatOption(Box<Type>) }
pub struct KotlinFormatter { pub x: u8 }
impl KotlinFormatter {
    #[verifier::external_body] pub fn fmt_primitive_as_ffi(&self, p: PrimitiveType) -> &'static str { unimplemented!() }
}
pub struct TyGenContext<'a> { pub formatter: &'a KotlinFormatter }
impl<'a> TyGenContext<'a> {
    #[verifier::external_body] pub fn gen_type_name(&self, ty: &Type, additional_name: Option<String>) -> Text { unimplemented!() }
}
// parameter types lowering lets through for a backend with option = false: no Option of struct / enum / primitive; Option of a slice IS let through
pub open spec fn kotlin_param_ok(t: Type) -> bool { match t { Type::DiplomatOption(inner) => *inner is Slice, _ => true } }
"""


def build(tier):
    vf = VerusFile(NAME)
    src = Src(F)
    vf.add(vhelp.HEADER)
    vf.add(PRELUDE)
    vf.add("impl<'a> TyGenContext<'a> {\n")
    p = Piece(src, src.item("impl TyGenContext<'_,'cx>::gen_native_type_name", "fn"))
    p.sub("E12", r"<P: TyPosition>", "", count=1, why="TyPosition marker erased")
    p.sub("E12", r"ty: &Type<P>", "ty: &Type", count=1, why="TyPosition marker erased")
    p.sub("E6", r"-> Cow<'cx, str>", "-> Text", count=1, why="generated text dropped (not judged here)")
    p.fn("E6", rule_format_msgs, why="generated text dropped")
    p.sub("E6", r"let (optional|op_id) = [^;]*;\n", "", count=None, why="only used in the dropped text")
    p.sub("E14", r"match \*ty \{", "match ty {", count=1, why="match on the reference (default binding modes)")
    p.sub("E14", r"\(ref (\w+)\)", r"(\1)", count=None, why="`ref x` under default binding modes")
    p.sub("E14", r"fmt_primitive_as_ffi\(prim\)", "fmt_primitive_as_ffi(*prim)", count=1, why="binding is a reference now")
    p.fn("E5", rule_panics, why="unreachable! arm becomes an obligation")
    p.contract("        requires kotlin_param_ok(*ty),")
    vf.add_piece(p, expected="gen_native_type_name")
    vf.add("}\n")
    vf.add(vhelp.FOOTER)
    return vf


ASSUMPTIONS = [
    "hir::Type re-declared with the variants inspected; generated text dropped",
    "precondition kotlin_param_ok: read from lower_type's Option arms and kotlin::attr_support (option = false)",
]
UNVERIFIED = {"C15": ["gen_type_name / gen_kt_to_native (the same missing arm)"]}
