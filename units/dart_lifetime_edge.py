"""V dart_lifetime_edge: tool/src/dart/mod.rs and tool/src/js/gen.rs display_lifetime_edge (two verbatim copies of the same function) — the Dart expression that keeps an edge of the borrow analysis alive on the
returned object: the parameter itself for an opaque, the arena that holds the converted memory (`<param>Arena`, allocated by alloc_name for a
borrowed slice: unit dart_alloc_name) for a slice, the struct's own `_fieldsForLifetime<LT>` list (null-aware for an optional struct) for a struct
lifetime slot — always of THAT edge's parameter.  Verbatim, tagged text (E6t); the `unreachable!` arm is dead."""
import re
from rsrc import Src, Piece, rule_panics
from verus_engine import VerusFile, CANARY
from common import Undecided
import vhelp

NAME = "dart_lifetime_edge"
ENGINE = "verus"
PROPERTIES = {"C04": "Dart, JS and Kotlin attach, for every edge the analysis reports, an expression that retains that edge's own parameter (object, arena or lifetime-relevant struct fields)",
              "C15": "display_lifetime_edge's unreachable! arm is dead"}
F = "tool/src/dart/mod.rs"

PRELUDE = r"""
#[derive(Copy, Clone, PartialEq, Eq, Structural)] pub struct Lifetime { pub n: usize }
#[verifier::external_body] pub struct LifetimeEnv { x: u8 }
#[verifier::external_body] pub struct LtName { x: u8 }
pub uninterp spec fn lt_name(env: &LifetimeEnv, lt: Lifetime) -> LtName;
impl LifetimeEnv { #[verifier::external_body] pub fn fmt_lifetime(&self, lt: Lifetime) -> (r: LtName) ensures r == lt_name(self, lt) { unimplemented!() } }
impl LtName { #[verifier::external_body] pub fn to_uppercase(&self) -> (r: LtName) ensures r == *self { unimplemented!() } } // case only: same lifetime
#[verifier::external_body] pub struct ParamName { x: u8 }
// E6t: the retained expression, by what it retains
pub enum Retained { Param(ParamName), Arena(ParamName), StructFields(ParamName, LtName, bool) }
impl Retained {
    pub fn param(n: &ParamName) -> (r: Retained) ensures r == Retained::Param(*n) { Retained::Param(*n) }
    pub fn arena(n: &ParamName) -> (r: Retained) ensures r == Retained::Arena(*n) { Retained::Arena(*n) }
    pub fn struct_fields(n: &ParamName, lt: LtName, optional: bool) -> (r: Retained) ensures r == Retained::StructFields(*n, lt, optional) { Retained::StructFields(*n, lt, optional) }
}
impl Clone for ParamName { #[verifier::external_body] fn clone(&self) -> (r: Self) ensures r == *self { unimplemented!() } }
impl Copy for ParamName {}
impl Clone for LtName { #[verifier::external_body] fn clone(&self) -> (r: Self) ensures r == *self { unimplemented!() } }
impl Copy for LtName {}
pub struct LifetimeEdge<'tcx> { pub param_name: ParamName, pub kind: LifetimeEdgeKind<'tcx> }
pub open spec fn expected<'a>(e: LifetimeEdge<'a>) -> Retained {
    match e.kind {
        LifetimeEdgeKind::OpaqueParam => Retained::Param(e.param_name),
        LifetimeEdgeKind::SliceParam => Retained::Arena(e.param_name),
        LifetimeEdgeKind::StructLifetime(env, lt, opt) => Retained::StructFields(e.param_name, lt_name(env, lt), opt),
    }
}
"""


def build(tier):
    vf = VerusFile(NAME)
    src = Src(F)
    bp = Src("core/src/hir/methods/borrowing_param.rs")
    vf.add(vhelp.HEADER)
    vhelp.typedef(vf, bp, "LifetimeEdgeKind", "enum", derive="#[derive(Copy, Clone)]")
    vf.add(PRELUDE)
    for (rel, holder, opt_tmpl, holder_why) in ((F, "Arena", r'\.\.\.\?\{param_name\}\?\._fieldsForLifetime\{lt\}', "`<param>Arena`"),
                                                 ("tool/src/js/gen.rs", "Slice", r'\.\.\.\(\{param_name\}\?\._fieldsForLifetime\{lt\} \|\| \[\]\)', "`<param>Slice` (the DiplomatBuf wrapper that owns the copied memory)")):
        s2 = Src(rel)
        backend = "dart" if rel == F else "js"
        vf.add(f"pub mod {backend} {{\nuse super::*;\n")
        p = Piece(s2, s2.item("display_lifetime_edge", "fn"))
        p.sub("E6t", r"-> \(r: Cow<'a, str>\)", "-> (r: Retained)", count=1, why="tagged expression")
        p.sub("E6t", r"param_name\.into\(\)", "Retained::param(param_name)", count="+", why="the parameter object itself")
        p.sub("E6t", r'format!\("\{param_name\}' + holder + r'"\)\.into\(\)', "Retained::arena(param_name)", count=None, why=holder_why)
        p.sub("E6t", r'format!\("' + opt_tmpl + r'"\)\.into\(\)', "Retained::struct_fields(param_name, lt, true)", count=1, why="null-aware spread of the struct's lifetime-relevant fields")
        p.sub("E6t", r'format!\("\.\.\.\{param_name\}\._fieldsForLifetime\{lt\}"\)\.into\(\)', "Retained::struct_fields(param_name, lt, false)", count=1, why="spread of the struct's lifetime-relevant fields")
        p.fn("E5", rule_panics, why="unreachable! arm becomes an obligation")
        p.contract(f"        ensures {CANARY} r == expected(*edge),", ret_name="r")
        vf.add_piece(p, expected="display_lifetime_edge")
        vf.add("}\n")
    # ---- Kotlin: KotlinFormatter::fmt_borrow
    kt = Src("tool/src/kotlin/formatter.rs")
    vf.add("""pub mod kotlin {
use super::*;
pub struct KotlinFormatter { pub x: u8 }
impl KotlinFormatter {
    #[verifier::external_body] pub fn fmt_param_name(&self, n: &ParamName) -> (r: ParamName) ensures r == *n { unimplemented!() } // keyword escaping only: same parameter
}
impl ParamName { pub fn to_string(&self) -> (r: ParamName) ensures r == *self { *self } }
// kotlin declares option = false: lowering rejects Option<struct> parameters for it, so no optional struct edge exists
pub open spec fn kotlin_edge_ok<'a>(e: LifetimeEdge<'a>) -> bool { match e.kind { LifetimeEdgeKind::StructLifetime(_, _, opt) => !opt, _ => true } }
impl KotlinFormatter {
""")
    p = Piece(kt, kt.item("impl KotlinFormatter<'tcx>::fmt_borrow", "fn"))
    p.sub("E6t", r"-> \(r: Cow<'a, str>\)", "-> (r: Retained)", count=1, why="tagged expression")
    p.sub("E14", r"let LifetimeEdge \{\s*param_name,\s*kind: ty,\s*\.\.\s*\} = edge;", "let param_name = &edge.param_name; let ty = edge.kind;", count=1, why="struct pattern on a reference written as two field reads (kind is Copy)")
    p.sub("E6t", r'format!\("listOf\(\{param_name\}\)"\)\.into\(\)', "Retained::param(&param_name)", count=1, why="`listOf(<param>)`: the parameter object")
    p.sub("E6t", r'format!\("listOf\(\{param_name\}Mem\)"\)\.into\(\)', "Retained::arena(&param_name)", count=1, why="`listOf(<param>Mem)`: the native memory holding the converted slice")
    p.sub("E6t", r'format!\("\{param_name\}\.\{lt\}Edges"\)\.into\(\)', "Retained::struct_fields(&param_name, lt, false)", count=1, why="`<param>.<lt>Edges`: the struct's edges for that lifetime")
    p.fn("E5", rule_panics, why="panic! arm becomes an obligation")
    p.fn("E5", __import__("rsrc").rule_asserts, why="assert! becomes an obligation (discharged from the precondition)")
    p.contract(f"        requires kotlin_edge_ok(*edge),\n        ensures {CANARY} r == expected(*edge),", ret_name="r")
    vf.add_piece(p, expected="fmt_borrow")
    vf.add("}\n}\n")
    vf.add(vhelp.FOOTER)
    return vf


CANARY_FUNCTIONS = ["display_lifetime_edge", "display_lifetime_edge", "fmt_borrow"]
ASSUMPTIONS = [
    "E6t: the generated Dart expression carried as what it retains (parameter / `<param>Arena` / `_fieldsForLifetime<LT>` of the parameter, null-aware or not); to_uppercase only changes the case of the lifetime's name",
    "LifetimeEdgeKind is the verbatim definition (exactly three variants at the pinned commit); which edges exist is units borrow_edges / hir_transitivity",
    "the templates print every edge of method_lifetimes_map through this function into the `<lt>Edges` lists (method.dart.jinja: read)",
]
UNVERIFIED = {"C04": ["method.dart.jinja (read)", "the `_fieldsForLifetime` getters of struct classes (iter_fields_with_lifetimes_from_set: iterator adapters)"], "C15": []}
