"""V js_result_buf: tool/src/js/converter.rs gen_c_to_js_for_return_type, the `Result<Type, Error>` / `Option<Type>` arm: the size and
alignment of the out-buffer the JS wrapper allocates for a DiplomatResult / DiplomatOption, from which the runtime reads the `is_ok`
flag at byte `size - 1`.  Oracle = repr(C) of `struct { union { ok, err }, is_ok: bool }`: the flag sits at
round_up(max(size_ok, size_err), max(align_ok, align_err)) and the struct is aligned to max(align_ok, align_err), where a unit / write
success and an absent error are zero-sized with alignment 1.  Statement range between `let (requires_buf, error_ret) = ..;` and `if requires_buf {` (E15): it must define `size` and `align`."""
import re
from rsrc import Src, Piece, rule_panics, match_close
from verus_engine import VerusFile, CANARY
from common import Undecided
import vhelp

NAME = "js_result_buf"
ENGINE = "verus"
PROPERTIES = {"C10": "JS reads the is_ok flag of a returned Result/Option at the offset where repr(C) DiplomatResult<T, E> has it, for every pair of payload layouts",
              "C08": "the JS receive buffer has the size and alignment of what the wasm callee writes: the struct's own layout for an infallible struct / slice return, the repr(C) alignment of the result struct for a Result/Option return",
              "C15": "the unreachable! arms of the statement range are dead for the return shapes that reach this arm; size arithmetic does not overflow"}
F = "tool/src/js/converter.rs"

PRELUDE = r"""
use vstd::std_specs::cmp::OrdSpec;
use core::alloc::Layout;
global size_of usize == 8;
pub assume_specification<T: core::cmp::Ord> [core::cmp::max] (a: T, b: T) -> (r: T)
    ensures r == (if a.cmp_spec(&b) == core::cmp::Ordering::Greater { a } else { b });
#[verifier::external_type_specification] #[verifier::external_body] pub struct ExLayout(core::alloc::Layout);
pub uninterp spec fn lsize(l: Layout) -> usize;
pub uninterp spec fn lalign(l: Layout) -> usize;
pub assume_specification [Layout::size] (l: &Layout) -> (r: usize) ensures r == lsize(*l);
pub assume_specification [Layout::align] (l: &Layout) -> (r: usize) ensures r == lalign(*l);
pub assume_specification [usize::next_multiple_of] (a: usize, b: usize) -> (r: usize)
    requires b > 0, a + b <= usize::MAX,
    ensures r == (if a % b == 0 { a } else { (a + (b - a % b)) as usize });   // std: `match self % rhs { 0 => self, r => self + (rhs - r) }`

#[verifier::external_body] pub struct OutType { x: u8 }
impl Clone for OutType { #[verifier::external_body] fn clone(&self) -> (r: Self) ensures r == *self { unimplemented!() } }
pub use OutType as Type;
#[verifier::external_body] pub struct TypeContext { x: u8 }
pub open spec fn pow2(a: usize) -> bool { a == 1 || a == 2 || a == 4 || a == 8 || a == 16 }
// layout of a type as the JS layout module computes it (unit layout_arith: == repr(C) on wasm32): power-of-two alignment, size a multiple of it
pub uninterp spec fn ty_size(t: OutType) -> usize;
pub uninterp spec fn ty_align(t: OutType) -> usize;
pub open spec fn ty_ok(t: OutType) -> bool { pow2(ty_align(t)) && ty_size(t) % ty_align(t) == 0 && ty_size(t) <= 0x1000_0000 }
pub mod crate_js_layout { use super::*;
    #[verifier::external_body] pub fn type_size_alignment(t: &OutType, tcx: &TypeContext) -> (r: Layout)
        ensures lsize(r) == ty_size(*t), lalign(r) == ty_align(*t) { unimplemented!() }
    // Layout::new::<usize_target>() (wasm32: 4, 4)
    #[verifier::external_body] pub fn unit_size_alignment() -> (r: Layout) ensures lsize(r) == 4, lalign(r) == 4 { unimplemented!() }
}
"""

SPEC = r"""
pub struct TyGenContext<'a> { pub tcx: &'a TypeContext }
// ---- oracle: repr(C) `struct DiplomatResult<T, E> { value: union { ok: T, err: E }, is_ok: bool }` (runtime/src/result.rs; the
// same shape for DiplomatOption<T> with no `err`).  A unit / write success and an absent error are zero-sized, alignment 1.
pub open spec fn ok_size(ok: SuccessType) -> int { match ok { SuccessType::OutType(o) => ty_size(o) as int, _ => 0 } }
pub open spec fn ok_align(ok: SuccessType) -> int { match ok { SuccessType::OutType(o) => ty_align(o) as int, _ => 1 } }
pub open spec fn err_of(r: ReturnType) -> Option<OutType> { match r { ReturnType::Fallible(_, e) => e, _ => None } }
pub open spec fn err_size(r: ReturnType) -> int { match err_of(r) { Some(e) => ty_size(e) as int, None => 0 } }
pub open spec fn err_align(r: ReturnType) -> int { match err_of(r) { Some(e) => ty_align(e) as int, None => 1 } }
pub open spec fn imax(a: int, b: int) -> int { if a >= b { a } else { b } }
pub open spec fn round_up(n: int, a: int) -> int { if n % a == 0 { n } else { n + (a - n % a) } }
pub open spec fn struct_align(ok: SuccessType, r: ReturnType) -> int { imax(ok_align(ok), err_align(r)) }
pub open spec fn flag_offset(ok: SuccessType, r: ReturnType) -> int { round_up(imax(ok_size(ok), err_size(r)), struct_align(ok, r)) }
// the return shapes that reach this arm: a Result / Option whose success is `ok`, not both halves empty (earlier arms)
pub open spec fn arm_ok(ok: SuccessType, r: ReturnType) -> bool {
    &&& match r { ReturnType::Fallible(s, _) => s == ok, ReturnType::Nullable(s) => s == ok, _ => false }
    &&& !((ok is Unit || ok is Write) && err_of(r) is None)
    &&& (match ok { SuccessType::OutType(o) => ty_ok(o), _ => true }) && (match err_of(r) { Some(e) => ty_ok(e), None => true })
}
"""


def build(tier):
    vf = VerusFile(NAME)
    src = Src(F)
    ms = Src("core/src/hir/methods.rs")
    vf.add(vhelp.HEADER)
    vf.add(PRELUDE)
    vhelp.typedef(vf, ms, "SuccessType", "enum")
    vhelp.typedef(vf, ms, "ReturnType", "enum")
    vf.add(SPEC)
    it = src.item("impl TyGenContext<'_,'tcx>::gen_c_to_js_for_return_type", "fn")
    body = src.slice(it["start"], it["end"])
    m1 = re.search(r"let \(requires_buf, error_ret\) = match return_type \{", body)
    if not m1:
        raise Undecided("anchor-lost", "gen_c_to_js_for_return_type: `let (requires_buf, error_ret) = match return_type {` not found")
    k = match_close(body, m1.end() - 1)
    if body[k + 1] != ";":
        raise Undecided("anchor-lost", "gen_c_to_js_for_return_type: end of the `let (requires_buf, error_ret)` statement not found")
    m2 = re.search(r"\n\s*if requires_buf \{", body[k + 2:])
    if not m2:
        raise Undecided("anchor-lost", "gen_c_to_js_for_return_type: `if requires_buf {` not found")
    a = it["start"] + k + 2
    b = it["start"] + k + 2 + m2.start()
    frag = {"path": it["path"] + "#Fallible|Nullable arm: stmts(after let (requires_buf, error_ret) .. before if requires_buf)", "kind": "stmt", "start": a, "after_attrs": a, "end": b, "loops": []}
    org = {"file": F, "item": frag["path"], "line": src.line_of(a), "end_line": src.line_of(b)}
    p = Piece(src, frag)
    p.sub("E12", r"crate::js::layout::", "crate_js_layout::", count=None, why="module path re-rooted")
    p.sub("E12", r"std::cmp::max", "core::cmp::max", count=None, why="std re-export of core::cmp::max")
    p.fn("E5", rule_panics, why="unreachable! arms become obligations")
    vf.add("impl<'a> TyGenContext<'a> {\n// E15: statement range of the Result/Option arm of gen_c_to_js_for_return_type as a function of the return type\n"
           "fn js_result_buffer(&self, ok: &SuccessType, return_type: &ReturnType) -> (r: (usize, usize))\n"
           "    requires arm_ok(*ok, *return_type),\n"
           f"    ensures {CANARY}\n"
           "        // the runtime reads the flag at byte `size - 1`\n"
           "        r.0 - 1 == flag_offset(*ok, *return_type),\n"
           "        // and the callee writes a struct with this alignment\n"
           "        r.1 == struct_align(*ok, *return_type),\n{\n", origin=org)
    vf.add(p.render(), origin=org, edits=p.log)
    vf.add("\n    (size, align)\n}\n}\n", origin=org)
    vf.functions.append({"path": frag["path"], "file": F, "line": src.line_of(a), "end_line": src.line_of(b), "engine": "verus", "mode": "verus (statement range)", "bound": "none"})
    vf.expected.append("js_result_buffer")
    # ---- the infallible struct / slice return: receive buffer == the type's own layout
    m3 = re.search(r"Type::Struct\(_\) \| Type::Slice\(_\) => \{\s*(let layout = [^;]*;\s*let size = [^;]*;\s*let align = [^;]*;)", body)
    if not m3:
        raise Undecided("anchor-lost", "gen_c_to_js_for_return_type: `Type::Struct(_) | Type::Slice(_) => { let layout ..; let size ..; let align ..;` not found")
    a = it["start"] + m3.start(1)
    b = it["start"] + m3.end(1)
    frag = {"path": it["path"] + "#Infallible(OutType) arm, Struct|Slice: stmts(let layout ..= let align)", "kind": "stmt", "start": a, "after_attrs": a, "end": b, "loops": []}
    org = {"file": F, "item": frag["path"], "line": src.line_of(a), "end_line": src.line_of(b)}
    p = Piece(src, frag)
    p.sub("E12", r"crate::js::layout::", "crate_js_layout::", count=None, why="module path re-rooted")
    vf.add("impl<'a> TyGenContext<'a> {\n// E15: the three statements that size the receive buffer of an infallible struct / slice return\n"
           "fn js_struct_receive_buffer(&self, o: &OutType) -> (r: (usize, usize))\n"
           f"    ensures {CANARY} r.0 == ty_size(*o), r.1 == ty_align(*o),\n{{\n        ", origin=org)
    vf.add(p.render(), origin=org, edits=p.log)
    vf.add("\n    (size, align)\n}\n}\n", origin=org)
    vf.functions.append({"path": frag["path"], "file": F, "line": src.line_of(a), "end_line": src.line_of(b), "engine": "verus", "mode": "verus (statement range)", "bound": "none"})
    vf.expected.append("js_struct_receive_buffer")
    vf.add(vhelp.FOOTER)
    return vf


CANARY_FUNCTIONS = ["js_result_buffer", "js_struct_receive_buffer"]
ASSUMPTIONS = [
    "type_size_alignment is abstract with the contract proved in units layout_arith / layout_prims (power-of-two alignment, size a multiple of it); unit_size_alignment() is Layout::new::<u32>() on the wasm32 target (4, 4)",
    "the runtime reads the flag at `size - 1` (runtime.mjs DiplomatReceiveBuf.resultFlag: read) and allocates with the given alignment",
    "DiplomatResult / DiplomatOption are repr(C) struct { union, bool } (runtime/src/result.rs; layouts checked by Kani in unit result_ownership)",
    "std contracts assumed: core::cmp::max, usize::next_multiple_of, Layout::{size, align}",
]
UNVERIFIED = {"C10": ["the wasm calling convention that decides whether a buffer is used at all (requires_buf)"], "C08": [], "C15": []}
