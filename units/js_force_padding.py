"""V js_force_padding: the JS backend's decision when a nested two-scalar struct must be passed with its padding slots
("padded direct", docs/wasm_abi_quirks.md).  Statement-fragment extraction (E15) from js::gen::generate_fields."""
import re
from rsrc import Src, Piece, match_close, rule_panics
from verus_engine import VerusFile, CANARY
from common import Undecided
import vhelp

NAME = "js_force_padding"
ENGINE = "verus"
PROPERTIES = {"C08": "number of explicit padding slots emitted after a field == the layout's padding_count (and caller-decided padding exactly for 2-scalar structs); flattened argument list has the padding slots the wasm C ABI prescribes: a 2-scalar struct nested in a struct with >= 3 scalars is padded, nested in a 2-scalar struct it follows the caller, otherwise not forced"}
GEN = "tool/src/js/gen.rs"
CONV = "tool/src/js/converter.rs"
LAYOUT = "tool/src/js/layout.rs"

SPEC = r"""
// ---- oracle from docs/wasm_abi_quirks.md ("padded direct"):
//  * aggregates transitively containing MORE THAN TWO scalars are passed "padded direct": all padding is passed, including
//    the padding inside a nested struct ("the contains-two-scalars rule is only applied at the top level");
//  * a two-scalar aggregate at top level is passed "direct" (no padding), so for a two-scalar struct inside a two-scalar
//    struct the enclosing context decides;
//  * fields with zero or one scalar have no internal padding; non-struct fields (slices) have none; structs with more than
//    two scalars pad themselves anyway; Memory (unions) is passed indirectly.
pub open spec fn spec_force(fsc: ScalarCount, ssc: ScalarCount, field_is_struct: bool) -> ForcePaddingStatus {
    if field_is_struct && fsc == ScalarCount::Scalars(2) && (ssc is Scalars) && ssc->Scalars_0 >= 3 { ForcePaddingStatus::Force }
    else if field_is_struct && fsc == ScalarCount::Scalars(2) && ssc == ScalarCount::Scalars(2) { ForcePaddingStatus::PassThrough }
    else { ForcePaddingStatus::NoForce }
}
"""


PAD_PRELUDE = r"""
// ---- E6t: generated JS text carried as a tagged abstract value: which template literal produced it + how many `0` slots
pub enum JsKind { Empty, MaybePadding, Explicit }
pub struct JsText { pub kind: JsKind, pub slots: usize, pub closed: bool }
impl JsText {
    pub fn empty() -> (r: JsText) ensures r == (JsText { kind: JsKind::Empty, slots: 0, closed: true }) { JsText { kind: JsKind::Empty, slots: 0, closed: true } }
    pub fn maybe_padding(n: usize) -> (r: JsText) ensures r == (JsText { kind: JsKind::MaybePadding, slots: n, closed: true }) { JsText { kind: JsKind::MaybePadding, slots: n, closed: true } }
    pub fn explicit_start() -> (r: JsText) ensures r == (JsText { kind: JsKind::Explicit, slots: 0, closed: false }) { JsText { kind: JsKind::Explicit, slots: 0, closed: false } }
    pub fn push_zero(&mut self) requires old(self).slots < usize::MAX, !old(self).closed
        ensures *final(self) == (JsText { slots: (old(self).slots + 1) as usize, ..*old(self) }) { self.slots = self.slots + 1; }
    pub fn push_last_zero(&mut self) requires old(self).slots < usize::MAX, !old(self).closed
        ensures *final(self) == (JsText { slots: (old(self).slots + 1) as usize, closed: true, ..*old(self) }) { self.slots = self.slots + 1; self.closed = true; }
}
// oracle (docs/wasm_abi_quirks.md + the layout): after a field that is followed by `padding` padding units
//  * nothing if padding == 0;
//  * in a two-scalar struct ("direct" unless the caller forces "padded direct"): the caller-decided form carrying `padding` slots,
//    and the struct reports that it needs the forcePadding argument;
//  * otherwise exactly `padding` literal zero slots, the list properly terminated.
pub open spec fn spec_padding_after(padding: usize, ssc: ScalarCount) -> JsText {
    if padding == 0 { JsText { kind: JsKind::Empty, slots: 0, closed: true } }
    else if ssc == ScalarCount::Scalars(2) { JsText { kind: JsKind::MaybePadding, slots: padding, closed: true } }
    else { JsText { kind: JsKind::Explicit, slots: padding, closed: true } }
}
"""


def build_padding_after(vf, gen, it):
    body = gen.slice(it["body_open"], it["body_close"])
    m = re.search(r"let maybe_padding_after = if ", body)
    if not m:
        raise Undecided("anchor-lost", "generate_fields: `let maybe_padding_after = if ..` not found")
    # statement span from the vx closure-internal text: find the terminating `;` of the if/else expression
    bo = body.index("{", m.end())
    bc = match_close(body, bo)
    rest = body[bc + 1:]
    m2 = re.match(r"\s*else\s*\{", rest)
    if not m2:
        raise Undecided("anchor-lost", "maybe_padding_after: else branch not found")
    eo = bc + 1 + m2.end() - 1
    ec = match_close(body, eo)
    semi = body.index(";", ec)
    a = it["body_open"] + m.start()
    b = it["body_open"] + semi + 1
    loops = [l for l in it.get("loops", []) if a <= l["start"] < b]
    frag = {"path": it["path"] + "#let maybe_padding_after", "kind": "stmt", "start": a, "after_attrs": a, "end": b, "loops": loops}
    p = Piece(gen, frag)
    p.expect_loops(1)
    p.loop_spec(0, """                        invariant
                            out.kind == JsKind::Explicit, padding > 0,
                            out.slots == i, out.closed == (i == padding),""")
    p.sub("E15", r"struct_field_info\.fields\[i\]\.padding_field_width", "pfw", count=1, why="free variable of the fragment -> parameter")
    p.sub("E15", r"struct_field_info\.scalar_count", "ssc", count=None, why="free variable of the fragment -> parameter")
    p.sub("E15", r"struct_field_info\.fields\[i\]\.scalar_count", "fsc", count=None, why="free variable of the fragment -> parameter")
    p.sub("E15", r"struct_def\.fields\.len\(\)", "nfields", count=None, why="free variable of the fragment -> parameter")
    p.sub("E15", r"needs_force_padding = true;", "*needs_force_padding = true;", count=None, why="captured mutable local -> &mut parameter")
    p.sub("E6t", r'format!\(", \.\.\.diplomatRuntime\.maybePaddingFields\(forcePadding, \{padding\}[^"]*"\)', "JsText::maybe_padding(padding)", count=1,
          why="template literal `maybePaddingFields(forcePadding, {padding} ..)` -> tagged abstract text carrying the slot count")
    p.sub("E6t", r'format!\(", /\* \[\{padding\} x \{padding_size_str\}\] padding \*/ "\)', "JsText::explicit_start()", count=1, why="start of the explicit padding list")
    p.sub("E6t", r'write!\(out, "0, "\)\.unwrap\(\);', "out.push_zero();", count=1, why="one literal zero slot")
    p.sub("E6t", r'write!\(out, "0 /\* end padding \*/"\)\.unwrap\(\);', "out.push_last_zero();", count=1, why="the last literal zero slot")
    p.sub("E6t", r'"".into\(\)', "JsText::empty()", count=1, why="empty text")
    p.fn("E5", rule_panics, why="unreachable! arm becomes an obligation")
    text = p.render()
    vf.add(PAD_PRELUDE)
    vf.add("// E15: statement fragment of generate_fields wrapped in a function of the values it reads\n"
           "// (parameters: every layout value in scope of the statement; the oracle reads only padding and the struct's scalar count)\n"
           "fn js_padding_after(padding: usize, pfw: usize, ssc: ScalarCount, fsc: ScalarCount, nfields: usize, i: usize, needs_force_padding: &mut bool) -> (r: JsText)\n"
           "    requires padding > 0 ==> (pfw == 1 || pfw == 2 || pfw == 4 || pfw == 8),   // alignment of a wasm32 scalar (layout_arith / layout_prims)\n"
           f"    ensures {CANARY} r == spec_padding_after(padding, ssc),\n"
           "        (padding > 0 && ssc == ScalarCount::Scalars(2)) ==> *final(needs_force_padding),\n"
           "        !(padding > 0 && ssc == ScalarCount::Scalars(2)) ==> *final(needs_force_padding) == *old(needs_force_padding),\n{\n            ",
           origin={"file": GEN, "item": frag["path"], "line": gen.line_of(a), "end_line": gen.line_of(b)})
    vf.add(text, origin={"file": GEN, "item": frag["path"], "line": gen.line_of(a), "end_line": gen.line_of(b)}, edits=p.log)
    vf.add("\n            maybe_padding_after\n}\n")
    vf.functions.append({"path": frag["path"], "file": GEN, "line": gen.line_of(a), "end_line": gen.line_of(b), "engine": "verus", "mode": "verus (statement fragment)", "bound": "none"})
    vf.expected.append("js_padding_after")


def build(tier):
    vf = VerusFile(NAME)
    gen = Src(GEN)
    conv = Src(CONV)
    lay = Src(LAYOUT)
    vf.add(vhelp.HEADER)
    vhelp.typedef(vf, lay, "ScalarCount", "enum", derive="#[derive(Copy, Clone, PartialEq, Eq, Structural)]")
    vhelp.typedef(vf, conv, "ForcePaddingStatus", "enum", derive="#[derive(Copy, Clone, PartialEq, Eq, Structural)]",
                  subs=[("E2", r"\n\s*#\[default\]", "")])
    vf.add(SPEC)
    it = gen.item("impl TyGenContext<'_,'tcx>::generate_fields", "fn")
    body = gen.slice(it["body_open"], it["body_close"])
    m = re.search(r"let force_padding = match \(", body)
    if not m:
        raise Undecided("anchor-lost", "generate_fields: `let force_padding = match (..)` not found")
    bo = body.index("{", m.end())
    # the scrutinee may contain parentheses only; the first `{` after it opens the match body
    bc = match_close(body, bo)
    semi = body.index(";", bc)
    a = it["body_open"] + m.start()
    b = it["body_open"] + semi + 1
    frag = {"path": it["path"] + "#let force_padding", "kind": "stmt", "start": a, "after_attrs": a, "end": b}
    p = Piece(gen, frag)
    p.sub("E15", r"struct_field_info\.fields\[i\]\.scalar_count", "fsc", count="+", why="free variable of the fragment -> parameter")
    p.sub("E15", r"struct_field_info\.scalar_count", "ssc", count="+", why="free variable of the fragment -> parameter")
    p.sub("E15", r"!matches!\(&field\.ty, &hir::Type::Struct\(_\)\)", "!field_is_struct", count=None, why="free variable of the fragment -> parameter")
    p.sub("E15", r"needs_force_padding = true;", "*needs_force_padding = true;", count=None, why="captured mutable local -> &mut parameter")
    text = p.render()
    vf.add("// E15: statement fragment of tool/src/js/gen.rs generate_fields (inside the per-field closure) wrapped in a function of the\n"
           "// values it reads: the field's scalar count, the struct's scalar count, whether the field is a struct\n"
           "fn js_force_padding(fsc: ScalarCount, ssc: ScalarCount, field_is_struct: bool, needs_force_padding: &mut bool) -> (r: ForcePaddingStatus)\n"
           f"    ensures {CANARY} r == spec_force(fsc, ssc, field_is_struct),\n"
           "        // the caller is told when a PassThrough decision was taken\n"
           "        (r is PassThrough) ==> *final(needs_force_padding),\n"
           "        !(r is PassThrough) ==> *final(needs_force_padding) == *old(needs_force_padding),\n{\n            ",
           origin={"file": GEN, "item": frag["path"], "line": gen.line_of(a), "end_line": gen.line_of(b)})
    vf.add(text, origin={"file": GEN, "item": frag["path"], "line": gen.line_of(a), "end_line": gen.line_of(b)}, edits=p.log)
    vf.add("\n            force_padding\n}\n")
    vf.functions.append({"path": frag["path"], "file": GEN, "line": gen.line_of(a), "end_line": gen.line_of(b), "engine": "verus", "mode": "verus (statement fragment)", "bound": "none"})
    vf.expected.append("js_force_padding")
    build_padding_after(vf, gen, it)
    vf.add(vhelp.FOOTER)
    return vf


CANARY_FUNCTIONS = ["js_force_padding", "js_padding_after"]
ASSUMPTIONS = [
    "E15: the `let force_padding = match (..) {..};` statement of generate_fields is verified in isolation; its free variables (field scalar count, struct scalar count, `field.ty is Struct`, the captured `needs_force_padding`) become parameters",
    "E6t: in `let maybe_padding_after = ..` the four text-producing expressions are replaced by tagged abstract constructors keyed on their template literal (maybePaddingFields(..{padding}..) / explicit list start / `0, ` / `0 /* end padding */` / empty); the rendered characters are dropped, the number of slots is kept",
    "padding_field_width in {1,2,4,8} whenever padding_count > 0 is a precondition (alignment of a wasm32 scalar)",
    "the oracle is written from docs/wasm_abi_quirks.md (legacy Rust wasm ABI)",
]
UNVERIFIED = {"C08": ["how the decision is rendered (converter.rs / struct.js.jinja)", "js.abi = spec path"]}
