"""V js_force_padding: the JS backend's decision when a nested two-scalar struct must be passed with its padding slots
("padded direct", docs/wasm_abi_quirks.md).  Statement-fragment extraction (E15) from js::gen::generate_fields."""
import re
from rsrc import Src, Piece, match_close
from verus_engine import VerusFile, CANARY
from common import Undecided
import vhelp

NAME = "js_force_padding"
ENGINE = "verus"
PROPERTIES = {"C08": "flattened argument list has the padding slots the wasm C ABI prescribes: a 2-scalar struct nested in a struct with >= 3 scalars is padded, nested in a 2-scalar struct it follows the caller, otherwise not forced"}
GEN = "tool/src/js/gen.rs"
CONV = "tool/src/js/converter.rs"
LAYOUT = "tool/src/js/layout.rs"

SPEC = r"""
// ---- oracle from docs/wasm_abi_quirks.md ("padded direct"):
//  * aggregates transitively containing MORE THAN TWO scalars are passed "padded direct": all padding is passed, including
//    the padding inside a nested struct ("the contains-two-scalars rule is only applied at the top level");
//  * a two-scalar aggregate at top level is passed "direct" (no padding), so for a two-scalar struct inside a two-scalar
//    struct the enclosing context decides;
//  * fields with zero or one scalar have no internal padding; non-struct fields (slices) have none; structs with more than
//    two scalars pad themselves anyway; Memory (unions) is passed indirectly.
pub open spec fn spec_force(fsc: ScalarCount, ssc: ScalarCount, field_is_struct: bool) -> ForcePaddingStatus {
    if field_is_struct && fsc == ScalarCount::Scalars(2) && (ssc is Scalars) && ssc->Scalars_0 >= 3 { ForcePaddingStatus::Force }
    else if field_is_struct && fsc == ScalarCount::Scalars(2) && ssc == ScalarCount::Scalars(2) { ForcePaddingStatus::PassThrough }
    else { ForcePaddingStatus::NoForce }
}
"""


def build(tier):
    vf = VerusFile(NAME)
    gen = Src(GEN)
    conv = Src(CONV)
    lay = Src(LAYOUT)
    vf.add(vhelp.HEADER)
    vhelp.typedef(vf, lay, "ScalarCount", "enum", derive="#[derive(Copy, Clone, PartialEq, Eq, Structural)]")
    vhelp.typedef(vf, conv, "ForcePaddingStatus", "enum", derive="#[derive(Copy, Clone, PartialEq, Eq, Structural)]",
                  subs=[("E2", r"\n\s*#\[default\]", "")])
    vf.add(SPEC)
    it = gen.item("impl TyGenContext<'_,'tcx>::generate_fields", "fn")
    body = gen.slice(it["body_open"], it["body_close"])
    m = re.search(r"let force_padding = match \(", body)
    if not m:
        raise Undecided("anchor-lost", "generate_fields: `let force_padding = match (..)` not found")
    bo = body.index("{", m.end())
    # the scrutinee may contain parentheses only; the first `{` after it opens the match body
    bc = match_close(body, bo)
    semi = body.index(";", bc)
    a = it["body_open"] + m.start()
    b = it["body_open"] + semi + 1
    frag = {"path": it["path"] + "#let force_padding", "kind": "stmt", "start": a, "after_attrs": a, "end": b}
    p = Piece(gen, frag)
    p.sub("E15", r"struct_field_info\.fields\[i\]\.scalar_count", "fsc", count="+", why="free variable of the fragment -> parameter")
    p.sub("E15", r"struct_field_info\.scalar_count", "ssc", count="+", why="free variable of the fragment -> parameter")
    p.sub("E15", r"!matches!\(&field\.ty, &hir::Type::Struct\(_\)\)", "!field_is_struct", count=None, why="free variable of the fragment -> parameter")
    p.sub("E15", r"needs_force_padding = true;", "*needs_force_padding = true;", count=None, why="captured mutable local -> &mut parameter")
    text = p.render()
    vf.add("// E15: statement fragment of tool/src/js/gen.rs generate_fields (inside the per-field closure) wrapped in a function of the\n"
           "// values it reads: the field's scalar count, the struct's scalar count, whether the field is a struct\n"
           "fn js_force_padding(fsc: ScalarCount, ssc: ScalarCount, field_is_struct: bool, needs_force_padding: &mut bool) -> (r: ForcePaddingStatus)\n"
           f"    ensures {CANARY} r == spec_force(fsc, ssc, field_is_struct),\n"
           "        // the caller is told when a PassThrough decision was taken\n"
           "        (r is PassThrough) ==> *final(needs_force_padding),\n"
           "        !(r is PassThrough) ==> *final(needs_force_padding) == *old(needs_force_padding),\n{\n            ")
    vf.add(text, origin={"file": GEN, "item": frag["path"], "line": gen.line_of(a), "end_line": gen.line_of(b)}, edits=p.log)
    vf.add("\n            force_padding\n}\n")
    vf.functions.append({"path": frag["path"], "file": GEN, "line": gen.line_of(a), "end_line": gen.line_of(b), "engine": "verus", "mode": "verus (statement fragment)", "bound": "none"})
    vf.expected.append("js_force_padding")
    vf.add(vhelp.FOOTER)
    return vf


CANARY_FUNCTIONS = ["js_force_padding"]
ASSUMPTIONS = [
    "E15: the `let force_padding = match (..) {..};` statement of generate_fields is verified in isolation; its free variables (field scalar count, struct scalar count, `field.ty is Struct`, the captured `needs_force_padding`) become parameters",
    "the oracle is written from docs/wasm_abi_quirks.md (legacy Rust wasm ABI)",
]
UNVERIFIED = {"C08": ["how the decision is rendered (converter.rs / struct.js.jinja)", "js.abi = spec path"]}
