"""V lowering_errors: hir::lowering::ErrorStore — every lowering/validation error is stored with the context (item, sub-item)
current at the time of the push; set_item starts a new item (and forgets the previous sub-item), set_subitem refines it."""
import re
from rsrc import Src, Piece
from verus_engine import VerusFile, CANARY
from common import Undecided
import vhelp

NAME = "lowering_errors"
ENGINE = "verus"
PROPERTIES = {"C05": "a rejection is reported against the item / method being lowered when it was found (context attribution of the error store)"}
F = "core/src/hir/lowering.rs"

PRELUDE = r"""
#[verifier::external_body] pub struct LoweringError { x: u8 }
// E6: &str -> String conversion with its meaning (same characters)
#[verifier::external_body] pub fn __string_of(s: &str) -> (r: String) ensures r@ == s@ { unimplemented!() }
"""
SPEC = r"""
pub open spec fn ctx_is(c: ErrorContext, item: &str, subitem: Option<&str>) -> bool {
    c.item@ == item@ && match subitem { Some(s) => c.subitem is Some && c.subitem->0@ == s@, None => c.subitem is None }
}
"""


def build(tier):
    vf = VerusFile(NAME)
    src = Src(F)
    vf.add(vhelp.HEADER)
    vf.add(PRELUDE)
    vhelp.typedef(vf, src, "ErrorContext", "struct", subs=[("E1", r"(?m)^(\s+)(item|subitem):", r"\1pub \2:")])
    vhelp.typedef(vf, src, "ErrorStore", "struct", subs=[("E1", r"(?m)^(\s+)(errors|item|subitem):", r"\1pub \2:")])
    t = src.item("ErrorAndContext", "type")
    vf.add(src.slice(t["after_attrs"], t["end"]).strip() + "\n", origin={"file": F, "item": "ErrorAndContext", "line": src.line_of(t["start"]), "end_line": src.line_of(t["end"])})
    vf.add(SPEC)
    vf.add("impl<'tree> ErrorStore<'tree> {\n")
    p = Piece(src, src.item("impl ErrorStore<'tree>::push", "fn"))
    p.sub("E6", r"self\.item\.into\(\)", "__string_of(self.item)", count=1, why="&str -> String")
    p.sub("E10", r"self\.subitem\.map\(\|s\| s\.into\(\)\)", "(match self.subitem { Some(s) => Some(__string_of(s)), None => None })", count=1, why="Option::map unfolded to its definition")
    p.contract(f"""        ensures {CANARY}
            final(self).errors@.len() == old(self).errors@.len() + 1,
            forall|k: int| 0 <= k < old(self).errors@.len() ==> final(self).errors@[k] == old(self).errors@[k],
            final(self).errors@[old(self).errors@.len() as int].1 == error,
            ctx_is(final(self).errors@[old(self).errors@.len() as int].0, old(self).item, old(self).subitem),
            final(self).item == old(self).item, final(self).subitem == old(self).subitem,""")
    vf.add_piece(p, expected="push")
    p = Piece(src, src.item("impl ErrorStore<'tree>::is_empty", "fn"))
    p.sub("E1", r"pub\(super\)", "pub", count=1)
    p.contract("        ensures r == (self.errors@.len() == 0),", ret_name="r")
    vf.add_piece(p, expected="is_empty")
    p = Piece(src, src.item("impl ErrorStore<'tree>::set_item", "fn"))
    p.sub("E1", r"pub\(super\)", "pub", count=1)
    p.contract(f"        ensures {CANARY} final(self).item == item, final(self).subitem is None, final(self).errors == old(self).errors,")
    vf.add_piece(p, expected="set_item")
    p = Piece(src, src.item("impl ErrorStore<'tree>::set_subitem", "fn"))
    p.sub("E1", r"pub\(super\)", "pub", count=1)
    p.contract(f"        ensures {CANARY} final(self).item == old(self).item, final(self).subitem == Some(subitem), final(self).errors == old(self).errors,")
    vf.add_piece(p, expected="set_subitem")
    vf.add("}\n")
    vf.add(vhelp.FOOTER)
    return vf


CANARY_FUNCTIONS = ["push", "set_item", "set_subitem"]
ASSUMPTIONS = ["LoweringError opaque; &str -> String conversions carried with their meaning (E6); Option::map unfolded (E10); take_errors (core::mem::take) not under contract"]
UNVERIFIED = {"C05": ["where lower_* call set_item / set_subitem (the drivers lower_all_* set them per item)"]}
