"""K supports_table: BasicAttributeValidator::{is_name_value,is_backend}: `supports = <feature>` and backend-name atoms."""
from kunit import define
F = "core/src/hir/attrs.rs"
E = [
    ("supports_names_select_their_flag", "for each of the 24 documented `supports = <name>` values and every combination of support flags: is_name_value(\"supports\", name) == Ok(flag named <name>)",
     [(F, "impl AttributeValidator for BasicAttributeValidator::is_name_value")], 2, ["C13"], "complete", "none (24 names x all flag values)"),
    ("unknown_supports_value_is_an_error", "an unknown supports value is a lowering error; other names are false without a backend predicate", [(F, "impl AttributeValidator for BasicAttributeValidator::is_name_value")], None, ["C13"], "bounded", "concrete probe strings"),
    ("backend_names_exact_symbolic", "is_backend(s) for every ASCII string s of length <= 4 (backend js, alias node): true iff s is exactly one of the two names (no prefix / extension matches)", [(F, "impl AttributeValidator for BasicAttributeValidator::is_backend")], 4, ["C13"], "bounded", "all ASCII strings of length <= 4; one backend name and one alias"),
    ("backend_names", "is_backend: primary name or one of other_backend_names, exact match", [(F, "impl AttributeValidator for BasicAttributeValidator::is_backend")], None, ["C13"], "bounded", "concrete probe strings (js / javascript / dart / j / empty)"),
]
define(globals(), "supports_table", "core", F, "verif_supports", "supports_table.rs",
       {"C13": "`supports = feature` and backend-name atoms of a condition mean what is documented"},
       E, lambda tier: {},
       ["alloc::fmt::format stubbed (error message text only)", "the documented meaning of `supports = X` is the BackendAttrSupport field named X (table written from the struct's field docs)",
        "unknown-value and backend-name harnesses use concrete probe strings (bounded)"],
       {"C13": ["backends' own is_name_value closures"]}, features="hir", kani_args=["-Z", "stubbing"])
