#[cfg(kani)]
mod verif_write_step {
    use super::*;
    use core::fmt::Write;
    const N: usize = @N@;

    extern "C" fn model_flush(_this: *mut DiplomatWrite) {}

    /// Foreign `grow` obeying the documented safety invariant: either returns false changing
    /// nothing, or installs a valid buffer of at least the requested capacity holding the old
    /// `len` bytes and returns true.
    extern "C" fn model_grow(this: *mut DiplomatWrite, req: usize) -> bool {
        unsafe {
            let w = &mut *this;
            if kani::any() {
                return false;
            }
            let slack: usize = kani::any();
            kani::assume(slack <= 2);
            let new_cap = req + slack;
            let mut v = Vec::<u8>::with_capacity(new_cap);
            let p = v.as_mut_ptr();
            core::mem::forget(v);
            let mut i = 0;
            while i < w.len {
                *p.add(i) = *w.buf.add(i);
                i += 1;
            }
            w.buf = p;
            w.cap = new_cap;
            true
        }
    }

    fn any_writer() -> DiplomatWrite {
        let cap: usize = kani::any();
        kani::assume(cap <= N);
        let len: usize = kani::any();
        kani::assume(len <= cap);
        let mut v = Vec::<u8>::with_capacity(cap);
        let p = v.as_mut_ptr();
        core::mem::forget(v);
        let init: [u8; N] = kani::any();
        let mut i = 0;
        while i < len {
            unsafe { *p.add(i) = init[i]; }
            i += 1;
        }
        DiplomatWrite {
            context: ptr::null_mut(),
            buf: p,
            len,
            cap,
            grow_failed: kani::any(),
            flush: model_flush,
            grow: model_grow,
        }
    }

    #[kani::proof]
    #[kani::unwind(@UNWIND@)]
    fn check_write_str() {
        let mut w = any_writer();
        let chunk: [u8; N] = kani::any();
        let slen: usize = kani::any();
        kani::assume(slen <= N);
        let s = unsafe { core::str::from_utf8_unchecked(&chunk[..slen]) };
        // snapshot
        let old_len = w.len;
        let old_cap = w.cap;
        let old_buf = w.buf;
        let old_failed = w.grow_failed;
        let mut old: [u8; N] = [0; N];
        let mut i = 0;
        while i < old_len {
            old[i] = unsafe { *w.buf.add(i) };
            i += 1;
        }
        let r = w.write_str(s);
        assert!(r.is_ok());
        assert!(w.len <= w.cap);
        if old_failed {
            assert!(w.grow_failed && w.len == old_len && w.cap == old_cap && w.buf == old_buf);
        } else if w.grow_failed {
            // growth was needed and failed: nothing written, no partial chunk
            assert!(old_len + slen > old_cap);
            assert!(w.len == old_len && w.cap == old_cap && w.buf == old_buf);
        } else {
            assert!(w.len == old_len + slen);
            assert!(w.cap >= w.len);
            if old_len + slen <= old_cap {
                assert!(w.buf == old_buf && w.cap == old_cap);
            }
            let mut j = 0;
            while j < slen {
                assert!(unsafe { *w.buf.add(old_len + j) } == chunk[j]);
                j += 1;
            }
        }
        // prefix preserved in every case
        let mut k = 0;
        while k < old_len {
            assert!(unsafe { *w.buf.add(k) } == old[k]);
            k += 1;
        }
        kani::cover!(!old_failed && w.grow_failed, "grow failed path reachable");
        kani::cover!(!old_failed && !w.grow_failed && old_len + slen > old_cap, "grow ok path reachable");
        kani::cover!(!old_failed && !w.grow_failed && slen > 0 && old_len + slen <= old_cap, "no grow path reachable");
    }
}
