#[cfg(kani)]
mod verif_result {
    //! Harness-checked contracts for every impl in runtime/src/result.rs.
    //! All functions under proof are loop-free and all inputs are full-domain symbolic, so each
    //! harness is a complete proof for the payload types instantiated here.
    extern crate alloc;
    use super::*;
    use alloc::boxed::Box;

    static mut DROPS: u32 = 0;
    static mut LAST: u8 = 0;
    static mut CLONES: u32 = 0;

    /// payload with observable drop glue
    struct Tok(u8);
    impl Drop for Tok {
        fn drop(&mut self) {
            unsafe {
                DROPS += 1;
                LAST = self.0;
            }
        }
    }
    impl Clone for Tok {
        fn clone(&self) -> Self {
            unsafe {
                CLONES += 1;
            }
            Tok(self.0)
        }
    }
    fn drops() -> u32 {
        unsafe { DROPS }
    }
    fn last() -> u8 {
        unsafe { LAST }
    }

    fn any_result_tok() -> (Result<Tok, Tok>, bool, u8) {
        let ok: bool = kani::any();
        let id: u8 = kani::any();
        (if ok { Ok(Tok(id)) } else { Err(Tok(id)) }, ok, id)
    }

    // ---- From<Result<T,E>> for DiplomatResult<T,E>: no drop, flag = arm, payload identical
    #[kani::proof]
    fn from_result_contract() {
        let (r, ok, id) = any_result_tok();
        let d: DiplomatResult<Tok, Tok> = r.into();
        assert!(drops() == 0);
        assert!(d.is_ok == ok);
        match d.as_ref() {
            Ok(t) => assert!(ok && t.0 == id),
            Err(e) => assert!(!ok && e.0 == id),
        }
        core::mem::forget(d);
        kani::cover!(ok);
        kani::cover!(!ok);
    }

    // ---- Drop for DiplomatResult: exactly the live arm, exactly once
    #[kani::proof]
    fn drop_contract() {
        let (r, ok, id) = any_result_tok();
        let d: DiplomatResult<Tok, Tok> = r.into();
        drop(d);
        assert!(drops() == 1);
        assert!(last() == id);
        kani::cover!(ok);
        kani::cover!(!ok);
    }

    // ---- From<DiplomatResult<T,E>> for Result<T,E>: conversion itself drops nothing, arm = flag,
    //      payload identical; dropping the result afterwards drops the payload exactly once.
    #[kani::proof]
    fn into_result_contract() {
        let (r, ok, id) = any_result_tok();
        let d: DiplomatResult<Tok, Tok> = r.into();
        let back: Result<Tok, Tok> = d.into();
        assert!(drops() == 0); // converting must not drop the payload
        match &back {
            Ok(t) => assert!(ok && t.0 == id),
            Err(e) => assert!(!ok && e.0 == id),
        }
        drop(back);
        assert!(drops() == 1);
        assert!(last() == id);
        kani::cover!(ok);
        kani::cover!(!ok);
    }

    // ---- same round trip with heap payloads: CBMC's double-free / use-after-free checks apply
    #[kani::proof]
    fn into_result_box_memsafe() {
        let ok: bool = kani::any();
        let v: u8 = kani::any();
        let w: u16 = kani::any();
        let r: Result<Box<u8>, Box<u16>> = if ok { Ok(Box::new(v)) } else { Err(Box::new(w)) };
        let d: DiplomatResult<Box<u8>, Box<u16>> = r.into();
        let back: Result<Box<u8>, Box<u16>> = d.into();
        match &back {
            Ok(b) => assert!(ok && **b == v),
            Err(e) => assert!(!ok && **e == w),
        }
        drop(back);
        kani::cover!(ok);
        kani::cover!(!ok);
    }

    #[kani::proof]
    fn drop_box_memsafe() {
        let ok: bool = kani::any();
        let v: u8 = kani::any();
        let w: u16 = kani::any();
        let r: Result<Box<u8>, Box<u16>> = if ok { Ok(Box::new(v)) } else { Err(Box::new(w)) };
        let d: DiplomatResult<Box<u8>, Box<u16>> = r.into();
        match d.as_ref() {
            Ok(b) => assert!(ok && **b == v),
            Err(e) => assert!(!ok && **e == w),
        }
        drop(d);
        kani::cover!(ok);
        kani::cover!(!ok);
    }

    // ---- Clone: original untouched, clone owns an independent payload
    #[kani::proof]
    fn clone_contract() {
        let (r, ok, id) = any_result_tok();
        let d: DiplomatResult<Tok, Tok> = r.into();
        let c = d.clone();
        assert!(drops() == 0);
        assert!(unsafe { CLONES } == 1);
        assert!(c.is_ok == ok && d.is_ok == ok);
        match (d.as_ref(), c.as_ref()) {
            (Ok(a), Ok(b)) => assert!(a.0 == id && b.0 == id && !core::ptr::eq(a, b)),
            (Err(a), Err(b)) => assert!(a.0 == id && b.0 == id && !core::ptr::eq(a, b)),
            _ => assert!(false),
        }
        drop(c);
        assert!(drops() == 1);
        drop(d);
        assert!(drops() == 2);
    }

    #[kani::proof]
    fn clone_box_memsafe() {
        let ok: bool = kani::any();
        let v: u8 = kani::any();
        let r: Result<Box<u8>, Box<u8>> = if ok { Ok(Box::new(v)) } else { Err(Box::new(v)) };
        let d: DiplomatResult<Box<u8>, Box<u8>> = r.into();
        let c = d.clone();
        drop(d);
        // the clone is still valid after the original is gone
        match c.as_ref() {
            Ok(b) => assert!(ok && **b == v),
            Err(b) => assert!(!ok && **b == v),
        }
        drop(c);
    }

    // ---- as_ref: borrows the live arm in place
    #[kani::proof]
    fn as_ref_contract() {
        let (r, ok, id) = any_result_tok();
        let d: DiplomatResult<Tok, Tok> = r.into();
        let base = &d as *const _ as usize;
        match d.as_ref() {
            Ok(t) => {
                assert!(ok && t.0 == id);
                assert!(t as *const Tok as usize == base);
            }
            Err(t) => {
                assert!(!ok && t.0 == id);
                assert!(t as *const Tok as usize == base);
            }
        }
        assert!(drops() == 0);
        core::mem::forget(d);
    }

    // ---- Option <-> DiplomatOption
    #[kani::proof]
    fn option_contract() {
        let some: bool = kani::any();
        let id: u8 = kani::any();
        let o: Option<Tok> = if some { Some(Tok(id)) } else { None };
        let d: DiplomatOption<Tok> = o.into();
        assert!(d.is_ok == some);
        assert!(drops() == 0);
        let back: Option<Tok> = d.into_option();
        assert!(drops() == 0);
        match &back {
            Some(t) => assert!(some && t.0 == id),
            None => assert!(!some),
        }
        drop(back);
        assert!(drops() == if some { 1 } else { 0 });
        kani::cover!(some);
        kani::cover!(!some);
    }

    struct Wrapped(Tok);
    impl From<Tok> for Wrapped {
        fn from(t: Tok) -> Self {
            Wrapped(t)
        }
    }

    #[kani::proof]
    fn into_converted_option_contract() {
        let some: bool = kani::any();
        let id: u8 = kani::any();
        let o: Option<Tok> = if some { Some(Tok(id)) } else { None };
        let d: DiplomatOption<Tok> = o.into();
        let back: Option<Wrapped> = d.into_converted_option();
        assert!(drops() == 0);
        match &back {
            Some(w) => assert!(some && (w.0).0 == id),
            None => assert!(!some),
        }
        drop(back);
        assert!(drops() == if some { 1 } else { 0 });
    }

    #[kani::proof]
    fn option_box_memsafe() {
        let some: bool = kani::any();
        let v: u32 = kani::any();
        let o: Option<Box<u32>> = if some { Some(Box::new(v)) } else { None };
        let d: DiplomatOption<Box<u32>> = o.into();
        let back: Option<Box<u32>> = d.into();
        match &back {
            Some(b) => assert!(some && **b == v),
            None => assert!(!some),
        }
        drop(back);
    }

    // ---- C10 wire encoding: {payload, is_ok}, is_ok true exactly for Ok/Some, unit arms occupy no payload,
    //      optional pointers use the null niche
    #[repr(C)]
    #[derive(Clone, Copy, PartialEq)]
    struct Pair {
        a: u8,
        b: u32,
    }

    fn wire_one<T: Copy + PartialEq, E: Copy + PartialEq>(t: T, e: E) {
        let ok: bool = kani::any();
        let r: Result<T, E> = if ok { Ok(t) } else { Err(e) };
        let d: DiplomatResult<T, E> = r.into();
        assert!(d.is_ok == ok);
        // layout: union at offset 0, flag right after the larger arm (rounded to its alignment)
        let base = &d as *const _ as usize;
        let flag = &d.is_ok as *const bool as usize;
        let msz = if core::mem::size_of::<T>() > core::mem::size_of::<E>() { core::mem::size_of::<T>() } else { core::mem::size_of::<E>() };
        let mal = if core::mem::align_of::<T>() > core::mem::align_of::<E>() { core::mem::align_of::<T>() } else { core::mem::align_of::<E>() };
        let usz = (msz + mal - 1) / mal * mal;
        assert!(flag - base == usz);
        assert!(core::mem::align_of::<DiplomatResult<T, E>>() == mal);
        assert!(core::mem::size_of::<DiplomatResult<T, E>>() == (usz + 1 + mal - 1) / mal * mal);
        let back: Result<T, E> = d.into();
        match back {
            Ok(x) => assert!(ok && x == t),
            Err(x) => assert!(!ok && x == e),
        }
    }

    #[kani::proof]
    fn wire_encoding_primitives() {
        wire_one::<u8, ()>(kani::any(), ());
        wire_one::<(), u8>((), kani::any());
        wire_one::<(), ()>((), ());
        wire_one::<u16, u8>(kani::any(), kani::any());
        wire_one::<u32, i64>(kani::any(), kani::any());
        wire_one::<u64, u8>(kani::any(), kani::any());
        wire_one::<i32, i32>(kani::any(), kani::any());
        wire_one::<bool, u32>(kani::any(), kani::any());
        wire_one::<usize, ()>(kani::any(), ());
        let p = Pair { a: kani::any(), b: kani::any() };
        wire_one::<Pair, ()>(p, ());
        wire_one::<u8, Pair>(kani::any(), p);
        // unit arms occupy no payload
        assert!(core::mem::size_of::<DiplomatResult<(), ()>>() == 1);
        assert!(core::mem::size_of::<DiplomatResult<u8, ()>>() == 2);
        assert!(core::mem::size_of::<DiplomatResult<(), u32>>() == 8);
    }

    #[kani::proof]
    fn wire_option_flag() {
        let some: bool = kani::any();
        let v: u32 = kani::any();
        let d: DiplomatOption<u32> = (if some { Some(v) } else { None }).into();
        assert!(d.is_ok == some);
        let back: Option<u32> = d.into();
        assert!(back == if some { Some(v) } else { None });
        let f: u64 = kani::any();
        let d2: DiplomatOption<u64> = (if some { Some(f) } else { None }).into();
        assert!(d2.is_ok == some);
        assert!(d2.into_option() == if some { Some(f) } else { None });
    }

    #[kani::proof]
    fn wire_pointer_niche() {
        let x: u32 = kani::any();
        let some: bool = kani::any();
        let o: Option<&u32> = if some { Some(&x) } else { None };
        let bits: usize = unsafe { core::mem::transmute(o) };
        assert!((bits == 0) == !some);
        assert!(core::mem::size_of::<Option<&u32>>() == core::mem::size_of::<usize>());
        assert!(core::mem::size_of::<Option<Box<u32>>>() == core::mem::size_of::<usize>());
        let ob: Option<Box<u32>> = if some { Some(Box::new(x)) } else { None };
        let bits2: usize = unsafe { core::mem::transmute_copy(&ob) };
        assert!((bits2 == 0) == !some);
        drop(ob);
    }

    // ---- asymmetric payloads: drop glue on only one arm (Result<(), Box<E>>, Result<Box<T>, ()> ...)
    trait Payload: Sized {
        const GLUE: u32;
        fn make(id: u8) -> Self;
        fn id(&self) -> u8;
    }
    impl Payload for Tok {
        const GLUE: u32 = 1;
        fn make(id: u8) -> Self { Tok(id) }
        fn id(&self) -> u8 { self.0 }
    }
    struct Plain(u8);
    impl Payload for Plain {
        const GLUE: u32 = 0;
        fn make(id: u8) -> Self { Plain(id) }
        fn id(&self) -> u8 { self.0 }
    }
    impl Payload for () {
        const GLUE: u32 = 0;
        fn make(_: u8) -> Self {}
        fn id(&self) -> u8 { 0 }
    }

    fn lifecycle<T: Payload, E: Payload>() {
        let ok: bool = kani::any();
        let id: u8 = kani::any();
        let path: u8 = kani::any();
        let expected = if ok { T::GLUE } else { E::GLUE };
        let r: Result<T, E> = if ok { Ok(T::make(id)) } else { Err(E::make(id)) };
        let d: DiplomatResult<T, E> = r.into();
        assert!(drops() == 0);
        assert!(d.is_ok == ok);
        if path == 0 {
            // dropped as a DiplomatResult: the live arm's payload is dropped exactly once (never leaked)
            drop(d);
            assert!(drops() == expected);
        } else {
            // converted back: nothing dropped by the conversion, payload identical, later dropped exactly once
            let back: Result<T, E> = d.into();
            assert!(drops() == 0);
            match &back {
                Ok(t) => assert!(ok && (T::GLUE == 0 && E::GLUE == 0 || t.id() == id || core::mem::size_of::<T>() == 0)),
                Err(e) => assert!(!ok && (e.id() == id || core::mem::size_of::<E>() == 0)),
            }
            drop(back);
            assert!(drops() == expected);
        }
        kani::cover!(ok && path == 0);
        kani::cover!(!ok && path == 0);
        kani::cover!(ok && path != 0);
        kani::cover!(!ok && path != 0);
    }

    #[kani::proof]
    fn lifecycle_plain_ok_glue_err() { lifecycle::<Plain, Tok>(); }
    #[kani::proof]
    fn lifecycle_glue_ok_plain_err() { lifecycle::<Tok, Plain>(); }
    #[kani::proof]
    fn lifecycle_unit_ok_glue_err() { lifecycle::<(), Tok>(); }
    #[kani::proof]
    fn lifecycle_glue_ok_unit_err() { lifecycle::<Tok, ()>(); }
    #[kani::proof]
    fn lifecycle_plain_plain() { lifecycle::<Plain, Plain>(); }
    #[kani::proof]
    fn lifecycle_glue_glue() { lifecycle::<Tok, Tok>(); }

    /// zero-sized payload WITH drop glue (a guard / token type): size_of == 0 says nothing about whether a value must be dropped
    struct ZTok;
    impl Drop for ZTok {
        fn drop(&mut self) {
            unsafe {
                DROPS += 1;
            }
        }
    }
    impl Payload for ZTok {
        const GLUE: u32 = 1;
        fn make(_: u8) -> Self { ZTok }
        fn id(&self) -> u8 { 0 }
    }
    #[kani::proof]
    fn lifecycle_unit_ok_zst_glue_err() { lifecycle::<(), ZTok>(); }
    #[kani::proof]
    fn lifecycle_zst_glue_ok_unit_err() { lifecycle::<ZTok, ()>(); }
    #[kani::proof]
    fn lifecycle_plain_ok_zst_glue_err() { lifecycle::<Plain, ZTok>(); }
}
