// ---- /verif shared harness helpers for the tool crate (cfg(kani) only, add-only)
#[cfg(kani)]
#[allow(dead_code)]
pub(crate) mod verif_common {
    use diplomat_core::hir::{FloatType, Int128Type, IntSizeType, IntType, PrimitiveType};

    /// std::hash::RandomState::new reads OS randomness (foreign function); the functions under proof never read the map.
    pub fn stub_random_state() -> std::hash::RandomState {
        unsafe { core::mem::transmute::<(u64, u64), std::hash::RandomState>((0u64, 0u64)) }
    }

    pub const N_PRIMS: u8 = 15;
    /// all primitives except the 128-bit integers (documented as unsupported by the C-family backends)
    pub fn prim_from(i: u8) -> PrimitiveType {
        match i {
            0 => PrimitiveType::Bool,
            1 => PrimitiveType::Char,
            2 => PrimitiveType::Byte,
            3 => PrimitiveType::Int(IntType::I8),
            4 => PrimitiveType::Int(IntType::I16),
            5 => PrimitiveType::Int(IntType::I32),
            6 => PrimitiveType::Int(IntType::I64),
            7 => PrimitiveType::Int(IntType::U8),
            8 => PrimitiveType::Int(IntType::U16),
            9 => PrimitiveType::Int(IntType::U32),
            10 => PrimitiveType::Int(IntType::U64),
            11 => PrimitiveType::IntSize(IntSizeType::Isize),
            12 => PrimitiveType::IntSize(IntSizeType::Usize),
            13 => PrimitiveType::Float(FloatType::F32),
            _ => PrimitiveType::Float(FloatType::F64),
        }
    }
    /// exhaustive (no wildcard): a new variant makes the harness fail to compile (=> undecided, never a silent gap)
    pub fn prim_index(p: PrimitiveType) -> u8 {
        match p {
            PrimitiveType::Bool => 0,
            PrimitiveType::Char => 1,
            PrimitiveType::Byte => 2,
            PrimitiveType::Int(IntType::I8) => 3,
            PrimitiveType::Int(IntType::I16) => 4,
            PrimitiveType::Int(IntType::I32) => 5,
            PrimitiveType::Int(IntType::I64) => 6,
            PrimitiveType::Int(IntType::U8) => 7,
            PrimitiveType::Int(IntType::U16) => 8,
            PrimitiveType::Int(IntType::U32) => 9,
            PrimitiveType::Int(IntType::U64) => 10,
            PrimitiveType::IntSize(IntSizeType::Isize) => 11,
            PrimitiveType::IntSize(IntSizeType::Usize) => 12,
            PrimitiveType::Float(FloatType::F32) => 13,
            PrimitiveType::Float(FloatType::F64) => 14,
            PrimitiveType::Int128(Int128Type::I128) => 15,
            PrimitiveType::Int128(Int128Type::U128) => 16,
        }
    }

    // ABI meaning = (width code, kind).  width: 8/16/32/64 bits, PTR = pointer width
    pub const PTR: u8 = 0;
    pub const K_BOOL: u8 = 1;
    pub const K_SIGNED: u8 = 2;
    pub const K_UNSIGNED: u8 = 3;
    pub const K_FLOAT: u8 = 4;
    pub const K_NONE: u8 = 255;

    /// Rust reference: ABI of each primitive as passed by the extern "C" layer
    /// (char is a 32-bit unsigned scalar value, DiplomatByte is u8)
    pub fn rust_abi(p: PrimitiveType) -> (u8, u8) {
        match p {
            PrimitiveType::Bool => (8, K_BOOL),
            PrimitiveType::Char => (32, K_UNSIGNED),
            PrimitiveType::Byte => (8, K_UNSIGNED),
            PrimitiveType::Int(IntType::I8) => (8, K_SIGNED),
            PrimitiveType::Int(IntType::I16) => (16, K_SIGNED),
            PrimitiveType::Int(IntType::I32) => (32, K_SIGNED),
            PrimitiveType::Int(IntType::I64) => (64, K_SIGNED),
            PrimitiveType::Int(IntType::U8) => (8, K_UNSIGNED),
            PrimitiveType::Int(IntType::U16) => (16, K_UNSIGNED),
            PrimitiveType::Int(IntType::U32) => (32, K_UNSIGNED),
            PrimitiveType::Int(IntType::U64) => (64, K_UNSIGNED),
            PrimitiveType::IntSize(IntSizeType::Isize) => (PTR, K_SIGNED),
            PrimitiveType::IntSize(IntSizeType::Usize) => (PTR, K_UNSIGNED),
            PrimitiveType::Float(FloatType::F32) => (32, K_FLOAT),
            PrimitiveType::Float(FloatType::F64) => (64, K_FLOAT),
            PrimitiveType::Int128(_) => (128, K_NONE),
        }
    }

    /// C11/C23 <stdint.h>, <stddef.h>, <uchar.h>, <stdbool.h>: meaning of a C type spelling
    pub fn c_meaning(s: &str) -> (u8, u8) {
        match s {
            "bool" => (8, K_BOOL),
            "char32_t" => (32, K_UNSIGNED),
            "int8_t" => (8, K_SIGNED),
            "uint8_t" => (8, K_UNSIGNED),
            "int16_t" => (16, K_SIGNED),
            "uint16_t" => (16, K_UNSIGNED),
            "int32_t" => (32, K_SIGNED),
            "uint32_t" => (32, K_UNSIGNED),
            "int64_t" => (64, K_SIGNED),
            "uint64_t" => (64, K_UNSIGNED),
            "intptr_t" => (PTR, K_SIGNED),
            "size_t" => (PTR, K_UNSIGNED),
            "uintptr_t" => (PTR, K_UNSIGNED),
            "float" => (32, K_FLOAT),
            "double" => (64, K_FLOAT),
            _ => (255, K_NONE),
        }
    }
}
