#[cfg(kani)]
mod verif_c_tables {
    use super::*;
    use crate::verif_common::*;
    use diplomat_core::hir::{Borrow, MaybeStatic, Mutability};

    /// (derived name, C type) pairs of the MAKE_SLICES_AND_OPTIONS lines, extracted from capi.h.jinja at check time
    const CAPI: &[(&str, &str)] = &[@CAPI@];

    /// meaning of a derived-type name component (DiplomatU16View, OptionU16, ...) per the capi.h naming scheme
    fn derived_meaning(s: &str) -> (u8, u8) {
        match s {
            "Bool" => (8, K_BOOL),
            "Char" => (32, K_UNSIGNED),
            "I8" => (8, K_SIGNED),
            "U8" => (8, K_UNSIGNED),
            "I16" => (16, K_SIGNED),
            "U16" => (16, K_UNSIGNED),
            "I32" => (32, K_SIGNED),
            "U32" => (32, K_UNSIGNED),
            "I64" => (64, K_SIGNED),
            "U64" => (64, K_UNSIGNED),
            "Isize" => (PTR, K_SIGNED),
            "Usize" => (PTR, K_UNSIGNED),
            "F32" => (32, K_FLOAT),
            "F64" => (64, K_FLOAT),
            _ => (255, K_NONE),
        }
    }

    #[kani::proof]
    #[kani::stub(std::hash::RandomState::new, stub_random_state)]
    #[kani::unwind(26)]
    fn c_primitive_spelling_matches_rust_abi() {
        let tcx = TypeContext::__verif_empty();
        let gen = DocsUrlGenerator::default();
        let f = CFormatter { tcx: &tcx, is_for_cpp: kani::any(), docs_url_gen: &gen };
        let i: u8 = kani::any();
        kani::assume(i < N_PRIMS);
        let p = prim_from(i);
        assert!(prim_index(p) == i);
        let c = f.fmt_primitive_as_c(p);
        assert!(c_meaning(&c) == rust_abi(p));
        let d = f.fmt_primitive_name_for_derived_type(p);
        assert!(derived_meaning(d) == rust_abi(p));
        // the (derived name, C type) pair is one the hand-written C mirror declares views/options for
        let mut found = false;
        let mut k = 0;
        while k < CAPI.len() {
            if CAPI[k].0 == d && CAPI[k].1 == &*c {
                found = true;
            }
            k += 1;
        }
        assert!(found);
        kani::cover!(i == 14);
        kani::cover!(i == 0);
    }

    #[kani::proof]
    #[kani::stub(std::hash::RandomState::new, stub_random_state)]
    fn c_str_view_names() {
        let tcx = TypeContext::__verif_empty();
        let gen = DocsUrlGenerator::default();
        let f = CFormatter { tcx: &tcx, is_for_cpp: false, docs_url_gen: &gen };
        // 16-bit code units use the 16 variants, 8-bit encodings the plain ones
        assert!(&*f.fmt_str_view_name(StringEncoding::UnvalidatedUtf16) == "DiplomatString16View");
        assert!(&*f.fmt_str_view_name(StringEncoding::UnvalidatedUtf8) == "DiplomatStringView");
        assert!(&*f.fmt_str_view_name(StringEncoding::Utf8) == "DiplomatStringView");
        assert!(&*f.fmt_strs_view_name(StringEncoding::UnvalidatedUtf16) == "DiplomatStrings16View");
        assert!(&*f.fmt_strs_view_name(StringEncoding::UnvalidatedUtf8) == "DiplomatStringsView");
        assert!(&*f.fmt_write_name() == "DiplomatWrite");
    }
}
