#[cfg(kani)]
mod verif_linked {
    //! LinkedLifetimes: use-site lifetime #i of a struct/opaque path is paired with def-site lifetime #i — for every i,
    //! whatever the use-site lifetime is ('static included).  BorrowingParamVisitor / the field visitors walk these pairs
    //! to translate a field's def lifetime into the method lifetime that borrows.
    use super::*;
    const N: usize = @N@;

    fn mk(n: usize) -> (Lifetimes, [MaybeStatic<Lifetime>; N]) {
        let mut l = Lifetimes { indices: SmallVec::new() };
        let mut model = [MaybeStatic::Static; N];
        let mut i = 0;
        while i < n {
            let v = if kani::any() { MaybeStatic::Static } else { MaybeStatic::NonStatic(Lifetime(kani::any::<u8>() as usize)) };
            l.indices.push(v);
            model[i] = v;
            i += 1;
        }
        (l, model)
    }

    #[kani::proof]
    #[kani::unwind(@U@)]
    fn def_only_pairs_positionally() {
        let n: usize = kani::any();
        kani::assume(n <= N);
        let (l, model) = mk(n);
        let env = LifetimeEnv { nodes: SmallVec::new(), num_lifetimes: n };
        let link = LinkedLifetimes::new(&env, None, &l);
        let mut it = link.lifetimes_def_only();
        let mut i = 0;
        while i < n {
            let (u, d) = it.next().unwrap();
            assert!(u == model[i], "use-site lifetime i is reported at position i");
            assert!(d.0 == i, "... paired with def-site lifetime i");
            i += 1;
        }
        assert!(it.next().is_none(), "exactly one pair per def-site lifetime");
        kani::cover!(n == N && matches!(model[0], MaybeStatic::Static) && matches!(model[N - 1], MaybeStatic::NonStatic(_)));
    }

    #[kani::proof]
    #[kani::unwind(@U@)]
    fn all_pairs_self_first_then_positionally() {
        let n: usize = kani::any();
        kani::assume(n <= N);
        let (l, model) = mk(n);
        let env = LifetimeEnv { nodes: SmallVec::new(), num_lifetimes: n };
        let self_lt = if kani::any() { None } else if kani::any() { Some(MaybeStatic::Static) } else { Some(MaybeStatic::NonStatic(Lifetime(kani::any::<u8>() as usize))) };
        let link = LinkedLifetimes::new(&env, self_lt, &l);
        assert!(link.self_lifetime() == self_lt);
        let mut it = link.lifetimes_all();
        if let Some(s) = self_lt {
            let (u, d) = it.next().unwrap();
            assert!(u == s && d.is_none(), "self lifetime first, with no def-site partner");
        }
        let mut i = 0;
        while i < n {
            let (u, d) = it.next().unwrap();
            assert!(u == model[i]);
            assert!(d == Some(Lifetime(i)));
            i += 1;
        }
        assert!(it.next().is_none());
        kani::cover!(n == N && self_lt.is_some());
    }

    #[kani::proof]
    #[kani::unwind(@U@)]
    fn def_to_use_is_indexing() {
        let n: usize = kani::any();
        kani::assume(1 <= n && n <= N);
        let (l, model) = mk(n);
        let env = LifetimeEnv { nodes: SmallVec::new(), num_lifetimes: n };
        let link = LinkedLifetimes::new(&env, None, &l);
        let k: usize = kani::any();
        kani::assume(k < n);
        assert!(link.def_to_use(Lifetime(k)) == model[k]);
        assert!(Lifetime(k).as_method_lifetime(&l) == model[k]);
        kani::cover!(k == N - 1);
    }

    #[kani::proof]
    #[kani::unwind(@U@)]
    fn as_method_lifetimes_composes() {
        // type-scope lifetimes [t0, t1] resolved against method-scope lifetimes: 'static stays 'static, NonStatic(j) becomes method[j]
        let (m, mm) = mk(N);
        let a = if kani::any() { MaybeStatic::Static } else { let j: usize = kani::any(); kani::assume(j < N); MaybeStatic::NonStatic(Lifetime(j)) };
        let b = if kani::any() { MaybeStatic::Static } else { let j: usize = kani::any(); kani::assume(j < N); MaybeStatic::NonStatic(Lifetime(j)) };
        let mut t = Lifetimes { indices: SmallVec::new() };
        t.indices.push(a);
        t.indices.push(b);
        let r = t.as_method_lifetimes(&m);
        assert!(r.indices.len() == 2);
        let want = |x: MaybeStatic<Lifetime>| match x { MaybeStatic::Static => MaybeStatic::Static, MaybeStatic::NonStatic(l) => mm[l.0] };
        assert!(r.indices[0] == want(a));
        assert!(r.indices[1] == want(b));
        kani::cover!(matches!(a, MaybeStatic::NonStatic(_)) && matches!(b, MaybeStatic::Static));
    }
}
