#[cfg(kani)]
mod verif_layout {
    use super::*;
    use crate::verif_common::*;
    use diplomat_core::hir::__verif_hooks as hooks;
    use diplomat_core::hir::{Slice, StringEncoding};

    /// wasm32 C ABI (tool-conventions BasicCABI.md): size and alignment of scalar types; pointers and usize are 4 bytes
    fn wasm32_layout(i: u8) -> (usize, usize) {
        match i {
            0 => (1, 1),                 // bool
            1 => (4, 4),                 // char (u32)
            2 | 3 | 7 => (1, 1),         // byte, i8, u8
            4 | 8 => (2, 2),
            5 | 9 | 13 => (4, 4),        // i32, u32, f32
            6 | 10 | 14 => (8, 8),       // i64, u64, f64
            11 | 12 => (4, 4),           // isize, usize
            _ => (16, 16),               // i128, u128
        }
    }
    fn all_prim_from(i: u8) -> PrimitiveType {
        match i {
            15 => PrimitiveType::Int128(Int128Type::I128),
            16 => PrimitiveType::Int128(Int128Type::U128),
            _ => prim_from(i),
        }
    }

    #[kani::proof]
    #[kani::unwind(2)]
    fn primitive_layout_is_wasm32() {
        let i: u8 = kani::any();
        kani::assume(i < 17);
        let p = all_prim_from(i);
        assert!(prim_index(p) == i);
        let l = primitive_size_alignment(p);
        assert!((l.size(), l.align()) == wasm32_layout(i));
        kani::cover!(i == 16);
        kani::cover!(i == 0);
    }

    // ---- leaf field types (everything but nested structs): kind 0..14 primitive, 15 enum, 16 opaque ref, 17 optional opaque,
    //      18 primitive slice, 19 str slice, 20 strs slice, 21.. DiplomatOption<primitive kind-21>, 36 DiplomatOption<enum>
    const N_LEAF: u8 = 37;
    fn leaf_type(k: u8) -> Type {
        if k < 15 {
            Type::Primitive(prim_from(k))
        } else if k == 15 {
            hooks::enum_type()
        } else if k == 16 {
            hooks::opaque_type(false)
        } else if k == 17 {
            hooks::opaque_type(true)
        } else if k == 18 {
            Type::Slice(Slice::Primitive(None, prim_from(9)))
        } else if k == 19 {
            Type::Slice(Slice::Str(None, StringEncoding::UnvalidatedUtf8))
        } else if k == 20 {
            Type::Slice(Slice::Strs(StringEncoding::UnvalidatedUtf16))
        } else if k < 36 {
            Type::DiplomatOption(Box::new(Type::Primitive(prim_from(k - 21))))
        } else {
            Type::DiplomatOption(Box::new(hooks::enum_type()))
        }
    }
    /// independent oracle: (size, align, scalars; usize::MAX = Memory) from the Rust reference / wasm32 ABI:
    /// enums are i32-sized (repr(C) on wasm32), pointers 4, slices {ptr,len}, DiplomatOption<T> = {union{T}, bool}
    fn leaf_layout(k: u8) -> (usize, usize, usize) {
        if k < 15 {
            let (s, a) = wasm32_layout(k);
            (s, a, 1)
        } else if k <= 17 {
            (4, 4, 1)
        } else if k <= 20 {
            (8, 4, 2)
        } else {
            let (s, a) = if k < 36 { wasm32_layout(k - 21) } else { (4, 4) };
            // payload, then the bool flag, rounded up to the alignment
            let end = s + 1;
            ((end + a - 1) / a * a, a, usize::MAX)
        }
    }
    fn sc_value(s: ScalarCount) -> usize {
        match s {
            ScalarCount::Zst => 0,
            ScalarCount::Scalars(n) => n,
            ScalarCount::Memory => usize::MAX,
        }
    }

    #[kani::proof]
    #[kani::stub(std::hash::RandomState::new, stub_random_state)]
    #[kani::unwind(4)]
    fn leaf_types_layout_and_callee_contract() {
        let tcx = TypeContext::__verif_empty();
        let k: u8 = kani::any();
        kani::assume(k < N_LEAF);
        let t = leaf_type(k);
        let (l, sc) = type_size_alignment_and_scalar_count(&t, &tcx);
        let (s, a, n) = leaf_layout(k);
        assert!(l.size() == s && l.align() == a && sc_value(sc) == n);
        // the contract Verus unit layout_arith assumes for struct_field_info's callee
        assert!(a == 1 || a == 2 || a == 4 || a == 8 || a == 16);
        assert!(l.size() % l.align() == 0 && l.size() <= 0x1000_0000);
        if let ScalarCount::Scalars(m) = sc {
            assert!(m <= l.size());
        }
        kani::cover!(k == 36);
        kani::cover!(k == 0);
        kani::cover!(k == 18);
    }

    // ---- bounded end-to-end comparison of the whole real routine against the repr(C) algorithm
    fn check_struct<const N: usize>() {
        let tcx = TypeContext::__verif_empty();
        let kinds: [u8; N] = kani::any();
        let mut types: Vec<Type> = Vec::with_capacity(N);
        let mut i = 0;
        while i < N {
            kani::assume(kinds[i] < N_LEAF);
            types.push(leaf_type(kinds[i]));
            i += 1;
        }
        let info = struct_field_info(types.iter(), &tcx);
        assert!(info.fields.len() == N);
        // oracle: Rust reference, "The C representation"
        let mut off = 0usize;
        let mut maxa = 1usize;
        let mut ends = [0usize; N];
        let mut offs = [0usize; N];
        let mut scal = 0usize;
        let mut j = 0;
        while j < N {
            let (s, a, n) = leaf_layout(kinds[j]);
            off = (off + a - 1) / a * a;
            offs[j] = off;
            off += s;
            ends[j] = off;
            if a > maxa {
                maxa = a;
            }
            scal = if scal == usize::MAX || n == usize::MAX { usize::MAX } else { scal + n };
            j += 1;
        }
        let size = (off + maxa - 1) / maxa * maxa;
        assert!(info.struct_layout.size() == size && info.struct_layout.align() == maxa);
        assert!(sc_value(info.scalar_count) == scal);
        let mut j = 0;
        while j < N {
            let f = &info.fields[j];
            assert!(f.offset == offs[j]);
            let next = if j + 1 < N { offs[j + 1] } else { size };
            let gap = next - ends[j];
            assert!(f.padding_count * f.padding_field_width == gap);
            if gap != 0 {
                assert!(f.padding_field_width == leaf_layout(kinds[j]).1);
            }
            assert!(sc_value(f.scalar_count) == leaf_layout(kinds[j]).2);
            j += 1;
        }
    }

    #[kani::proof]
    #[kani::stub(std::hash::RandomState::new, stub_random_state)]
    #[kani::unwind(4)]
    fn struct_fields_arity_1() { check_struct::<1>(); }
    #[kani::proof]
    #[kani::stub(std::hash::RandomState::new, stub_random_state)]
    #[kani::unwind(4)]
    fn struct_fields_arity_2() { check_struct::<2>(); }
    #[kani::proof]
    #[kani::stub(std::hash::RandomState::new, stub_random_state)]
    #[kani::unwind(5)]
    fn struct_fields_arity_3() { check_struct::<3>(); }
    #[kani::proof]
    #[kani::stub(std::hash::RandomState::new, stub_random_state)]
    #[kani::unwind(6)]
    fn struct_fields_arity_4() { check_struct::<4>(); }
}
