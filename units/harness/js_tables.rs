#[cfg(kani)]
mod verif_js_tables {
    use super::*;
    use crate::verif_common::*;

    /// meaning of the Rust-type tag handed to runtime.mjs (`DiplomatBuf.slice(wasm, list, "<tag>")`, `DiplomatSlicePrimitive(.., "<tag>", ..)`):
    /// element width in bits and kind, read from the two `switch`/ternary tables of runtime.mjs
    fn view_meaning(s: &str) -> (u8, u8) {
        match s {
            "boolean" => (8, K_BOOL),
            "u8" => (8, K_UNSIGNED),
            "i8" => (8, K_SIGNED),
            "u16" => (16, K_UNSIGNED),
            "i16" => (16, K_SIGNED),
            "u32" => (32, K_UNSIGNED),
            "i32" => (32, K_SIGNED),
            "u64" => (64, K_UNSIGNED),
            "i64" => (64, K_SIGNED),
            "f32" => (32, K_FLOAT),
            "f64" => (64, K_FLOAT),
            _ => (255, K_NONE),
        }
    }
    /// ECMAScript typed arrays: element width and kind
    fn typed_array_meaning(s: &str) -> (u8, u8) {
        match s {
            "Uint8Array" => (8, K_UNSIGNED),
            "Int8Array" => (8, K_SIGNED),
            "Uint16Array" => (16, K_UNSIGNED),
            "Int16Array" => (16, K_SIGNED),
            "Uint32Array" => (32, K_UNSIGNED),
            "Int32Array" => (32, K_SIGNED),
            "BigUint64Array" => (64, K_UNSIGNED),
            "BigInt64Array" => (64, K_SIGNED),
            "Float32Array" => (32, K_FLOAT),
            "Float64Array" => (64, K_FLOAT),
            _ => (255, K_NONE),
        }
    }

    #[kani::proof]
    #[kani::stub(std::hash::RandomState::new, stub_random_state)]
    #[kani::unwind(20)]
    fn js_slice_element_types_match_rust_abi() {
        let tcx = TypeContext::__verif_empty();
        let gen = DocsUrlGenerator::default();
        let f = JSFormatter::new(&tcx, &gen);
        let i: u8 = kani::any();
        kani::assume(i < N_PRIMS);
        let p = prim_from(i);
        let (w0, k) = rust_abi(p);
        // wasm32: pointer-sized integers are 32 bits wide
        let w = if w0 == PTR { 32 } else { w0 };
        // the element tag the runtime allocates / reads slices with: the element WIDTH must be the Rust element's (a slice is
        // passed as pointer + element count); kind: same for plain ints and floats, any integer kind of that width for char / byte
        let (vw, vk) = view_meaning(f.fmt_primitive_list_view(p));
        assert!(vw == w);
        if k == K_BOOL {
            assert!(vk == K_BOOL);
        } else if i == 1 || i == 2 {
            assert!(vk == K_SIGNED || vk == K_UNSIGNED);
        } else {
            assert!(vk == k);
        }
        // the typed array used for mutable-slice write-back and returned primitive slices
        let (aw, ak) = typed_array_meaning(f.fmt_primitive_slice(p));
        assert!(aw == w);
        if k == K_BOOL || i == 1 || i == 2 {
            assert!(ak == K_SIGNED || ak == K_UNSIGNED);
        } else {
            assert!(ak == k);
        }
        kani::cover!(i == 14);
        kani::cover!(i == 1);
    }
}
