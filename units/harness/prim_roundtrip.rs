#[cfg(kani)]
mod verif_prims {
    //! The Rust type the proc macro writes for each AST primitive (as_code_str) denotes the ABI the primitive stands for,
    //! and parsing that spelling back yields the same primitive.
    use super::*;
    use core::str::FromStr;

    fn prim_from(i: u8) -> PrimitiveType {
        match i {
            0 => PrimitiveType::i8,
            1 => PrimitiveType::u8,
            2 => PrimitiveType::i16,
            3 => PrimitiveType::u16,
            4 => PrimitiveType::i32,
            5 => PrimitiveType::u32,
            6 => PrimitiveType::i64,
            7 => PrimitiveType::u64,
            8 => PrimitiveType::i128,
            9 => PrimitiveType::u128,
            10 => PrimitiveType::isize,
            11 => PrimitiveType::usize,
            12 => PrimitiveType::f32,
            13 => PrimitiveType::f64,
            14 => PrimitiveType::bool,
            15 => PrimitiveType::char,
            _ => PrimitiveType::byte,
        }
    }
    /// exhaustive, no wildcard: a new variant breaks compilation (=> undecided), never a silent gap
    fn prim_index(p: PrimitiveType) -> u8 {
        match p {
            PrimitiveType::i8 => 0,
            PrimitiveType::u8 => 1,
            PrimitiveType::i16 => 2,
            PrimitiveType::u16 => 3,
            PrimitiveType::i32 => 4,
            PrimitiveType::u32 => 5,
            PrimitiveType::i64 => 6,
            PrimitiveType::u64 => 7,
            PrimitiveType::i128 => 8,
            PrimitiveType::u128 => 9,
            PrimitiveType::isize => 10,
            PrimitiveType::usize => 11,
            PrimitiveType::f32 => 12,
            PrimitiveType::f64 => 13,
            PrimitiveType::bool => 14,
            PrimitiveType::char => 15,
            PrimitiveType::byte => 16,
        }
    }
    // (width in bits, 0 = pointer width ; kind 1 bool, 2 signed, 3 unsigned, 4 float)
    /// what each bridge primitive means (docs: char is a Unicode scalar carried as u32, byte is a raw u8)
    fn intended_abi(p: PrimitiveType) -> (u8, u8) {
        match p {
            PrimitiveType::i8 => (8, 2),
            PrimitiveType::u8 => (8, 3),
            PrimitiveType::i16 => (16, 2),
            PrimitiveType::u16 => (16, 3),
            PrimitiveType::i32 => (32, 2),
            PrimitiveType::u32 => (32, 3),
            PrimitiveType::i64 => (64, 2),
            PrimitiveType::u64 => (64, 3),
            PrimitiveType::i128 => (128, 2),
            PrimitiveType::u128 => (128, 3),
            PrimitiveType::isize => (0, 2),
            PrimitiveType::usize => (0, 3),
            PrimitiveType::f32 => (32, 4),
            PrimitiveType::f64 => (64, 4),
            PrimitiveType::bool => (8, 1),
            PrimitiveType::char => (32, 3),
            PrimitiveType::byte => (8, 3),
        }
    }
    /// Rust reference + diplomat_runtime aliases (DiplomatChar = u32, DiplomatByte = u8)
    fn rust_spelling_abi(s: &str) -> (u8, u8) {
        match s {
            "i8" => (8, 2), "u8" => (8, 3), "i16" => (16, 2), "u16" => (16, 3), "i32" => (32, 2), "u32" => (32, 3),
            "i64" => (64, 2), "u64" => (64, 3), "i128" => (128, 2), "u128" => (128, 3), "isize" => (0, 2), "usize" => (0, 3),
            "f32" => (32, 4), "f64" => (64, 4), "bool" => (8, 1), "DiplomatChar" => (32, 3), "DiplomatByte" => (8, 3),
            _ => (255, 255),
        }
    }

    #[kani::proof]
    #[kani::unwind(16)]
    fn macro_spelling_matches_primitive() {
        let i: u8 = kani::any();
        kani::assume(i < 17);
        let p = prim_from(i);
        assert!(prim_index(p) == i);
        let s = p.as_code_str();
        assert!(rust_spelling_abi(s) == intended_abi(p));
        // the spelling parses back to the same primitive (char/byte are written with their runtime aliases)
        match PrimitiveType::from_str(s) {
            Ok(q) => assert!(prim_index(q) == i),
            Err(()) => assert!(false),
        }
        kani::cover!(i == 16);
        kani::cover!(i == 0);
    }
}
