#[cfg(kani)]
mod verif_slices {
    //! Harness-checked contracts for every From/Into/Deref/DerefMut/Drop impl in runtime/src/slices.rs.
    //! The functions are loop-free; the length bound only bounds the backing allocation.
    extern crate alloc;
    use super::*;
    use alloc::boxed::Box;
    use alloc::vec::Vec;
    const N: usize = @N@;

    #[repr(C)]
    #[derive(Clone, Copy, PartialEq, Eq)]
    struct Rgb {
        r: u8,
        g: u8,
        b: u8,
    }
    impl kani::Arbitrary for Rgb {
        fn any() -> Self {
            Rgb { r: kani::any(), g: kani::any(), b: kani::any() }
        }
    }

    // ------------------------------------------------------------------ borrowed views
    fn borrowed_roundtrip<T: kani::Arbitrary + Copy + PartialEq>() {
        let arr: [T; N] = kani::any();
        let len: usize = kani::any();
        kani::assume(len <= N);
        let s: &[T] = &arr[..len];
        let v: DiplomatSlice<T> = s.into();
        assert!(v.ptr == s.as_ptr() && v.len == s.len());
        // Deref agrees with the conversion
        let d: &[T] = &*v;
        assert!(d.as_ptr() == s.as_ptr() && d.len() == len);
        let back: &[T] = v.into();
        assert!(back.as_ptr() == s.as_ptr() && back.len() == len);
        let i: usize = kani::any();
        if i < len {
            assert!(back[i] == arr[i]);
        }
        kani::cover!(len == 0);
        kani::cover!(len == N);
    }

    #[kani::proof]
    fn slice_roundtrip_u8() { borrowed_roundtrip::<u8>(); }
    #[kani::proof]
    fn slice_roundtrip_u16() { borrowed_roundtrip::<u16>(); }
    #[kani::proof]
    fn slice_roundtrip_u32() { borrowed_roundtrip::<u32>(); }
    #[kani::proof]
    fn slice_roundtrip_u64() { borrowed_roundtrip::<u64>(); }
    #[kani::proof]
    fn slice_roundtrip_struct() { borrowed_roundtrip::<Rgb>(); }

    fn null_view<T>() {
        let v: DiplomatSlice<T> = DiplomatSlice { ptr: core::ptr::null(), len: 0, phantom: PhantomData };
        let d: &[T] = &*v;
        assert!(d.is_empty());
        assert!(!d.as_ptr().is_null(), "a Rust slice made from a NULL view is a valid (non-null) empty slice");
        let s: &[T] = v.into();
        assert!(s.is_empty());
        assert!(!s.as_ptr().is_null());
        let m: DiplomatSliceMut<T> = DiplomatSliceMut { ptr: core::ptr::null_mut(), len: 0, phantom: PhantomData };
        assert!((&*m).is_empty());
        assert!(!(&*m).as_ptr().is_null());
        let mut m2: DiplomatSliceMut<T> = DiplomatSliceMut { ptr: core::ptr::null_mut(), len: 0, phantom: PhantomData };
        assert!((&mut *m2).is_empty());
        assert!(!(&mut *m2).as_ptr().is_null());
        let ms: &mut [T] = m.into();
        assert!(ms.is_empty());
        assert!(!ms.as_ptr().is_null());
        let mut o: DiplomatOwnedSlice<T> = DiplomatOwnedSlice { ptr: core::ptr::null_mut(), len: 0, phantom: PhantomData };
        assert!((&*o).is_empty());
        assert!((&mut *o).is_empty());
        assert!(!(&*o).as_ptr().is_null() && !(&mut *o).as_ptr().is_null());
        drop(o); // Drop of the (NULL, 0) owned slice frees nothing
        let o2: DiplomatOwnedSlice<T> = DiplomatOwnedSlice { ptr: core::ptr::null_mut(), len: 0, phantom: PhantomData };
        let b: Box<[T]> = o2.into();
        assert!(b.is_empty());
        assert!(!b.as_ptr().is_null(), "Box<[T]> made from the (NULL, 0) owned slice holds a non-null (dangling) pointer");
        drop(b);
    }

    #[kani::proof]
    fn null_views_are_empty() {
        null_view::<u8>();
        null_view::<u16>();
        null_view::<u64>();
        null_view::<Rgb>();
    }

    fn mut_roundtrip<T: kani::Arbitrary + Copy + PartialEq>() {
        let mut arr: [T; N] = kani::any();
        let orig = arr;
        let len: usize = kani::any();
        kani::assume(len <= N);
        let p0 = arr.as_mut_ptr();
        let x: T = kani::any();
        let i: usize = kani::any();
        kani::assume(i < N);
        {
            let s: &mut [T] = &mut arr[..len];
            let mut v: DiplomatSliceMut<T> = s.into();
            assert!(v.ptr == p0 && v.len == len);
            assert!((&*v).as_ptr() == p0 as *const T && (&*v).len() == len);
            assert!((&mut *v).as_mut_ptr() == p0 && (&mut *v).len() == len);
            let back: &mut [T] = v.into();
            assert!(back.as_mut_ptr() == p0 && back.len() == len);
            if i < len {
                back[i] = x; // a write through the round-tripped view lands in the original storage
            }
        }
        assert!(arr[i] == if i < len { x } else { orig[i] });
        let j: usize = kani::any();
        kani::assume(j < N && j != i);
        assert!(arr[j] == orig[j]);
        kani::cover!(len == N);
        kani::cover!(len == 0);
    }

    #[kani::proof]
    fn slice_mut_roundtrip_u8() { mut_roundtrip::<u8>(); }
    #[kani::proof]
    fn slice_mut_roundtrip_u32() { mut_roundtrip::<u32>(); }
    #[kani::proof]
    fn slice_mut_roundtrip_u64() { mut_roundtrip::<u64>(); }
    #[kani::proof]
    fn slice_mut_roundtrip_struct() { mut_roundtrip::<Rgb>(); }

    // ------------------------------------------------------------------ owned slices
    fn boxed_of_len<T: kani::Arbitrary + Copy>(len: usize, src: &[T; N]) -> Box<[T]> {
        let mut v: Vec<T> = Vec::with_capacity(len);
        let mut i = 0;
        while i < len {
            v.push(src[i]);
            i += 1;
        }
        v.into_boxed_slice()
    }

    fn owned_roundtrip<T: kani::Arbitrary + Copy + PartialEq>() {
        let src: [T; N] = kani::any();
        let len: usize = kani::any();
        kani::assume(len <= N);
        let b = boxed_of_len(len, &src);
        let p0 = b.as_ptr();
        let mut o: DiplomatOwnedSlice<T> = b.into();
        assert!(o.ptr as *const T == p0 && o.len == len);
        assert!((&*o).as_ptr() == p0 && (&*o).len() == len);
        assert!((&mut *o).as_ptr() == p0 && (&mut *o).len() == len);
        let back: Box<[T]> = o.into();
        assert!(back.as_ptr() == p0 && back.len() == len);
        let i: usize = kani::any();
        if i < len {
            assert!(back[i] == src[i]);
        }
        drop(back); // freed exactly once: CBMC reports double free / invalid free / use after free
        kani::cover!(len == 0);
        kani::cover!(len == N);
    }

    #[kani::proof]
    #[kani::unwind(@UNWIND@)]
    fn owned_roundtrip_u8() { owned_roundtrip::<u8>(); }
    #[kani::proof]
    #[kani::unwind(@UNWIND@)]
    fn owned_roundtrip_u16() { owned_roundtrip::<u16>(); }
    #[kani::proof]
    #[kani::unwind(@UNWIND@)]
    fn owned_roundtrip_u64() { owned_roundtrip::<u64>(); }
    #[kani::proof]
    #[kani::unwind(@UNWIND@)]
    fn owned_roundtrip_struct() { owned_roundtrip::<Rgb>(); }

    fn owned_drop<T: kani::Arbitrary + Copy + PartialEq>() {
        let src: [T; N] = kani::any();
        let len: usize = kani::any();
        kani::assume(len <= N);
        let b = boxed_of_len(len, &src);
        let o: DiplomatOwnedSlice<T> = b.into();
        drop(o); // releases the allocation exactly once
        kani::cover!(len == 0);
        kani::cover!(len == N);
    }

    #[kani::proof]
    #[kani::unwind(@UNWIND@)]
    fn owned_drop_u8() { owned_drop::<u8>(); }
    #[kani::proof]
    #[kani::unwind(@UNWIND@)]
    fn owned_drop_u32() { owned_drop::<u32>(); }

    // elements with drop glue: each element dropped exactly once on either path
    static mut EDROPS: u32 = 0;
    struct El(u8);
    impl Drop for El {
        fn drop(&mut self) {
            unsafe { EDROPS += 1; }
        }
    }

    #[kani::proof]
    #[kani::unwind(@UNWIND@)]
    fn owned_elements_dropped_once() {
        let len: usize = kani::any();
        kani::assume(len <= N);
        let mut v: Vec<El> = Vec::with_capacity(len);
        let mut i = 0;
        while i < len {
            v.push(El(i as u8));
            i += 1;
        }
        let b = v.into_boxed_slice();
        let o: DiplomatOwnedSlice<El> = b.into();
        assert!(unsafe { EDROPS } == 0);
        if kani::any() {
            drop(o);
        } else {
            let back: Box<[El]> = o.into();
            assert!(unsafe { EDROPS } == 0);
            drop(back);
        }
        assert!(unsafe { EDROPS } as usize == len);
    }

    // ------------------------------------------------------------------ str views
    #[kani::proof]
    fn utf8_str_view_roundtrip() {
        // ASCII bytes are valid UTF-8 for every length; the conversions never look at the bytes
        let mut arr: [u8; N] = kani::any();
        let mut k = 0;
        while k < N {
            arr[k] &= 0x7f;
            k += 1;
        }
        let len: usize = kani::any();
        kani::assume(len <= N);
        let s: &str = unsafe { core::str::from_utf8_unchecked(&arr[..len]) };
        let v: DiplomatUtf8StrSlice = s.into();
        assert!(v.0.ptr == s.as_ptr() && v.0.len == len);
        let d: &str = &*v;
        assert!(d.as_ptr() == s.as_ptr() && d.len() == len);
        let back: &str = v.into();
        assert!(back.as_ptr() == s.as_ptr() && back.len() == len);
        // NULL,0 is the empty string
        let nv = DiplomatUtf8StrSlice(DiplomatSlice { ptr: core::ptr::null(), len: 0, phantom: PhantomData });
        let e: &str = nv.into();
        assert!(e.is_empty());
        assert!(!e.as_ptr().is_null());
    }

    #[kani::proof]
    #[kani::unwind(@UNWIND@)]
    fn owned_utf8_str_roundtrip() {
        let mut src: [u8; N] = kani::any();
        let mut k = 0;
        while k < N {
            src[k] &= 0x7f;
            k += 1;
        }
        let len: usize = kani::any();
        kani::assume(len <= N);
        let bytes = boxed_of_len(len, &src);
        let p0 = bytes.as_ptr();
        let bs: Box<str> = unsafe { alloc::str::from_boxed_utf8_unchecked(bytes) };
        let o: DiplomatOwnedUTF8StrSlice = bs.into();
        assert!((o.0).ptr as *const u8 == p0 && (o.0).len == len);
        let d: &str = &*o;
        assert!(d.as_ptr() == p0 && d.len() == len);
        let back: Box<str> = o.into();
        assert!(back.as_ptr() == p0 && back.len() == len);
        let i: usize = kani::any();
        if i < len {
            assert!(back.as_bytes()[i] == src[i]);
        }
        drop(back);
        // (NULL, 0) owned str becomes an empty Box<str>
        let n = DiplomatOwnedUTF8StrSlice(DiplomatOwnedSlice { ptr: core::ptr::null_mut(), len: 0, phantom: PhantomData });
        let nb: Box<str> = n.into();
        assert!(nb.is_empty());
        assert!(!nb.as_ptr().is_null());
        drop(nb);
    }

    #[kani::proof]
    fn slice_layout() {
        // {ptr, len} in that order, two machine words: what DiplomatU8View etc. mirror in capi.h
        let a: [u16; 2] = [1, 2];
        let v: DiplomatSlice<u16> = (&a[..]).into();
        let w = core::mem::size_of::<usize>();
        let base = &v as *const _ as usize;
        assert!(&v.ptr as *const _ as usize - base == 0);
        assert!(&v.len as *const _ as usize - base == w);
        assert!(core::mem::size_of::<DiplomatSlice<u16>>() == 2 * w);
        assert!(core::mem::size_of::<DiplomatSliceMut<u16>>() == 2 * w);
        assert!(core::mem::size_of::<DiplomatOwnedSlice<u16>>() == 2 * w);
        assert!(core::mem::size_of::<DiplomatUtf8StrSlice>() == 2 * w);
        assert!(core::mem::size_of::<DiplomatOwnedUTF8StrSlice>() == 2 * w);
        let mut b: [u16; 2] = [1, 2];
        let m: DiplomatSliceMut<u16> = (&mut b[..]).into();
        let mb = &m as *const _ as usize;
        assert!(&m.ptr as *const _ as usize - mb == 0 && &m.len as *const _ as usize - mb == w);
    }

    // ------------------------------------------------------------------ all lengths
    // The conversion functions are loop-free and never read an element, so with a symbolic-size zeroed allocation
    // (CBMC models malloc/calloc of symbolic size) the harness covers every length the allocator model admits.
    const MAX_BYTES: usize = 1 << 40;

    fn anylen_borrowed<T: Copy + PartialEq + Default>() {
        let len: usize = kani::any();
        kani::assume(len <= MAX_BYTES / core::mem::size_of::<T>());
        let v: Vec<T> = alloc::vec![T::default(); len];
        let s: &[T] = &v[..];
        let view: DiplomatSlice<T> = s.into();
        assert!(view.ptr == s.as_ptr() && view.len == len);
        let d: &[T] = &*view;
        assert!(d.as_ptr() == s.as_ptr() && d.len() == len);
        let back: &[T] = view.into();
        assert!(back.as_ptr() == s.as_ptr() && back.len() == len);
        let i: usize = kani::any();
        if i < len {
            assert!(back[i] == s[i]);
        }
        kani::cover!(len == 0);
        kani::cover!(len > 1_000_000);
    }
    #[kani::proof]
    #[kani::unwind(2)]
    fn slice_roundtrip_anylen_u8() { anylen_borrowed::<u8>(); }
    #[kani::proof]
    #[kani::unwind(2)]
    fn slice_roundtrip_anylen_u16() { anylen_borrowed::<u16>(); }
    #[kani::proof]
    #[kani::unwind(2)]
    fn slice_roundtrip_anylen_u64() { anylen_borrowed::<u64>(); }

    fn anylen_mut<T: Copy + PartialEq + Default + kani::Arbitrary>() {
        let len: usize = kani::any();
        kani::assume(len <= MAX_BYTES / core::mem::size_of::<T>());
        let mut v: Vec<T> = alloc::vec![T::default(); len];
        let p0 = v.as_mut_ptr();
        let x: T = kani::any();
        let i: usize = kani::any();
        {
            let s: &mut [T] = &mut v[..];
            let mut view: DiplomatSliceMut<T> = s.into();
            assert!(view.ptr == p0 && view.len == len);
            assert!((&*view).as_ptr() == p0 as *const T && (&*view).len() == len);
            assert!((&mut *view).as_mut_ptr() == p0 && (&mut *view).len() == len);
            let back: &mut [T] = view.into();
            assert!(back.as_mut_ptr() == p0 && back.len() == len);
            if i < len {
                back[i] = x;
            }
        }
        if i < len {
            assert!(v[i] == x);
        }
        kani::cover!(len == 0);
        kani::cover!(len > 1_000_000);
    }
    #[kani::proof]
    #[kani::unwind(2)]
    fn slice_mut_roundtrip_anylen_u8() { anylen_mut::<u8>(); }
    #[kani::proof]
    #[kani::unwind(2)]
    fn slice_mut_roundtrip_anylen_u32() { anylen_mut::<u32>(); }

    fn anylen_owned<T: Copy + PartialEq + Default>() {
        let len: usize = kani::any();
        kani::assume(len <= MAX_BYTES / core::mem::size_of::<T>());
        let b: Box<[T]> = alloc::vec![T::default(); len].into_boxed_slice();
        let p0 = b.as_ptr();
        let mut o: DiplomatOwnedSlice<T> = b.into();
        assert!(o.ptr as *const T == p0 && o.len == len);
        assert!((&*o).as_ptr() == p0 && (&*o).len() == len);
        assert!((&mut *o).as_ptr() == p0 && (&mut *o).len() == len);
        if kani::any() {
            let back: Box<[T]> = o.into();
            assert!(back.as_ptr() == p0 && back.len() == len);
            drop(back);
        } else {
            drop(o);
        }
        kani::cover!(len == 0);
        kani::cover!(len > 1_000_000);
    }
    #[kani::proof]
    #[kani::unwind(2)]
    fn owned_roundtrip_anylen_u8() { anylen_owned::<u8>(); }
    #[kani::proof]
    #[kani::unwind(2)]
    fn owned_roundtrip_anylen_u16() { anylen_owned::<u16>(); }
}
