#[cfg(kani)]
mod verif_write_anylen {
    //! write_str step contract for EVERY capacity / length / chunk length the allocator model admits: the harness is loop-free
    //! (contents are compared at one symbolic index; buffers are symbolic-size zero-initialised allocations).
    use super::*;
    use core::fmt::Write;
    const MAX: usize = 1 << 40;

    extern "C" fn model_flush(_this: *mut DiplomatWrite) {}

    /// foreign grow per the documented invariant: refuse changing nothing, or install a buffer of >= requested capacity
    /// holding the old `len` bytes (memcpy, no loop)
    extern "C" fn model_grow(this: *mut DiplomatWrite, req: usize) -> bool {
        unsafe {
            let w = &mut *this;
            if kani::any() {
                return false;
            }
            let slack: usize = kani::any();
            kani::assume(slack <= 2);
            let new_cap = req + slack;
            let mut v: Vec<u8> = alloc::vec![0u8; new_cap];
            let p = v.as_mut_ptr();
            core::mem::forget(v);
            ptr::copy_nonoverlapping(w.buf as *const u8, p, w.len);
            w.buf = p;
            w.cap = new_cap;
            true
        }
    }

    #[kani::proof]
    #[kani::unwind(2)]
    fn check_write_str_anylen() {
        let cap: usize = kani::any();
        kani::assume(cap <= MAX);
        let len: usize = kani::any();
        kani::assume(len <= cap);
        let mut v: Vec<u8> = alloc::vec![0u8; cap];
        let p = v.as_mut_ptr();
        core::mem::forget(v);
        // arbitrary old content at one symbolic position (the position is arbitrary, so this covers every position)
        let i: usize = kani::any();
        let old_i: u8 = kani::any();
        if i < len {
            unsafe { *p.add(i) = old_i; }
        }
        let mut w = DiplomatWrite { context: ptr::null_mut(), buf: p, len, cap, grow_failed: kani::any(), flush: model_flush, grow: model_grow };
        let slen: usize = kani::any();
        kani::assume(slen <= MAX);
        let chunk: Vec<u8> = alloc::vec![0u8; slen];
        let mut chunk = chunk;
        let j: usize = kani::any();
        let cj: u8 = kani::any();
        if j < slen {
            chunk[j] = cj;
        }
        let s = unsafe { core::str::from_utf8_unchecked(&chunk[..]) };
        let old_failed = w.grow_failed;
        let r = w.write_str(s);
        assert!(r.is_ok());
        assert!(w.len <= w.cap);
        if old_failed {
            assert!(w.grow_failed && w.len == len && w.cap == cap && w.buf == p);
        } else if w.grow_failed {
            assert!(len + slen > cap);
            assert!(w.len == len && w.cap == cap && w.buf == p);
        } else {
            assert!(w.len == len + slen);
            if len + slen <= cap {
                assert!(w.buf == p && w.cap == cap);
            }
            if j < slen {
                assert!(unsafe { *w.buf.add(len + j) } == cj);
            }
        }
        if i < len {
            assert!(unsafe { *w.buf.add(i) } == old_i);
        }
        kani::cover!(!old_failed && w.grow_failed);
        kani::cover!(!old_failed && !w.grow_failed && len + slen > cap && slen > 1000);
        kani::cover!(!old_failed && !w.grow_failed && slen > 0 && len + slen <= cap && cap > 1_000_000);
    }
}
