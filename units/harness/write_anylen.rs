#[cfg(kani)]
mod verif_write_anylen {
    //! write_str step contract for EVERY capacity / length / chunk length the allocator model admits: the harness is loop-free
    //! (contents are compared at one symbolic index; buffers are symbolic-size zero-initialised allocations).
    use super::*;
    use core::fmt::Write;
    const MAX: usize = 1 << 40;

    extern "C" fn model_flush(_this: *mut DiplomatWrite) {}

    /// foreign grow per the documented invariant: refuse changing nothing, or install a buffer of >= requested capacity
    /// holding the old `len` bytes (memcpy, no loop)
    extern "C" fn model_grow(this: *mut DiplomatWrite, req: usize) -> bool {
        unsafe {
            let w = &mut *this;
            if kani::any() {
                return false;
            }
            let slack: usize = kani::any();
            kani::assume(slack <= 2);
            let new_cap = req + slack;
            let mut v: Vec<u8> = alloc::vec![0u8; new_cap];
            let p = v.as_mut_ptr();
            core::mem::forget(v);
            ptr::copy_nonoverlapping(w.buf as *const u8, p, w.len);
            w.buf = p;
            w.cap = new_cap;
            true
        }
    }

    #[kani::proof]
    #[kani::unwind(2)]
    fn check_write_str_anylen() {
        let cap: usize = kani::any();
        kani::assume(cap <= MAX);
        let len: usize = kani::any();
        kani::assume(len <= cap);
        let mut v: Vec<u8> = alloc::vec![0u8; cap];
        let p = v.as_mut_ptr();
        core::mem::forget(v);
        // arbitrary old content at one symbolic position (the position is arbitrary, so this covers every position)
        let i: usize = kani::any();
        let old_i: u8 = kani::any();
        if i < len {
            unsafe { *p.add(i) = old_i; }
        }
        let mut w = DiplomatWrite { context: ptr::null_mut(), buf: p, len, cap, grow_failed: kani::any(), flush: model_flush, grow: model_grow };
        let slen: usize = kani::any();
        kani::assume(slen <= MAX);
        let chunk: Vec<u8> = alloc::vec![0u8; slen];
        let mut chunk = chunk;
        let j: usize = kani::any();
        let cj: u8 = kani::any();
        if j < slen {
            chunk[j] = cj;
        }
        let s = unsafe { core::str::from_utf8_unchecked(&chunk[..]) };
        let old_failed = w.grow_failed;
        let r = w.write_str(s);
        assert!(r.is_ok());
        assert!(w.len <= w.cap);
        if old_failed {
            assert!(w.grow_failed && w.len == len && w.cap == cap && w.buf == p);
        } else if w.grow_failed {
            assert!(len + slen > cap);
            assert!(w.len == len && w.cap == cap && w.buf == p);
        } else {
            assert!(w.len == len + slen);
            if len + slen <= cap {
                assert!(w.buf == p && w.cap == cap);
            }
            if j < slen {
                assert!(unsafe { *w.buf.add(len + j) } == cj);
            }
        }
        if i < len {
            assert!(unsafe { *w.buf.add(i) } == old_i);
        }
        kani::cover!(!old_failed && w.grow_failed);
        kani::cover!(!old_failed && !w.grow_failed && len + slen > cap && slen > 1000);
        kani::cover!(!old_failed && !w.grow_failed && slen > 0 && len + slen <= cap && cap > 1_000_000);
    }

    // ---- fixed-size caller buffer of every size: one arbitrary chunk + flush
    // (a second chunk is the step contract above: sticky failure / append; two symbolic-size chunks in one harness make
    //  Kani drop the tail of the harness - caught by the end-of-harness cover - so the sequence part is left to the lemma)
    #[kani::proof]
    #[kani::unwind(2)]
    fn simple_write_anylen() {
        let n: usize = kani::any();
        kani::assume(n >= 1 && n <= MAX);
        let mut v: Vec<u8> = alloc::vec![0u8; n];
        let buf = v.as_mut_ptr();
        core::mem::forget(v);
        // the caller's buffer holds arbitrary garbage at one symbolic position
        let g: usize = kani::any();
        let gb: u8 = kani::any(); // (an untyped `kani::any()` in the store made Kani drop the rest of the harness)
        if g < n {
            unsafe { *buf.add(g) = gb; }
        }
        let mut w = unsafe { diplomat_simple_write(buf, n) };
        assert!(w.cap == n - 1 && w.len == 0 && !w.grow_failed && w.buf == buf);
        let l1: usize = kani::any();
        kani::assume(l1 <= MAX);
        let mut c1: Vec<u8> = alloc::vec![0u8; l1];
        let j1: usize = kani::any();
        let b1: u8 = kani::any();
        if j1 < l1 {
            c1[j1] = b1;
        }
        let s1 = unsafe { core::str::from_utf8_unchecked(&c1[..]) };
        assert!(w.write_str(s1).is_ok());
        w.flush();
        let fit1 = l1 <= n - 1;
        let exp_len = if fit1 { l1 } else { 0 };
        assert!(w.len == exp_len && w.grow_failed == !fit1 && w.buf == buf && w.cap == n - 1);
        if fit1 && j1 < l1 {
            assert!(unsafe { *buf.add(j1) } == b1);
        }
        // NUL terminator inside the caller's buffer, directly after the accepted content; flush idempotent
        assert!(exp_len <= n - 1 && unsafe { *buf.add(exp_len) } == 0);
        w.flush();
        assert!(w.len == exp_len && unsafe { *buf.add(exp_len) } == 0);
        assert!(diplomat_buffer_write_get_bytes(&w).is_null() == w.grow_failed);
        assert!(diplomat_buffer_write_len(&w) == if w.grow_failed { 0 } else { exp_len });
        kani::cover!(fit1 && l1 > 1000 && n > 1_000_000);
        kani::cover!(fit1 && l1 == n - 1);
        kani::cover!(!fit1);
    }

    // ---- Rust-owned growable writer of every capacity, already holding `len` bytes: one arbitrary chunk, then destroy
    #[kani::proof]
    #[kani::unwind(2)]
    fn buffer_write_anylen() {
        let cap: usize = kani::any();
        kani::assume(cap <= MAX);
        let wp = diplomat_buffer_write_create(cap);
        let w = unsafe { &mut *wp };
        assert!(w.cap == cap && w.len == 0 && !w.grow_failed);
        // state after earlier writes: `len` bytes present, one of them symbolic at a symbolic position
        let len: usize = kani::any();
        kani::assume(len <= cap);
        let i: usize = kani::any();
        let old_i: u8 = kani::any();
        if i < len {
            unsafe { *w.buf.add(i) = old_i; }
        }
        w.len = len;
        let l1: usize = kani::any();
        kani::assume(l1 <= MAX);
        let mut c1: Vec<u8> = alloc::vec![0u8; l1];
        let j1: usize = kani::any();
        let b1: u8 = kani::any();
        if j1 < l1 {
            c1[j1] = b1;
        }
        let s1 = unsafe { core::str::from_utf8_unchecked(&c1[..]) };
        assert!(w.write_str(s1).is_ok());
        w.flush();
        // this writer's grow never fails: old content kept (also across reallocation), chunk appended
        assert!(!w.grow_failed && w.len == len + l1 && w.len <= w.cap);
        assert!(diplomat_buffer_write_len(w) == len + l1);
        let p = diplomat_buffer_write_get_bytes(w);
        assert!(!p.is_null() && p == w.buf);
        if i < len {
            assert!(unsafe { *p.add(i) } == old_i);
        }
        if j1 < l1 {
            assert!(unsafe { *p.add(len + j1) } == b1);
        }
        unsafe { diplomat_buffer_write_destroy(wp) };
        kani::cover!(cap == 0 && l1 > 0);
        kani::cover!(len + l1 > cap && len > 0 && l1 > 1000, "growth with old content");
        kani::cover!(len + l1 <= cap && l1 > 1000, "no growth");
    }
}
