#[cfg(kani)]
mod verif_supports {
    //! `supports = <name>` conditions select the BackendAttrSupport flag of the same name (24 documented names).
    use super::*;

    /// error-message formatting dominates CBMC's cost and is irrelevant to the verdict (message text)
    fn stub_format(_args: core::fmt::Arguments<'_>) -> String {
        String::new()
    }

    /// documented meaning: `supports = X` holds iff the backend's BackendAttrSupport field named X is set
    fn documented(s: &BackendAttrSupport, i: u8) -> (&'static str, bool) {
        match i {
            0 => ("namespacing", s.namespacing),
            1 => ("memory_sharing", s.memory_sharing),
            2 => ("non_exhaustive_structs", s.non_exhaustive_structs),
            3 => ("method_overloading", s.method_overloading),
            4 => ("utf8_strings", s.utf8_strings),
            5 => ("utf16_strings", s.utf16_strings),
            6 => ("static_slices", s.static_slices),
            7 => ("constructors", s.constructors),
            8 => ("named_constructors", s.named_constructors),
            9 => ("fallible_constructors", s.fallible_constructors),
            10 => ("accessors", s.accessors),
            11 => ("static_accessors", s.static_accessors),
            12 => ("stringifiers", s.stringifiers),
            13 => ("comparators", s.comparators),
            14 => ("iterators", s.iterators),
            15 => ("iterables", s.iterables),
            16 => ("indexing", s.indexing),
            17 => ("arithmetic", s.arithmetic),
            18 => ("option", s.option),
            19 => ("callbacks", s.callbacks),
            20 => ("traits", s.traits),
            21 => ("custom_errors", s.custom_errors),
            22 => ("traits_are_send", s.traits_are_send),
            23 => ("traits_are_sync", s.traits_are_sync),
            _ => ("", false),
        }
    }
    fn any_support() -> BackendAttrSupport {
        let mut s = BackendAttrSupport::default();
        s.namespacing = kani::any();
        s.memory_sharing = kani::any();
        s.non_exhaustive_structs = kani::any();
        s.method_overloading = kani::any();
        s.utf8_strings = kani::any();
        s.utf16_strings = kani::any();
        s.static_slices = kani::any();
        s.constructors = kani::any();
        s.named_constructors = kani::any();
        s.fallible_constructors = kani::any();
        s.accessors = kani::any();
        s.static_accessors = kani::any();
        s.stringifiers = kani::any();
        s.comparators = kani::any();
        s.iterators = kani::any();
        s.iterables = kani::any();
        s.indexing = kani::any();
        s.arithmetic = kani::any();
        s.option = kani::any();
        s.callbacks = kani::any();
        s.traits = kani::any();
        s.custom_errors = kani::any();
        s.traits_are_send = kani::any();
        s.traits_are_sync = kani::any();
        s
    }

    #[kani::proof]
    #[kani::stub(alloc::fmt::format, stub_format)]
    #[kani::unwind(30)]
    fn supports_names_select_their_flag() {
        let s = any_support();
        let i: u8 = kani::any();
        kani::assume(i < 24);
        let (name, want) = documented(&s, i);
        let mut v = BasicAttributeValidator::new("js");
        v.support = s;
        match v.is_name_value("supports", name) {
            Ok(b) => assert!(b == want),
            Err(_) => assert!(false),
        }
        kani::cover!(i == 23 && want);
        kani::cover!(i == 0 && !want);
    }

    #[kani::proof]
    #[kani::stub(alloc::fmt::format, stub_format)]
    #[kani::unwind(30)]
    fn unknown_supports_value_is_an_error() {
        let mut v = BasicAttributeValidator::new("js");
        v.support = any_support();
        assert!(v.is_name_value("supports", "no_such_feature").is_err());
        // a name other than `supports` is false unless the backend installs its own predicate
        match v.is_name_value("target", "wasm") {
            Ok(b) => assert!(!b),
            Err(_) => assert!(false),
        }
    }

    #[kani::proof]
    #[kani::unwind(12)]
    fn backend_names() {
        let mut v = BasicAttributeValidator::new("js");
        v.other_backend_names.push(String::from("javascript"));
        assert!(v.is_backend("js"));
        assert!(v.is_backend("javascript"));
        assert!(!v.is_backend("dart"));
        assert!(!v.is_backend("j"));
        assert!(!v.is_backend(""));
    }

    #[kani::proof]
    #[kani::unwind(8)]
    fn backend_names_exact_symbolic() {
        // every ASCII string of length <= 4 against backend "js" with alias "node": accepted iff it IS one of the two names
        let mut v = BasicAttributeValidator::new("js");
        v.other_backend_names.push(String::from("node"));
        let bytes: [u8; 4] = kani::any();
        let len: usize = kani::any();
        kani::assume(len <= 4);
        kani::assume(bytes[0] < 128 && bytes[1] < 128 && bytes[2] < 128 && bytes[3] < 128);
        let s: &str = unsafe { core::str::from_utf8_unchecked(&bytes[..len]) };
        let is_js = len == 2 && bytes[0] == b'j' && bytes[1] == b's';
        let is_node = len == 4 && bytes[0] == b'n' && bytes[1] == b'o' && bytes[2] == b'd' && bytes[3] == b'e';
        assert!(v.is_backend(s) == (is_js || is_node), "a backend atom is true exactly for the running backend's own names");
        kani::cover!(is_js);
        kani::cover!(is_node);
        kani::cover!(len == 3 && bytes[0] == b'j' && bytes[1] == b's');
        kani::cover!(len == 1 && bytes[0] == b'j');
    }
}
