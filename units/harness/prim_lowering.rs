#[cfg(kani)]
mod verif_prim_lowering {
    //! hir::PrimitiveType::from_ast preserves width / signedness / kind of every AST primitive.
    use super::*;
    fn ast_from(i: u8) -> ast::PrimitiveType {
        use ast::PrimitiveType as P;
        match i {
            0 => P::i8, 1 => P::u8, 2 => P::i16, 3 => P::u16, 4 => P::i32, 5 => P::u32, 6 => P::i64, 7 => P::u64, 8 => P::i128, 9 => P::u128,
            10 => P::isize, 11 => P::usize, 12 => P::f32, 13 => P::f64, 14 => P::bool, 15 => P::char, _ => P::byte,
        }
    }
    /// (width in bits, 0 = pointer width; kind 1 bool, 2 signed, 3 unsigned, 4 float, 5 char, 6 raw byte)
    fn ast_meaning(p: ast::PrimitiveType) -> (u8, u8) {
        use ast::PrimitiveType as P;
        match p {
            P::i8 => (8, 2), P::u8 => (8, 3), P::i16 => (16, 2), P::u16 => (16, 3), P::i32 => (32, 2), P::u32 => (32, 3),
            P::i64 => (64, 2), P::u64 => (64, 3), P::i128 => (128, 2), P::u128 => (128, 3), P::isize => (0, 2), P::usize => (0, 3),
            P::f32 => (32, 4), P::f64 => (64, 4), P::bool => (8, 1), P::char => (32, 5), P::byte => (8, 6),
        }
    }
    fn hir_meaning(p: PrimitiveType) -> (u8, u8) {
        match p {
            PrimitiveType::Bool => (8, 1),
            PrimitiveType::Char => (32, 5),
            PrimitiveType::Byte => (8, 6),
            PrimitiveType::Int(IntType::I8) => (8, 2),
            PrimitiveType::Int(IntType::I16) => (16, 2),
            PrimitiveType::Int(IntType::I32) => (32, 2),
            PrimitiveType::Int(IntType::I64) => (64, 2),
            PrimitiveType::Int(IntType::U8) => (8, 3),
            PrimitiveType::Int(IntType::U16) => (16, 3),
            PrimitiveType::Int(IntType::U32) => (32, 3),
            PrimitiveType::Int(IntType::U64) => (64, 3),
            PrimitiveType::IntSize(IntSizeType::Isize) => (0, 2),
            PrimitiveType::IntSize(IntSizeType::Usize) => (0, 3),
            PrimitiveType::Int128(Int128Type::I128) => (128, 2),
            PrimitiveType::Int128(Int128Type::U128) => (128, 3),
            PrimitiveType::Float(FloatType::F32) => (32, 4),
            PrimitiveType::Float(FloatType::F64) => (64, 4),
        }
    }

    #[kani::proof]
    #[kani::unwind(4)]
    fn from_ast_preserves_meaning() {
        let i: u8 = kani::any();
        kani::assume(i < 17);
        let p = ast_from(i);
        assert!(hir_meaning(PrimitiveType::from_ast(p)) == ast_meaning(p));
        kani::cover!(i == 16);
        kani::cover!(i == 0);
    }
}
