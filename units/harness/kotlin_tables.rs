#[cfg(kani)]
mod verif_kotlin_tables {
    use super::*;
    use crate::verif_common::*;

    /// JNA mapping of Kotlin/JVM types and of the FFIUintN / FFISizet / FFIIsizet IntegerType wrappers the
    /// Kotlin backend ships: (width, signedness).  Boolean is JNA's bool convention and is not judged (kind K_BOOL, any width).
    fn kt_ffi_meaning(s: &str) -> (u8, u8) {
        match s {
            "Boolean" => (8, K_BOOL),
            "Byte" => (8, K_SIGNED),
            "Short" => (16, K_SIGNED),
            "Int" => (32, K_SIGNED),
            "Long" => (64, K_SIGNED),
            "FFIUint8" => (8, K_UNSIGNED),
            "FFIUint16" => (16, K_UNSIGNED),
            "FFIUint32" => (32, K_UNSIGNED),
            "FFIUint64" => (64, K_UNSIGNED),
            "FFIIsizet" => (PTR, K_SIGNED),
            "FFISizet" => (PTR, K_UNSIGNED),
            "Float" => (32, K_FLOAT),
            "Double" => (64, K_FLOAT),
            _ => (255, K_NONE),
        }
    }
    fn kt_meaning(s: &str) -> (u8, u8) {
        match s {
            "Boolean" => (8, K_BOOL),
            "Byte" => (8, K_SIGNED),
            "Short" => (16, K_SIGNED),
            "Int" => (32, K_SIGNED),
            "Long" => (64, K_SIGNED),
            "UByte" => (8, K_UNSIGNED),
            "UShort" => (16, K_UNSIGNED),
            "UInt" => (32, K_UNSIGNED),
            "ULong" => (64, K_UNSIGNED),
            "Float" => (32, K_FLOAT),
            "Double" => (64, K_FLOAT),
            _ => (255, K_NONE),
        }
    }

    #[kani::proof]
    #[kani::stub(std::hash::RandomState::new, stub_random_state)]
    #[kani::unwind(20)]
    fn kotlin_native_types_match_rust_abi() {
        let tcx = TypeContext::__verif_empty();
        let gen = DocsUrlGenerator::default();
        let f = KotlinFormatter { tcx: &tcx, strip_prefix: None, docs_url_gen: &gen };
        let i: u8 = kani::any();
        kani::assume(i < N_PRIMS);
        let p = prim_from(i);
        let (w, k) = rust_abi(p);
        // function signatures (JNA interface): same width for everything; same signedness for every integer
        // type that is not char/byte (char is passed as a 32-bit Int, DiplomatByte as an 8-bit Byte: same bits)
        let (fw, fk) = kt_ffi_meaning(f.fmt_primitive_as_ffi(p));
        assert!(fw == w);
        if i == 1 || i == 2 {
            assert!(fk == K_SIGNED || fk == K_UNSIGNED);
        } else {
            assert!(fk == k);
        }
        // struct mirrors (JNA Structure fields): bool is a 1-byte Byte, unsigned ints are FFIUintN of the same N
        let (nw, nk) = kt_ffi_meaning(f.fmt_primitive_type_native(p));
        assert!(nw == w);
        if k == K_BOOL {
            assert!(nk == K_SIGNED && nw == 8);
        } else if i == 1 || i == 2 {
            assert!(nk == K_SIGNED || nk == K_UNSIGNED);
        } else {
            assert!(nk == k);
        }
        // Kotlin-side type and the unsigned cast helper agree with the FFI type
        let (kw, kk) = kt_meaning(f.fmt_primitive_as_kt(p));
        if w == PTR {
            assert!(kw == 64 && kk == k);
        } else {
            assert!(kw == w);
            if i != 1 && i != 2 {
                assert!(kk == k);
            }
        }
        let cast = f.fmt_unsigned_primitive_ffi_cast(&p);
        if (k == K_UNSIGNED && i != 1 && i != 2) || w == PTR {
            assert!(cast == f.fmt_primitive_as_ffi(p));
        } else {
            assert!(cast == "");
        }
        kani::cover!(i == 14);
        kani::cover!(i == 0);
    }
}
