#[cfg(kani)]
mod verif_lib {
    //! diplomat_is_str against an independent RFC 3629 acceptor; diplomat_alloc / diplomat_free.
    use super::*;
    const L: usize = @L@;

    /// RFC 3629 §4 acceptor, written from the ABNF (not from core::str):
    ///   UTF8-1 = %x00-7F
    ///   UTF8-2 = %xC2-DF UTF8-tail
    ///   UTF8-3 = %xE0 %xA0-BF tail / %xE1-EC 2tail / %xED %x80-9F tail / %xEE-EF 2tail
    ///   UTF8-4 = %xF0 %x90-BF 2tail / %xF1-F3 3tail / %xF4 %x80-8F 2tail
    fn rfc3629(b: &[u8; L], n: usize) -> bool {
        let tail = |x: u8| x >= 0x80 && x <= 0xBF;
        let mut i = 0;
        while i < n {
            let c = b[i];
            if c <= 0x7F {
                i += 1;
            } else if c >= 0xC2 && c <= 0xDF {
                if i + 1 >= n || !tail(b[i + 1]) { return false; }
                i += 2;
            } else if c >= 0xE0 && c <= 0xEF {
                if i + 2 >= n { return false; }
                let c1 = b[i + 1];
                let ok1 = if c == 0xE0 { c1 >= 0xA0 && c1 <= 0xBF } else if c == 0xED { c1 >= 0x80 && c1 <= 0x9F } else { tail(c1) };
                if !ok1 || !tail(b[i + 2]) { return false; }
                i += 3;
            } else if c >= 0xF0 && c <= 0xF4 {
                if i + 3 >= n { return false; }
                let c1 = b[i + 1];
                let ok1 = if c == 0xF0 { c1 >= 0x90 && c1 <= 0xBF } else if c == 0xF4 { c1 >= 0x80 && c1 <= 0x8F } else { tail(c1) };
                if !ok1 || !tail(b[i + 2]) || !tail(b[i + 3]) { return false; }
                i += 4;
            } else {
                return false;
            }
        }
        true
    }

    #[kani::proof]
    #[kani::unwind(@UNWIND@)]
    fn is_str_matches_rfc3629() {
        let b: [u8; L] = kani::any();
        let n: usize = kani::any();
        kani::assume(n <= L);
        let got = unsafe { diplomat_is_str(b.as_ptr(), n) };
        assert!(got == rfc3629(&b, n));
        kani::cover!(got && n == L && b[0] >= 0xF0, "valid 4-byte sequence reachable");
        kani::cover!(!got && n == L, "invalid string reachable");
        kani::cover!(got && n == 0, "empty string accepted");
    }

    #[kani::proof]
    fn alloc_free_contract() {
        let size: usize = kani::any();
        kani::assume(size >= 1 && size <= 16);
        let sh: u8 = kani::any();
        kani::assume(sh <= 4);
        let align: usize = 1usize << sh;
        unsafe {
            let p = diplomat_alloc(size, align);
            assert!(!p.is_null());
            assert!((p as usize) % align == 0);
            // the whole region is writable
            let i: usize = kani::any();
            kani::assume(i < size);
            *p.add(i) = 0xAB;
            assert!(*p.add(i) == 0xAB);
            diplomat_free(p, size, align);
        }
    }
}
