#[cfg(kani)]
mod verif_dart_tables {
    use super::*;
    use crate::verif_common::*;

    /// dart:ffi NativeType meanings (api.dart.dev/dart-ffi): fixed-width ints, IntPtr/Size pointer-width, Float/Double, Bool = 1 byte
    fn dart_ffi_meaning(s: &str) -> (u8, u8) {
        match s {
            "ffi.Bool" => (8, K_BOOL),
            "ffi.Int8" => (8, K_SIGNED),
            "ffi.Uint8" => (8, K_UNSIGNED),
            "ffi.Int16" => (16, K_SIGNED),
            "ffi.Uint16" => (16, K_UNSIGNED),
            "ffi.Int32" => (32, K_SIGNED),
            "ffi.Uint32" => (32, K_UNSIGNED),
            "ffi.Int64" => (64, K_SIGNED),
            "ffi.Uint64" => (64, K_UNSIGNED),
            "ffi.IntPtr" => (PTR, K_SIGNED),
            "ffi.Size" => (PTR, K_UNSIGNED),
            "ffi.Float" => (32, K_FLOAT),
            "ffi.Double" => (64, K_FLOAT),
            _ => (255, K_NONE),
        }
    }
    /// the typed-data allocator helpers of the Dart runtime prelude, by name
    fn alloc_meaning(s: &str) -> (u8, u8) {
        match s {
            "_boolAllocIn" => (8, K_BOOL),
            "_int8AllocIn" => (8, K_SIGNED),
            "_uint8AllocIn" => (8, K_UNSIGNED),
            "_int16AllocIn" => (16, K_SIGNED),
            "_uint16AllocIn" => (16, K_UNSIGNED),
            "_int32AllocIn" => (32, K_SIGNED),
            "_uint32AllocIn" => (32, K_UNSIGNED),
            "_int64AllocIn" => (64, K_SIGNED),
            "_uint64AllocIn" => (64, K_UNSIGNED),
            "_isizeAllocIn" => (PTR, K_SIGNED),
            "_usizeAllocIn" => (PTR, K_UNSIGNED),
            "_float32AllocIn" => (32, K_FLOAT),
            "_float64AllocIn" => (64, K_FLOAT),
            _ => (255, K_NONE),
        }
    }
    fn slice_meaning(s: &str) -> (u8, u8) {
        match s {
            "_SliceBool" => (8, K_BOOL),
            "_SliceRune" => (32, K_UNSIGNED),
            "_SliceInt8" => (8, K_SIGNED),
            "_SliceUint8" => (8, K_UNSIGNED),
            "_SliceInt16" => (16, K_SIGNED),
            "_SliceUint16" => (16, K_UNSIGNED),
            "_SliceInt32" => (32, K_SIGNED),
            "_SliceUint32" => (32, K_UNSIGNED),
            "_SliceInt64" => (64, K_SIGNED),
            "_SliceUint64" => (64, K_UNSIGNED),
            "_SliceIsize" => (PTR, K_SIGNED),
            "_SliceUsize" => (PTR, K_UNSIGNED),
            "_SliceFloat" => (32, K_FLOAT),
            "_SliceDouble" => (64, K_FLOAT),
            _ => (255, K_NONE),
        }
    }

    #[kani::proof]
    #[kani::stub(std::hash::RandomState::new, stub_random_state)]
    #[kani::unwind(20)]
    fn dart_ffi_annotations_match_rust_abi() {
        let tcx = TypeContext::__verif_empty();
        let gen = DocsUrlGenerator::default();
        let f = DartFormatter { tcx: &tcx, docs_url_gen: &gen };
        let i: u8 = kani::any();
        kani::assume(i < N_PRIMS);
        let p = prim_from(i);
        // native annotation: same width / signedness / float kind as the C ABI of the Rust function
        assert!(dart_ffi_meaning(f.fmt_primitive_as_ffi(p, false)) == rust_abi(p));
        // Dart-side type by kind
        let d = f.fmt_primitive_as_ffi(p, true);
        let (_, kind) = rust_abi(p);
        if i == 1 {
            assert!(d == "Rune");
        } else if kind == K_BOOL {
            assert!(d == "bool");
        } else if kind == K_FLOAT {
            assert!(d == "double");
        } else {
            assert!(d == "int");
        }
        // slice record element type
        assert!(slice_meaning(f.fmt_slice_type(&hir::Slice::Primitive(None, p))) == rust_abi(p));
        // allocator helper of the same element type (Byte has custom handling: documented unreachable)
        if i != 2 {
            assert!(alloc_meaning(f.fmt_primitive_alloc_in(p)) == rust_abi(p));
        }
        kani::cover!(i == 14);
        kani::cover!(i == 0);
    }

    #[kani::proof]
    #[kani::stub(std::hash::RandomState::new, stub_random_state)]
    #[kani::unwind(20)]
    fn dart_string_element_width() {
        let tcx = TypeContext::__verif_empty();
        let gen = DocsUrlGenerator::default();
        let f = DartFormatter { tcx: &tcx, docs_url_gen: &gen };
        assert!(dart_ffi_meaning(f.fmt_string_element_as_ffi(hir::StringEncoding::Utf8)) == (8, K_UNSIGNED));
        assert!(dart_ffi_meaning(f.fmt_string_element_as_ffi(hir::StringEncoding::UnvalidatedUtf8)) == (8, K_UNSIGNED));
        assert!(dart_ffi_meaning(f.fmt_string_element_as_ffi(hir::StringEncoding::UnvalidatedUtf16)) == (16, K_UNSIGNED));
    }
}
