#[cfg(kani)]
mod verif_error_store {
    //! tool::ErrorStore — the channel through which every backend reports recoverable problems (instead of panicking).
    //! Contract: set_context_* / push_error / guard drop never panic (RefCell discipline), every pushed error is kept
    //! (also the same error twice in a row), and dropping a guard restores the previous context.
    use super::*;

    #[kani::proof]
    #[kani::unwind(4)]
    fn repeated_push_in_a_context_keeps_every_error() {
        let store: ErrorStore<'static, u8> = ErrorStore::default();
        let e1: u8 = kani::any();
        let e2: u8 = kani::any();
        let g = store.set_context_ty(Cow::Borrowed("Ty"));
        store.push_error(e1);
        store.push_error(e2); // e2 == e1 included: reported twice
        drop(g);
        assert!(store.errors.borrow().len() == 2, "every pushed error is kept");
        assert!(store.errors.borrow()[0].1 == e1 && store.errors.borrow()[1].1 == e2);
        assert!(store.context.borrow().ty.is_empty() && store.context.borrow().method.is_none(), "guard dropped: default context restored");
        kani::cover!(e1 == e2);
        core::mem::forget(store);
    }

    #[kani::proof]
    #[kani::unwind(4)]
    fn nested_contexts_restore_in_order() {
        let store: ErrorStore<'static, u8> = ErrorStore::default();
        let e: u8 = kani::any();
        let push_outer: bool = kani::any();
        let g = store.set_context_ty(Cow::Borrowed("Ty"));
        if push_outer { store.push_error(e); }
        {
            let m = store.set_context_method(Cow::Borrowed("Ty"), Cow::Borrowed("m"));
            assert!(store.context.borrow().method.is_some());
            store.push_error(e);
            drop(m);
        }
        assert!(!store.context.borrow().ty.is_empty() && store.context.borrow().method.is_none(), "inner guard dropped: back to the type context");
        store.push_error(e);
        drop(g);
        assert!(store.context.borrow().ty.is_empty());
        assert!(store.errors.borrow().len() == if push_outer { 3 } else { 2 });
        // the error pushed inside the method context carries it
        let k = if push_outer { 1 } else { 0 };
        assert!(store.errors.borrow()[k].0.method.is_some());
        assert!(store.errors.borrow()[k + 1].0.method.is_none());
        kani::cover!(push_outer);
        core::mem::forget(store);
    }

    #[kani::proof]
    #[kani::unwind(4)]
    fn push_without_context_and_take_all() {
        let store: ErrorStore<'static, u8> = ErrorStore::default();
        let e: u8 = kani::any();
        store.push_error(e);
        let all = store.take_all();
        assert!(all.len() == 1 && all[0].1 == e);
        assert!(store.errors.borrow().is_empty(), "take_all drains the store");
        kani::cover!(e == 0);
        core::mem::forget(all);
        core::mem::forget(store);
    }
}
