// ---- /verif hook (cfg(kani) only, add-only): constructors for values of #[non_exhaustive]/private-field types
#[cfg(kani)]
impl TypeContext {
    pub fn __verif_empty() -> Self {
        TypeContext { out_structs: Vec::new(), structs: Vec::new(), opaques: Vec::new(), enums: Vec::new(), traits: Vec::new() }
    }
}

#[cfg(kani)]
pub mod __verif_hooks {
    //! constructors for HIR types whose fields/constructors are crate-private
    use crate::hir::*;
    pub fn borrow(mutable: bool) -> Borrow {
        Borrow { lifetime: MaybeStatic::Static, mutability: if mutable { Mutability::Mutable } else { Mutability::Immutable } }
    }
    pub fn enum_type() -> Type {
        Type::Enum(EnumPath { tcx_id: super::EnumId(0) })
    }
    pub fn opaque_type(optional: bool) -> Type {
        Type::Opaque(OpaquePath {
            lifetimes: Lifetimes::from_fn(&[], |_| MaybeStatic::Static),
            optional: Optional(optional),
            owner: Borrow { lifetime: MaybeStatic::Static, mutability: Mutability::Immutable },
            tcx_id: super::OpaqueId(0),
        })
    }
}
