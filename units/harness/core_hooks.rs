// ---- /verif hook (cfg(kani) only, add-only): constructors for values of #[non_exhaustive]/private-field types
#[cfg(kani)]
impl TypeContext {
    pub fn __verif_empty() -> Self {
        TypeContext { out_structs: Vec::new(), structs: Vec::new(), opaques: Vec::new(), enums: Vec::new(), traits: Vec::new() }
    }
}
