#[cfg(kani)]
mod verif_write_more {
    //! diplomat_simple_write (fixed caller buffer) and diplomat_buffer_write_* (Rust-owned buffer).
    use super::*;
    use core::fmt::Write;
    const N: usize = @N@;

    // ---------------------------------------------------------------- fixed-size writer
    #[kani::proof]
    #[kani::unwind(@UNWIND@)]
    fn simple_write_contract() {
        // caller buffer of exactly `n` bytes followed by nothing: any access past n-1 is an OOB for CBMC
        let n: usize = kani::any();
        kani::assume(n >= 1 && n <= N);
        let mut v = Vec::<u8>::with_capacity(n);
        let buf = v.as_mut_ptr();
        core::mem::forget(v);
        let mut w = unsafe { diplomat_simple_write(buf, n) };
        assert!(w.cap == n - 1 && w.len == 0 && !w.grow_failed && w.buf == buf);
        // two chunks of arbitrary bytes
        let c1: [u8; N] = kani::any();
        let l1: usize = kani::any();
        kani::assume(l1 <= N);
        let c2: [u8; N] = kani::any();
        let l2: usize = kani::any();
        kani::assume(l2 <= N);
        let s1 = unsafe { core::str::from_utf8_unchecked(&c1[..l1]) };
        let s2 = unsafe { core::str::from_utf8_unchecked(&c2[..l2]) };
        assert!(w.write_str(s1).is_ok());
        assert!(w.write_str(s2).is_ok());
        w.flush();
        // model of "concatenation of the chunks written before the first failed growth"
        let fit1 = l1 <= n - 1;
        let fit2 = fit1 && l1 + l2 <= n - 1;
        let exp_len = if fit2 { l1 + l2 } else if fit1 { l1 } else { 0 };
        assert!(w.len == exp_len);
        assert!(w.grow_failed == !fit2);
        assert!(w.buf == buf && w.cap == n - 1);
        let i: usize = kani::any();
        if i < exp_len {
            let got = unsafe { *buf.add(i) };
            assert!(got == if i < l1 { c1[i] } else { c2[i - l1] });
        }
        // NUL terminator inside the caller's buffer, directly after the content
        assert!(exp_len <= n - 1);
        assert!(unsafe { *buf.add(exp_len) } == 0);
        // flush is idempotent
        w.flush();
        assert!(w.len == exp_len && unsafe { *buf.add(exp_len) } == 0);
        // accessors report failure as null / 0
        assert!(diplomat_buffer_write_get_bytes(&w).is_null() == w.grow_failed);
        assert!(diplomat_buffer_write_len(&w) == if w.grow_failed { 0 } else { exp_len });
        kani::cover!(fit2 && l1 > 0 && l2 > 0);
        kani::cover!(fit1 && !fit2);
        kani::cover!(!fit1);
        kani::cover!(fit2 && l1 + l2 == n - 1);
    }

    // ---------------------------------------------------------------- Rust-owned growable writer
    #[kani::proof]
    #[kani::unwind(@UNWIND2@)]
    fn buffer_write_contract() {
        let cap: usize = kani::any();
        kani::assume(cap <= N);
        let wp = diplomat_buffer_write_create(cap);
        let w = unsafe { &mut *wp };
        assert!(w.cap == cap && w.len == 0 && !w.grow_failed);
        let c1: [u8; N] = kani::any();
        let l1: usize = kani::any();
        kani::assume(l1 <= N);
        let c2: [u8; N] = kani::any();
        let l2: usize = kani::any();
        kani::assume(l2 <= N);
        let s1 = unsafe { core::str::from_utf8_unchecked(&c1[..l1]) };
        let s2 = unsafe { core::str::from_utf8_unchecked(&c2[..l2]) };
        assert!(w.write_str(s1).is_ok());
        assert!(w.write_str(s2).is_ok());
        w.flush();
        // this writer's grow never fails: everything written is present
        assert!(!w.grow_failed);
        assert!(w.len == l1 + l2 && w.len <= w.cap);
        assert!(diplomat_buffer_write_len(w) == l1 + l2);
        let p = diplomat_buffer_write_get_bytes(w);
        assert!(!p.is_null() && p == w.buf);
        let i: usize = kani::any();
        if i < l1 + l2 {
            let got = unsafe { *p.add(i) };
            assert!(got == if i < l1 { c1[i] } else { c2[i - l1] });
        }
        // destroy frees the Box and the buffer exactly once (CBMC double/invalid free checks)
        unsafe { diplomat_buffer_write_destroy(wp) };
        kani::cover!(cap == 0 && l1 > 0 && l2 > 0);
        kani::cover!(l1 + l2 > cap && cap > 0 && l1 <= cap, "second write grows");
        kani::cover!(l1 + l2 <= cap && l1 > 0, "no growth");
    }

    #[kani::proof]
    fn accessors_contract() {
        // get_bytes / len: null / 0 exactly when grow_failed
        extern "C" fn fl(_: *mut DiplomatWrite) {}
        extern "C" fn gr(_: *mut DiplomatWrite, _: usize) -> bool { false }
        let mut x: u8 = 0;
        let w = DiplomatWrite { context: ptr::null_mut(), buf: &mut x, len: kani::any(), cap: kani::any(), grow_failed: kani::any(), flush: fl, grow: gr };
        let p = diplomat_buffer_write_get_bytes(&w);
        let l = diplomat_buffer_write_len(&w);
        if w.grow_failed {
            assert!(p.is_null() && l == 0);
        } else {
            assert!(p == w.buf && l == w.len);
        }
    }

    #[kani::proof]
    fn write_layout() {
        // field order context, buf, len, cap, grow_failed, flush, grow as mirrored by DiplomatWrite in C
        extern "C" fn fl(_: *mut DiplomatWrite) {}
        extern "C" fn gr(_: *mut DiplomatWrite, _: usize) -> bool { false }
        let w = DiplomatWrite { context: ptr::null_mut(), buf: ptr::null_mut(), len: 0, cap: 0, grow_failed: false, flush: fl, grow: gr };
        let base = &w as *const _ as usize;
        let p = core::mem::size_of::<usize>();
        assert!(&w.context as *const _ as usize - base == 0);
        assert!(&w.buf as *const _ as usize - base == p);
        assert!(&w.len as *const _ as usize - base == 2 * p);
        assert!(&w.cap as *const _ as usize - base == 3 * p);
        assert!(&w.grow_failed as *const _ as usize - base == 4 * p);
        assert!(&w.flush as *const _ as usize - base == 5 * p);
        assert!(&w.grow as *const _ as usize - base == 6 * p);
        assert!(core::mem::size_of::<DiplomatWrite>() == 7 * p);
    }
}
