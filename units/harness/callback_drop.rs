#[cfg(kani)]
mod verif_callback {
    use super::*;
    static mut CALLS: u32 = 0;
    static mut SEEN: usize = 0;

    unsafe extern "C" fn dtor(data: *mut c_void) {
        CALLS += 1;
        SEEN = data as usize;
    }
    unsafe extern "C" fn run_fixed(_d: *mut c_void) -> u32 {
        7
    }
    /// never called by the harnesses; only stored (defining a variadic fn needs an unstable feature)
    fn run_u32() -> unsafe extern "C" fn(*mut c_void, ...) -> u32 {
        unsafe { core::mem::transmute::<unsafe extern "C" fn(*mut c_void) -> u32, unsafe extern "C" fn(*mut c_void, ...) -> u32>(run_fixed) }
    }

    #[kani::proof]
    fn drop_calls_destructor_exactly_once() {
        let has: bool = kani::any();
        let tag: usize = kani::any();
        let cb: DiplomatCallback<u32> = DiplomatCallback {
            data: tag as *mut c_void,
            run_callback: run_u32(),
            destructor: if has { Some(dtor) } else { None },
        };
        assert!(unsafe { CALLS } == 0);
        drop(cb);
        if has {
            assert!(unsafe { CALLS } == 1);
            assert!(unsafe { SEEN } == tag);
        } else {
            assert!(unsafe { CALLS } == 0);
        }
        kani::cover!(has);
        kani::cover!(!has);
    }

    #[kani::proof]
    fn callback_layout() {
        // field order data, run_callback, destructor as mirrored by C (DiplomatCallback_* structs)
        let cb: DiplomatCallback<u32> = DiplomatCallback { data: core::ptr::null_mut(), run_callback: run_u32(), destructor: None };
        let base = &cb as *const _ as usize;
        let w = core::mem::size_of::<usize>();
        assert!(&cb.data as *const _ as usize - base == 0);
        assert!(&cb.run_callback as *const _ as usize - base == w);
        assert!(&cb.destructor as *const _ as usize - base == 2 * w);
        assert!(core::mem::size_of::<DiplomatCallback<u32>>() == 3 * w);
        // Option<fn> uses the null niche: a C NULL destructor is None
        let none: Option<unsafe extern "C" fn(*mut c_void)> = None;
        let bits: usize = unsafe { core::mem::transmute(none) };
        assert!(bits == 0);
        core::mem::forget(cb);
    }
}
