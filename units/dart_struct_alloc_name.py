"""V dart_struct_alloc_name: tool/src/dart/mod.rs gen_struct_def::alloc_name (nested fn, verbatim, recursive) — the allocator expression handed to the
Dart->C conversion of a struct field.  The consumer (gen_dart_to_c_for_type, Slice arm) does `alloc.expect("need allocator for slice")` for every slice
that carries a lifetime, and reaches that arm through any number of DiplomatOption layers; struct fields are converted into the temporary arena.
Contract (callee precondition checked at the producer): whenever the field type contains, under DiplomatOption layers, a slice with a lifetime or a
struct, alloc_name answers Some."""
import re
from rsrc import Src, Piece, rule_panics
from verus_engine import VerusFile, CANARY
from common import Undecided
import vhelp

NAME = "dart_struct_alloc_name"
ENGINE = "verus"
PROPERTIES = {"C15": "Dart struct-field conversion: the allocator gen_dart_to_c_for_type `expect`s exists for every field type that needs one (borrowed slices and structs, also inside DiplomatOption)"}
DART = "tool/src/dart/mod.rs"
LT = "core/src/hir/lifetimes.rs"

PRELUDE = r"""
#[verifier::external_body] pub fn __msg() -> String { unimplemented!() }
#[verifier::external_body] pub struct NameText { x: u8 }
pub struct LifetimeEnv { pub x: u8 }
impl LifetimeEnv { #[verifier::external_body] pub fn fmt_lifetime(&self, lt: Lifetime) -> NameText { unimplemented!() } }
#[derive(Copy, Clone)] pub struct Slice { pub lt: Option<MaybeStatic<Lifetime>> }
impl Slice {
    // hir::Slice::lifetime (read: core/src/hir/types.rs); E12: returned by value (MaybeStatic<Lifetime> is Copy)
    pub fn lifetime(&self) -> (r: Option<MaybeStatic<Lifetime>>) ensures r == self.lt { self.lt }
}
pub struct StructDef { pub lifetimes: LifetimeEnv }
// E12: hir::Type<P> with the variants alloc_name distinguishes
pub enum Type { Struct(u8), Slice(Slice), DiplomatOption(Box<Type>), Other(u8) }
impl Type {
    // hir::Type::unwrap_option (read: core/src/hir/types.rs:148): one DiplomatOption layer peeled, anything else unchanged
    #[verifier::external_body] pub fn unwrap_option(&self) -> (r: &Type) ensures *r == (match *self { Type::DiplomatOption(o) => *o, _ => *self }) { unimplemented!() }
}
pub mod hir { pub use super::Type; pub use super::StructDef; }
// what the consumer needs (gen_dart_to_c_for_type: `alloc.expect(..)` in the Slice arm when `s.lifetime()` is Some; the DiplomatOption arm
// recurses with the same allocator; the Struct arm passes "temp"): read from the consumer, not from this function
pub open spec fn needs_alloc(t: Type) -> bool decreases t {
    match t {
        Type::Slice(s) => s.lt is Some,
        Type::Struct(_) => true,
        Type::DiplomatOption(inner) => needs_alloc(*inner),
        _ => false,
    }
}
// dart declares static_slices = false: lowering rejects 'static slices, so no field slice is 'static (unit lower_type_gate, C13 clause)
pub open spec fn no_static_slice(t: Type) -> bool decreases t {
    match t {
        Type::Slice(s) => s.lt != Some(MaybeStatic::<Lifetime>::Static),
        Type::DiplomatOption(inner) => no_static_slice(*inner),
        _ => true,
    }
}
"""


def build(tier):
    vf = VerusFile(NAME)
    dart = Src(DART)
    lt = Src(LT)
    vf.add(vhelp.HEADER)
    vhelp.typedef(vf, lt, "Lifetime", "struct", derive=vhelp.FIELDLESS_DERIVE, pub_tuple_fields=True)
    vhelp.typedef(vf, lt, "MaybeStatic", "enum", derive="#[derive(Copy, Clone, PartialEq, Eq, Structural)]")
    vf.add(PRELUDE)
    it = dart.item("impl TyGenContext<'_,'cx>::fn gen_struct_def::alloc_name", "fn")
    p = Piece(dart, it)
    p.sub("E12", r"<P: TyPosition>", "", count=1, why="TyPosition marker erased")
    p.sub("E12", r"ty: &hir::StructDef<P>", "ty: &hir::StructDef", count=1, why="TyPosition marker erased")
    p.sub("E12", r"field_ty: &Type<P>", "field_ty: &Type", count=1, why="TyPosition marker erased")
    p.sub("E6", r'format!\((?:[^()]|\([^()]*\))*\)', "__msg()", count="+", why="generated text dropped")
    p.sub("E6", r'"temp"\.into\(\)', "__msg()", count=None, why="generated text dropped")
    p.sub("E13", r"if let &(hir::Type::\w+\([^)]*\)) = field_ty", r"if let \1 = *field_ty", count="+", why="reference pattern `&P = e` spelled `P = *e` (same match; Verus has no ref patterns)")
    p.fn("E5", rule_panics, why="panic! arm becomes an obligation")
    p.contract(f"""        requires no_static_slice(*field_ty),
        ensures {CANARY}
            needs_alloc(*field_ty) ==> r is Some,
        decreases field_ty,""", ret_name="r")
    vf.add_piece(p, expected="alloc_name")
    vf.add(vhelp.FOOTER)
    return vf


CANARY_FUNCTIONS = ["alloc_name"]
ASSUMPTIONS = [
    "hir::Type / Slice / StructDef re-declared with what alloc_name reads (E12); generated text dropped (E6)",
    "needs_alloc is read from the consumer gen_dart_to_c_for_type (Slice / Struct / DiplomatOption arms); that gen_struct_def passes alloc_name's result for the same field is two adjacent statements (read)",
    "precondition no_static_slice: dart declares static_slices = false and lowering rejects 'static slices for it (unit lower_type_gate)",
]
UNVERIFIED = {"C15": ["gen_dart_to_c_for_type itself (the consumer of the allocator)", "Slice::Strs reports the pseudo lifetime usize::MAX, which fmt_lifetime is then asked to name (not examined)"]}
