"""V c_method_params: the parameter list the C backend declares for a method has exactly one entry per Rust parameter:
self (if any), every parameter in order, and the trailing DiplomatWrite* exactly when the method writes
(Infallible(Write) | Fallible(Write, _) | Nullable(Write)).  Function-prefix extraction of tool/src/c/ty.rs gen_method."""
import re
from rsrc import Src, Piece, rule_panics, rule_format_msgs
from verus_engine import VerusFile, CANARY
from common import Undecided
import vhelp

NAME = "c_method_params"
ENGINE = "verus"
PROPERTIES = {"C01": "C declaration has the parameter count of the compiled extern \"C\" function (incl. the DiplomatWrite* of write-out methods for every return shape)",
              "C10": "Option<()> and Result<(), E> write-out methods get the same trailing write parameter",
              "C15": "gen_method's unreachable! arms"}
F = "tool/src/c/ty.rs"
METHODS = "core/src/hir/methods.rs"

PRELUDE = r"""
global size_of usize == 8;
// ---- opaque carriers
#[verifier::external_body] pub struct CowStr { x: u8 }
impl From<&str> for CowStr { #[verifier::external_body] fn from(s: &str) -> CowStr { unimplemented!() } }
impl From<String> for CowStr { #[verifier::external_body] fn from(s: String) -> CowStr { unimplemented!() } }
#[verifier::external_body] pub fn __msg() -> String { unimplemented!() }
#[verifier::external_body] pub struct IdentBuf { x: u8 }
impl IdentBuf { #[verifier::external_body] pub fn as_str(&self) -> &str { unimplemented!() } }
#[verifier::external_body] pub struct OutType { x: u8 }
#[verifier::external_body] pub struct InType { x: u8 }
#[verifier::external_body] pub struct SelfType { x: u8 }
impl Clone for SelfType { #[verifier::external_body] fn clone(&self) -> Self { unimplemented!() } }
impl From<SelfType> for InType { #[verifier::external_body] fn from(s: SelfType) -> InType { unimplemented!() } }
#[verifier::external_body] pub struct Attrs { x: u8 }
#[verifier::external_body] pub struct Docs { x: u8 }
#[verifier::external_body] pub struct LifetimeEnv { x: u8 }
#[verifier::external_body] pub struct Header { x: u8 }
#[verifier::external_body] pub struct CallbackAndStructDef { x: u8 }
#[verifier::external_body] pub struct CFormatter { x: u8 }
impl CFormatter { #[verifier::external_body] pub fn fmt_write_name(&self) -> CowStr { unimplemented!() } }
pub trait AnyType {}
impl AnyType for OutType {}
impl AnyType for InType {}
"""

HIR = r"""
pub struct ParamSelf { pub ty: SelfType, pub attrs: Attrs }
pub struct Param { pub name: IdentBuf, pub ty: InType, pub attrs: Attrs }
pub struct Method { pub docs: Docs, pub name: IdentBuf, pub abi_name: IdentBuf, pub lifetime_env: LifetimeEnv,
                    pub param_self: Option<ParamSelf>, pub params: Vec<Param>, pub output: ReturnType, pub attrs: Attrs }
pub mod hir { pub use super::Method; pub use super::ReturnType; pub use super::SuccessType; pub use super::OutType; }

pub struct TyGenContext<'cx> { pub formatter: &'cx CFormatter }

// ---- oracle: the compiled extern "C" function takes self (if any), every parameter, and a trailing
// `&mut DiplomatWrite` exactly when the method's success type is Write — whatever the fallibility wrapper
pub open spec fn success_of(r: ReturnType) -> SuccessType {
    match r { ReturnType::Infallible(s) => s, ReturnType::Fallible(s, _) => s, ReturnType::Nullable(s) => s }
}
pub open spec fn expected_param_count(m: &Method) -> int {
    (if m.param_self is Some { 1int } else { 0int }) + m.params@.len() + (if success_of(m.output) is Write { 1int } else { 0int })
}

impl<'tcx> TyGenContext<'tcx> {
    #[verifier::external_body]
    fn gen_ty_decl(&self, ty: &InType, ident: &str, header: &mut Header, method_abi_name: Option<String>, cb_structs_and_defs: &mut Vec<CallbackAndStructDef>) -> (CowStr, CowStr)
    { unimplemented!() }
    #[verifier::external_body]
    fn gen_ty_name(&self, ty: &OutType, header: &mut Header) -> CowStr { unimplemented!() }
    #[verifier::external_body]
    fn gen_result_ty(&self, fn_name: &str, ok_ty: Option<&OutType>, err_ty: Option<&OutType>, header: &mut Header) -> String { unimplemented!() }
"""

CONTRACT = f"""        ensures {CANARY}
            r@.len() == expected_param_count(method),"""

LOOP_INV = """            invariant
                param_decls@.len() == (if method.param_self is Some { 1int } else { 0int }) + it.index@,"""


def build(tier):
    vf = VerusFile(NAME)
    src = Src(F)
    ms = Src(METHODS)
    vf.add(vhelp.HEADER)
    vf.add(PRELUDE)
    vhelp.typedef(vf, ms, "SuccessType", "enum")
    vhelp.typedef(vf, ms, "ReturnType", "enum")
    vf.add(HIR)
    it = src.item("impl TyGenContext<'_,'tcx>::gen_method", "fn")
    stmts = it.get("stmts", [])
    k = None
    for i, (a, b) in enumerate(stmts):
        t = src.slice(a, b)
        if t.startswith("let params") or ("param_decls" in t and ".into_iter()" in t):
            k = i
            break
    if k is None or k == 0:
        raise Undecided("anchor-lost", "gen_method: the statement that consumes `param_decls` (`let params = ..`) was not found")
    # E16: function prefix — cut just before the statement that consumes the finished parameter list; return the list
    frag = dict(it)
    frag["end"] = stmts[k - 1][1]
    frag["path"] = it["path"] + "#prefix(.. before `let params`)"
    p = Piece(src, frag)
    p.expect_loops(1)
    (r0, r1) = it["ret"]
    p.replace("E16", r0, r1, "(r: Vec<(CowStr, CowStr)>)", "function prefix returns the parameter declarations built so far")
    p.insert("E4", it["body_open"], "\n" + CONTRACT + "\n", "contract")
    p.loop_spec(0, LOOP_INV, iter_name="it")
    p.sub("E7", r"in it: &method\.params", "in it: method.params.iter()", count=1, why="`for x in &vec` spelled `vec.iter()`")
    p.sub("E12", r"[ \t]*use diplomat_core::hir::\{ReturnType, SuccessType\};\n", "", count=None, why="path re-rooted")
    p.sub("E12", r"[ \t]*use itertools::Itertools;\n?", "", count=None, why="import only needed by the dropped suffix")
    p.sub("E12", r"method: &'tcx hir::Method", "method: &'tcx Method", count=1)
    p.sub("E3", r"Cow<str>", "CowStr", count=None, why="Cow<str> carried opaquely")
    p.fn("E6", rule_format_msgs, why="string formatting abstracted")
    p.sub("E6", r"abi_name\.into\(\)", "__msg()", count=None, why="&str -> String conversion abstracted")
    p.fn("E5", rule_panics, why="unreachable! arms become obligations")
    text = p.render()
    vf.add(text + "\n        param_decls\n    }\n}\n",
           origin={"file": F, "item": frag["path"], "line": src.line_of(p.a), "end_line": src.line_of(p.b)}, edits=p.log)
    vf.functions.append({"path": frag["path"], "file": F, "line": src.line_of(p.a), "end_line": src.line_of(p.b), "engine": "verus",
                         "mode": "verus (function prefix before `let params`)", "bound": "none"})
    vf.expected.append("gen_method")
    vf.add(vhelp.FOOTER)
    return vf


CANARY_FUNCTIONS = ["gen_method"]
ASSUMPTIONS = [
    "E16: only the prefix of gen_method before the statement that consumes `param_decls` (`let params = ..`) is verified; the joining of the declarations into text (itertools join, format!) is dropped",
    "gen_ty_decl / gen_ty_name / gen_result_ty / fmt_write_name are abstract (they produce the strings); hir::Method / Param / ParamSelf re-declared with the fields read here; ReturnType / SuccessType extracted verbatim from core",
    "only the NUMBER of declarations is specified (strings are opaque): order follows from the straight-line push sequence self, params in order, write last",
]
UNVERIFIED = {"C01": ["text of each declaration (gen_ty_decl, templates)"], "C10": [], "C15": []}
