"""V js_return_conv: tool/src/js/converter.rs gen_c_to_js_for_return_type, the arm for `Result<T, E>` with an error payload: the
statement that names the error type assumes that every error type has a TypeId (`e.id().unwrap()`).  hir::Type::id (verbatim)
returns a TypeId exactly for structs, opaques and enums; lowering also accepts primitives (and borrowed slices) as error payloads."""
import re
from rsrc import Src, Piece
from verus_engine import VerusFile, CANARY
from common import Undecided
import vhelp

NAME = "js_return_conv"
ENGINE = "verus"
PROPERTIES = {"C15": "JS (and demo_gen) return conversion: `e.id().unwrap()` on the error type of a fallible method is reachable with None (known finding)"}
CONV = "tool/src/js/converter.rs"
TYPES = "core/src/hir/types.rs"

PRELUDE = r"""
#[derive(Copy, Clone, PartialEq, Eq, Structural)] pub struct OpaqueId(pub usize);
#[derive(Copy, Clone, PartialEq, Eq, Structural)] pub struct EnumId(pub usize);
#[derive(Copy, Clone, PartialEq, Eq, Structural)] pub struct StructId(pub usize);
#[derive(Copy, Clone, PartialEq, Eq, Structural)] pub struct OutStructId(pub usize);
#[derive(Copy, Clone, PartialEq, Eq, Structural)] pub enum TypeId { Struct(StructId), OutStruct(OutStructId), Opaque(OpaqueId), Enum(EnumId) }
pub struct OpaquePath { pub tcx_id: OpaqueId }
pub struct EnumPath { pub tcx_id: EnumId }
#[derive(Copy, Clone)] pub struct StructPath { pub tcx_id: TypeId }
impl StructPath { pub fn id(&self) -> (r: TypeId) ensures r == self.tcx_id { self.tcx_id } }
// E12: TyPosition marker erased; payloads that Type::id does not inspect are opaque
pub enum Type { Primitive(u8), Opaque(OpaquePath), Struct(StructPath), Enum(EnumPath), Slice(u8), Callback(u8), DiplomatOption(Box<Type>) }
#[verifier::external_body] pub struct CowStr { x: u8 }
#[verifier::external_body] pub struct JsFormatter { x: u8 }
impl JsFormatter { #[verifier::external_body] pub fn fmt_type_name(&self, id: TypeId) -> CowStr { unimplemented!() } }
pub struct TyGenContext<'ctx> { pub formatter: &'ctx JsFormatter }
// error payloads the lowering gate lets through (unit lower_type_gate: lower_return_type / allowed_out with in_result_option): everything
// that is an output type - primitives, enums, structs, opaques (Box / &), borrowed slices, DiplomatOption of those
pub open spec fn accepted_error_type(t: Type) -> bool { !(t is Callback) }
"""


def build(tier):
    vf = VerusFile(NAME)
    conv = Src(CONV)
    types = Src(TYPES)
    vf.add(vhelp.HEADER)
    vf.add(PRELUDE)
    vf.add("impl Type {\n")
    p = Piece(types, types.item("impl Type<P>::id", "fn"))
    p.contract(f"        ensures {CANARY} (r is Some) == ((*self is Opaque) || (*self is Enum) || (*self is Struct)),", ret_name="r")
    vf.add_piece(p, expected="id")
    vf.add("}\n")
    it = conv.item("impl TyGenContext<'_,'tcx>::gen_c_to_js_for_return_type", "fn")
    body = conv.slice(it["start"], it["end"])
    m = re.search(r"ReturnType::Fallible\(s, Some\(e\)\) => \{\s*(let type_name = self\.formatter\.fmt_type_name\(e\.id\(\)\.unwrap\(\)\);)", body)
    if not m:
        raise Undecided("anchor-lost", "gen_c_to_js_for_return_type: `let type_name = self.formatter.fmt_type_name(e.id().unwrap());` at the start of the `Fallible(s, Some(e))` arm not found")
    a = it["start"] + m.start(1)
    b = it["start"] + m.end(1)
    frag = {"path": it["path"] + "#Fallible(s, Some(e)) arm: let type_name", "kind": "stmt", "start": a, "after_attrs": a, "end": b, "loops": []}
    p = Piece(conv, frag)
    org = {"file": CONV, "item": frag["path"], "line": conv.line_of(a), "end_line": conv.line_of(b)}
    vf.add("impl<'ctx> TyGenContext<'ctx> {\n    // E15: first statement of the `ReturnType::Fallible(s, Some(e))` arm of gen_c_to_js_for_return_type, as a function of the error type\n"
           "    fn js_error_type_name(&self, e: &Type) -> (type_name: CowStr)\n        requires accepted_error_type(*e),\n    {\n        ", origin=org)
    vf.add(p.render(), origin=org, edits=p.log)
    vf.add("\n        type_name\n    }\n}\n", origin=org)
    vf.functions.append({"path": frag["path"], "file": CONV, "line": conv.line_of(a), "end_line": conv.line_of(b), "engine": "verus", "mode": "verus (statement fragment, E15)", "bound": "none"})
    vf.expected.append("js_error_type_name")
    vf.add(vhelp.FOOTER)
    return vf


CANARY_FUNCTIONS = ["id"]
ASSUMPTIONS = [
    "hir::Type re-declared with the variants Type::id distinguishes (E12: TyPosition marker erased); StructPathLike::id abstract",
    "which error payload types lowering accepts is taken from the contract of lower_return_type (unit lower_type_gate): every output type",
    "E15: only the first statement of the `Fallible(s, Some(e))` arm of gen_c_to_js_for_return_type is under contract",
]
UNVERIFIED = {"C15": ["the rest of gen_c_to_js_for_return_type"]}
