"""K layout_prims: tool/src/js/layout.rs primitive/leaf layouts vs the wasm32 C ABI; bounded end-to-end struct_field_info."""
from kunit import define
F = "tool/src/js/layout.rs"
E = [
    ("primitive_layout_is_wasm32", "primitive_size_alignment(p) == wasm32 C ABI (size, align) for all 17 primitives (host Layout::new values coincide; usize via the u32 alias)", [(F, "primitive_size_alignment")], 2, ["C08", "C15"], "complete", "none (finite domain)"),
    ("leaf_types_layout_and_callee_contract", "type_size_alignment_and_scalar_count on every non-struct field type (15 primitives, enum, opaque refs, 3 slice kinds, DiplomatOption<primitive|enum>) == independent wasm32/repr(C) oracle; establishes the callee contract assumed by Verus unit layout_arith (align power of two <= 16, size % align == 0, scalars <= size)",
     [(F, "type_size_alignment_and_scalar_count"), (F, "opaque_size_alignment"), (F, "primitive_size_alignment")], 3, ["C08", "C15"], "complete", "none (finite domain; nested structs excluded)"),
    ("struct_fields_arity_1", "whole real struct_field_info vs repr(C) oracle: offsets, size, align, padding count x width == gap, width == preceding field's align, scalar counts", [(F, "struct_field_info")], None, ["C08"], "bounded", "exactly 1 field, 37 leaf field types"),
    ("struct_fields_arity_2", "same, 2 fields", [(F, "struct_field_info")], None, ["C08"], "bounded", "exactly 2 fields, 37^2 combinations"),
    ("struct_fields_arity_3", "same, 3 fields", [(F, "struct_field_info")], None, ["C08"], "bounded", "exactly 3 fields, 37^3 combinations", ["thorough"]),
    ("struct_fields_arity_4", "same, 4 fields", [(F, "struct_field_info")], None, ["C08"], "bounded", "exactly 4 fields, 37^4 combinations", ["thorough"]),
]
define(globals(), "layout_prims", "tool", F, "verif_layout", "layout_prims.rs",
       {"C08": "leaf layouts equal wasm32 repr(C); bounded end-to-end check of the real routine", "C15": "no panic for leaf types"},
       E, lambda tier: {},
       ["host Layout::new::<T>() values are those of the 64-bit build host; they coincide with wasm32 for every non-pointer primitive (checked against the wasm32 table here)",
        "cfg(kani) constructor hooks for Type::Enum / Type::Opaque appended to core in the scratch copy", "RandomState::new stubbed"],
       {"C08": ["nested struct fields (TypeContext lookup) in the Kani comparison", "JS text generation"], "C15": ["unimplemented! for Option<ZST> (payload rejected by lower_type: zero-sized structs are not accepted as inputs)"]},
       kani_args=["-Z", "stubbing"],
       extra_appends=[("core/src/hir/type_context.rs", "core_hooks.rs"), ("tool/src/lib.rs", "tool_common.rs")],
       quick_elsewhere={"C15": "C08"})
