"""K callback_drop: Drop for DiplomatCallback calls the destructor exactly once."""
from kunit import define
F = "runtime/src/callback.rs"
E = [
    ("drop_calls_destructor_exactly_once", "Drop for DiplomatCallback: destructor(data) called exactly once with the stored data when Some, never when None", [(F, "impl Drop for DiplomatCallback<ReturnType>::drop")], 2, ["C03"], "complete", "none"),
    ("callback_layout", "DiplomatCallback field order data, run_callback, destructor; NULL destructor is None", [], None, ["C01"], "complete", "none"),
]
define(globals(), "callback_drop", "runtime", F, "verif_callback", "callback_drop.rs",
       {"C03": "callbacks with destructors released exactly once", "C01": "callback struct layout"},
       E, lambda tier: {}, ["run_callback is never invoked by the harness (variadic call)"], {"C03": [], "C01": []})
