"""V config_file_fold: tool/src/config.rs Config::read_file — the loop that feeds the parsed config.toml into Config::set: every
top-level key goes through heck's snake-casing, a table `[lang]` contributes `snake(lang).snake(subkey)` for each of its entries, in
table order, each through Config::set (contract of unit config_routing).  So a kebab-case key means whatever its snake-cased form
means, and the file is one more (the first) source of `set` calls."""
import os
import re
from rsrc import Src, Piece
from verus_engine import VerusFile, CANARY
from common import Undecided, VERIF, read
import vhelp
import units.config_routing as CR

NAME = "config_file_fold"
ENGINE = "verus"
PROPERTIES = {"C17": "config.toml is applied key by key through Config::set with every key (and sub-key of a language table) snake-cased first: kebab-case keys in the file mean the same as their snake_case form"}
CFG = "tool/src/config.rs"

EXTRA = r"""
impl Clone for Value { #[verifier::external_body] fn clone(&self) -> (r: Self) ensures r == *self { unimplemented!() } }
impl Config {
    // ---- contract proved in unit config_routing
    #[verifier::external_body] pub fn set(&mut self, key: &Str, value: Value)
@SET_C@
    { unimplemented!() }
}
// heck::AsSnakeCase(s).to_string(): an abstract function of the text (dependency); the property's "kebab-case keys mean the same as
// snake_case keys" then reads: snake(kebab spelling) == snake(snake spelling) == the snake spelling (assumed of heck, see ASSUMPTIONS)
pub uninterp spec fn spec_snake(s: Seq<u8>) -> Seq<u8>;
pub mod heck { use super::*;
    #[verifier::external_body] pub fn snake_string(s: Str) -> (r: Str) ensures r@ == spec_snake(s@) { unimplemented!() }
}
pub open spec fn sub_fold(c: ConfigV, k: Seq<u8>, t: Seq<(Str, Value)>, n: int) -> ConfigV decreases n {
    if n <= 0 { c } else { config_set(sub_fold(c, k, t, n - 1), k + lit(".") + spec_snake(t[n - 1].0@), t[n - 1].1) }
}
pub open spec fn entry_apply(c: ConfigV, e: (Str, Value)) -> ConfigV {
    match e.1 {
        Value::Table(sub) => sub_fold(c, spec_snake(e.0@), sub@, sub@.len() as int),
        _ => config_set(c, spec_snake(e.0@), e.1),
    }
}
pub open spec fn table_fold(c: ConfigV, t: Seq<(Str, Value)>, n: int) -> ConfigV decreases n {
    if n <= 0 { c } else { entry_apply(table_fold(c, t, n - 1), t[n - 1]) }
}
pub open spec fn sub_ok(k: Seq<u8>, t: Seq<(Str, Value)>) -> bool {
    forall|j: int| 0 <= j < t.len() ==> shared_ok(k + lit(".") + spec_snake(#[trigger] t[j].0@), t[j].1)
}
pub open spec fn table_ok(t: Seq<(Str, Value)>) -> bool {
    forall|i: int| 0 <= i < t.len() ==> (match (#[trigger] t[i]).1 { Value::Table(sub) => sub_ok(spec_snake(t[i].0@), sub@), v => shared_ok(spec_snake(t[i].0@), v) })
}
"""


def build(tier):
    vf = VerusFile(NAME)
    cfg = Src(CFG)
    vf.add(vhelp.HEADER)
    vf.add(read(os.path.join(VERIF, "units", "prelude", "str_model.rs")))
    pre = CR.PRELUDE.replace("pub enum Value { String(Str), Boolean(bool), Other(u8) }",
                             "// toml::Table (a BTreeMap<String, Value>) consumed by a `for`: the Vec of its entries in key order\npub enum Value { String(Str), Boolean(bool), Table(Vec<(Str, Value)>), Other(u8) }\npub mod toml { pub use super::Value; }")
    pre = pre.replace("impl Clone for Value { #[verifier::external_body] fn clone(&self) -> (r: Self) ensures r == *self { unimplemented!() } }\n", "")
    if "Table(Vec<(Str, Value)>)" not in pre:
        raise Undecided("internal", "Value definition of config_routing changed")
    vf.add(pre)
    vhelp.typedef(vf, cfg, "SharedConfig", "struct", subs=[("E3s", r"Option<String>", "Option<Str>")])
    vhelp.typedef(vf, cfg, "Config", "struct", subs=[("E2", r"\n\s*#\[serde\([^\]]*\)\]", ""), ("E3", r"HashMap<String, Value>", "OverrideMap")])
    vf.add(CR.SPEC)
    vf.add(EXTRA.replace("@SET_C@", CR.SET_C.replace("@CANARY@", "")))
    it = cfg.item("impl Config::read_file", "fn")
    lps = it.get("loops", [])
    outer = [l for l in lps if cfg.slice(l["start"], l["body_open"]).startswith("for (key, value) in config_table")]
    if len(outer) != 1:
        raise Undecided("anchor-lost", "read_file: `for (key, value) in config_table` not found")
    o = outer[0]
    a, b = o["start"], o["end"]
    loops = [l for l in lps if a <= l["start"] and l["end"] <= b]
    frag = {"path": it["path"] + "#for (key, value) in config_table", "kind": "stmt", "start": a, "after_attrs": a, "end": b, "loops": loops}
    org = {"file": CFG, "item": frag["path"], "line": cfg.line_of(a), "end_line": cfg.line_of(b)}
    p = Piece(cfg, frag)
    p.expect_loops(2)
    p.sub("E6", r"heck::AsSnakeCase\((\w+)\)\.to_string\(\)", r"heck::snake_string(\1)", count="+", why="heck::AsSnakeCase(s).to_string(): abstract dependency function of the text")
    p.sub("E3s", r'format!\("\{\}\.\{\}", (\w+), (\w+)\)', r'Str::concat3(\1, Str::lit("."), \2)', count=1, why='format!("{}.{}", a, b) -> a, ".", b concatenated')
    p.loop_spec(0, """            invariant
                it.seq() == config_table@, table_ok(config_table@),
                cv(*self) == table_fold(cv(*old(self)), config_table@, it.index@ as int),""", iter_name="it")
    p.loop_spec(1, """                    invariant
                        it.seq() == config_table@, table_ok(config_table@), 0 <= it.index@ < it.seq().len(),
                        key@ == spec_snake(it.seq()[it.index@ as int].0@),
                        it.seq()[it.index@ as int].1 == Value::Table(t0),
                        it2.seq() == t0@,
                        cv(*self) == sub_fold(table_fold(cv(*old(self)), config_table@, it.index@ as int), key@, it2.seq(), it2.index@ as int),""", iter_name="it2")
    # the inner loop consumes `t`; keep a ghost copy of the table it iterates for the invariant
    p.sub("E4", r"if let toml::Value::Table\(t\) = value \{", "if let toml::Value::Table(t) = value {\n                let ghost t0 = t;", count=1, why="ghost name for the sub-table (invariant)")
    vf.add("impl Config {\n// E15: the loop statement of read_file as a function of the parsed table\n"
           "fn apply_table(&mut self, config_table: Vec<(Str, Value)>)\n"
           "    requires table_ok(config_table@),\n"
           f"    ensures {CANARY}\n"
           "        cv(*final(self)) == table_fold(cv(*old(self)), config_table@, config_table@.len() as int),\n{\n        ", origin=org)
    vf.add(p.render(), origin=org, edits=p.log)
    vf.add("\n}\n}\n", origin=org)
    vf.functions.append({"path": frag["path"], "file": CFG, "line": cfg.line_of(a), "end_line": cfg.line_of(b), "engine": "verus", "mode": "verus (loop statement, nested loops under invariant)", "bound": "none"})
    vf.expected.append("apply_table")
    vf.add(vhelp.FOOTER)
    return vf


CANARY_FUNCTIONS = ["apply_table"]
ASSUMPTIONS = [
    "E15: only the `for (key, value) in config_table {..}` statement of read_file; reading and parsing the file (fs, str::from_utf8, toml::from_str) is not part of this unit",
    "toml::Table consumed by `for` is carried as the Vec of its entries (BTreeMap: key order); toml::Value re-declared with a recursive Table variant",
    "heck::AsSnakeCase is an abstract function spec_snake of the text; that it maps a kebab-case key and its snake_case spelling to the same snake_case text is ASSUMED of the heck crate (then both spellings reach Config::set as the same key)",
    "Config::set is used through the contract proved in unit config_routing",
] + CR.ASSUMPTIONS[:1]
UNVERIFIED = {"C17": ["fs / UTF-8 / toml parsing of the file", "the heck crate"]}
