"""V return_type_helpers: the hir::ReturnType / SuccessType accessors every backend uses to decide whether a method takes a
trailing DiplomatWrite parameter and what its FFI return is."""
from rsrc import Src, Piece
from verus_engine import VerusFile, CANARY
import vhelp

NAME = "return_type_helpers"
ENGINE = "verus"
PROPERTIES = {"C01": "is_write()/success_type() see through Infallible, Fallible and Nullable alike (write parameter present for every return shape)",
              "C07": "Dart/Kotlin decide the trailing write parameter via method.output.is_write() (Deref to the success type)",
              "C10": "Option<()> and Result<(),E> wrappers expose the same success type"}
F = "core/src/hir/methods.rs"

PRELUDE = r"""
#[verifier::external_body] pub struct OutType { x: u8 }
"""
SPEC = r"""
pub open spec fn success_of(r: ReturnType) -> SuccessType {
    match r { ReturnType::Infallible(s) => s, ReturnType::Fallible(s, _) => s, ReturnType::Nullable(s) => s }
}
"""


def build(tier):
    vf = VerusFile(NAME)
    src = Src(F)
    vf.add(vhelp.HEADER)
    vf.add(PRELUDE)
    vhelp.typedef(vf, src, "SuccessType", "enum")
    vhelp.typedef(vf, src, "ReturnType", "enum")
    vf.add(SPEC)
    vf.add("impl SuccessType {\n")
    for fn, c in [("is_write", "ensures r == (*self is Write),"), ("is_unit", "ensures r == (*self is Unit),"),
                  ("as_type", "ensures match r { Some(t) => *self == SuccessType::OutType(*t), None => !(*self is OutType) },")]:
        p = Piece(src, src.item(f"impl SuccessType::{fn}", "fn"))
        p.contract("        " + c.replace("ensures", f"ensures {CANARY}"), ret_name="r")
        vf.add_piece(p, expected=fn)
    vf.add("}\nimpl ReturnType {\n    // E9: `impl Deref for ReturnType { fn deref }` emitted as an inherent method\n")
    p = Piece(src, src.item("impl Deref for ReturnType::deref", "fn"))
    p.sub("E9", r"&Self::Target", "&SuccessType", count=1, why="associated type written out")
    p.contract(f"        ensures {CANARY} *r == success_of(*self),", ret_name="r")
    p.item = dict(p.item)
    vf.add_piece(p, expected="deref")
    p = Piece(src, src.item("impl ReturnType::is_ffi_unit", "fn"))
    p.contract(f"""        ensures {CANARY} r == match *self {{ ReturnType::Infallible(s) => (s is Unit) || (s is Write), _ => false }},""", ret_name="r")
    vf.add_piece(p, expected="is_ffi_unit")
    p = Piece(src, src.item("impl ReturnType::success_type", "fn"))
    p.contract(f"        ensures {CANARY} *r == success_of(*self),", ret_name="r")
    vf.add_piece(p, expected="success_type")
    vf.add("}\n")
    vf.add(vhelp.FOOTER)
    return vf


ASSUMPTIONS = ["OutType opaque; E9 for the Deref impl", "that each backend calls these accessors (text generators) is read, not proved"]
UNVERIFIED = {"C01": [], "C07": ["gen_method_info / gen_native_method_info parameter assembly (Dart/Kotlin generators)"], "C10": []}
