"""V cpp_disabled_use: tool/src/cpp/ty.rs gen_type_name, the bodies of the `Type::Opaque`, `Type::Struct` and `Type::Enum` arms (E15 ×3):
naming a type whose definition is disabled for the backend pushes the "Found usage of disabled type" diagnostic.  (For Result/Option
payloads this is the ONLY check on the C++ side: c::gen_result_ty drops structs without lowered fields before it looks at them.)"""
import re
from rsrc import Src, Piece, rule_format_msgs, match_close
from verus_engine import VerusFile, CANARY
from common import Undecided
import vhelp

NAME = "cpp_disabled_use"
ENGINE = "verus"
PROPERTIES = {"C13": "a type disabled for the cpp backend (also nanobind, which reuses this generator for C++ types) and named in an enabled method or field is reported: opaque, struct and enum arms of gen_type_name"}
F = "tool/src/cpp/ty.rs"

PRELUDE = r"""
#[derive(Copy, Clone, PartialEq, Eq, Structural)] pub struct TypeId { pub n: u32 }
#[derive(Copy, Clone, PartialEq, Eq, Structural)] pub struct OpaqueId { pub n: u32 }
#[derive(Copy, Clone, PartialEq, Eq, Structural)] pub struct EnumId { pub n: u32 }
impl OpaqueId { pub fn into(self) -> (r: TypeId) ensures r == (TypeId { n: self.n }) { TypeId { n: self.n } } }
impl EnumId { pub fn into(self) -> (r: TypeId) ensures r == (TypeId { n: self.n }) { TypeId { n: self.n } } }
#[derive(Copy, Clone, PartialEq, Eq, Structural)] pub enum Mutability { Immutable, Mutable }
pub mod hir { pub use super::Mutability; }
pub struct Owner { pub owned: bool, pub m: Option<Mutability> }
impl Owner { pub fn mutability(&self) -> Option<Mutability> { self.m } pub fn is_owned(&self) -> bool { self.owned } }
pub struct OpaquePath { pub tcx_id: OpaqueId, pub owner: Owner, pub optional: bool }
impl OpaquePath { pub fn is_optional(&self) -> bool { self.optional } }
pub struct StructPath { pub tcx_id: TypeId }
impl StructPath { pub fn id(&self) -> (r: TypeId) ensures r == self.tcx_id { self.tcx_id } }
pub struct EnumPath { pub tcx_id: EnumId }
#[verifier::external_body] pub struct Text { x: u8 }
impl Clone for Text { #[verifier::external_body] fn clone(&self) -> Self { unimplemented!() } }
impl Text { pub fn into_owned(self) -> Text { self } pub fn into(self) -> Text { self } }
#[verifier::external_body] pub struct Msg { x: u8 }
#[verifier::external_body] pub fn __msg() -> Msg { unimplemented!() }
#[verifier::external_body] pub struct Path { x: u8 }
pub struct AttrsV { pub disable: bool }
pub struct DefView { pub a: AttrsV }
impl DefView { pub fn attrs(&self) -> (r: &AttrsV) ensures *r == self.a { &self.a } }
#[verifier::external_body] pub struct Tcx { x: u8 }
pub uninterp spec fn disabled_in(tcx: &Tcx, id: TypeId) -> bool;
impl Tcx { #[verifier::external_body] pub fn resolve_type(&self, id: TypeId) -> (r: &DefView) ensures r.a.disable == disabled_in(self, id) { unimplemented!() } }
pub struct CCx<'a> { pub tcx: &'a Tcx }
pub struct ErrorStore { pub n: usize }
impl ErrorStore { #[verifier::external_body] pub fn push_error(&mut self, m: Msg) ensures final(self).n == old(self).n + 1 { unimplemented!() } }
#[verifier::external_body] pub struct Includes { x: u8 }
impl Includes { #[verifier::external_body] pub fn insert(&mut self, p: Path) -> bool { unimplemented!() } }
pub struct Header { pub includes: Includes }
impl Header { #[verifier::external_body] pub fn append_forward(&mut self, d: &DefView, n: &Text) { unimplemented!() } }
pub struct Cpp2Formatter { pub x: u8 }
impl Cpp2Formatter {
    #[verifier::external_body] pub fn fmt_type_name(&self, id: TypeId) -> Text { unimplemented!() }
    #[verifier::external_body] pub fn fmt_type_name_unnamespaced(&self, id: TypeId) -> Text { unimplemented!() }
    #[verifier::external_body] pub fn fmt_owned(&self, t: &Text) -> Text { unimplemented!() }
    #[verifier::external_body] pub fn fmt_optional_borrowed(&self, t: &Text, m: Mutability) -> Text { unimplemented!() }
    #[verifier::external_body] pub fn fmt_borrowed(&self, t: &Text, m: Mutability) -> Text { unimplemented!() }
    #[verifier::external_body] pub fn fmt_impl_header_path(&self, id: TypeId) -> Path { unimplemented!() }
    #[verifier::external_body] pub fn fmt_decl_header_path(&self, id: TypeId) -> Path { unimplemented!() }
}
pub struct TyGenContext<'a> { pub formatter: &'a Cpp2Formatter, pub c: CCx<'a>, pub errors: ErrorStore, pub decl_header: Header, pub impl_header: Header, pub generating_struct_fields: bool }
"""

ARMS = [("Opaque", "op", "OpaquePath", "TypeId { n: op.tcx_id.n }"), ("Struct", "st", "StructPath", "st.tcx_id"), ("Enum", "e", "EnumPath", "TypeId { n: e.tcx_id.n }")]


def build(tier):
    vf = VerusFile(NAME)
    src = Src(F)
    vf.add(vhelp.HEADER)
    vf.add(PRELUDE)
    it = src.item("impl TyGenContext<'ccx,'tcx,'_>::gen_type_name", "fn")
    body = src.slice(it["start"], it["end"])
    vf.add("impl<'a> TyGenContext<'a> {\n")
    for (variant, var, pty, idexpr) in ARMS:
        m = re.search(r"Type::" + variant + r"\(ref (\w+)\) => \{", body)
        if not m or m.group(1) != var:
            raise Undecided("anchor-lost", f"cpp gen_type_name: `Type::{variant}(ref {var}) => {{` not found")
        o = m.end() - 1
        c = match_close(body, o)
        a, b = it["start"] + o + 1, it["start"] + c
        frag = {"path": it["path"] + f"#Type::{variant} arm body", "kind": "stmt", "start": a, "after_attrs": a, "end": b, "loops": []}
        org = {"file": F, "item": frag["path"], "line": src.line_of(a), "end_line": src.line_of(b)}
        p = Piece(src, frag)
        p.fn("E6", rule_format_msgs, why="diagnostic text dropped")
        p.sub("E3", r"self\s*\.errors\s*\.push_error\(", "self.errors.push_error(", count=None, why="ErrorStore's interior mutability modelled as &mut (explicit count)")
        vf.add(f"// E15: body of the `Type::{variant}(ref {var})` arm of cpp gen_type_name\n"
               f"fn cpp_name_{variant.lower()}(&mut self, {var}: &{pty}) -> (r: Text)\n"
               f"    ensures {CANARY} disabled_in(old(self).c.tcx, {idexpr}) ==> final(self).errors.n > old(self).errors.n,\n{{", origin=org)
        vf.add(p.render(), origin=org, edits=p.log)
        vf.add("}\n", origin=org)
        vf.functions.append({"path": frag["path"], "file": F, "line": src.line_of(a), "end_line": src.line_of(b), "engine": "verus", "mode": "verus (match arm body)", "bound": "none"})
        vf.expected.append(f"cpp_name_{variant.lower()}")
    vf.add("}\n")
    vf.add(vhelp.FOOTER)
    return vf


CANARY_FUNCTIONS = ["cpp_name_opaque", "cpp_name_struct", "cpp_name_enum"]
ASSUMPTIONS = [
    "E15: the three arm bodies of cpp gen_type_name; formatter / header collaborators abstract; tool::ErrorStore::push_error modelled as a counter on &mut self",
]
UNVERIFIED = {"C13": ["the remaining arms (slices, options, traits: no named user type of their own)"]}
