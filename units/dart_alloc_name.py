"""V dart_alloc_name: tool/src/dart/mod.rs gen_method_info::alloc_name — which allocator a Dart parameter conversion uses.  Its
precondition is the postcondition unit borrow_edges proves for BorrowingParamVisitor::visit_param (how a parameter of a given
type is classified); under it the `unreachable!("Slices must produce slice ParamBorrowInfo")` arm must be dead.  It is not: an
optional slice is classified by its outer type (NotBorrowed) but allocated by its inner type (known finding)."""
import re
from rsrc import Src, Piece, rule_panics
from verus_engine import VerusFile, CANARY
from common import Undecided
import vhelp

NAME = "dart_alloc_name"
ENGINE = "verus"
PROPERTIES = {"C15": "Dart parameter conversion: alloc_name's unreachable! arm under the classification visit_param actually returns (known finding for Option<slice>)",
              "C04": "a slice parameter borrowed by the return value gets its own finalized arena (kept alive through the edge), a temporary one the call-scoped arena"}
DART = "tool/src/dart/mod.rs"
BP = "core/src/hir/methods/borrowing_param.rs"

PRELUDE = r"""
#[verifier::external_body] pub struct CowStr { x: u8 }
impl From<String> for CowStr { #[verifier::external_body] fn from(s: String) -> CowStr { unimplemented!() } }
#[verifier::external_body] pub fn __msg() -> String { unimplemented!() }
#[verifier::external_body] pub struct LifetimeRef { x: u8 }
#[verifier::external_body] pub struct SliceT { x: u8 }
pub uninterp spec fn slice_has_lifetime(s: &SliceT) -> bool;
impl SliceT { #[verifier::external_body] pub fn lifetime(&self) -> (r: Option<&LifetimeRef>) ensures (r is Some) == slice_has_lifetime(self) { unimplemented!() } }
#[verifier::external_body] pub struct StructBorrowInfo<'tcx> { x: &'tcx u8 }
// E12: hir::Type<hir::InputOnly> with the variants alloc_name distinguishes
pub enum Type { Struct(u8), Slice(SliceT), DiplomatOption(Box<Type>), Other(u8) }
pub mod hir { pub use super::Type; }

// ---- what BorrowingParamVisitor::visit_param returns for a parameter of this type (postcondition proved in unit borrow_edges):
// structs: Struct | NotBorrowed; slices: BorrowedSlice | TemporarySlice; everything else - including an OPTIONAL slice or struct,
// which is classified by its outer DiplomatOption type - : BorrowedOpaque | NotBorrowed
pub open spec fn classification_of(ty: Type, k: ParamBorrowInfo) -> bool {
    match ty {
        Type::Struct(_) => (k is Struct) || (k is NotBorrowed),
        Type::Slice(_) => (k is BorrowedSlice) || (k is TemporarySlice),
        _ => (k is BorrowedOpaque) || (k is NotBorrowed),
    }
}
"""


def build(tier):
    vf = VerusFile(NAME)
    dart = Src(DART)
    bp = Src(BP)
    vf.add(vhelp.HEADER)
    vf.add(PRELUDE)
    vhelp.typedef(vf, bp, "ParamBorrowInfo", "enum")
    it = dart.item("impl TyGenContext<'_,'cx>::fn gen_method_info::alloc_name", "fn")
    p = Piece(dart, it)
    p.sub("E12", r"&hir::Type<hir::InputOnly>", "&hir::Type", count=1, why="TyPosition instantiation erased")
    p.sub("E3", r"Vec<Cow<str>>", "Vec<CowStr>", count=1, why="Cow<str> carried opaquely")
    p.sub("E6", r'format!\((?:[^()]|\([^()]*\))*\)', "__msg()", count="+", why="generated text dropped")
    p.sub("E6", r'"temp\.arena"\.to_string\(\)', "__msg()", count=None, why="generated text dropped")
    p.sub("E6", r'"temp\.arena"\.into\(\)', "__msg()", count=None, why="generated text dropped")
    p.fn("E5", rule_panics, why="unreachable! arm becomes an obligation")
    p.contract(f"""        requires classification_of(*param_ty, *param_borrow_kind),
        ensures {CANARY}
            // a slice borrowed by the return value gets a fresh finalized arena of its own; nothing else touches the arena list
            (*param_ty is Slice) && (*param_borrow_kind is BorrowedSlice) ==> final(arenas)@.len() == old(arenas)@.len() + 1 && r is Some,
            !(*param_ty is Slice) && !(*param_ty is DiplomatOption) ==> final(arenas)@ == old(arenas)@,
            // owned (lifetime-less) temporary slices use the Rust allocator, borrowed temporaries and structs the call-scoped arena
            (*param_ty is Struct) ==> r is Some && *final(needs_temp_arena),
        decreases param_ty,""", ret_name="r")
    vf.add_piece(p, expected="alloc_name")
    vf.add(vhelp.FOOTER)
    return vf


CANARY_FUNCTIONS = ["alloc_name"]
ASSUMPTIONS = [
    "precondition classification_of is the return-value postcondition of BorrowingParamVisitor::visit_param proved in unit borrow_edges (trusted link between the two units): that gen_method_info passes exactly visit_param's result for the same parameter is read from the source (two adjacent statements), not proved",
    "hir::Type re-declared with the variants alloc_name distinguishes; Slice::lifetime abstract; generated text dropped (E6)",
]
UNVERIFIED = {"C15": ["the rest of Dart gen_method_info"], "C04": ["that the arena is added to the edge array (template text)"]}
