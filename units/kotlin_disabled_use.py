"""V kotlin_disabled_use: tool/src/kotlin/mod.rs gen_type_name — the Kotlin-side name of a type in a method signature.  A type that is
disabled for the backend must not be named silently: for an opaque, struct or enum whose definition carries `disable`, a diagnostic
("Found usage of disabled type") is pushed, as the C / C++ / Dart / JS / nanobind backends do for every named type."""
import re
from rsrc import Src, Piece, rule_panics, rule_format_msgs
from verus_engine import VerusFile, CANARY
from common import Undecided
import vhelp

NAME = "kotlin_disabled_use"
ENGINE = "verus"
PROPERTIES = {"C13": "a type disabled for the kotlin backend and used in an enabled method's signature is reported (opaque, struct and enum alike), not silently named"}
F = "tool/src/kotlin/mod.rs"

PRELUDE = r"""
#[derive(Copy, Clone, PartialEq, Eq, Structural)] pub struct TypeId { pub n: u32 }
#[derive(Copy, Clone, PartialEq, Eq, Structural)] pub struct OpaqueId { pub n: u32 }
#[derive(Copy, Clone, PartialEq, Eq, Structural)] pub struct EnumId { pub n: u32 }
impl OpaqueId { pub fn into(self) -> (r: TypeId) ensures r == (TypeId { n: self.n }) { TypeId { n: self.n } } }
impl EnumId { pub fn into(self) -> (r: TypeId) ensures r == (TypeId { n: self.n }) { TypeId { n: self.n } } }
#[verifier::external_body] pub struct Rest { x: u8 }
#[verifier::external_body] pub struct PrimitiveType { x: u8 }
impl Clone for PrimitiveType { #[verifier::external_body] fn clone(&self) -> Self { unimplemented!() } }
impl Copy for PrimitiveType {}
pub struct OpaquePath { pub tcx_id: OpaqueId, pub optional: bool }
impl OpaquePath { pub fn is_optional(&self) -> bool { self.optional } }
pub struct StructPath { pub tcx_id: TypeId }
impl StructPath { pub fn id(&self) -> (r: TypeId) ensures r == self.tcx_id { self.tcx_id } }
pub struct EnumPath { pub tcx_id: EnumId }
pub struct TraitPath { pub x: u8 }
impl TraitPath { #[verifier::external_body] pub fn id(&self) -> u32 { unimplemented!() } }
pub enum Slice { Str(Rest, Rest), Primitive(Rest, PrimitiveType), Strs(Rest) }
pub enum Type { Primitive(PrimitiveType), Opaque(OpaquePath), Struct(StructPath), ImplTrait(TraitPath), Enum(EnumPath), Slice(Slice), Callback(Rest), DiplomatOption(Rest) }
pub mod hir { pub use super::Slice; }
#[verifier::external_body] pub struct Text { x: u8 }
impl Clone for Text { #[verifier::external_body] fn clone(&self) -> Self { unimplemented!() } }
impl Text { pub fn into_owned(self) -> Text { self } pub fn into(self) -> Text { self } }
impl From<&'static str> for Text { #[verifier::external_body] fn from(s: &'static str) -> Text { unimplemented!() } }
impl From<String> for Text { #[verifier::external_body] fn from(s: String) -> Text { unimplemented!() } }
#[verifier::external_body] pub struct Msg { x: u8 }
#[verifier::external_body] pub fn __msg() -> Msg { unimplemented!() }
#[verifier::external_body] pub fn __text() -> Text { unimplemented!() }
pub struct AttrsV { pub disable: bool }
pub struct DefView { pub a: AttrsV }
impl DefView { pub fn attrs(&self) -> (r: &AttrsV) ensures *r == self.a { &self.a } }
#[verifier::external_body] pub struct Tcx { x: u8 }
pub uninterp spec fn disabled_in(tcx: &Tcx, id: TypeId) -> bool;
impl Tcx { #[verifier::external_body] pub fn resolve_type(&self, id: TypeId) -> (r: &DefView) ensures r.a.disable == disabled_in(self, id) { unimplemented!() } }
pub struct ErrorStore { pub n: usize }
impl ErrorStore { #[verifier::external_body] pub fn push_error(&mut self, m: Msg) ensures final(self).n == old(self).n + 1 { unimplemented!() } }
pub struct KotlinFormatter { pub x: u8 }
impl KotlinFormatter {
    #[verifier::external_body] pub fn fmt_primitive_as_kt(&self, p: PrimitiveType) -> &'static str { unimplemented!() }
    #[verifier::external_body] pub fn fmt_type_name(&self, id: TypeId) -> Text { unimplemented!() }
    #[verifier::external_body] pub fn fmt_nullable(&self, t: &Text) -> Text { unimplemented!() }
    #[verifier::external_body] pub fn fmt_trait_name(&self, id: u32) -> Text { unimplemented!() }
    #[verifier::external_body] pub fn fmt_string(&self) -> &'static str { unimplemented!() }
    #[verifier::external_body] pub fn fmt_primitive_slice(&self, p: PrimitiveType) -> String { unimplemented!() }
    #[verifier::external_body] pub fn fmt_str_slices(&self) -> &'static str { unimplemented!() }
}
pub struct TyGenContext<'a> { pub formatter: &'a KotlinFormatter, pub tcx: &'a Tcx, pub errors: ErrorStore }
// the definition a named type refers to
pub open spec fn named_id(t: Type) -> Option<TypeId> {
    match t { Type::Opaque(o) => Some(TypeId { n: o.tcx_id.n }), Type::Struct(s) => Some(s.tcx_id), Type::Enum(e) => Some(TypeId { n: e.tcx_id.n }), _ => None }
}
pub open spec fn kt_name_ok(t: Type) -> bool { !(t is DiplomatOption) }   // the missing Option arm: known finding of unit kotlin_native_type_name
"""


def build(tier):
    vf = VerusFile(NAME)
    src = Src(F)
    vf.add(vhelp.HEADER)
    vf.add(PRELUDE)
    vf.add("impl<'a> TyGenContext<'a> {\n")
    p = Piece(src, src.item("impl TyGenContext<'_,'cx>::gen_type_name", "fn"))
    p.sub("E12", r"<P: TyPosition>", "", count=1, why="TyPosition marker erased")
    p.sub("E12", r"ty: &Type<P>", "ty: &Type", count=1, why="TyPosition marker erased")
    p.sub("E3", r"&self,", "&mut self,", count=1, why="tool::ErrorStore's interior mutability (RefCell) modelled as &mut with an explicit count")
    p.sub("E6", r"-> \(r: Cow<'cx, str>\)", "-> (r: Text)", count=1, why="generated text dropped (not judged here)")
    p.fn("E6", rule_format_msgs, why="generated text dropped")
    p.sub("E6", r"__msg\(\)\s*\.into\(\)", "__text()", count=None, why="text")
    p.sub("E6", r"push_error\(__text\(\)\)", "push_error(__msg())", count=None, why="diagnostic message")
    p.sub("E6", r"__msg\(\)\n\s*\.into\(\)", "__text()", count=None)
    p.sub("E6", r"additional_name\.unwrap\(\)", "additional_name", count=None, why="only used in dropped text")
    p.sub("E14", r"match \*ty \{", "match ty {", count=1, why="match on the reference (default binding modes)")
    p.sub("E14", r"\(ref (\w+)\)", r"(\1)", count=None, why="`ref x` under default binding modes")
    p.sub("E14", r"Type::Primitive\(prim\) => self\.formatter\.fmt_primitive_as_kt\(prim\)", "Type::Primitive(prim) => self.formatter.fmt_primitive_as_kt(*prim)", count=1, why="binding is a reference now")
    p.sub("E14", r"fmt_primitive_slice\(ty\)", "fmt_primitive_slice(*ty)", count=1, why="binding is a reference now")
    p.fn("E5", rule_panics, why="unreachable! arm becomes an obligation")
    p.contract(f"""        requires kt_name_ok(*ty),
        ensures {CANARY}
            match named_id(*ty) {{ Some(id) => disabled_in(old(self).tcx, id) ==> final(self).errors.n > old(self).errors.n, None => true }},""", ret_name="r")
    vf.add_piece(p, expected="gen_type_name")
    vf.add("}\n")
    vf.add(vhelp.FOOTER)
    return vf


CANARY_FUNCTIONS = ["gen_type_name"]
ASSUMPTIONS = [
    "hir::Type re-declared with the variants and ids inspected; generated text dropped; tool::ErrorStore::push_error modelled as a counter on &mut self",
    "precondition: not a DiplomatOption (that missing arm is the known finding of unit kotlin_native_type_name)",
]
UNVERIFIED = {"C13": ["gen_native_type_name names structs as `<Name>Native` without its own check (the Kotlin-side name of the same parameter is generated by gen_type_name: read)"]}
