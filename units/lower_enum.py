"""V lower_enum: core/src/hir/lowering.rs LoweringContext::lower_enum (prefix up to the method lowering, E16) — the HIR enum every
backend reads has, on success, exactly the AST enum's variants in order, each with the AST's discriminant and the lowered form of the
same variant's name (no variant dropped, reordered or renumbered, whatever its attributes)."""
import re
from rsrc import Src, Piece
from verus_engine import VerusFile, CANARY
from common import Undecided
import vhelp

NAME = "lower_enum"
ENGINE = "verus"
PROPERTIES = {"C11": "ast -> hir keeps every enum variant's numeric value: hir variants == ast variants position by position (discriminant and name), for any number of variants and any attributes",
              "C15": "no panic site in the prefix"}
F = "core/src/hir/lowering.rs"
DEFS = "core/src/hir/defs.rs"
ENUMS = "core/src/ast/enums.rs"

PRELUDE = r"""
#[verifier::external_body] pub struct IdentBuf { x: u8 }
#[verifier::external_body] pub struct Docs { x: u8 }
impl Clone for Docs { #[verifier::external_body] fn clone(&self) -> (r: Self) ensures r == *self { unimplemented!() } }
#[verifier::external_body] pub struct AttrsRest { x: u8 }
pub struct Attrs { pub disable: bool, pub rest: AttrsRest }
#[derive(Copy, Clone, PartialEq, Eq, Structural)] pub enum AttrInheritContext { Variant, Type, MethodOrImplFromModule, MethodFromImpl, Module }
impl Attrs { #[verifier::external_body] pub fn for_inheritance(&self, c: AttrInheritContext) -> Attrs { unimplemented!() } }
pub mod ast {
    use super::*;
    #[verifier::external_body] pub struct Ident { x: u8 }
    impl Ident { #[verifier::external_body] pub fn as_str(&self) -> &str { unimplemented!() } }
    #[verifier::external_body] pub struct Attrs { x: u8 }
    #[verifier::external_body] pub struct Method { x: u8 }
    pub use super::Docs;
"""
PRELUDE2 = r"""
}
#[verifier::external_body] pub struct ErrorStore { x: u8 }
impl ErrorStore { #[verifier::external_body] pub fn set_item(&mut self, s: &str) { unimplemented!() } }
pub enum AttributeContext<'a> { EnumVariant(&'a EnumVariant), Other }
#[verifier::external_body] pub struct Validator { x: u8 }
impl Validator {
    #[verifier::external_body] pub fn attr_from_ast(&self, a: &ast::Attrs, parent: &Attrs, errors: &mut ErrorStore) -> Attrs { unimplemented!() }
    #[verifier::external_body] pub fn validate(&self, a: &Attrs, c: AttributeContext<'_>, errors: &mut ErrorStore) { unimplemented!() }
}
// lower_ident validates the identifier text (strck): a partial function of the identifier
pub uninterp spec fn spec_ident(i: ast::Ident) -> Option<IdentBuf>;
pub struct ItemAndInfo<'ast> { pub item: &'ast ast::Enum, pub ty_parent_attrs: Attrs }
pub struct LoweringContext { pub errors: ErrorStore, pub attr_validator: Validator }
impl LoweringContext {
    #[verifier::external_body] pub fn lower_ident(&mut self, ident: &ast::Ident, context: &'static str) -> (r: Result<IdentBuf, ()>)
        ensures (r is Ok) == (spec_ident(*ident) is Some), r is Ok ==> r.unwrap() == spec_ident(*ident).unwrap(),
            final(self).attr_validator == old(self).attr_validator { unimplemented!() }
}
// ---- oracle, from the property statement: the i-th HIR variant is the i-th AST variant
pub open spec fn variant_matches(h: EnumVariant, a: (ast::Ident, isize, Docs, ast::Attrs)) -> bool {
    h.discriminant == a.1 && spec_ident(a.0) == Some(h.name)
}
pub open spec fn variants_match(hs: Seq<EnumVariant>, vs: Seq<(ast::Ident, isize, Docs, ast::Attrs)>, n: int) -> bool {
    hs.len() == n && forall|i: int| 0 <= i < n ==> variant_matches(#[trigger] hs[i], vs[i])
}
"""

INV = """            invariant
                ast_enum == item.item, it.seq().len() == ast_enum.variants@.len(),
                forall|j: int| 0 <= j < it.seq().len() ==> *#[trigger] it.seq()[j] == ast_enum.variants@[j],
                variants is Ok ==> variants_match(variants.unwrap()@, ast_enum.variants@, it.index@ as int),"""
TUPLE = """                    let (ident, discriminant, docs, attrs) = (&v__.0, &v__.1, &v__.2, &v__.3);
                    proof { assert(*v__ == ast_enum.variants@[it.index@ as int]); }"""


def build(tier):
    vf = VerusFile(NAME)
    src = Src(F)
    defs = Src(DEFS)
    enums = Src(ENUMS)
    vf.add(vhelp.HEADER)
    vf.add(PRELUDE)
    vhelp.typedef(vf, enums, "Enum", "struct")
    vf.add(PRELUDE2)
    vhelp.typedef(vf, defs, "EnumVariant", "struct")
    it = src.item("impl LoweringContext<'ast>::lower_enum", "fn")
    stmts = it.get("stmts", [])
    k = None
    for i, (a, b) in enumerate(stmts):
        if re.match(r"let mut special_method_presence\b", src.slice(a, b)):
            k = i
    if k is None or k == 0:
        raise Undecided("anchor-lost", "lower_enum: statement `let mut special_method_presence = ..` not found")
    frag = dict(it)
    frag["end"] = stmts[k - 1][1]
    frag["path"] = it["path"] + "#prefix(.. before let mut special_method_presence)"
    frag["loops"] = [l for l in it.get("loops", []) if l["end"] <= frag["end"]]
    p = Piece(src, frag)
    p.expect_loops(1)
    (r0, r1) = it["ret"]
    p.replace("E16", r0, r1, "(r: Result<Vec<EnumVariant>, ()>)", "function prefix returns the lowered variant list")
    p.sub("E12", r"item: ItemAndInfo<'ast, ast::Enum>", "item: ItemAndInfo<'_>", count=1, why="generic item wrapper instantiated for enums")
    p.insert("E4", it["body_open"], f"""
        ensures {CANARY}
            r is Ok ==> variants_match(r.unwrap()@, item.item.variants@, item.item.variants@.len() as int),
""", "contract")
    lp = frag["loops"][0]
    if src.slice(lp["pat"][0], lp["pat"][1]) != "(ident, discriminant, docs, attrs)":
        raise Undecided("anchor-lost", "lower_enum: variant loop pattern changed")
    p.replace("E10", lp["pat"][0], lp["pat"][1], "v__", "tuple pattern in `for` destructured in the body")
    p.loop_spec(0, INV, iter_name="it")
    p.loop_body_prefix(0, TUPLE)
    p.sub("E3", r"let mut variants = Ok\(Vec::with_capacity\(ast_enum\.variants\.len\(\)\)\);", "let mut variants: Result<Vec<EnumVariant>, ()> = Ok(Vec::with_capacity(ast_enum.variants.len()));", count=1,
          why="type of the accumulator written out (inferred from the dropped suffix)")
    text = p.render()
    org = {"file": F, "item": frag["path"], "line": src.line_of(p.a), "end_line": src.line_of(p.b)}
    vf.add("impl LoweringContext {\n")
    vf.add(text + "\n        variants\n    }\n", origin=org, edits=p.log)
    vf.add("}\n")
    vf.functions.append({"path": frag["path"], "file": F, "line": src.line_of(p.a), "end_line": src.line_of(p.b), "engine": "verus",
                         "mode": "verus (function prefix up to the method lowering)", "bound": "none"})
    vf.expected.append("lower_enum")
    vf.add(vhelp.FOOTER)
    return vf


CANARY_FUNCTIONS = ["lower_enum"]
ASSUMPTIONS = [
    "E16: the prefix of lower_enum up to (excluding) `let mut special_method_presence` is verified and returns `variants`; the suffix lowers methods and moves `variants?` into EnumDef::new unchanged (read)",
    "lower_ident, attr_from_ast, validate, for_inheritance are abstract (lower_ident: a partial function of the identifier)",
    "ast::Enum and hir::EnumVariant are the verbatim definitions; ItemAndInfo instantiated for enums with the two fields used",
]
UNVERIFIED = {"C11": ["EnumDef::new stores the vector it is given (read)", "templates printing `variant.discriminant` (C, C++)"], "C15": []}
