"""K linked_lifetimes: hir::LinkedLifetimes::{lifetimes_def_only, lifetimes_all, def_to_use, self_lifetime},
Lifetime::as_method_lifetime, Lifetimes::as_method_lifetimes — the use-site <-> def-site lifetime correspondence that the
borrow visitors walk is positional and total ('static entries keep their slot)."""
from kunit import define
F = "core/src/hir/lifetimes.rs"
B = "<= 3 lifetimes per path in the quick tier, <= 4 in the thorough tier (SmallVec inline capacity 2 is crossed)"
E = [
    ("def_only_pairs_positionally", "lifetimes_def_only yields exactly (use[i], def i) for i in 0..n, in order", [(F, "impl LinkedLifetimes<'def,'tcx>::lifetimes_def_only"), (F, "impl LinkedLifetimes<'def,'tcx>::new")], 1, ["C04"], "bounded", B),
    ("all_pairs_self_first_then_positionally", "lifetimes_all yields the self lifetime (if any) with None, then (use[i], Some(def i))", [(F, "impl LinkedLifetimes<'def,'tcx>::lifetimes_all"), (F, "impl LinkedLifetimes<'def,'tcx>::self_lifetime")], 1, ["C04"], "bounded", B),
    ("def_to_use_is_indexing", "def_to_use(k) == use[k]; Lifetime::as_method_lifetime(k) == method[k]", [(F, "impl LinkedLifetimes<'def,'tcx>::def_to_use"), (F, "impl Lifetime::as_method_lifetime")], 1, ["C04", "C15"], "bounded", B),
    ("as_method_lifetimes_composes", "as_method_lifetimes: 'static stays 'static, NonStatic(j) becomes method[j], arity kept", [(F, "impl Lifetimes::as_method_lifetimes")], 1, ["C04"], "bounded", B),
]
define(globals(), "linked_lifetimes", "core", F, "verif_linked", "linked_lifetimes.rs",
       {"C04": "use-site/def-site lifetime pairs walked by the borrow visitors are positional and total", "C15": "def_to_use's expect is unreachable for in-range def lifetimes"},
       E, lambda tier: ({"N": "4", "U": "7"} if tier == "thorough" else {"N": "3", "U": "6"}),
       ["bounded: at most 3 (quick) / 4 (thorough) lifetimes per path; lifetime indices are arbitrary u8 values"],
       {"C04": ["BorrowingParamVisitor::visit_param and BorrowingFieldVisitor (BTreeMap-based; out of reach)"], "C15": []}, features="hir",
       quick_elsewhere={"C15": "C04"})
