"""V opaque_dtor: ast::OpaqueType::{new_struct,new_enum} compute the destructor's ABI name from the type's FINAL attributes
(inherited abi_rename overridden by the type's own)."""
from rsrc import Src, Piece
from verus_engine import VerusFile, CANARY
import vhelp

NAME = "opaque_dtor"
ENGINE = "verus"
PROPERTIES = {"C06": "Type_destroy symbol: abi_rename patterns inherited from the module AND the type's own abi_rename are applied (the same attrs the HIR and every backend see)"}
F = "core/src/ast/opaque.rs"

PRELUDE = r"""
pub mod syn {
    use vstd::prelude::*;
    #[verifier::external_body] pub struct Ident { x: u8 }
    #[verifier::external_body] pub struct Attribute { x: u8 }
    #[verifier::external_body] pub struct Rest { x: u8 }
    // the fields the constructors read
    pub struct ItemStruct { pub attrs: Vec<Attribute>, pub ident: Ident, pub rest: Rest }
    pub struct ItemEnum { pub attrs: Vec<Attribute>, pub ident: Ident, pub rest: Rest }
}
#[verifier::external_body] pub struct Ident { x: u8 }
pub uninterp spec fn spec_ident(i: syn::Ident) -> Ident;
impl Ident {
    // `Ident::from(&syn::Ident)` (From impl): deterministic conversion, abstract
    #[verifier::external_body] pub fn from(i: &syn::Ident) -> (r: Ident) ensures r == spec_ident(*i) { unimplemented!() }
}
#[verifier::external_body] pub struct Docs { x: u8 }
impl Docs { #[verifier::external_body] pub fn from_attrs(attrs: &Vec<syn::Attribute>) -> Docs { unimplemented!() } }
#[verifier::external_body] pub struct Method { x: u8 }
#[verifier::external_body] pub struct FieldSpec { x: u8 }
#[verifier::external_body] pub struct LifetimeEnv { x: u8 }
impl LifetimeEnv {
    #[verifier::external_body] pub fn from_struct_item(s: &syn::ItemStruct, fields: &[FieldSpec]) -> LifetimeEnv { unimplemented!() }
    #[verifier::external_body] pub fn from_enum_item(s: &syn::ItemEnum, fields: &[FieldSpec]) -> LifetimeEnv { unimplemented!() }
}
#[derive(Copy, Clone)] pub enum Mutability { Mutable, Immutable }
#[verifier::external_body] pub struct Attrs { x: u8 }
// attrs after merging an item's own attributes into the inherited ones (ast::Attrs::add_attrs: unit attr_inherit covers extend)
pub uninterp spec fn spec_add(base: Attrs, own: Seq<syn::Attribute>) -> Attrs;
impl Clone for Attrs { #[verifier::external_body] fn clone(&self) -> (r: Self) ensures r == *self { unimplemented!() } }
impl Attrs {
    #[verifier::external_body] pub fn add_attrs(&mut self, attrs: &Vec<syn::Attribute>) ensures *final(self) == spec_add(*old(self), attrs@) { unimplemented!() }
}
// `{name}_destroy` with the abi_rename pattern of `attrs` applied (string code: format! + RenameAttr::apply): abstract
pub uninterp spec fn spec_dtor(name: Ident, attrs: Attrs) -> Ident;
"""


def build(tier):
    vf = VerusFile(NAME)
    src = Src(F)
    vf.add(vhelp.HEADER)
    vf.add(PRELUDE)
    vhelp.typedef(vf, src, "OpaqueType", "struct")
    vf.add("""impl OpaqueType {
    #[verifier::external_body]
    fn dtor_abi_name(name: &Ident, attrs: &Attrs) -> (r: Ident) ensures r == spec_dtor(*name, *attrs) { unimplemented!() }
""")
    for fn, item in (("new_struct", "strct"), ("new_enum", "enm")):
        p = Piece(src, src.item(f"impl OpaqueType::{fn}", "fn"))
        p.contract(f"""        ensures {CANARY}
            r.name == spec_ident({item}.ident),
            // the type's own attributes are merged over the inherited ones ...
            r.attrs == spec_add(*parent_attrs, {item}.attrs@),
            // ... and the destructor symbol is derived from exactly those final attributes
            r.dtor_abi_name == spec_dtor(r.name, r.attrs),""", ret_name="r")
        vf.add_piece(p, expected=fn)
    vf.add("}\n")
    vf.add(vhelp.FOOTER)
    return vf


CANARY_FUNCTIONS = ["new_struct", "new_enum"]
ASSUMPTIONS = [
    "syn::ItemStruct / ItemEnum re-declared with the fields read (attrs, ident)",
    "OpaqueType::dtor_abi_name (format! + RenameAttr::apply) abstract: spec_dtor(name, attrs); Attrs::add_attrs abstract: spec_add (its RenameAttr::extend part is proved in unit attr_inherit)",
]
UNVERIFIED = {"C06": ["string construction of the destructor name", "Method::from_syn's abi_name (syn)"]}
