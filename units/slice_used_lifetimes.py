"""V slice_used_lifetimes: core/src/hir/methods/borrowing_param.rs BorrowingParamVisitor::add_slices_to_used_lifetimes (verbatim, recursive over
by-value struct definitions) — the helper that adds the lifetimes of slice parameters to the "used method lifetimes" set for backends that ask for it
(js, demo_gen).  BorrowingParamVisitor::new then calls `method.lifetime_env.all_longer_lifetimes(lt)` for every member of that set, which indexes the
method's lifetime graph (LifetimeTransitivityIterator::new: `visited[lt.0]`, unit hir_transitivity requires `lt.0 < nodes.len()`).
C15 contract: every lifetime this function adds has a node in the METHOD's lifetime env — the callee precondition of all_longer_lifetimes holds for each
member added here; nothing is removed from the set.
NOT decided (C04): whether the added lifetime is the right one.  For a slice found inside a struct parameter the function inserts the struct
DEFINITION's lifetime index without mapping it through the use-site lifetimes (a sub-agent's remark, kept in findings/observed-round-k-remarks/): what
that does to the arenas JS builds was not analysed."""
import re
from rsrc import Src, Piece, rule_panics
from verus_engine import VerusFile, CANARY
from common import Undecided
import vhelp

NAME = "slice_used_lifetimes"
ENGINE = "verus"
PROPERTIES = {"C15": "every lifetime add_slices_to_used_lifetimes inserts into the used-lifetime set has a node in the method's lifetime env (all_longer_lifetimes' indexing precondition in BorrowingParamVisitor::new)"}
F = "core/src/hir/methods/borrowing_param.rs"
LT = "core/src/hir/lifetimes.rs"

PRELUDE = r"""
// E3: std BTreeSet carried as an abstract set (insert only)
#[verifier::external_body] #[verifier::reject_recursive_types(T)] pub struct BTreeSet<T> { x: Vec<T> }
impl<T> BTreeSet<T> {
    pub uninterp spec fn view(&self) -> Set<T>;
    #[verifier::external_body] pub fn insert(&mut self, v: T) -> (b: bool) ensures final(self)@ == old(self)@.insert(v) { unimplemented!() }
}
#[verifier::external_body] pub struct BoundedLifetime { x: u8 }
pub struct LifetimeEnv { pub n_nodes: usize }
impl LifetimeEnv {
    // LifetimeEnv::get_bounds: contract proved on the real function in unit validate_bounds (Some iff the index has a node)
    #[verifier::external_body] pub fn get_bounds(&self, lt: Lifetime) -> (r: Option<&BoundedLifetime>) ensures r.is_some() == (lt.0 < self.n_nodes) { unimplemented!() }
}
pub struct Method { pub lifetime_env: LifetimeEnv }
#[verifier::external_body] pub struct TypeContext { x: u8 }
pub struct Slice { pub lt: Option<MaybeStatic<Lifetime>> }
impl Slice {
    // hir::Slice::lifetime (read: core/src/hir/types.rs): the lifetime of the view, if any
    #[verifier::external_body] pub fn lifetime(&self) -> (r: Option<&MaybeStatic<Lifetime>>) ensures (match r { Some(x) => self.lt == Some(*x), None => self.lt is None }) { unimplemented!() }
}
pub struct StructPath { pub id: usize }
pub struct StructField { pub ty: Type }
pub struct StructDef { pub fields: Vec<StructField> }
pub enum Type { Struct(StructPath), Slice(Slice), Other(u8) }
pub mod hir { pub use super::Type; }
// by-value struct nesting is finite (rustc rejects a struct that contains itself by value): a measure that resolve() decreases -- trusted
pub uninterp spec fn depth(t: &Type, tcx: &TypeContext) -> nat;
impl StructPath {
    #[verifier::external_body] pub fn resolve<'tcx>(&self, tcx: &'tcx TypeContext) -> (r: &'tcx StructDef)
        ensures forall|i: int| 0 <= i < r.fields@.len() ==> depth(&(#[trigger] r.fields@[i]).ty, tcx) < depth(&Type::Struct(*self), tcx)
    { unimplemented!() }
}
pub struct BorrowingParamVisitor { pub x: u8 }
"""

CONTRACT = f"""        ensures {CANARY}
            // frame: nothing leaves the set
            forall|l: Lifetime| old(set)@.contains(l) ==> final(set)@.contains(l),
            // every lifetime added is a node of the METHOD's env: all_longer_lifetimes(l) in BorrowingParamVisitor::new indexes in range
            forall|l: Lifetime| final(set)@.contains(l) && !old(set)@.contains(l) ==> l.0 < method.lifetime_env.n_nodes,
        decreases depth(ty, tcx),"""
LOOP_INV = """                    invariant
                        forall|i: int| 0 <= i < st.fields@.len() ==> depth(&(#[trigger] st.fields@[i]).ty, tcx) < depth(ty, tcx),
                        forall|l: Lifetime| old(set)@.contains(l) ==> set@.contains(l),
                        forall|l: Lifetime| set@.contains(l) && !old(set)@.contains(l) ==> l.0 < method.lifetime_env.n_nodes,"""


def build(tier):
    vf = VerusFile(NAME)
    src = Src(F)
    lt = Src(LT)
    vf.add(vhelp.HEADER)
    vhelp.typedef(vf, lt, "Lifetime", "struct", derive=vhelp.FIELDLESS_DERIVE, pub_tuple_fields=True)
    vhelp.typedef(vf, lt, "MaybeStatic", "enum", derive="#[derive(Copy, Clone, PartialEq, Eq, Structural)]")
    vf.add(PRELUDE)
    vf.add("impl BorrowingParamVisitor {\n")
    it = src.item("impl BorrowingParamVisitor<'tcx>::add_slices_to_used_lifetimes", "fn")
    p = Piece(src, it)
    p.expect_loops(1)
    L = it["loops"][0]
    if src.slice(*L["expr"]).strip() != "&st.fields":
        raise Undecided("anchor-lost", "add_slices_to_used_lifetimes: the field loop is no longer `for f in &st.fields`")
    p.replace("E7", L["expr"][0], L["expr"][1], "st.fields.iter()", "`for x in &vec` spelled `vec.iter()`")
    p.loop_spec(0, LOOP_INV, iter_name="it")
    p.sub("E12", r"<P: TyPosition<StructPath = StructPath>>", "", count=1, why="TyPosition marker erased")
    p.sub("E12", r"ty: &hir::Type<P>", "ty: &hir::Type", count=1, why="TyPosition marker erased")
    p.sub("E1", r"method: &'tcx Method", "method: &Method", count=1, why="lifetime annotation dropped")
    p.sub("E1", r"tcx: &'tcx TypeContext", "tcx: &TypeContext", count=1, why="lifetime annotation dropped")
    p.sub("E1", r"\A(\s*)fn add_slices_to_used_lifetimes", r"\1pub fn add_slices_to_used_lifetimes", count=1, why="private fn made pub")
    p.fn("E5", rule_panics, why="panic sites become obligations")
    p.contract(CONTRACT)
    vf.add_piece(p, expected="add_slices_to_used_lifetimes")
    vf.add("}\n")
    vf.add(vhelp.FOOTER)
    return vf


CANARY_FUNCTIONS = ["add_slices_to_used_lifetimes"]
ASSUMPTIONS = [
    "hir::Type / Slice / StructPath / StructDef re-declared with what the function reads (E12); BTreeSet as an abstract set (E3); LifetimeEnv::get_bounds by its contract (unit validate_bounds)",
    "termination measure: by-value struct nesting depth decreases under StructPath::resolve (rustc rejects infinitely sized structs) -- trusted",
]
UNVERIFIED = {"C15": ["the two call sites in BorrowingParamVisitor::new (iterator adapters) and new's `all_longer_lifetimes(lt).collect()` itself (callee: unit hir_transitivity)",
                      "C04 meaning of the inserted lifetime (definition-site index used as a method lifetime): not decided"]}
