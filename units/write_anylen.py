"""K write_anylen: write_str step contract with symbolic-size buffers (every capacity/length/chunk length up to 2^40).
(Symbolic-size variants of the fixed-size and Rust-owned writer harnesses were tried and dropped: Kani 0.68 non-deterministically
dropped the tail of those harnesses - detected by the end-of-harness cover guard - so they stay bounded in unit write_more.)"""
from kunit import define
F = "runtime/src/write.rs"
E = [("check_write_str_anylen", "write_str step contract (Ok always; sticky failure changes nothing; refused growth leaves len/cap/buf/content unchanged; success appends exactly the chunk and preserves the prefix; len<=cap; all accesses inside the allocations) for EVERY cap/len/chunk length <= 2^40: loop-free harness, content compared at one symbolic index",
      [(F, "impl fmt::Write for DiplomatWrite::write_str")], 3, ["C12", "C15"], "complete", "cap, chunk length <= 2^40 bytes (CBMC allocator model); foreign grow = documented-invariant model")]
define(globals(), "write_anylen", "runtime", F, "verif_write_anylen", "write_anylen.rs",
       {"C12": "one write step for every buffer size", "C15": "write_str panic freedom (debug_assert) for every size"},
       E, lambda tier: {},
       ["foreign grow() obeys the documented DiplomatWrite safety invariant (modelled nondeterministically, slack 0..2)",
        "buffers are zero-initialised symbolic-size allocations with one symbolic byte written at a symbolic index (so every position is covered)",
        "CBMC allocator model; len + chunk length cannot overflow usize within the 2^40 bound"],
       {"C12": [], "C15": []},
       quick_elsewhere={"C15": "C12"})
