"""K write_anylen: write_str step contract with symbolic-size buffers (every capacity/length/chunk length up to 2^40)."""
from kunit import define
F = "runtime/src/write.rs"
E = [("check_write_str_anylen", "write_str step contract (Ok always; sticky failure changes nothing; refused growth leaves len/cap/buf/content unchanged; success appends exactly the chunk and preserves the prefix; len<=cap; all accesses inside the allocations) for EVERY cap/len/chunk length <= 2^40: loop-free harness, content compared at one symbolic index",
      [(F, "impl fmt::Write for DiplomatWrite::write_str")], 3, ["C12", "C15"], "complete", "cap, chunk length <= 2^40 bytes (CBMC allocator model); foreign grow = documented-invariant model")]
E += [
    ("simple_write_anylen", "fixed-size writer for EVERY caller buffer size n >= 1: one arbitrary chunk + flush leave exactly the chunk if it fits and nothing (failed) otherwise, NUL inside the n-byte buffer right after the content, flush idempotent, accessors null/0 iff failed",
     [(F, "diplomat_simple_write"), (F, "fn diplomat_simple_write::grow"), (F, "fn diplomat_simple_write::flush"), (F, "impl DiplomatWrite::flush"), (F, "impl fmt::Write for DiplomatWrite::write_str"), (F, "diplomat_buffer_write_get_bytes"), (F, "diplomat_buffer_write_len")], 3, ["C12"], "complete", "buffer size and chunk lengths <= 2^40"),
    ("buffer_write_anylen", "Rust-owned writer for EVERY initial capacity: starting from any fill level with arbitrary old content, one arbitrary chunk is appended (grow never fails, old content preserved across realloc), len/get_bytes exact, destroy frees box and buffer once",
     [(F, "diplomat_buffer_write_create"), (F, "fn diplomat_buffer_write_create::grow"), (F, "fn diplomat_buffer_write_create::flush"), (F, "diplomat_buffer_write_destroy")], 3, ["C12", "C03"], "complete", "capacity and chunk lengths <= 2^40"),
]
define(globals(), "write_anylen", "runtime", F, "verif_write_anylen", "write_anylen.rs",
       {"C12": "one write step, the fixed-size writer and the Rust-owned writer for every buffer size", "C03": "Rust-owned writer freed exactly once", "C15": "write_str panic freedom (debug_assert) for every size"},
       E, lambda tier: {},
       ["foreign grow() obeys the documented DiplomatWrite safety invariant (modelled nondeterministically, slack 0..2)",
        "buffers are zero-initialised symbolic-size allocations with one symbolic byte written at a symbolic index (so every position is covered)",
        "CBMC allocator model; len + chunk length cannot overflow usize within the 2^40 bound"],
       {"C12": [], "C15": [], "C03": []})
