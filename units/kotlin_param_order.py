"""V kotlin_param_order: tool/src/kotlin/mod.rs gen_native_method_info — the JNA interface function lists `self` first (handle /
native struct / enum int), then one declaration per Rust parameter in declaration order, then the write pointer exactly when the
success type is Write (for Infallible / Fallible / Nullable alike).  Function prefix up to `let params = ..` (E16), loop under invariant."""
import re
from rsrc import Src, Piece, rule_panics
from verus_engine import VerusFile, CANARY
from common import Undecided
import vhelp

NAME = "kotlin_param_order"
ENGINE = "verus"
PROPERTIES = {"C07": "Kotlin/JNA native declaration has the C ABI's parameter count and order: self, every parameter in Rust declaration order (named and typed from that parameter), trailing write pointer iff the method writes"}
F = "tool/src/kotlin/mod.rs"
METHODS = "core/src/hir/methods.rs"

PRELUDE = r"""
#[verifier::external_body] pub struct CowStr { x: u8 }
impl Clone for CowStr { #[verifier::external_body] fn clone(&self) -> (r: Self) ensures r == *self { unimplemented!() } }
#[verifier::external_body] pub struct Ident { x: u8 }
impl Ident {
    #[verifier::external_body] pub fn as_str(&self) -> (r: &Ident) ensures *r == *self { unimplemented!() }
}
#[verifier::external_body] pub struct TypeRest { x: u8 }
#[verifier::external_body] pub struct OutType { x: u8 }
pub enum Type { Callback(TypeRest), Other(TypeRest) }
pub struct StructPath { pub tcx_id: u32 }
pub enum SelfType { Opaque(TypeRest), Struct(StructPath), Enum(TypeRest) }
pub struct Param { pub name: Ident, pub ty: Type }
pub struct ParamSelf { pub ty: SelfType }
#[verifier::external_body] pub struct Tcx { x: u8 }
#[verifier::external_body] pub struct Visitor { x: u8 }
impl Visitor { #[verifier::external_body] pub fn visit_param(&mut self, ty: &Type, name: &CowStr) { unimplemented!() } }
pub uninterp spec fn name_of(n: Ident) -> CowStr;
pub struct KotlinFormatter { pub x: u8 }
impl KotlinFormatter {
    #[verifier::external_body] pub fn fmt_param_name(&self, n: &Ident) -> (r: CowStr) ensures r == name_of(*n) { unimplemented!() }
}
// a native type name, carried with the type it was generated for
pub struct TyName { pub of: Ghost<Type> }
// E6t: one JNA parameter declaration, by what its text declares
pub enum Decl {
    SelfHandle,                    // "handle: Pointer"
    SelfStruct(u32),               // "nativeStruct: <Name>Native" of the struct with this id
    SelfEnum,                      // "inner: Int"
    Param(CowStr, Ghost<Type>),    // "<name>: <native type of this parameter type>"
    Write,                         // "write: Pointer"
}
impl Decl {
    pub fn self_struct(id: u32) -> (r: Decl) ensures r == Decl::SelfStruct(id) { Decl::SelfStruct(id) }
    pub fn param(n: &CowStr, t: TyName) -> (r: Decl) ensures r == Decl::Param(*n, t.of) { Decl::Param(n.clone(), t.of) }
}
#[verifier::external_body] pub fn __cb_name(type_name: &str, method: &Ident, param_name: &CowStr) -> String { unimplemented!() }
"""

AFTER = r"""
pub struct Method { pub name: Ident, pub param_self: Option<ParamSelf>, pub params: Vec<Param>, pub output: ReturnType }
impl Method { #[verifier::external_body] pub fn borrowing_param_visitor(&self, tcx: &Tcx, f: bool) -> Visitor { unimplemented!() } }
pub struct TyGenContext<'a> { pub tcx: &'a Tcx, pub formatter: KotlinFormatter }
impl<'a> TyGenContext<'a> {
    #[verifier::external_body] pub fn gen_native_type_name(&mut self, t: &Type, additional: Option<String>) -> (r: TyName) ensures r.of@ == *t { unimplemented!() }
}
// ---- oracle, from the property statement: the C ABI of `fn Type_method(self?, p1, .., pn, write?)`
pub open spec fn success_of(r: ReturnType) -> SuccessType {
    match r { ReturnType::Infallible(s) => s, ReturnType::Fallible(s, _) => s, ReturnType::Nullable(s) => s }
}
pub open spec fn self_part(m: Method) -> Seq<Decl> {
    match m.param_self {
        Some(s) => seq![match s.ty { SelfType::Opaque(_) => Decl::SelfHandle, SelfType::Struct(p) => Decl::SelfStruct(p.tcx_id), SelfType::Enum(_) => Decl::SelfEnum }],
        None => Seq::<Decl>::empty(),
    }
}
pub open spec fn params_part(m: Method, n: int) -> Seq<Decl> { Seq::new(n as nat, |j: int| Decl::Param(name_of(m.params@[j].name), Ghost(m.params@[j].ty))) }
pub open spec fn write_part(m: Method) -> Seq<Decl> { if success_of(m.output) is Write { seq![Decl::Write] } else { Seq::<Decl>::empty() } }
pub open spec fn expected(m: Method) -> Seq<Decl> { self_part(m) + params_part(m, m.params@.len() as int) + write_part(m) }
"""

LOOP_INV = """            invariant
                param_decls@ =~= self_part(*method) + params_part(*method, it.index@ as int),
                it.seq().len() == method.params@.len(),
                forall|j: int| 0 <= j < it.seq().len() ==> *#[trigger] it.seq()[j] == method.params@[j],"""


def build(tier):
    vf = VerusFile(NAME)
    src = Src(F)
    ms = Src(METHODS)
    vf.add(vhelp.HEADER)
    vf.add(PRELUDE)
    vhelp.typedef(vf, ms, "SuccessType", "enum")
    vhelp.typedef(vf, ms, "ReturnType", "enum")
    vf.add(AFTER)
    it = src.item("impl TyGenContext<'_,'cx>::gen_native_method_info", "fn")
    stmts = it.get("stmts", [])
    k = None
    for i, (a, b) in enumerate(stmts):
        if re.match(r"let params\s*=", src.slice(a, b)):
            k = i
    if k is None or k == 0:
        raise Undecided("anchor-lost", "gen_native_method_info: statement `let params = ..` not found")
    frag = dict(it)
    frag["end"] = stmts[k - 1][1]
    frag["path"] = it["path"] + "#prefix(.. before let params)"
    frag["loops"] = [l for l in it.get("loops", []) if l["end"] <= frag["end"]]
    p = Piece(src, frag)
    p.expect_loops(1)
    (r0, r1) = it["ret"]
    p.replace("E16", r0, r1, "(r: Vec<Decl>)", "function prefix returns the list of native parameter declarations")
    p.sub("E12", r"method: &'cx hir::Method", "method: &Method", count=1, why="lifetime parameter dropped")
    p.insert("E4", it["body_open"], f"""
        ensures {CANARY}
            r@ =~= expected(*method),
""", "contract")
    p.sub("E3", r"Vec::with_capacity\(method\.params\.len\(\)\)", "Vec::<Decl>::with_capacity(method.params.len())", count=1, why="element type written out")
    p.sub("E6t", r'"handle: Pointer"\.into\(\)', "Decl::SelfHandle", count=1, why="literal declaration text -> tag")
    p.sub("E6t", r'"inner: Int"\.into\(\)', "Decl::SelfEnum", count=1, why="literal declaration text -> tag")
    p.sub("E6t", r'"write: Pointer"\.into\(\)', "Decl::Write", count=1, why="literal declaration text -> tag")
    p.sub("E6t", r'format!\(\s*"nativeStruct: \{\}Native",\s*self\.tcx\.resolve_struct\((\w+)\.tcx_id\)\.name\.as_str\(\)\s*\)', r"Decl::self_struct(\1.tcx_id)", count=1,
          why="native struct mirror name of the struct with this id -> tag carrying the id")
    p.sub("E6t", r'format!\(\s*"\{param_name\}: \{\}",\s*(self\.gen_native_type_name\((?:[^()]|\([^()]*\))*\)),?\s*\)', r"Decl::param(&param_name, \1)", count=1,
          why="`<name>: <native type>` -> tag carrying the name and the type the native type was generated for")
    p.sub("E6", r"type_name\.to_owned\(\)\s*\+\s*\"_\"\s*\+\s*method\.name\.as_ref\(\)\s*\+\s*\"_diplomatCallback_\"\s*\+\s*&param_name\s*\+\s*\"_Native\"",
          "__cb_name(type_name, &method.name, &param_name)", count=1, why="callback wrapper class name: string concatenation abstracted (not judged here)")
    p.fn("E5", rule_panics, why="todo! arm becomes an obligation")
    p.loop_spec(0, LOOP_INV, iter_name="it")
    text = p.render()
    org = {"file": F, "item": frag["path"], "line": src.line_of(p.a), "end_line": src.line_of(p.b)}
    vf.add("impl<'a> TyGenContext<'a> {\n")
    vf.add(text + "\n        param_decls\n    }\n", origin=org, edits=p.log)
    vf.add("}\n")
    vf.functions.append({"path": frag["path"], "file": F, "line": src.line_of(p.a), "end_line": src.line_of(p.b), "engine": "verus",
                         "mode": "verus (function prefix up to `let params`)", "bound": "none"})
    vf.expected.append("gen_native_method_info")
    vf.add(vhelp.FOOTER)
    return vf


CANARY_FUNCTIONS = ["gen_native_method_info"]
ASSUMPTIONS = [
    "E16: the prefix of gen_native_method_info up to (excluding) `let params = param_decls.join(\", \")` is verified; join keeps list order (std), the return type name is units kotlin_tables / kotlin_error_attr",
    "E6t: declaration texts are carried as tags (SelfHandle / SelfStruct(id) / SelfEnum / Param(name, type it was generated for) / Write); gen_native_type_name is abstract and tagged with its argument type (its primitive table is unit kotlin_tables)",
    "hir::Type / SelfType re-declared with the variants inspected here (SelfType has exactly the three variants of the pinned commit; the `_ => todo!()` arm is then dead)",
]
UNVERIFIED = {"C07": ["Vec::join(\", \") and the declaration template (read)"]}
