"""K c_tables: the C backend's primitive spelling tables against the Rust ABI and the hand-written C mirror."""
import os
import re
from kunit import define
from common import REPO, Undecided

F = "tool/src/c/formatter.rs"


def _capi_pairs():
    p = os.path.join(REPO, "tool/templates/c/capi.h.jinja")
    if not os.path.exists(p):
        raise Undecided("anchor-lost", "capi.h.jinja missing")
    pairs = re.findall(r"^MAKE_SLICES_AND_OPTIONS\((\w+),\s*([\w ]+)\)", open(p).read(), re.M)
    if len(pairs) < 10:
        raise Undecided("anchor-lost", "MAKE_SLICES_AND_OPTIONS lines not found in capi.h.jinja")
    return ", ".join(f'("{a}", "{b.strip()}")' for a, b in pairs)


E = [
    ("c_primitive_spelling_matches_rust_abi", "for all 15 non-128-bit primitives x is_for_cpp: C-standard meaning of fmt_primitive_as_c(p) == Rust ABI of p; derived-type name encodes the same meaning; the (name, C type) pair is declared by MAKE_SLICES_AND_OPTIONS in capi.h.jinja",
     [(F, "impl CFormatter<'tcx>::fmt_primitive_as_c"), (F, "impl CFormatter<'tcx>::fmt_primitive_name_for_derived_type")], 2, ["C01", "C15"], "complete", "none (finite domain enumerated symbolically)"),
    ("c_str_view_names", "string view names: 16-bit encodings use the *16View mirrors", [(F, "impl CFormatter<'tcx>::fmt_str_view_name"), (F, "impl CFormatter<'tcx>::fmt_strs_view_name")], None, ["C01"], "complete", "none"),
]
# (fmt_optional_type_name as a Kani harness: no verdict in 30 min (Cow::to_string goes through fmt) -> Verus unit c_option_names)
# (format!-built names fmt_ptr / fmt_primitive_slice_name were tried as concrete-input harnesses: > 25 min in CBMC, dropped)
define(globals(), "c_tables", "tool", F, "verif_c_tables", "c_tables.rs",
       {"C01": "C type spellings chosen by the C backend denote the ABI the Rust extern \"C\" layer compiled", "C15": "no panic outside Int128"},
       E, lambda tier: {"CAPI": _capi_pairs()},
       ["std::hash::RandomState::new stubbed (only needed to construct an unused DocsUrlGenerator)", "TypeContext::__verif_empty() cfg(kani) constructor hook appended to core/src/hir/type_context.rs in the scratch copy",
        "C meaning table written from C11/C23 <stdint.h>/<uchar.h>; Rust ABI table from the Rust reference"],
       {"C01": ["gen_method / gen_struct_def / gen_ty_name string assembly", "all .jinja templates", "macro param_conversion / gen_custom_type_method"], "C15": []},
       kani_args=["-Z", "stubbing"],
       extra_appends=[("core/src/hir/type_context.rs", "core_hooks.rs"), ("tool/src/lib.rs", "tool_common.rs")],
       quick_elsewhere={"C15": "C01"})
