"""K write_more: diplomat_simple_write, diplomat_buffer_write_{create,get_bytes,len,destroy}, DiplomatWrite::flush."""
from kunit import define
F = "runtime/src/write.rs"
E = [
    ("simple_write_contract", "fixed-size writer: cap = n-1, grow always fails; after two arbitrary writes + flush the buffer holds exactly the chunks accepted before the first failed growth, NUL terminator inside the caller's n-byte buffer, flush idempotent, nothing past buf[n-1] touched, accessors null/0 iff failed",
     [(F, "diplomat_simple_write"), (F, "fn diplomat_simple_write::grow"), (F, "fn diplomat_simple_write::flush"), (F, "impl DiplomatWrite::flush"), (F, "impl fmt::Write for DiplomatWrite::write_str")], 4, ["C12"], "bounded",
     lambda p: f"1 <= buffer size <= {p['N']}, two chunks of <= {p['N']} arbitrary bytes"),
    ("buffer_write_contract", "Rust-owned writer: create(cap); two arbitrary writes; grow succeeds with cap >= requested preserving content; len/get_bytes report exactly the concatenation; destroy frees box and buffer exactly once",
     [(F, "diplomat_buffer_write_create"), (F, "fn diplomat_buffer_write_create::grow"), (F, "fn diplomat_buffer_write_create::flush"), (F, "diplomat_buffer_write_get_bytes"), (F, "diplomat_buffer_write_len"), (F, "diplomat_buffer_write_destroy")], 3, ["C12", "C03"], "bounded",
     lambda p: f"initial cap <= {p['N']}, two chunks of <= {p['N']} arbitrary bytes"),
    ("accessors_contract", "get_bytes/len return null/0 exactly when grow_failed, else buf/len", [(F, "diplomat_buffer_write_get_bytes"), (F, "diplomat_buffer_write_len")], None, ["C12"], "complete", "none"),
    ("write_layout", "DiplomatWrite field order context, buf, len, cap, grow_failed, flush, grow (7 words) as mirrored in C", [], None, ["C01"], "complete", "none"),
]
define(globals(), "write_more", "runtime", F, "verif_write_more", "write_more.rs",
       {"C12": "fixed-buffer and Rust-owned writers", "C03": "buffer writer freed exactly once", "C01": "DiplomatWrite layout"},
       E, lambda tier: {"N": 4, "UNWIND": 6, "UNWIND2": 6} if tier == "quick" else {"N": 6, "UNWIND": 8, "UNWIND2": 8},
       ["diplomat_simple_write precondition buf_size >= 1 (the property quantifies over capacities >= 1; buf_size == 0 underflows and is documented, not judged)",
        "Vec::reserve / realloc are the real alloc crate code under CBMC's allocator model", "chunks are arbitrary bytes via from_utf8_unchecked"],
       {"C12": ["macro write_flushes emission", "C++ WriteFromString"], "C03": [], "C01": []})
