"""V js_deref_offset: tool/src/js/converter.rs gen_c_to_js_deref_for_type — the JS expression that reads a struct field out of
wasm memory reads at (base pointer + the field's layout offset) for every field type, including through chains of
single-primitive wrapper structs; and js/gen.rs only_primitive (the wrapper test) only accepts one-field structs."""
import re
from rsrc import Src, Piece, rule_panics
from verus_engine import VerusFile, CANARY
from common import Undecided
import vhelp

NAME = "js_deref_offset"
ENGINE = "verus"
PROPERTIES = {"C08": "every field is read back at base + its layout offset (offset threaded unchanged through wrapper structs); reader kind matches the field type",
              "C15": "unwrap()/unreachable! sites of gen_c_to_js_deref_for_type and only_primitive"}
CONV = "tool/src/js/converter.rs"
GEN = "tool/src/js/gen.rs"

PRELUDE = r"""
global size_of usize == 8;
#[verifier::external_body] pub struct TypeContext { x: u8 }
#[verifier::external_body] pub struct JsFormatter { x: u8 }
#[derive(Copy, Clone, PartialEq, Eq, Structural)] pub struct StructId(pub usize);
#[derive(Copy, Clone, PartialEq, Eq, Structural)] pub struct OutStructId(pub usize);
#[derive(Copy, Clone, PartialEq, Eq, Structural)] pub struct OtherId(pub usize);
#[derive(Copy, Clone, PartialEq, Eq, Structural)] pub enum PrimitiveType { Bool, Other(u8) }
#[derive(Copy, Clone)] pub struct StructPath { pub tcx_id: TypeId }
impl StructPath { pub fn id(&self) -> (r: TypeId) ensures r == self.tcx_id { self.tcx_id } }
// E12: the TyPosition parameter P (a position marker) is erased: Type<P> -> Type, StructDef<P> -> StructDef
pub enum Type { Primitive(PrimitiveType), Opaque(u8), Struct(StructPath), Enum(u8), Slice(u8), DiplomatOption(u8), Callback(u8) }
pub struct StructField { pub ty: Type }
pub struct StructDef { pub fields: Vec<StructField> }
// hir::TypeId is #[non_exhaustive]
#[derive(Copy, Clone, PartialEq, Eq, Structural)] pub enum TypeId { Struct(StructId), OutStruct(OutStructId), Opaque(OtherId), Enum(OtherId) }
pub mod hir { pub use super::Type; pub use super::StructDef; pub use super::TypeId; }
// the type context is an immutable table: resolving the same id twice yields the same definition
pub uninterp spec fn spec_struct(tcx: &TypeContext, id: StructId) -> StructDef;
pub uninterp spec fn spec_out_struct(tcx: &TypeContext, id: OutStructId) -> StructDef;
impl TypeContext {
    #[verifier::external_body] pub fn resolve_struct(&self, id: StructId) -> (r: &StructDef) ensures *r == spec_struct(self, id) { unimplemented!() }
    #[verifier::external_body] pub fn resolve_out_struct(&self, id: OutStructId) -> (r: &StructDef) ensures *r == spec_out_struct(self, id) { unimplemented!() }
}

// ---- E6t: a JS expression carried as what it reads: base pointer variable, byte offset added, reader applied
#[derive(Copy, Clone, PartialEq, Eq, Structural)] pub enum Reader { Pointer, EnumDiscriminant, PtrRead, Prim(PrimitiveType) }
#[derive(Copy, Clone)] pub struct JsExpr { pub base: usize, pub off: usize, pub reader: Reader }
impl JsExpr {
    pub fn clone(&self) -> (r: JsExpr) ensures r == *self { *self }
    pub fn ptr_add(v: &JsExpr, o: usize) -> (r: JsExpr) requires v.off == 0, v.reader == Reader::Pointer ensures r == (JsExpr { base: v.base, off: o, reader: Reader::Pointer }) { JsExpr { base: v.base, off: o, reader: Reader::Pointer } }
    pub fn enum_discriminant(p: JsExpr) -> (r: JsExpr) requires p.reader == Reader::Pointer ensures r == (JsExpr { reader: Reader::EnumDiscriminant, ..p }) { JsExpr { base: p.base, off: p.off, reader: Reader::EnumDiscriminant } }
    pub fn ptr_read(p: JsExpr) -> (r: JsExpr) requires p.reader == Reader::Pointer ensures r == (JsExpr { reader: Reader::PtrRead, ..p }) { JsExpr { base: p.base, off: p.off, reader: Reader::PtrRead } }
    pub fn prim_read(p: JsExpr, t: PrimitiveType) -> (r: JsExpr) requires p.reader == Reader::Pointer ensures r == (JsExpr { reader: Reader::Prim(t), ..p }) { JsExpr { base: p.base, off: p.off, reader: Reader::Prim(t) } }
}
pub struct TyGenContext<'ctx, 'tcx> { pub tcx: &'tcx TypeContext, pub formatter: &'ctx JsFormatter }

// ---- oracle: a field of type `ty` laid out at byte `offset` of the struct behind pointer `v` is read at v + offset;
// enums through their discriminant, opaques as a pointer read, primitives as that primitive; aggregates (structs that are not
// single-primitive wrappers, slices, options) are handed on as the pointer itself
pub open spec fn reads_at(r: JsExpr, v: JsExpr, offset: usize) -> bool { r.base == v.base && r.off == offset }
pub open spec fn reader_for(ty: Type, r: JsExpr) -> bool {
    match ty {
        Type::Enum(_) => r.reader == Reader::EnumDiscriminant,
        Type::Opaque(_) => r.reader == Reader::PtrRead,
        Type::Primitive(p) => r.reader == Reader::Prim(p),
        Type::Slice(_) | Type::DiplomatOption(_) => r.reader == Reader::Pointer,
        Type::Struct(_) => !(r.reader is EnumDiscriminant) && !(r.reader is PtrRead),   // a wrapper chain ends in a primitive, everything else stays a pointer
        _ => true,
    }
}
"""

DEREF_CONTRACT = f"""        requires
            variable_name.off == 0, variable_name.reader == Reader::Pointer,
            !(ty is Callback),   // callbacks are never struct fields (lowering gate)
        ensures {CANARY}
            reads_at(r, variable_name, offset),
            reader_for(*ty, r),"""
ONLY_CONTRACT = f"""        ensures {CANARY}
            r ==> st.fields@.len() == 1 && ((st.fields@[0].ty is Primitive) || (st.fields@[0].ty is Struct)),"""


def build(tier):
    vf = VerusFile(NAME)
    conv = Src(CONV)
    gen = Src(GEN)
    vf.add(vhelp.HEADER)
    vf.add(PRELUDE)
    vf.add("impl<'ctx, 'tcx> TyGenContext<'ctx, 'tcx> {\n")
    # ---- only_primitive (recursive through the type context: no decreasing measure is visible; termination not proved)
    it = gen.item("impl TyGenContext<'_,'tcx>::only_primitive", "fn")
    p = Piece(gen, it)
    p.sub("E12", r"<P: hir::TyPosition>", "", count=1, why="position marker erased")
    p.sub("E12", r"hir::StructDef<P>", "hir::StructDef", count=1, why="position marker erased")
    p.sub("E1", r"pub\(super\) ", "pub ", count=1)
    p.contract(ONLY_CONTRACT, ret_name="r")
    vf.add("    #[verifier::exec_allows_no_decreases_clause]\n")
    vf.add_piece(p, expected="only_primitive")
    # ---- gen_c_to_js_deref_for_type
    it = conv.item("impl TyGenContext<'_,'tcx>::gen_c_to_js_deref_for_type", "fn")
    p = Piece(conv, it)
    p.sub("E12", r"<P: hir::TyPosition>", "", count=1, why="position marker erased")
    p.sub("E12", r"ty: &Type<P>", "ty: &Type", count=1, why="position marker erased")
    p.sub("E1", r"pub\(super\) ", "pub ", count=1)
    p.sub("E6t", r"variable_name: Cow<'tcx, str>", "variable_name: JsExpr", count=1, why="JS expression carried as (base, offset, reader)")
    p.sub("E6t", r": Cow<'tcx, str> =", ": JsExpr =", count=None, why="local type annotations follow")
    p.sub("E6t", r"\(r: Cow<'tcx, str>\)", "(r: JsExpr)", count=1)
    fm = [m for m in it["macros"] if m["name"] == "format"]
    if len(fm) != 4:
        raise Undecided("anchor-lost", f"gen_c_to_js_deref_for_type: expected 4 format! calls, found {len(fm)}")
    want = [(r'format!("{variable_name} + {offset}")', "JsExpr::ptr_add(&variable_name, offset)", "pointer + offset"),
            (r'format!("diplomatRuntime.enumDiscriminant(wasm, {pointer})")', "JsExpr::enum_discriminant(pointer)", "enum read"),
            (r'format!("diplomatRuntime.ptrRead(wasm, {pointer})")', "JsExpr::ptr_read(pointer)", "opaque pointer read")]
    for m, (lit, new, why) in zip(fm[:3], want):
        t = conv.slice(m["start"], m["end"])
        if t != lit:
            raise Undecided("anchor-lost", f"format! literal changed: {t[:80]}")
        # also swallow the `.into()` that converts the String into a Cow
        tail = conv.slice(m["end"], m["end"] + 7)
        e = m["end"] + 7 if tail == ".into()" else m["end"]
        p.replace("E6t", m["start"], e, new, why)
    m = fm[3]
    t = conv.slice(m["start"], m["end"])
    if not re.match(r'format!\(\s*"\(new \{ctor\}\(wasm\.memory\.buffer, \{pointer\}, 1\)\)\[0\]\{cmp\}",', t):
        raise Undecided("anchor-lost", "primitive read template changed")
    rest = conv.slice(m["end"], m["end"] + 40)
    mm = re.match(r"\s*\.into\(\)", rest)
    e = m["end"] + (mm.end() if mm else 0)
    p.replace("E6t", m["start"], e, "JsExpr::prim_read(pointer, *p)", "typed-array read of one primitive at {pointer}; the constructor name (fmt_primitive_slice) and the `=== 1` suffix for bool are dropped")
    p.fn("E5", rule_panics, why="unreachable! arms become obligations")
    p.contract(DEREF_CONTRACT, ret_name="r")
    vf.add("    #[verifier::exec_allows_no_decreases_clause]\n")
    vf.add_piece(p, expected="gen_c_to_js_deref_for_type")
    vf.add("}\n")
    vf.add(vhelp.FOOTER)
    return vf


CANARY_FUNCTIONS = ["only_primitive", "gen_c_to_js_deref_for_type"]
ASSUMPTIONS = [
    "E6t: JS text carried as (base pointer variable, byte offset, reader); the four format! templates are mapped to constructors keyed on their literal; characters dropped (incl. the typed-array constructor name and the bool `=== 1` suffix)",
    "E12: the TyPosition marker parameter is erased (Type<P> -> Type, StructDef<P> -> StructDef); hir::Type re-declared with payloads it does not inspect as u8",
    "TypeContext::resolve_struct / resolve_out_struct abstract (a function of the id: the context is immutable); termination of the two recursive functions is NOT proved (exec_allows_no_decreases_clause): struct nesting is acyclic by construction of the HIR",
    "precondition: the field type is not a callback (callbacks are rejected in struct fields by the lowering gate)",
]
UNVERIFIED = {"C08": ["gen_c_to_js_for_type (text of the conversions)", "struct.js.jinja _fromFFI body", "termination of the wrapper recursion"], "C15": []}
