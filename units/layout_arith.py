"""V layout_arith: tool/src/js/layout.rs struct_field_info == the Rust-reference repr(C) algorithm, for any number of fields."""
import re
from rsrc import Src, Piece, rule_asserts, rule_panics
from verus_engine import VerusFile, CANARY
from common import Undecided
import vhelp

NAME = "layout_arith"
ENGINE = "verus"
PROPERTIES = {"C08": "offsets, padding fields, size and alignment computed by the JS backend's bespoke layout routine equal repr(C) (wasm32 sizes)",
              "C15": "struct_field_info: both assert!s unreachable, no overflow / division by zero, Layout::from_size_align(..).unwrap() never panics"}
F = "tool/src/js/layout.rs"


def _lemma_pad_cases():
    """25-way case split over (align a, previous align p), listing residues explicitly (Z3 does no mod reasoning unprompted)."""
    out = []
    for a in (1, 2, 4, 8, 16):
        inner = []
        for p in (1, 2, 4, 8, 16):
            step = min(p, a)
            residues = list(range(0, a, step))
            dis = " || ".join(f"xi % {a} == {r}" for r in residues)
            body = f"assert({dis}); " + " ".join(f"if xi % {a} == {r} {{ assert(pad(xi, {a}) == {(a - r) % a}); }}" for r in residues)
            inner.append(f"if p == {p} {{ {body} }}")
        out.append(f"if a == {a} {{ " + " else ".join(inner) + " }")
    return "    " + "\n    else ".join(out)


PRELUDE = r"""
use vstd::std_specs::cmp::OrdSpec;
use core::alloc::Layout;
use core::cmp::max;
global size_of usize == 8;

pub assume_specification<T: core::cmp::Ord> [core::cmp::max] (a: T, b: T) -> (r: T)
    ensures r == (if a.cmp_spec(&b) == core::cmp::Ordering::Greater { a } else { b });

// ---- std::alloc::Layout, assumed contract (std is not verified here)
#[verifier::external_type_specification]
#[verifier::external_body]
pub struct ExLayout(core::alloc::Layout);
#[verifier::external_type_specification]
#[verifier::external_body]
pub struct ExLayoutError(core::alloc::LayoutError);

pub uninterp spec fn lsize(l: Layout) -> usize;
pub uninterp spec fn lalign(l: Layout) -> usize;
pub assume_specification [Layout::size] (l: &Layout) -> (r: usize) ensures r == lsize(*l);
pub assume_specification [Layout::align] (l: &Layout) -> (r: usize) ensures r == lalign(*l);
pub assume_specification [Layout::from_size_align] (size: usize, align: usize) -> (r: Result<Layout, core::alloc::LayoutError>)
    ensures pow2(align) && size <= 0x7fff_ffff_ffff_ff00 ==> (r is Ok) && lsize(r.unwrap()) == size && lalign(r.unwrap()) == align;

pub trait TyPosition {}
#[verifier::external_body] #[verifier::reject_recursive_types(P)] pub struct Type<P> { p: core::marker::PhantomData<P> }
#[verifier::external_body] pub struct TypeContext { x: u8 }

pub open spec fn pow2(a: usize) -> bool { a == 1 || a == 2 || a == 4 || a == 8 || a == 16 }
"""

CALLEE = r"""
#[verifier::external_body]
pub fn unit_size_alignment() -> Layout { unimplemented!() }

// ---- callee contract (abstract here): every field type has a power-of-two alignment <= 16, a size that is a
// multiple of its alignment and below 2^28.  Discharged for primitives by Kani (unit layout_prims) and, for nested
// structs, by this unit's own postcondition (lemma_struct_result_is_ty_ok).
pub uninterp spec fn ty_size<P>(t: &Type<P>, tcx: &TypeContext) -> usize;
pub uninterp spec fn ty_align<P>(t: &Type<P>, tcx: &TypeContext) -> usize;
pub uninterp spec fn ty_sc<P>(t: &Type<P>, tcx: &TypeContext) -> ScalarCount;
pub open spec fn ty_ok<P>(t: &Type<P>, tcx: &TypeContext) -> bool {
    pow2(ty_align(t, tcx)) && ty_size(t, tcx) % ty_align(t, tcx) == 0 && ty_size(t, tcx) <= 0x1000_0000
    // every scalar occupies at least one byte
    && (ty_sc(t, tcx) is Scalars ==> ty_sc(t, tcx)->Scalars_0 <= ty_size(t, tcx))
}
// wasm ABI scalar count of a struct: the sum over its fields, Memory as soon as one field contains a union
pub open spec fn sc_sum<P>(ts: Seq<&Type<P>>, tcx: &TypeContext, i: int) -> ScalarCount
    decreases i
{
    if i <= 0 { ScalarCount::Zst } else { sc_add(sc_sum(ts, tcx, i - 1), ty_sc(ts[i - 1], tcx)) }
}
#[verifier::external_body]
pub fn type_size_alignment_and_scalar_count<P: TyPosition>(typ: &Type<P>, tcx: &TypeContext) -> (r: (Layout, ScalarCount))
    ensures lsize(r.0) == ty_size(typ, tcx), lalign(r.0) == ty_align(typ, tcx), r.1 == ty_sc(typ, tcx), ty_ok(typ, tcx),
{ unimplemented!() }

// ---------------- oracle: Rust reference, "The C representation" ----------------
//   offset(0) = 0; offset(i) = round_up(offset(i-1) + size(i-1), align(i));
//   align = max align(i); size = round_up(offset(n-1) + size(n-1), align)
pub open spec fn round_up(x: int, a: int) -> int { if x % a == 0 { x } else { x + (a - x % a) } }
pub open spec fn off<P>(ts: Seq<&Type<P>>, tcx: &TypeContext, i: int) -> int
    decreases i
{
    if i <= 0 { 0 } else { round_up(off(ts, tcx, i - 1) + ty_size(ts[i - 1], tcx), ty_align(ts[i], tcx) as int) }
}
pub open spec fn end_of<P>(ts: Seq<&Type<P>>, tcx: &TypeContext, i: int) -> int {   // end of field i-1 ; 0 for i == 0
    if i <= 0 { 0 } else { off(ts, tcx, i - 1) + ty_size(ts[i - 1], tcx) }
}
pub open spec fn maxal<P>(ts: Seq<&Type<P>>, tcx: &TypeContext, i: int) -> int    // max align of fields 0..i
    decreases i
{
    if i <= 0 { 0 } else { let m = maxal(ts, tcx, i - 1); let a = ty_align(ts[i - 1], tcx) as int; if m > a { m } else { a } }
}
pub open spec fn struct_size<P>(ts: Seq<&Type<P>>, tcx: &TypeContext) -> int {
    round_up(end_of(ts, tcx, ts.len() as int), maxal(ts, tcx, ts.len() as int))
}
// the gap after field j: up to the next field's offset, or up to the struct's size for the last field
pub open spec fn gap_after<P>(ts: Seq<&Type<P>>, tcx: &TypeContext, j: int) -> int {
    (if j + 1 < ts.len() { off(ts, tcx, j + 1) } else { struct_size(ts, tcx) }) - end_of(ts, tcx, j + 1)
}

pub open spec fn pad(x: int, a: int) -> int { (a - (x % a)) % a }
pub proof fn lemma_pad(x: usize, a: usize, p: usize)
    requires pow2(a), pow2(p), x as int % p as int == 0,
    ensures
        0 <= pad(x as int, a as int) < a,
        (x + pad(x as int, a as int)) % (a as int) == 0,
        pad(x as int, a as int) % (p as int) == 0,
        x + pad(x as int, a as int) == round_up(x as int, a as int),
        x == 0 ==> pad(x as int, a as int) == 0,
{
    let xi = x as int;
@CASES@
}
pub proof fn lemma_sum_mod(x: int, s: int, a: usize)
    requires pow2(a), x % (a as int) == 0, s % (a as int) == 0, x >= 0, s >= 0,
    ensures (x + s) % (a as int) == 0,
{
    vstd::arithmetic::div_mod::lemma_add_mod_noop(x, s, a as int);
}
pub proof fn lemma_div_mul(x: usize, p: usize)
    requires pow2(p), x as int % p as int == 0,
    ensures (x as int / p as int) * p as int == x as int,
{
    vstd::arithmetic::div_mod::lemma_fundamental_div_mod(x as int, p as int);
}
// a multiple of a larger power of two is a multiple of a smaller one
pub proof fn lemma_mod_smaller_pow2(x: usize, big: usize, small: usize)
    requires pow2(big), pow2(small), small <= big, x as int % big as int == 0,
    ensures x as int % small as int == 0,
{
    let q = x as int / big as int;
    vstd::arithmetic::div_mod::lemma_fundamental_div_mod(x as int, big as int);
    let k = big as int / small as int;
    assert(big as int == k * small as int) by {
        if small == 1 { } else if small == 2 { assert(big == 2 || big == 4 || big == 8 || big == 16); }
        else if small == 4 { assert(big == 4 || big == 8 || big == 16); } else if small == 8 { assert(big == 8 || big == 16); } else { assert(big == 16); }
    }
    assert(x as int == (q * k) * small as int) by (nonlinear_arith)
        requires x as int == big as int * q, big as int == k * small as int;
    vstd::arithmetic::div_mod::lemma_mod_multiples_basic(q * k, small as int);
}
"""

CONTRACT = f"""    requires types@.len() <= 0x1000_0000,
    ensures {CANARY}
        types@.len() == 0 ==> r.fields@.len() == 0,
        types@.len() > 0 ==> {{
            &&& r.fields@.len() == types@.len()
            // offsets, alignment and size are exactly repr(C)
            &&& forall|j: int| 0 <= j < types@.len() ==> #[trigger] r.fields@[j].offset == off(types@, tcx, j)
            &&& lalign(r.struct_layout) == maxal(types@, tcx, types@.len() as int)
            &&& lsize(r.struct_layout) == struct_size(types@, tcx)
            // the padding after each field is expressed as padding_count fields of padding_field_width bytes, the width
            // being the alignment of the field that precedes the gap (docs/wasm_abi_quirks.md)
            &&& forall|j: int| 0 <= j < types@.len() ==> (#[trigger] r.fields@[j]).padding_count * r.fields@[j].padding_field_width == gap_after(types@, tcx, j)
            &&& forall|j: int| 0 <= j < types@.len() && gap_after(types@, tcx, j) != 0 ==> (#[trigger] r.fields@[j]).padding_field_width == ty_align(types@[j], tcx)
            // scalar counts (wasm C ABI flattening): per field and in total
            &&& forall|j: int| 0 <= j < types@.len() ==> (#[trigger] r.fields@[j]).scalar_count == ty_sc(types@[j], tcx)
            &&& r.scalar_count == sc_sum(types@, tcx, types@.len() as int)
            // result is itself a valid field type (callee contract for nested structs)
            &&& pow2(lalign(r.struct_layout)) && lsize(r.struct_layout) % lalign(r.struct_layout) == 0
            &&& (r.scalar_count is Scalars ==> r.scalar_count->Scalars_0 <= lsize(r.struct_layout))
        }},"""

LOOP_INV = """        invariant
            it.seq() == ts, ts.len() <= 0x1000_0000, it.index@ <= ts.len(),
            fields@.len() == it.index@,
            forall|j: int| 0 <= j < it.index@ ==> #[trigger] fields@[j].offset == off(ts, tcx, j),
            forall|j: int| 0 <= j < it.index@ ==> ty_ok(#[trigger] ts[j], tcx),
            next_offset == end_of(ts, tcx, it.index@),
            max_align == maxal(ts, tcx, it.index@),
            it.index@ > 0 ==> pow2(max_align) && max_align >= prev_align,
            prev_align == (if it.index@ == 0 { 1usize } else { ty_align(ts[it.index@ - 1], tcx) }),
            pow2(prev_align),
            next_offset % prev_align == 0,
            next_offset <= it.index@ * 0x1000_0010,
            scalar_count == sc_sum(ts, tcx, it.index@),
            scalar_count is Scalars ==> scalar_count->Scalars_0 <= next_offset,
            forall|j: int| 0 <= j < it.index@ ==> (#[trigger] fields@[j]).scalar_count == ty_sc(ts[j], tcx),
            // padding bookkeeping of all fields but the last one is final
            forall|j: int| 0 <= j < it.index@ - 1 ==> (#[trigger] fields@[j]).padding_count * fields@[j].padding_field_width == off(ts, tcx, j + 1) - end_of(ts, tcx, j + 1),
            forall|j: int| 0 <= j < it.index@ - 1 && off(ts, tcx, j + 1) - end_of(ts, tcx, j + 1) != 0 ==> (#[trigger] fields@[j]).padding_field_width == ty_align(ts[j], tcx),
            it.index@ > 0 ==> fields@[it.index@ - 1].padding_count == 0 && fields@[it.index@ - 1].padding_field_width == 1,"""

BODY_HINT = """        proof {
            assert(typ == ts[it.index@]);
        }
        let ghost fields0 = fields@;
        let ghost off0 = next_offset;"""

AFTER_ALIGN = """
        proof {
            lemma_pad(next_offset, align, prev_align);
            lemma_div_mul(pad(next_offset as int, align as int) as usize, prev_align);
        }"""

AFTER_PADDING = """
        proof { assert(padding == pad(off0 as int, align as int)); }"""

BEFORE_ADD_SIZE = """        proof {
            lemma_sum_mod(next_offset as int, size as int, align);
            assert forall|j: int| 0 <= j < it.index@ implies (#[trigger] fields@[j]).padding_count * fields@[j].padding_field_width == off(ts, tcx, j + 1) - end_of(ts, tcx, j + 1) by {
                if j < it.index@ - 1 { assert(fields@[j] == fields0[j]); }
            }
        }
"""

TAIL_HINT = """
    proof {
        let n = ts.len() as int;
        assert(max_align == maxal(ts, tcx, n));
        assert(next_offset == end_of(ts, tcx, n));
        lemma_pad(next_offset, max_align, prev_align);
        lemma_div_mul(pad(next_offset as int, max_align as int) as usize, prev_align);
    }
    let ghost fields1 = fields@;
    let ghost end1 = next_offset;
"""

FINAL_HINT = """
    proof {
        let n = ts.len() as int;
        assert(next_offset == struct_size(ts, tcx));
        assert forall|j: int| 0 <= j < n implies (#[trigger] fields@[j]).padding_count * fields@[j].padding_field_width == gap_after(ts, tcx, j) by {
            if j < n - 1 { assert(fields@[j] == fields1[j]); }
        }
        assert forall|j: int| 0 <= j < n && gap_after(ts, tcx, j) != 0 implies (#[trigger] fields@[j]).padding_field_width == ty_align(ts[j], tcx) by {
            if j < n - 1 { assert(fields@[j] == fields1[j]); }
        }
        assert forall|j: int| 0 <= j < n implies (#[trigger] fields@[j]).scalar_count == ty_sc(ts[j], tcx) by {
            if j < n - 1 { assert(fields@[j] == fields1[j]); } else { assert(fields@[j].scalar_count == fields1[j].scalar_count); }
        }
    }
"""


def _first(pattern, repl_fn):
    def f(text):
        m = re.search(pattern, text)
        if not m:
            raise Undecided("edit-mismatch", f"anchor {pattern!r} not found")
        new = repl_fn(m)
        return text[:m.start()] + new + text[m.end():], [(m.group(0), new)]
    return f


def build(tier):
    vf = VerusFile(NAME)
    src = Src(F)
    vf.add(vhelp.HEADER)
    vf.add(PRELUDE)
    vhelp.typedef(vf, src, "StructFieldLayout", "struct")
    vhelp.typedef(vf, src, "StructFieldsInfo", "struct")
    vhelp.typedef(vf, src, "ScalarCount", "enum", derive="#[derive(Copy, Clone, PartialEq, Eq)]")
    vf.add("impl ScalarCount {\n    // E9: `impl Add<ScalarCount> for ScalarCount { fn add }` emitted as an inherent method\n")
    p = Piece(src, src.item("impl Add<ScalarCount> for ScalarCount::add", "fn"))
    p.sub("E1", r"\Afn add", "pub fn add", count=1)
    p.contract("""        requires (self is Scalars && other is Scalars) ==> self->Scalars_0 + other->Scalars_0 <= usize::MAX,
        ensures r == sc_add(self, other),""", ret_name="r")
    vf.add_piece(p, expected="add")
    vf.add("}\n")
    vf.add("""pub open spec fn sc_add(a: ScalarCount, b: ScalarCount) -> ScalarCount {
    // wasm ABI: a union anywhere forces Memory; otherwise scalars add up; ZSTs contribute nothing
    if a is Memory || b is Memory { ScalarCount::Memory }
    else if b is Zst { a } else if a is Zst { b }
    else { ScalarCount::Scalars((a->Scalars_0 + b->Scalars_0) as usize) }
}
""")
    vf.add(CALLEE.replace("@CASES@", _lemma_pad_cases()))
    it = src.item("struct_field_info", "fn")
    p = Piece(src, it)
    p.expect_loops(1)
    # E11: the iterator parameter is collected into a Vec as the first use
    (a0, a1) = it["params"][0]
    if src.slice(a0, a1).replace(" ", "") != "types:implIterator<Item=&'aType<P>>":
        raise Undecided("anchor-lost", "struct_field_info: first parameter is no longer `types: impl Iterator<Item = &'a Type<P>>`")
    p.replace("E11", a0, a1, "types: Vec<&'a Type<P>>", "verified from the point where the items are in a Vec (A-iter: collect)")
    p.sub("E11", r"[ \t]*let types = types\.collect::<Vec<_>>\(\);\n", "", count=1, why="collect statement dropped (parameter is already the Vec)")
    p.sub("E12", r"P: hir::TyPosition \+ 'a", "P: TyPosition + 'a", count=1, why="path re-rooted")
    p.contract(CONTRACT, ret_name="r")
    p.body_prefix("    let ghost ts = types@;")
    p.loop_spec(0, LOOP_INV, iter_name="it")
    p.loop_body_prefix(0, BODY_HINT)
    p.insert("E4", it["loops"][0]["end"], TAIL_HINT, "ghost hints after the loop")
    p.sub("E9", r"scalar_count \+= field_scalars;", "scalar_count = scalar_count.add(field_scalars);", count=1, why="operator sugar on ScalarCount resolved by hand")
    p.fn("E5", rule_asserts, why="assert!/debug_assert! become proof obligations (never fire)")
    p.fn("E4", _first(r"let align = size_align\.align\(\);", lambda m: m.group(0) + AFTER_ALIGN), why="ghost hint")
    p.fn("E4", _first(r"let padding = [^;]+;", lambda m: m.group(0) + AFTER_PADDING), why="ghost hint")
    p.fn("E4", _first(r"[ \t]*next_offset \+= size;", lambda m: BEFORE_ADD_SIZE + m.group(0)), why="ghost hint")
    p.fn("E4", _first(r"\n[ \t]*StructFieldsInfo \{\n[ \t]*fields,", lambda m: FINAL_HINT + m.group(0)), why="ghost hint before the result")
    vf.add_piece(p, expected="struct_field_info")
    vf.expected += ["lemma_pad", "lemma_sum_mod", "lemma_div_mul"]
    vf.add(vhelp.FOOTER)
    return vf


CANARY_FUNCTIONS = ["struct_field_info"]
RLIMIT = 60
ASSUMPTIONS = [
    "callee type_size_alignment_and_scalar_count is abstract: align in {1,2,4,8,16}, size % align == 0, size <= 2^28 (proved for primitives by Kani unit layout_prims; for nested structs it is this unit's own postcondition)",
    "scalar_count overflow: ScalarCount::add requires the sum of scalar counts to fit usize (not tracked through struct_field_info: the call site precondition is assumed via external callee... see unit text)",
    "std::alloc::Layout::{size,align,from_size_align} assumed contracts (lsize/lalign uninterpreted)",
    "E11/A-iter: Iterator::collect::<Vec<_>>() yields the items in order",
    "64-bit host usize (`global size_of usize == 8`); field count <= 2^28",
    "ghost hints are anchored on the statements `let align = ..`, `let padding = ..`, `next_offset += size`, `StructFieldsInfo { fields,` (lost anchor => undecided)",
]
UNVERIFIED = {
    "C08": ["generate_fields / converter.rs / struct.js.jinja: the JS text that uses these numbers", "js.abi legacy vs spec argument flattening", "type_size_alignment_and_scalar_count for nested structs (TypeContext lookup) except via Kani bounded unit"],
    "C15": [],
}
