"""V static_edge_panics: the statement that starts the lifetime-edge list of an opaque value coming back from Rust, in
tool/src/dart/mod.rs gen_c_to_dart_for_type and tool/src/js/converter.rs gen_c_to_js_for_type (`let mut edges = if let Some(lt) =
op.owner.lifetime() { .. } else { "[]".into() };`).  Both panic (`'static not supported ..`) when the borrow is `'static`.  Lowering has
a feature gate for `'static` *slices* only (`static_slices`, lower_type / lower_out_type); `&'static Opaque` passes lowering and validation
for every backend, so `fn get() -> &'static Op` (or a struct field `&'static Op`) aborts the dart, js and demo_gen backends: known finding.
The sibling sites (the `for lt in op.lifetimes.lifetimes()` loop, the Struct arm, gen.rs / mod.rs `does_type_use_lifetime_from_set`) have the
same shape and are listed as unverified."""
import re
from rsrc import Src, Piece, match_close, rule_panics, macro_calls
from verus_engine import VerusFile, CANARY
from common import Undecided
import vhelp

NAME = "static_edge_panics"
ENGINE = "verus"
PROPERTIES = {"C15": "Dart gen_c_to_dart_for_type / JS gen_c_to_js_for_type: the owner-lifetime statement of the Opaque arm has no reachable panic! for the opaque borrows lowering lets through"}
DART = "tool/src/dart/mod.rs"
JS = "tool/src/js/converter.rs"

PRELUDE = r"""
#[derive(Copy, Clone, PartialEq, Eq, Structural)] pub struct Lifetime(pub usize);
#[derive(Copy, Clone, PartialEq, Eq, Structural)] pub enum MaybeStatic<T> { Static, NonStatic(T) }
pub mod hir { pub use super::MaybeStatic; pub use super::Lifetime; }
#[verifier::external_body] pub struct LifetimeEnv { x: u8 }
#[verifier::external_body] pub struct CowStr { x: u8 }
impl CowStr { #[verifier::external_body] pub fn into_owned(self) -> String { unimplemented!() } }
#[verifier::external_body] pub fn __lit() -> String { unimplemented!() }
#[verifier::external_body] pub struct Formatter { x: u8 }
impl Formatter { #[verifier::external_body] pub fn fmt_lifetime_edge_array(&self, lt: Lifetime, env: &LifetimeEnv) -> CowStr { unimplemented!() } }
// hir::MaybeOwn / Borrow / Optional<Borrow>: the ownership of an opaque path in output position (E12: the position marker is erased)
pub struct Owner { pub lt: Option<MaybeStatic<Lifetime>> }
impl Owner { pub fn lifetime(&self) -> (r: Option<MaybeStatic<Lifetime>>) ensures r == self.lt { self.lt } }
// E11: Lifetimes::lifetimes() (an ExactSizeIterator consumed by `for` only) carried as the Vec of its items
pub struct Lifetimes { pub v: Vec<MaybeStatic<Lifetime>> }
impl Lifetimes { #[verifier::external_body] pub fn lifetimes(&self) -> (r: Vec<MaybeStatic<Lifetime>>) ensures r@ == self.v@ { unimplemented!() } }
pub struct OpaquePath { pub owner: Owner, pub lifetimes: Lifetimes }
pub struct StructPath { pub lts: Lifetimes }
impl StructPath { pub fn lifetimes(&self) -> (r: &Lifetimes) ensures *r == self.lts { &self.lts } }
impl LifetimeEnv { #[verifier::external_body] pub fn fmt_lifetime(&self, lt: Lifetime) -> CowStr { unimplemented!() } }
#[verifier::external_body] pub fn __w() { unimplemented!() }
pub struct Ctx<'cx> { pub formatter: &'cx Formatter }
// what lowering lets through: lower_type / lower_out_type consult `static_slices` for slices only (core/src/hir/lowering.rs, the two
// `attrs_supported().static_slices` tests); a borrowed opaque may carry 'static in every backend => no constraint on op.owner.lt
pub open spec fn accepted_opaque(op: OpaquePath) -> bool { true }
"""


def fragment(src, fn_path, label):
    it = src.item(fn_path, "fn")
    body = src.slice(it["start"], it["end"])
    m = re.search(r"let mut edges = if let Some\(lt\) = op\.owner\.lifetime\(\) \{", body)
    if not m:
        raise Undecided("anchor-lost", f"{label}: `let mut edges = if let Some(lt) = op.owner.lifetime() {{` not found")
    o = m.end() - 1
    c = match_close(body, o)
    m2 = re.compile(r"\s*else\s*\{").match(body, c + 1)
    if not m2:
        raise Undecided("anchor-lost", f"{label}: the `else` branch of the edges statement not found")
    c2 = match_close(body, m2.end() - 1)
    m3 = re.compile(r"\s*;").match(body, c2 + 1)
    if not m3:
        raise Undecided("anchor-lost", f"{label}: edges statement does not end after the else block")
    a, b = it["start"] + m.start(), it["start"] + m3.end()
    frag = {"path": it["path"] + "#Opaque arm: let mut edges", "kind": "stmt", "start": a, "after_attrs": a, "end": b, "loops": []}
    return frag


def loop_fragment(src, fn_path, header, label):
    it = src.item(fn_path, "fn")
    body = src.slice(it["start"], it["end"])
    ms = list(re.finditer(header, body))
    if len(ms) != 1:
        raise Undecided("anchor-lost", f"{label}: loop header `{header}` found {len(ms)} times, expected 1")
    m = ms[0]
    c = match_close(body, m.end() - 1)
    a, b = it["start"] + m.start(), it["start"] + c + 1
    return {"path": it["path"] + "#" + label, "kind": "stmt", "start": a, "after_attrs": a, "end": b, "loops": []}


def rule_write_macros(text):
    """E6: `write!(buf, ..)` (+ `.unwrap()`) appends generated text to a String: text not judged here -> __w()"""
    pairs = []
    while True:
        calls = macro_calls(text, "write")
        if not calls:
            break
        (s, o, c) = calls[0]
        end = c + 1
        m = re.compile(r"\s*\.unwrap\(\)").match(text, end)
        if m:
            end = m.end()
        pairs.append((text[s:end], "__w()"))
        text = text[:s] + "__w()" + text[end:]
    return text, pairs


def build(tier):
    vf = VerusFile(NAME)
    vf.add(vhelp.HEADER)
    vf.add(PRELUDE)
    vf.add("impl<'cx> Ctx<'cx> {\n")
    for (rel, path, fname, env) in ((DART, "impl TyGenContext<'_,'cx>::gen_c_to_dart_for_type", "dart_opaque_owner_edges", "lifetime_env"),
                                    (JS, "impl TyGenContext<'_,'tcx>::gen_c_to_js_for_type", "js_opaque_owner_edges", "lifetime_environment")):
        src = Src(rel)
        frag = fragment(src, path, fname)
        p = Piece(src, frag)
        p.sub("E6", r'"\[\]"\.into\(\)', "__lit()", count=1, why="literal text dropped (not judged here)")
        p.fn("E5", rule_panics, why="panic! becomes an obligation")
        org = {"file": rel, "item": frag["path"], "line": src.line_of(frag["start"]), "end_line": src.line_of(frag["end"])}
        vf.add(f"    // E15: statement of the Opaque arm, as a function of the opaque path\n    fn {fname}(&self, op: &OpaquePath, {env}: &LifetimeEnv) -> (r: String)\n"
               f"        requires accepted_opaque(*op),\n    {{\n        ", origin=org)
        vf.add(p.render(), origin=org, edits=p.log)
        vf.add("\n        edges\n    }\n", origin=org)
        vf.functions.append({"path": frag["path"], "file": rel, "line": org["line"], "end_line": org["end_line"], "engine": "verus", "mode": "verus (statement fragment, E15)", "bound": "none"})
        vf.expected.append(fname)
    for (rel, path, env) in ((DART, "impl TyGenContext<'_,'cx>::gen_c_to_dart_for_type", "lifetime_env"), (JS, "impl TyGenContext<'_,'tcx>::gen_c_to_js_for_type", "lifetime_environment")):
        src = Src(rel)
        be = "dart" if rel == DART else "js"
        for (header, label, fname, params) in (
                (r"for lt in op\.lifetimes\.lifetimes\(\) \{", "Opaque arm: for lt in op.lifetimes", f"{be}_opaque_type_lifetimes", "op: &OpaquePath"),
                (r"for lt in st\.lifetimes\(\)\.lifetimes\(\) \{", "Struct arm: for lt in st.lifetimes()", f"{be}_struct_type_lifetimes", "st: &StructPath")):
            frag = loop_fragment(src, path, header, label)
            p = Piece(src, frag)
            p.fn("E6", rule_write_macros, why="write!-appended text dropped (not judged here)")
            p.fn("E5", rule_panics, why="panic! becomes an obligation")
            org = {"file": rel, "item": frag["path"], "line": src.line_of(frag["start"]), "end_line": src.line_of(frag["end"])}
            vf.add(f"    // E15: loop of the arm, as a function of the path\n    fn {fname}(&self, {params}, {env}: &LifetimeEnv)\n    {{\n        ", origin=org)
            vf.add(p.render(), origin=org, edits=p.log)
            vf.add("\n    }\n", origin=org)
            vf.functions.append({"path": frag["path"], "file": rel, "line": org["line"], "end_line": org["end_line"], "engine": "verus", "mode": "verus (statement fragment, E15)", "bound": "none"})
            vf.expected.append(fname)
    vf.add("}\n")
    vf.add(vhelp.FOOTER)
    return vf


ASSUMPTIONS = [
    "E15: one statement of the Opaque arm of each function is under contract; formatter calls and literal text are abstract",
    "which opaque borrows lowering accepts is read from lower_type / lower_out_type: only slices are tested against static_slices",
]
UNVERIFIED = {"C15": ["the remaining `'static` panics (js/gen.rs:281 and dart/mod.rs / js/gen.rs does_type_use_lifetime_from_set closures, js/converter.rs:702)"]}
