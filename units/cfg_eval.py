"""V cfg_eval: AttributeValidator::satisfies_cfg == denotational semantics of the condition language, all depths."""
from rsrc import Src, Piece
from verus_engine import VerusFile
import vhelp

NAME = "cfg_eval"
ENGINE = "verus"
PROPERTIES = {"C13": "a #[diplomat::attr(<cond>, ..)] condition evaluates to true exactly when the formula holds for the backend",
              "C15": "satisfies_cfg terminates and is panic-free"}
HIR_ATTRS = "core/src/hir/attrs.rs"
AST_ATTRS = "core/src/ast/attrs.rs"

PRELUDE = r"""
pub assume_specification<T: core::ops::DerefMut> [Option::<T>::as_deref_mut] (o: &mut Option<T>) -> (r: Option<&mut <T as core::ops::Deref>::Target>)
    ensures old(o).is_some() == r.is_some(), final(o).is_some() == old(o).is_some();

pub enum LoweringError { Other(String) }
"""

TRAIT = r"""
// required methods of the real trait, abstract here: their meaning is given by two uninterpreted-per-backend spec functions
pub trait AttributeValidator {
    spec fn backend_spec(&self, n: Seq<char>) -> bool;
    spec fn nv_spec(&self, n: Seq<char>, v: Seq<char>) -> Option<bool>;
    fn is_backend(&self, backend_name: &str) -> (r: bool) ensures r == self.backend_spec(backend_name@);
    fn is_name_value(&self, name: &str, value: &str) -> (r: Result<bool, LoweringError>)
        ensures match r { Ok(b) => self.nv_spec(name@, value@) == Some(b), Err(_) => self.nv_spec(name@, value@) is None };
}

// ---- oracle: denotation of the documented condition language (None = lowering error).
// `auto` is only allowed at the top level and directly within `any` (auto_ok); any/all are left-to-right
// short-circuit, so an error after a decisive element is not observed (as in Rust's || and &&).
pub open spec fn den<V: AttributeValidator + ?Sized>(this: &V, c: DiplomatBackendAttrCfg, auto_ok: bool) -> Option<bool>
    decreases c
{
    match c {
        DiplomatBackendAttrCfg::Star => Some(true),
        DiplomatBackendAttrCfg::Auto => if auto_ok { Some(true) } else { None },
        DiplomatBackendAttrCfg::BackendName(n) => Some(this.backend_spec(n@)),
        DiplomatBackendAttrCfg::NameValue(n, v) => this.nv_spec(n@, v@),
        DiplomatBackendAttrCfg::Not(x) => match den(this, *x, false) { Some(b) => Some(!b), None => None },
        DiplomatBackendAttrCfg::Any(xs) => den_any(this, xs@, 0, auto_ok),
        DiplomatBackendAttrCfg::All(xs) => den_all(this, xs@, 0),
    }
}
pub open spec fn den_any<V: AttributeValidator + ?Sized>(this: &V, xs: Seq<DiplomatBackendAttrCfg>, i: int, auto_ok: bool) -> Option<bool>
    decreases xs, xs.len() - i
{
    if i < 0 || i >= xs.len() { Some(false) } else {
        match den(this, xs[i], auto_ok) { None => None, Some(true) => Some(true), Some(false) => den_any(this, xs, i + 1, auto_ok) }
    }
}
pub open spec fn den_all<V: AttributeValidator + ?Sized>(this: &V, xs: Seq<DiplomatBackendAttrCfg>, i: int) -> Option<bool>
    decreases xs, xs.len() - i
{
    if i < 0 || i >= xs.len() { Some(true) } else {
        match den(this, xs[i], false) { None => None, Some(false) => Some(false), Some(true) => den_all(this, xs, i + 1) }
    }
}

// sanity lemmas about the oracle itself: De Morgan-free basics the property statement implies
pub proof fn lemma_den_basics<V: AttributeValidator + ?Sized>(this: &V, x: DiplomatBackendAttrCfg, e: Vec<DiplomatBackendAttrCfg>)
    requires e@.len() == 0,
    ensures
        den(this, DiplomatBackendAttrCfg::Star, false) == Some(true),
        den(this, DiplomatBackendAttrCfg::Not(Box::new(DiplomatBackendAttrCfg::Star)), true) == Some(false),
        den(this, DiplomatBackendAttrCfg::Any(e), true) == Some(false),
        den(this, DiplomatBackendAttrCfg::All(e), true) == Some(true),
        den(this, DiplomatBackendAttrCfg::Not(Box::new(DiplomatBackendAttrCfg::Not(Box::new(x)))), false) == den(this, x, false),
{
    assert(den_any(this, e@, 0, true) == Some(false));
    assert(den_all(this, e@, 0) == Some(true));
    let nx = DiplomatBackendAttrCfg::Not(Box::new(x));
    assert(den(this, nx, false) == match den(this, x, false) { Some(b) => Some(!b), None => None });
}
"""

CONTRACT = """        ensures
            match res { Ok(b) => den(this, *cfg, auto_found__0.is_some()) == Some(b), Err(_) => den(this, *cfg, auto_found__0.is_some()) is None },
        decreases cfg,"""

INV_ANY = """                    invariant
                        *cfg == DiplomatBackendAttrCfg::Any(*cs),
                        auto_found.is_some() == auto_found__0.is_some(),
                        den_any(this, cs@, 0, auto_found__0.is_some()) == den_any(this, cs@, it.index@, auto_found__0.is_some()),"""
INV_ALL = """                    invariant
                        *cfg == DiplomatBackendAttrCfg::All(*cs),
                        den_all(this, cs@, 0) == den_all(this, cs@, it.index@),"""
HINT = "                    proof { assert(c == cs@[it.index@]); }"


def build(tier):
    vf = VerusFile(NAME)
    hir = Src(HIR_ATTRS)
    ast = Src(AST_ATTRS)
    vf.add(vhelp.HEADER)
    vf.add(PRELUDE)
    vhelp.typedef(vf, ast, "DiplomatBackendAttrCfg", "enum")
    vf.add(TRAIT)
    it = hir.item("trait AttributeValidator::satisfies_cfg", "fn")
    p = Piece(hir, it)
    p.expect_loops(2)
    # E8: hoist the recursive trait default method to a free generic function
    (s0, s1) = it["params"][0]
    p.replace("E8", s0, s1, "this: &V", "recursion in trait default methods unsupported: hoisted to a free generic fn, self -> this")
    (n0, n1) = it["name_span"]
    p.replace("E8", n0, n1, "satisfies_cfg<V: AttributeValidator + ?Sized>", "generic over the validator instead of dyn/Self")
    # E13: mutable by-value parameter
    (a0, a1) = it["params"][2]
    ptxt = hir.slice(a0, a1)
    if not ptxt.startswith("mut auto_found:"):
        from common import Undecided
        raise Undecided("anchor-lost", "satisfies_cfg third parameter is no longer `mut auto_found`")
    p.replace("E13", a0, a1, "auto_found__0:" + ptxt[len("mut auto_found:"):], "ensures cannot name the entry value of a mut by-value param")
    p.body_prefix("        let mut auto_found = auto_found__0;", rule="E13")
    p.contract(CONTRACT, ret_name="res")
    p.loop_spec(0, INV_ANY, iter_name="it")
    p.loop_body_prefix(0, HINT)
    p.loop_spec(1, INV_ALL, iter_name="it")
    p.loop_body_prefix(1, HINT)
    p.sub("E8", r"self\.satisfies_cfg\(", "satisfies_cfg(this, ", count=3)
    p.sub("E8", r"self\.is_backend\(", "this.is_backend(", count=1)
    p.sub("E8", r"self\.is_name_value\(", "this.is_name_value(", count=1)
    p.sub("E2", r"#\[allow\(clippy::[a-z_]+\)\]\s*\n", "", count=None, why="lint attribute on an expression dropped")
    vf.add_piece(p, expected="satisfies_cfg")
    vf.expected.append("lemma_den_basics")
    vf.add(vhelp.FOOTER)
    return vf


ASSUMPTIONS = [
    "is_backend / is_name_value of the concrete validator are abstract (spec functions backend_spec / nv_spec); BasicAttributeValidator's string tables are not proved here",
    "Option::as_deref_mut: assume_specification (is_some preserved)",
    "E8: dynamic dispatch through &self replaced by a generic parameter",
]
UNVERIFIED = {
    "C13": ["DiplomatBackendAttrCfg::parse (syn)", "Attrs::from_ast meta dispatch (syn Meta)", "BasicAttributeValidator::{is_backend,is_name_value} string tables",
            "each backend's `if attrs.disable { continue }` and byte-identity of other backends' output (template/driver code)"],
    "C15": [],
}
