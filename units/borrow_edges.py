"""V borrow_edges: hir::BorrowingParamVisitor::visit_param — the edge computation every managed backend (JS, Dart, Kotlin,
nanobind) uses.  For every output lifetime L of the borrow map and a parameter of type `ty`:
  * slice / opaque parameter: exactly one edge (param_name, SliceParam | OpaqueParam) is appended iff some non-static
    lifetime mentioned by `ty` is in all_longer_lifetimes(L) (i.e. is forced to outlive L); otherwise nothing;
  * struct parameter: one edge StructLifetime(def_env, def slot, is_option) per def-site slot whose use-site lifetime is in
    all_longer_lifetimes(L), in slot order, and borrowed_struct_lifetime_map == {(slot, L) | that condition};
  * keys and all_longer sets are untouched, earlier edges are kept (prefix), the returned ParamBorrowInfo classifies the
    parameter consistently (BorrowedSlice / TemporarySlice / BorrowedOpaque / Struct / NotBorrowed).
all_longer_lifetimes(L) itself == the transitive closure: unit hir_transitivity."""
import re
from rsrc import Src, Piece, rule_panics
from verus_engine import VerusFile, CANARY
from common import Undecided, VERIF, read
import vhelp
import os

NAME = "borrow_edges"
ENGINE = "verus"
PROPERTIES = {"C04": "visit_param reports, per output lifetime, exactly the parameters (slice / opaque / struct slot) mentioning a lifetime in its all_longer set",
              "C15": "visit_param's unreachable! arm (reachable: see KNOWN_FINDINGS) and all indexing"}
F = "core/src/hir/methods/borrowing_param.rs"
LT = "core/src/hir/lifetimes.rs"

CONTRACT = """        ensures /*CANARY*/
            final(self).tcx == old(self).tcx, final(self).used_method_lifetimes == old(self).used_method_lifetimes,
            final(self).borrow_map.entries@.len() == old(self).borrow_map.entries@.len(),
            forall|i: int| 0 <= i < old(self).borrow_map.entries@.len() ==> #[trigger] frame(final(self).borrow_map.entries@, old(self).borrow_map.entries@, i),
            // nothing is borrowed by the output: no edges, slices are temporaries
            old(self).used_method_lifetimes@ =~= Set::<Lifetime>::empty() ==> final(self).borrow_map == old(self).borrow_map
                && (if *ty is Slice { r is TemporarySlice } else { r is NotBorrowed }),
            // slices / opaques: one edge per output lifetime that some lifetime of the parameter outlives
            !(old(self).used_method_lifetimes@ =~= Set::<Lifetime>::empty()) && !(*ty is Struct) ==> {
                &&& forall|i: int| #![trigger old(self).borrow_map.entries@[i]] 0 <= i < old(self).borrow_map.entries@.len() ==> {
                        let o = old(self).borrow_map.entries@[i].v; let n = final(self).borrow_map.entries@[i].v;
                        if mentions(lts_of(ty), o.all_longer_lifetimes@) { one_edge(n.incoming_edges@, o.incoming_edges@, param_name@, *ty) } else { n.incoming_edges@ == o.incoming_edges@ } }
                &&& (any_entry(old(self).borrow_map.entries@, old(self).borrow_map.entries@.len() as int, lts_of(ty)) ==> if *ty is Slice { r is BorrowedSlice } else { r is BorrowedOpaque })
                &&& (!any_entry(old(self).borrow_map.entries@, old(self).borrow_map.entries@.len() as int, lts_of(ty)) ==> if *ty is Slice { r is TemporarySlice } else { r is NotBorrowed })
            },
            // structs: one edge per (output lifetime, def-site slot whose use-site lifetime outlives it), in slot order
            !(old(self).used_method_lifetimes@ =~= Set::<Lifetime>::empty()) && (*ty is Struct) ==> {
                let link = link_of(&ty->Struct_0, old(self).tcx);
                &&& forall|i: int| #![trigger old(self).borrow_map.entries@[i]] 0 <= i < old(self).borrow_map.entries@.len() ==> {
                        let o = old(self).borrow_map.entries@[i].v; let n = final(self).borrow_map.entries@[i].v;
                        is_ext(n.incoming_edges@, o.incoming_edges@, slots_upto(link.pairs@, link.pairs@.len() as int, o.all_longer_lifetimes@), param_name@, link.env, spec_is_option(ty)) }
                &&& (r is Struct) == any_entry_p(old(self).borrow_map.entries@, old(self).borrow_map.entries@.len() as int, link.pairs@)
                &&& ((r is Struct) || (r is NotBorrowed))
                &&& ((r is Struct) ==> r->Struct_0.env == link.env
                      && forall|d: Lifetime, m: Lifetime| r->Struct_0.borrowed_struct_lifetime_map@.contains((d, m)) == want_pairs(old(self).borrow_map.entries@, old(self).borrow_map.entries@.len() as int, link.pairs@, d, m))
            },"""

# E7: `for (K, V) in &mut self.borrow_map {` / `for V in self.borrow_map.values_mut() {` -> index loop over the entries (key order)
STRUCT_OUTER = """let mut i__: usize = 0;
            while i__ < self.borrow_map.entries.len()
                invariant
                    i__ <= self.borrow_map.entries@.len(), self.borrow_map.entries@.len() == old(self).borrow_map.entries@.len(),
                    self.tcx == old(self).tcx, self.used_method_lifetimes == old(self).used_method_lifetimes,
                    link == link_of(s, old(self).tcx), *ty == Type::Struct(*s),
                    forall|j: int| i__ <= j < old(self).borrow_map.entries@.len() ==> self.borrow_map.entries@[j] == old(self).borrow_map.entries@[j],
                    forall|j: int| #![trigger old(self).borrow_map.entries@[j]] 0 <= j < i__ ==> frame(self.borrow_map.entries@, old(self).borrow_map.entries@, j)
                        && is_ext(self.borrow_map.entries@[j].v.incoming_edges@, old(self).borrow_map.entries@[j].v.incoming_edges@,
                                  slots_upto(link.pairs@, link.pairs@.len() as int, old(self).borrow_map.entries@[j].v.all_longer_lifetimes@), param_name@, link.env, spec_is_option(ty)),
                    is_borrowed == any_entry_p(old(self).borrow_map.entries@, i__ as int, link.pairs@),
                    forall|d: Lifetime, m: Lifetime| #![trigger borrowed_struct_lifetime_map@.contains((d, m))] borrowed_struct_lifetime_map@.contains((d, m)) == want_pairs(old(self).borrow_map.entries@, i__ as int, link.pairs@, d, m),
                decreases self.borrow_map.entries@.len() - i__
            {
                let ghost old_edges = old(self).borrow_map.entries@[i__ as int].v.incoming_edges@;
                let ghost set = old(self).borrow_map.entries@[i__ as int].v.all_longer_lifetimes;
                let ghost key = old(self).borrow_map.entries@[i__ as int].k;
                let ghost ib0 = is_borrowed;
                let ghost map0 = borrowed_struct_lifetime_map@;
                proof {
                    assert forall|d: Lifetime, m: Lifetime| want_pairs(old(self).borrow_map.entries@, i__ as int + 1, link.pairs@, d, m)
                        == (want_pairs(old(self).borrow_map.entries@, i__ as int, link.pairs@, d, m) || (key == m && want_inner(link.pairs@, link.pairs@.len() as int, set@, d))) by {
                        lemma_want_pairs_step(old(self).borrow_map.entries@, i__ as int, link.pairs@, d, m);
                    }
                }
                let e__ = &mut self.borrow_map.entries[i__];
                let @K@ = &e__.k;
                let @V@ = &mut e__.v;"""
STRUCT_INNER_INV = """                    invariant
                        it.seq() == link.pairs@, *ty == Type::Struct(*s),
                        @V@.all_longer_lifetimes == set, *@K@ == key,
                        is_ext(@V@.incoming_edges@, old_edges, slots_upto(link.pairs@, it.index@ as int, set@), param_name@, link.env, spec_is_option(ty)),
                        is_borrowed == (ib0 || pmentions_upto(link.pairs@, it.index@ as int, set@)),
                        forall|d: Lifetime, m: Lifetime| #![trigger borrowed_struct_lifetime_map@.contains((d, m))] borrowed_struct_lifetime_map@.contains((d, m)) == (map0.contains((d, m)) || (m == key && want_inner(link.pairs@, it.index@ as int, set@, d))),"""
STRUCT_INNER_HINT = """                    proof {
                        assert forall|d: Lifetime| want_inner(link.pairs@, it.index@ as int + 1, set@, d)
                            == (want_inner(link.pairs@, it.index@ as int, set@, d) || (psel(link.pairs@, it.index@ as int, set@) && link.pairs@[it.index@ as int].1 == d)) by {
                            lemma_want_inner_step(link.pairs@, it.index@ as int, set@, d);
                        }
                    }"""
OTHER_OUTER = """let mut i__: usize = 0;
            while i__ < self.borrow_map.entries.len()
                invariant
                    i__ <= self.borrow_map.entries@.len(), self.borrow_map.entries@.len() == old(self).borrow_map.entries@.len(),
                    self.tcx == old(self).tcx, self.used_method_lifetimes == old(self).used_method_lifetimes, !(*ty is Struct),
                    forall|j: int| i__ <= j < old(self).borrow_map.entries@.len() ==> self.borrow_map.entries@[j] == old(self).borrow_map.entries@[j],
                    forall|j: int| #![trigger old(self).borrow_map.entries@[j]] 0 <= j < i__ ==> frame(self.borrow_map.entries@, old(self).borrow_map.entries@, j)
                        && (if mentions(lts_of(ty), old(self).borrow_map.entries@[j].v.all_longer_lifetimes@) {
                                one_edge(self.borrow_map.entries@[j].v.incoming_edges@, old(self).borrow_map.entries@[j].v.incoming_edges@, param_name@, *ty)
                            } else { self.borrow_map.entries@[j].v.incoming_edges@ == old(self).borrow_map.entries@[j].v.incoming_edges@ }),
                    is_borrowed == any_entry(old(self).borrow_map.entries@, i__ as int, lts_of(ty)),
                decreases self.borrow_map.entries@.len() - i__
            {
                let ghost old_edges = old(self).borrow_map.entries@[i__ as int].v.incoming_edges@;
                let ghost set = old(self).borrow_map.entries@[i__ as int].v.all_longer_lifetimes;
                let ghost ib0 = is_borrowed;
                let @V@ = &mut self.borrow_map.entries[i__].v;"""
OTHER_INNER_INV = """                    invariant_except_break
                        @V@.incoming_edges@ == old_edges, is_borrowed == ib0,
                        !mentions_upto(lts_of(ty), it.index@ as int, set@),
                    invariant
                        it.seq() == lts_of(ty), @V@.all_longer_lifetimes == set, !(*ty is Struct),
                    ensures
                        @V@.all_longer_lifetimes == set,
                        is_borrowed == (ib0 || mentions(lts_of(ty), set@)),
                        if mentions(lts_of(ty), set@) { one_edge(@V@.incoming_edges@, old_edges, param_name@, *ty) } else { @V@.incoming_edges@ == old_edges },"""


CF_CONTRACT = """        ensures /*CANARY*/
            match r {
                // no nested edges: the field has no lifetimes at all, or none of its use-site lifetimes is a lifetime of the enclosing struct
                None => path_lts(field).len() == 0 || forall|d: Lifetime, m: Lifetime| !want_field_pair(link_of(field, tcx).pairs@, struc.lifetimes.num_lifetimes as int, link_of(field, tcx).pairs@.len() as int, d, m),
                // (inner def slot d, outer lifetime m) is recorded iff the field uses the outer lifetime m in slot d
                Some(info) => info.env == link_of(field, tcx).env && forall|d: Lifetime, m: Lifetime| #![trigger info.borrowed_struct_lifetime_map@.contains((d, m))]
                    info.borrowed_struct_lifetime_map@.contains((d, m)) == want_field_pair(link_of(field, tcx).pairs@, struc.lifetimes.num_lifetimes as int, link_of(field, tcx).pairs@.len() as int, d, m),
            },"""
CF_OUTER_INV = """            invariant
                link == link_of(field, tcx),
                ito.seq().len() == struc.lifetimes.num_lifetimes, forall|i: int| 0 <= i < ito.seq().len() ==> ito.seq()[i] == Lifetime(i as usize),
                forall|d: Lifetime, m: Lifetime| #![trigger borrowed_struct_lifetime_map@.contains((d, m))] #![trigger want_field_pair(link.pairs@, ito.index@ as int, link.pairs@.len() as int, d, m)]
                    borrowed_struct_lifetime_map@.contains((d, m)) == want_field_pair(link.pairs@, ito.index@ as int, link.pairs@.len() as int, d, m),"""
CF_OUTER_PREFIX = """            let ghost map0 = borrowed_struct_lifetime_map@;
            let ghost oi = ito.index@ as int;
            proof { assert(@O@ == Lifetime(oi as usize)); }"""
CF_INNER_INV = """                invariant
                    it.seq() == link.pairs@, @O@ == Lifetime(oi as usize), 0 <= oi < struc.lifetimes.num_lifetimes,
                    forall|d: Lifetime, m: Lifetime| #![trigger borrowed_struct_lifetime_map@.contains((d, m))]
                        borrowed_struct_lifetime_map@.contains((d, m)) == (map0.contains((d, m)) || (m == @O@ && want_field_pair(link.pairs@, oi + 1, it.index@ as int, d, m))),"""


def build_new_fragment(vf, src):
    """E15 + E7: the `let borrow_map = used_method_lifetimes.iter().map(|lt| (..)).collect();` statement of BorrowingParamVisitor::new"""
    it = src.item("impl BorrowingParamVisitor<'tcx>::new", "fn")
    cls = it.get("closures", [])
    st = None
    for (a, b) in it["stmts"]:
        if src.slice(a, b).startswith("let borrow_map"):
            st = (a, b)
    if st is None or len(cls) != 1 or not (st[0] <= cls[0]["start"] and cls[0]["end"] <= st[1]):
        raise Undecided("anchor-lost", "BorrowingParamVisitor::new: `let borrow_map = <set>.iter().map(|lt| ..).collect();` not found")
    c0, c1 = cls[0]["start"], cls[0]["end"]
    head = src.slice(st[0], c0)
    tail = src.slice(c1, st[1])
    mh = re.fullmatch(r"let borrow_map = (\w+)\s*\.iter\(\)\s*\.map\(", head)
    ctext = src.slice(c0, c1)
    mc = re.match(r"\|\s*(\w+)\s*\|\s*\{", ctext)
    if not mh or not mc or not re.fullmatch(r"\s*\)\s*\.collect\(\);", tail):
        raise Undecided("anchor-lost", "BorrowingParamVisitor::new: the borrow_map statement is no longer `<set>.iter().map(|lt| {..}).collect()`")
    setname, lt = mh.group(1), mc.group(1)
    body_open = c0 + ctext.index("{")
    frag = {"start": body_open, "after_attrs": body_open, "end": c1, "path": it["path"] + "#let borrow_map (closure body)", "loops": []}
    pc = Piece(src, frag)
    org = {"file": F, "item": frag["path"], "line": src.line_of(st[0]), "end_line": src.line_of(st[1])}
    vf.add(f"""// E15 + E7: `let borrow_map = {setname}.iter().map(|{lt}| BODY).collect();` of BorrowingParamVisitor::new as a function of what it reads;
// the map/collect over the BTreeSet is desugared to a loop over its members in ascending order pushing (key, value) entries
fn new_borrow_map<'tcx>({setname}: &BTreeSet<Lifetime>, method: &'tcx MethodStub) -> (borrow_map: EntryMap<Lifetime, BorrowedLifetimeInfo<'tcx>>)
    ensures {CANARY}
        // one entry per used method lifetime, in key order, no edges yet, and all_longer_lifetimes == the closure along the `longer` direction
        forall|l: Lifetime| {setname}@.contains(l) <==> exists|i: int| 0 <= i < borrow_map.entries@.len() && #[trigger] borrow_map.entries@[i].k == l,
        forall|i: int, j: int| 0 <= i < j < borrow_map.entries@.len() ==> borrow_map.entries@[i].k.0 < borrow_map.entries@[j].k.0,
        forall|i: int| 0 <= i < borrow_map.entries@.len() ==> (#[trigger] borrow_map.entries@[i]).v.incoming_edges@.len() == 0
            && borrow_map.entries@[i].v.all_longer_lifetimes@ == closure_set(&method.lifetime_env, true, borrow_map.entries@[i].k),
{{
    let mut borrow_map: EntryMap<Lifetime, BorrowedLifetimeInfo<'tcx>> = EntryMap::new();
    let keys__ = {setname}.members();
    for {lt} in it: keys__.iter()
        invariant
            borrow_map.entries@.len() == it.index@,
            forall|i: int| 0 <= i < it.index@ ==> (#[trigger] borrow_map.entries@[i]).k == keys__@[i] && borrow_map.entries@[i].v.incoming_edges@.len() == 0
                && borrow_map.entries@[i].v.all_longer_lifetimes@ == closure_set(&method.lifetime_env, true, keys__@[i]),
    {{
        let (k__, v__) = """, origin=org)
    vf.add(pc.render(), origin=org, edits=pc.log)
    vf.add(""";
        borrow_map.entries.push(MapEntry { k: k__, v: v__ });
    }
    proof {
        assert(borrow_map.entries@.len() == keys__@.len());
        assert forall|l: Lifetime| """ + setname + """@.contains(l) implies exists|i: int| 0 <= i < borrow_map.entries@.len() && #[trigger] borrow_map.entries@[i].k == l by {
            let i = choose|i: int| 0 <= i < keys__@.len() && #[trigger] keys__@[i] == l;
            assert(borrow_map.entries@[i].k == l);
        }
        assert forall|l: Lifetime| (exists|i: int| 0 <= i < borrow_map.entries@.len() && #[trigger] borrow_map.entries@[i].k == l) implies """ + setname + """@.contains(l) by {
            let i = choose|i: int| 0 <= i < borrow_map.entries@.len() && #[trigger] borrow_map.entries@[i].k == l;
            assert(keys__@[i] == l);
        }
    }
    borrow_map
}
""", origin=org)
    vf.functions.append({"path": it["path"] + "#let borrow_map", "file": F, "line": src.line_of(st[0]), "end_line": src.line_of(st[1]), "engine": "verus",
                         "mode": "verus (statement fragment, E15/E7)", "bound": "none"})
    vf.expected.append("new_borrow_map")


def build(tier):
    vf = VerusFile(NAME)
    src = Src(F)
    lt = Src(LT)
    vf.add(vhelp.HEADER)
    pre = read(os.path.join(VERIF, "units", "prelude", "borrow_edges.rs"))
    a, rest = pre.split("/*@LIFETIME_TYPES@*/")
    b, c = rest.split("/*@EDGE_TYPES@*/")
    vf.add(a)
    vhelp.typedef(vf, lt, "Lifetime", "struct", derive=vhelp.FIELDLESS_DERIVE, pub_tuple_fields=True)
    vhelp.typedef(vf, lt, "MaybeStatic", "enum", derive="#[derive(Copy, Clone)]")
    vf.add(b)
    E3a = ("E3", r"BTreeMap<Lifetime, BorrowedLifetimeInfo<'tcx>>", "EntryMap<Lifetime, BorrowedLifetimeInfo<'tcx>>")
    E3b = ("E3", r"BTreeMap<Lifetime, BTreeSet<Lifetime>>", "PairMap")
    E1 = ("E1", r"(?m)^(\s+)(tcx|used_method_lifetimes|borrow_map):", r"\1pub \2:")
    vhelp.typedef(vf, src, "LifetimeEdge", "struct")
    vhelp.typedef(vf, src, "LifetimeEdgeKind", "enum", derive="#[derive(Copy, Clone)]")
    vhelp.typedef(vf, src, "BorrowedLifetimeInfo", "struct")
    vhelp.typedef(vf, src, "BorrowingParamVisitor", "struct", subs=[E3a, E1])
    vhelp.typedef(vf, src, "StructBorrowInfo", "struct", subs=[E3b])
    vhelp.typedef(vf, src, "ParamBorrowInfo", "enum")
    vf.add(c)
    vf.add("impl<'tcx> BorrowingParamVisitor<'tcx> {\n")
    it = src.item("impl BorrowingParamVisitor<'tcx>::visit_param", "fn")
    p = Piece(src, it)
    p.expect_loops(4)
    L = it["loops"]
    # which loop is which: by iterator expression
    ex = [src.slice(*l["expr"]).strip() for l in L]
    pats = [src.slice(*l["pat"]).strip() for l in L]
    if not (ex[0] == "&mut self.borrow_map" and re.fullmatch(r"\(\s*(\w+)\s*,\s*(\w+)\s*\)", pats[0]) and ex[2] == "self.borrow_map.values_mut()" and re.fullmatch(r"\w+", pats[2])
            and ex[1] == "link.lifetimes_def_only()" and ex[3] == "ty.lifetimes()"):
        raise Undecided("anchor-lost", f"visit_param: loop headers changed: {list(zip(pats, ex))}")
    k0, v0 = re.fullmatch(r"\(\s*(\w+)\s*,\s*(\w+)\s*\)", pats[0]).groups()
    v2 = pats[2]
    why7 = "E7/E3: iteration over the BTreeMap in key order -> index loop over its entry vector, element borrowed `&mut` exactly as the iterator yields it"
    p.replace("E7", L[0]["start"], L[0]["body_open"] + 1, STRUCT_OUTER.replace("@K@", k0).replace("@V@", v0), why7)
    p.insert("E7", L[0]["end"] - 1, "    i__ += 1;\n            ", "index advance of the desugared loop")
    p.loop_spec(1, STRUCT_INNER_INV.replace("@K@", k0).replace("@V@", v0), iter_name="it")
    p.loop_body_prefix(1, STRUCT_INNER_HINT)
    p.replace("E7", L[2]["start"], L[2]["body_open"] + 1, OTHER_OUTER.replace("@V@", v2), why7)
    p.insert("E7", L[2]["end"] - 1, "    i__ += 1;\n            ", "index advance of the desugared loop")
    p.loop_spec(3, OTHER_INNER_INV.replace("@V@", v2), iter_name="it")
    p.sub("E12", r"<P: TyPosition<StructPath = StructPath>>", "", count=1, why="TyPosition marker erased (StructPath is the only instantiation)")
    p.sub("E12", r"ty: &hir::Type<P>", "ty: &hir::Type", count=1, why="TyPosition marker erased")
    p.sub("E3", r"BTreeMap::<Lifetime, BTreeSet<Lifetime>>::new\(\)", "PairMap::new()", count=1, why="BTreeMap<K, BTreeSet<V>> carried as the set of (key, member) pairs")
    p.sub("E3", r"(\w+)\s*\.entry\(([^()]+)\)\s*\.or_default\(\)\s*\.insert\(([^();]+)\);", r"\1.add_pair(\2, \3);", count=1, why="entry(k).or_default().insert(v) == add the pair (k, v)")
    p.sub("E6", r"param_name\.into\(\)", "__name(param_name)", count="+", why="&str -> String conversion with its spec (same characters)")
    p.sub("E14", r"&hir::Type::Slice\(\.\.\)", "hir::Type::Slice(..)", count=None, why="`&PAT` against a reference scrutinee == `PAT` under default binding modes (Verus rejects ref patterns)")
    p.fn("E5", rule_panics, why="unreachable! arm becomes an obligation")
    p.contract(CONTRACT.replace("/*CANARY*/", CANARY), ret_name="r")
    vf.add_piece(p, expected="visit_param")
    vf.add("}\n")
    # ---- StructBorrowInfo::compute_for_struct_field
    vf.add("impl<'tcx> StructBorrowInfo<'tcx> {\n")
    it = src.item("impl StructBorrowInfo<'tcx>::compute_for_struct_field", "fn")
    p = Piece(src, it)
    p.expect_loops(2)
    L = it["loops"]
    ex = [src.slice(*l["expr"]).strip() for l in L]
    if not (ex[0] == "struc.lifetimes.all_lifetimes()" and ex[1] == "link.lifetimes_def_only()"):
        raise Undecided("anchor-lost", f"compute_for_struct_field: loop headers changed: {ex}")
    o = src.slice(*L[0]["pat"]).strip()
    p.loop_spec(0, CF_OUTER_INV, iter_name="ito")
    p.loop_body_prefix(0, CF_OUTER_PREFIX.replace("@O@", o))
    p.loop_spec(1, CF_INNER_INV.replace("@O@", o), iter_name="it")
    p.sub("E12", r"<P: TyPosition>", "", count=1, why="TyPosition marker erased")
    p.sub("E12", r"struc: &StructDef<P>", "struc: &StructDef", count=1, why="TyPosition marker erased")
    p.sub("E12", r"field: &P::StructPath", "field: &StructPath", count=1, why="associated type written out (StructPath in every instantiation under contract)")
    p.sub("E3", r"BTreeMap::<Lifetime, BTreeSet<Lifetime>>::new\(\)", "PairMap::new()", count=1, why="BTreeMap<K, BTreeSet<V>> carried as the set of (key, member) pairs")
    p.sub("E3", r"(\w+)\s*\.entry\(([^()]+)\)\s*\.or_default\(\)\s*\.insert\(([^();]+)\);", r"\1.add_pair(\2, \3);", count=1, why="entry(k).or_default().insert(v) == add the pair (k, v)")
    p.contract(CF_CONTRACT.replace("/*CANARY*/", CANARY), ret_name="r")
    vf.add_piece(p, expected="compute_for_struct_field")
    vf.add("}\n")
    build_new_fragment(vf, src)
    vf.add(vhelp.FOOTER)
    vf.expected += ["lemma_want_inner_step", "lemma_want_pairs_step"]
    return vf


CANARY_FUNCTIONS = ["visit_param", "compute_for_struct_field", "new_borrow_map"]
ASSUMPTIONS = [
    "E3: std BTreeMap<Lifetime, BorrowedLifetimeInfo> carried as the vector of its entries in key order (EntryMap); BTreeSet as an abstract set with contains()/is_empty(); BTreeMap<Lifetime, BTreeSet<Lifetime>> as the set of its (key, member) pairs",
    "E7: `for (k, v) in &mut map` / `for v in map.values_mut()` desugared to an index loop borrowing `&mut entries[i]` (same elements, same order, same mutable access)",
    "E11: Type::lifetimes() and LinkedLifetimes::lifetimes_def_only() (iterators consumed by `for`) carried as the Vec of their items; what they yield is abstract here (lts_of / link.pairs) — unit linked_lifetimes checks the pairs are positional",
    "hir::Type re-declared (Slice / Opaque / Struct / DiplomatOption / other); StructPath::link_lifetimes, Type::is_option abstract functions of their arguments",
    "BorrowingParamVisitor::new: only the `let borrow_map = ..` statement is under contract (E15), with the set iteration / map / collect desugared (E7) and LifetimeEnv::all_longer_lifetimes / all_shorter_lifetimes + collect() abstract: direction flag and start node as proved for the real wrappers in unit hir_transitivity, collect() == the closure by that unit's driver theorem (trusted link between the two units)",
]
UNVERIFIED = {"C04": ["the rest of BorrowingParamVisitor::new (force_include_slices)", "add_slices_to_used_lifetimes", "BorrowingFieldVisitor", "backends' rendering of the edges"], "C15": []}
