"""V config_routing: tool/src/config.rs — SharedConfig::set, Config::set, Config::get_overridden, Config::read_cli_settings.
What a key/value pair does to the configuration (shared key: last writer wins; `<language>.<shared key>`: stored as an override for
that language, for ANY language, without touching the shared value; `<language>.<other>`: routed to that language's own settings),
that the overrides applied for a target language are exactly the stored keys starting with `<target>.`, and that --config settings
are applied in command-line order.  Strings are the byte-sequence model of units/prelude/str_model.rs (E3s)."""
import os
import re
from rsrc import Src, Piece, rule_panics, rule_match_strlits
from verus_engine import VerusFile, CANARY
from common import Undecided, VERIF, read
import vhelp

NAME = "config_routing"
ENGINE = "verus"
PROPERTIES = {"C17": "effective value of a setting: later Config::set calls win (sources are applied in a fixed order), a language-scoped shared key is kept apart and overrides the shared key only when generating for that language"}
F = "tool/src/config.rs"

PRELUDE = r"""
// toml::Value: the variants the configuration code inspects (toml's documented accessors)
pub enum Value { String(Str), Boolean(bool), Other(u8) }
impl Clone for Value { #[verifier::external_body] fn clone(&self) -> (r: Self) ensures r == *self { unimplemented!() } }
impl Value {
    pub fn is_str(&self) -> (r: bool) ensures r == (*self is String) { matches!(self, Value::String(_)) }
    pub fn is_bool(&self) -> (r: bool) ensures r == (*self is Boolean) { matches!(self, Value::Boolean(_)) }
    pub fn as_str(&self) -> (r: Option<&Str>) ensures r == (match *self { Value::String(s) => Some(&s), _ => None::<&Str> }) { match self { Value::String(s) => Some(s), _ => None } }
    pub fn as_bool(&self) -> (r: Option<bool>) ensures r == (match *self { Value::Boolean(b) => Some(b), _ => None::<bool> }) { match self { Value::Boolean(b) => Some(*b), _ => None } }
}
#[verifier::external_body] pub fn toml_value_from_str(s: &Str) -> (r: Value) ensures r == spec_toml_value(*s) { unimplemented!() }
pub uninterp spec fn spec_toml_value(s: Str) -> Value;
// the per-language settings: abstract here
#[verifier::external_body] pub struct KotlinConfig { x: u8 }
#[verifier::external_body] pub struct DemoConfig { x: u8 }
#[verifier::external_body] pub struct JsConfig { x: u8 }
pub uninterp spec fn kotlin_set(c: KotlinConfig, k: Seq<u8>, v: Value) -> KotlinConfig;
pub uninterp spec fn demo_set(c: DemoConfig, k: Seq<u8>, v: Value) -> DemoConfig;
pub uninterp spec fn js_set(c: JsConfig, k: Seq<u8>, v: Value) -> JsConfig;
impl KotlinConfig { #[verifier::external_body] pub fn set(&mut self, key: &Str, value: Value) ensures *final(self) == kotlin_set(*old(self), key@, value) { unimplemented!() } }
impl DemoConfig { #[verifier::external_body] pub fn set(&mut self, key: &Str, value: Value) ensures *final(self) == demo_set(*old(self), key@, value) { unimplemented!() } }
impl JsConfig { #[verifier::external_body] pub fn set(&mut self, key: &Str, value: Value) ensures *final(self) == js_set(*old(self), key@, value) { unimplemented!() } }
// E3: HashMap<String, Value> carried as an abstract map from key text to value
#[verifier::external_body] pub struct OverrideMap { x: u8 }
pub open spec fn entries_of(es: Seq<(Str, Value)>, m: Map<Seq<u8>, Value>) -> bool {
    &&& forall|i: int| 0 <= i < es.len() ==> m.contains_key(#[trigger] es[i].0@) && m[es[i].0@] == es[i].1
    &&& forall|i: int, j: int| 0 <= i < j < es.len() ==> #[trigger] es[i].0@ != #[trigger] es[j].0@
    &&& forall|k: Seq<u8>| m.contains_key(k) ==> exists|i: int| 0 <= i < es.len() && #[trigger] es[i].0@ == k
}
// the (unspecified but fixed) order in which HashMap::iter() yields the entries
pub uninterp spec fn iter_order(m: Map<Seq<u8>, Value>) -> Seq<(Str, Value)>;
impl OverrideMap {
    pub uninterp spec fn view(&self) -> Map<Seq<u8>, Value>;
    #[verifier::external_body] pub fn insert(&mut self, k: Str, v: Value) -> (r: Option<Value>) ensures final(self)@ == old(self)@.insert(k@, v) { unimplemented!() }
    #[verifier::external_body] pub fn entry_or_insert(&mut self, k: Str, v: Value)
        ensures final(self)@ == (if old(self)@.contains_key(k@) { old(self)@ } else { old(self)@.insert(k@, v) }) { unimplemented!() }
    // E11: HashMap::iter() consumed by a `for`: the Vec of its entries (each key once, order unspecified)
    #[verifier::external_body] pub fn iter(&self) -> (r: Vec<(Str, Value)>) ensures r@ == iter_order(self@), entries_of(r@, self@) { unimplemented!() }
}
"""

SPEC = r"""
impl Clone for Config { #[verifier::external_body] fn clone(&self) -> (r: Self) ensures r == *self { unimplemented!() } }
// "<language>.<shared key>": SharedConfig::overrides_shared (split / skip / collect: iterator adapters, abstract here)
pub uninterp spec fn ov_shared(k: Seq<u8>) -> bool;
impl SharedConfig {
    #[verifier::external_body] pub fn overrides_shared(name: &Str) -> (r: bool) ensures r == ov_shared(name@) { unimplemented!() }
}

// ---------------- oracle, from the property statement
// a shared key set directly: the new value replaces the old one (=> the source applied later wins); other keys are ignored
pub open spec fn shared_set(c: SharedConfig, k: Seq<u8>, v: Value) -> SharedConfig {
    if k == lit("lib_name") { SharedConfig { lib_name: (match v { Value::String(s) => Some(s), _ => None }), ..c } }
    else if k == lit("unsafe_references_in_callbacks") { SharedConfig { unsafe_references_in_callbacks: (match v { Value::Boolean(b) => Some(b), _ => None }), ..c } }
    else { c }
}
// a value of the wrong type for a shared key is a user error (the tool panics with a message)
pub open spec fn shared_ok(k: Seq<u8>, v: Value) -> bool {
    if k == lit("lib_name") { v is String } else if k == lit("unsafe_references_in_callbacks") { v is Boolean } else { true }
}
pub struct ConfigV { pub shared: SharedConfig, pub kotlin: KotlinConfig, pub demo: DemoConfig, pub js: JsConfig, pub ov: Map<Seq<u8>, Value> }
pub open spec fn cv(c: Config) -> ConfigV {
    ConfigV { shared: c.shared_config, kotlin: c.kotlin_config, demo: c.demo_gen_config, js: c.js_config, ov: c.language_overrides@ }
}
pub open spec fn sw(k: Seq<u8>, p: Seq<u8>) -> bool { occurs_at(k, p, 0) }
pub open spec fn config_set(c: ConfigV, k: Seq<u8>, v: Value) -> ConfigV {
    // "a language-scoped key (e.g. kotlin.lib_name) overrides the shared key only for that language": whatever the language,
    // it is stored apart and the shared value itself is not touched
    if ov_shared(k) { ConfigV { ov: c.ov.insert(k, v), ..c } }
    // other language-scoped keys are that language's own settings
    else if sw(k, lit("kotlin.")) { ConfigV { kotlin: kotlin_set(c.kotlin, spec_replace(k, lit("kotlin."), lit("")), v), ..c } }
    else if sw(k, lit("demo_gen.")) { ConfigV { demo: demo_set(c.demo, spec_replace(k, lit("demo_gen."), lit("")), v), ..c } }
    else if sw(k, lit("nanobind.")) { c }
    else if sw(k, lit("js.")) { ConfigV { js: js_set(c.js, spec_replace(k, lit("js."), lit("")), v), ..c } }
    else { ConfigV { shared: shared_set(c.shared, k, v), ..c } }
}
// generating for a target language: the stored overrides whose key starts with "<target>." are applied (as shared keys, prefix
// removed) on top of the shared values; nothing else changes
pub open spec fn apply_overrides(sh: SharedConfig, es: Seq<(Str, Value)>, m: Seq<u8>, n: int) -> SharedConfig
    decreases n
{
    if n <= 0 { sh } else {
        let p = apply_overrides(sh, es, m, n - 1);
        if sw(es[n - 1].0@, m) { shared_set(p, spec_replace(es[n - 1].0@, m, lit("")), es[n - 1].1) } else { p }
    }
}
pub open spec fn overrides_ok(es: Seq<(Str, Value)>, m: Seq<u8>) -> bool {
    forall|i: int| 0 <= i < es.len() && sw(#[trigger] es[i].0@, m) ==> shared_ok(spec_replace(es[i].0@, m, lit("")), es[i].1)
}
// overrides of OTHER languages never reach the shared values
pub proof fn lemma_other_languages_do_not_leak(sh: SharedConfig, es: Seq<(Str, Value)>, m: Seq<u8>, n: int)
    requires 0 <= n <= es.len(), forall|i: int| 0 <= i < es.len() ==> !sw(#[trigger] es[i].0@, m),
    ensures apply_overrides(sh, es, m, n) == sh,
    decreases n
{
    if n > 0 { lemma_other_languages_do_not_leak(sh, es, m, n - 1); }
}
// str::replace removes a leading occurrence and nothing else when the rest does not contain the pattern (std: non-overlapping
// matches, left to right)
#[verifier::external_body]
pub proof fn axiom_replace_prefix(m: Seq<u8>, x: Seq<u8>)
    requires m.len() > 0, forall|i: int| !occurs_at(x, m, i),
    ensures spec_replace(m + x, m, lit("")) == x,
{ }
// the only stored key for this language is "<target>.lib_name": the effective lib_name is that override, whatever the shared one was
pub proof fn lemma_scoped_lib_name_wins(sh: SharedConfig, es: Seq<(Str, Value)>, m: Seq<u8>, j: int, s: Str)
    requires 0 <= j < es.len(), m.len() > 0, es[j].0@ == m + lit("lib_name"), es[j].1 == Value::String(s),
        forall|i: int| !occurs_at(lit("lib_name"), m, i),
        forall|i: int| 0 <= i < es.len() && i != j ==> !sw(#[trigger] es[i].0@, m),
    ensures apply_overrides(sh, es, m, es.len() as int).lib_name == Some(s),
        apply_overrides(sh, es, m, es.len() as int).unsafe_references_in_callbacks == sh.unsafe_references_in_callbacks,
{
    axiom_replace_prefix(m, lit("lib_name"));
    lemma_only_j(sh, es, m, j, es.len() as int);
    assert((m + lit("lib_name")).subrange(0, m.len() as int) =~= m);
}
pub proof fn lemma_only_j(sh: SharedConfig, es: Seq<(Str, Value)>, m: Seq<u8>, j: int, n: int)
    requires 0 <= j < es.len(), 0 <= n <= es.len(), forall|i: int| 0 <= i < es.len() && i != j ==> !sw(#[trigger] es[i].0@, m),
    ensures apply_overrides(sh, es, m, n) == (if n > j && sw(es[j].0@, m) { shared_set(sh, spec_replace(es[j].0@, m, lit("")), es[j].1) } else { sh }),
    decreases n
{
    if n > 0 { lemma_only_j(sh, es, m, j, n - 1); }
}
// --config settings: applied in command-line order (=> the later one wins), each through Config::set
pub open spec fn cli_step(c: ConfigV, s: Str) -> ConfigV {
    match spec_split_once(s, lit("=")) { Some(p) => config_set(c, p.0@, spec_toml_value(p.1)), None => c }
}
pub open spec fn cli_fold(c: ConfigV, ss: Seq<Str>, n: int) -> ConfigV decreases n {
    if n <= 0 { c } else { cli_step(cli_fold(c, ss, n - 1), ss[n - 1]) }
}
pub open spec fn cli_ok(ss: Seq<Str>) -> bool {
    forall|i: int| 0 <= i < ss.len() ==> (match spec_split_once(#[trigger] ss[i], lit("=")) { Some(p) => shared_ok(p.0@, spec_toml_value(p.1)), None => true })
}
"""


SHARED_SET_C = """        requires shared_ok(key@, value),
        ensures @CANARY@
            *final(self) == shared_set(*old(self), key@, value),"""
SET_C = """        requires shared_ok(key@, value),
        ensures @CANARY@
            cv(*final(self)) == config_set(cv(*old(self)), key@, value),"""
GET_OVERRIDDEN_C = """        requires overrides_ok(iter_order(self.language_overrides@), target_language@ + lit(".")),
        ensures @CANARY@
            // only the shared values change, and they become: the shared values with this language's stored overrides applied
            cv(r) == (ConfigV { shared: apply_overrides(self.shared_config, iter_order(self.language_overrides@), target_language@ + lit("."),
                                                         iter_order(self.language_overrides@).len() as int), ..cv(self) }),"""
READ_CLI_C = """        requires cli_ok(settings@),
        ensures @CANARY@
            cv(*final(self)) == cli_fold(cv(*old(self)), settings@, settings@.len() as int),"""


def str_edits(p):
    p.sub("E3s", r"(\w+): &str\b", r"\1: &Str", count=None, why="&str -> &Str (byte-sequence string model)")
    p.sub("E3s", r'\.starts_with\(("[^"]*")\)', r".starts_with_lit(\1)", count=None, why="str::starts_with(literal)")
    p.sub("E3s", r'\.replace\(("[^"]*"), ("[^"]*")\)', r".replace_lit(\1, \2)", count=None, why="str::replace(literal, literal)")
    p.sub("E3s", r"\.split_once\('([^'\\])'\)", r'.split_once_lit("\1")', count=None, why="str::split_once(char) -> split_once on the one-character literal")
    p.sub("E3", r"\.entry\(((?:[^()]|\([^()]*\))*)\)\s*\.or_insert\(((?:[^()]|\([^()]*\))*)\)", r".entry_or_insert(\1, \2)", count=None, why="HashMap::entry(k).or_insert(v): insert only if the key is absent (std)")
    p.sub("E3s", r'format!\("\{\}([^"{}]+)", (\w+)\)', r'Str::concat2(*\2, Str::lit("\1"))', count=None, why="format!(\"{}<text>\", s) -> s followed by the literal text")
    p.sub("E3s", r'\.split_once\(("[^"]*")\)', r".split_once_lit(\1)", count=None, why="str::split_once(literal)")


def build(tier):
    vf = VerusFile(NAME)
    src = Src(F)
    vf.add(vhelp.HEADER)
    vf.add(read(os.path.join(VERIF, "units", "prelude", "str_model.rs")))
    vf.add(PRELUDE)
    vhelp.typedef(vf, src, "SharedConfig", "struct", subs=[("E3s", r"Option<String>", "Option<Str>")])
    vhelp.typedef(vf, src, "Config", "struct", subs=[("E2", r"\n\s*#\[serde\([^\]]*\)\]", ""), ("E3", r"HashMap<String, Value>", "OverrideMap")])
    vf.add(SPEC)
    # ---- SharedConfig::set
    vf.add("impl SharedConfig {\n")
    p = Piece(src, src.item("impl SharedConfig::set", "fn"))
    str_edits(p)
    p.fn("E3s", rule_match_strlits, why="match on string literals -> if / else-if chain testing the literals in arm order")
    p.sub("E10", r"value\.as_str\(\)\.map\(\|(\w+)\| \1\.to_string\(\)\)", r"(match value.as_str() { Some(\1) => Some(\1.to_string()), None => None })", count=None,
          why="Option::map unfolded to its definition")
    p.fn("E5", rule_panics, why="panic! (wrong value type for a shared key: user error) becomes an obligation under precondition shared_ok")
    p.contract(SHARED_SET_C.replace("@CANARY@", CANARY))
    vf.add_piece(p, expected="set")
    vf.add("}\nimpl Config {\n")
    # ---- Config::set
    p = Piece(src, src.item("impl Config::set", "fn"))
    str_edits(p)
    p.contract(SET_C.replace("@CANARY@", CANARY))
    vf.add_piece(p, expected="set")
    # ---- Config::get_overridden
    it = src.item("impl Config::get_overridden", "fn")
    p = Piece(src, it)
    p.expect_loops(1)
    str_edits(p)
    p.contract(GET_OVERRIDDEN_C.replace("@CANARY@", CANARY), ret_name="r")
    p.sub("E4", r"\A(\s*)pub fn get_overridden", r"\1#[verifier::loop_isolation(false)]\n\1pub fn get_overridden", count=1,
          why="loop body may use facts established before the loop (the invariant then speaks about the abstraction only, not about the local holding the prefix)")
    p.loop_spec(0, """            invariant
                it.seq() == iter_order(self.language_overrides@),
                out.shared_config == apply_overrides(self.shared_config, it.seq(), target_language@ + lit("."), it.index@ as int),
                out.kotlin_config == self.kotlin_config, out.demo_gen_config == self.demo_gen_config, out.js_config == self.js_config,
                out.language_overrides@ == self.language_overrides@,""", iter_name="it")
    vf.add_piece(p, expected="get_overridden")
    # ---- Config::read_cli_settings
    it = src.item("impl Config::read_cli_settings", "fn")
    p = Piece(src, it)
    p.expect_loops(1)
    str_edits(p)
    p.sub("E3s", r"settings: Vec<String>", "settings: Vec<Str>", count=1, why="String -> Str")
    p.sub("E6", r"eprintln!\((?:[^()]|\([^()]*\))*\);", "", count=None, why="diagnostic output dropped")
    p.contract(READ_CLI_C.replace("@CANARY@", CANARY))
    p.loop_spec(0, """            invariant
                it.seq() == settings@, cli_ok(settings@),
                cv(*self) == cli_fold(cv(*old(self)), settings@, it.index@ as int),""", iter_name="it")
    vf.add_piece(p, expected="read_cli_settings")
    vf.add("}\n")
    vf.add(vhelp.FOOTER)
    return vf


CANARY_FUNCTIONS = ["set", "set", "get_overridden", "read_cli_settings"]
ASSUMPTIONS = [
    "E3s: &str / String carried as the byte-sequence model `Str` (units/prelude/str_model.rs): starts_with, replace, split_once, ==/match on literals, to_string, format!(\"{}.\") have std's documented behaviour as trusted specs; the bytes of a literal are an abstract function of the literal",
    "toml::Value re-declared with the variants inspected (String / Boolean / other) and toml's documented accessors; toml_value_from_str abstract",
    "E3: HashMap<String, Value> carried as an abstract map; HashMap::iter() as the Vec of its entries in an unspecified fixed order (each key once)",
    "SharedConfig::overrides_shared and KotlinConfig / DemoConfig / JsConfig::set are abstract here (ov_shared, kotlin_set, demo_set, js_set); their bodies are unit config_lang_sets",
    "axiom_replace_prefix: str::replace removes a leading occurrence and nothing else when the remainder does not contain the pattern (std: non-overlapping matches left to right); used only by the corollary lemma_scoped_lib_name_wins",
    "precondition shared_ok: a value of the wrong toml type for lib_name / unsafe_references_in_callbacks is a user error (panic with message by design)",
]
UNVERIFIED = {"C17": ["Config::read_file (fs, toml, heck::AsSnakeCase: kebab-case == snake_case is NOT decided)", "find_top_level_attr / the syn parsers of #[diplomat::config]",
                      "that config_routing's abstract ov_shared / kotlin_set / demo_set / js_set are the functions proved in unit config_lang_sets (same names, linked by reading)"]}
