"""V method_abi_name: ast::Method::from_syn derives the exported symbol as apply(final attrs' abi_rename, "{Type}_{method}") where
the final attrs are the impl's (already carrying module/impl patterns) extended by the method's own.  Function-prefix extraction."""
import re
from rsrc import Src, Piece
from verus_engine import VerusFile, CANARY
from common import Undecided
import vhelp

NAME = "method_abi_name"
ENGINE = "verus"
PROPERTIES = {"C06": "symbol name scheme Type_method after applying the abi_rename pattern inherited from module/impl and overridden by the method"}
F = "core/src/ast/methods.rs"

PRELUDE = r"""
pub mod syn {
    use vstd::prelude::*;
    #[verifier::external_body] pub struct Ident { x: u8 }
    #[verifier::external_body] pub struct Span { x: u8 }
    #[verifier::external_body] pub struct Attribute { x: u8 }
    #[verifier::external_body] pub struct SigRest { x: u8 }
    #[verifier::external_body] pub struct Generics { x: u8 }
    pub struct Signature { pub ident: Ident, pub rest: SigRest }
    pub struct ImplItemFn { pub attrs: Vec<Attribute>, pub sig: Signature }
    pub uninterp spec fn spec_new_ident(s: super::CowStr) -> Ident;
    impl Ident {
        #[verifier::external_body] pub fn span(&self) -> Span { unimplemented!() }
        #[verifier::external_body] pub fn new(s: &super::CowStr, span: Span) -> (r: Ident) ensures r == spec_new_ident(*s) { unimplemented!() }
    }
}
#[verifier::external_body] pub struct CowStr { x: u8 }
#[verifier::external_body] pub struct Ident { x: u8 }
pub struct Path { pub elements: Vec<Ident> }
#[verifier::external_body] pub struct LifetimeList { x: u8 }
pub struct PathType { pub path: Path, pub lifetimes: LifetimeList }
#[verifier::external_body] pub struct RenameAttr { x: u8 }
// RenameAttr::apply (string code): abstract, deterministic
pub uninterp spec fn spec_apply(r: RenameAttr, name: CowStr) -> CowStr;
impl RenameAttr {
    #[verifier::external_body] pub fn apply(&self, name: CowStr) -> (r: CowStr) ensures r == spec_apply(*self, name) { unimplemented!() }
}
#[verifier::external_body] pub struct AttrsRest { x: u8 }
pub struct Attrs { pub abi_rename: RenameAttr, pub rest: AttrsRest }
pub uninterp spec fn spec_add(base: Attrs, own: Seq<syn::Attribute>) -> Attrs;
impl Clone for Attrs { #[verifier::external_body] fn clone(&self) -> (r: Self) ensures r == *self { unimplemented!() } }
impl Attrs {
    #[verifier::external_body] pub fn add_attrs(&mut self, attrs: &Vec<syn::Attribute>) ensures *final(self) == spec_add(*old(self), attrs@) { unimplemented!() }
}
// format!("{self_ident}_{method_ident}") : "<Type>_<method>"
pub uninterp spec fn spec_type_method(ty: Ident, method: syn::Ident) -> CowStr;
#[verifier::external_body]
pub fn __type_underscore_method(self_ident: &Ident, method_ident: &syn::Ident) -> (r: CowStr) ensures r == spec_type_method(*self_ident, *method_ident) { unimplemented!() }
"""


def build(tier):
    vf = VerusFile(NAME)
    src = Src(F)
    vf.add(vhelp.HEADER)
    vf.add(PRELUDE)
    it = src.item("impl Method::from_syn", "fn")
    stmts = it.get("stmts", [])
    k = None
    for i, (a, b) in enumerate(stmts):
        if src.slice(a, b).startswith("let extern_ident"):
            k = i
    if k is None:
        raise Undecided("anchor-lost", "Method::from_syn: statement `let extern_ident = ..` not found")
    frag = dict(it)
    frag["end"] = stmts[k][1]
    frag["path"] = it["path"] + "#prefix(..=let extern_ident)"
    p = Piece(src, frag)
    (r0, r1) = it["ret"]
    p.replace("E16", r0, r1, "(r: (syn::Ident, Attrs))", "function prefix returns the exported identifier and the merged attrs")
    p.insert("E4", it["body_open"], f"""
        requires self_path_type.path.elements@.len() > 0,
        ensures {CANARY}
            // the method's own attributes extend what it inherits from the impl block (which already carries module + impl patterns)
            r.1 == spec_add(*impl_attrs, m.attrs@),
            // symbol = final abi_rename pattern applied to "<LastPathSegment>_<method>"
            r.0 == syn::spec_new_ident(spec_apply(r.1.abi_rename,
                        spec_type_method(self_path_type.path.elements@[self_path_type.path.elements@.len() - 1], m.sig.ident))),
""", "contract")
    p.sub("E6", r'format!\("\{self_ident\}_\{method_ident\}"\)', "__type_underscore_method(self_ident, method_ident)", count=1,
          why="the Type_method string construction is abstract but kept as a function of its two identifiers")
    p.sub("E6", r"concat_method_ident\.into\(\)", "concat_method_ident", count=1, why="String -> Cow conversion dropped (carrier type is opaque)")
    p.sub("E7", r"self_path_type\.path\.elements\.(last|first)\(\)", r"self_path_type.path.elements.as_slice().\1()", count=None, why="auto-deref Vec -> slice written out")
    p.sub("E12", r"impl_generics: Option<&syn::Generics>", "impl_generics: Option<&syn::Generics>", count=1)
    text = p.render()
    vf.add("pub struct Method { pub x: u8 }\nimpl Method {\n")
    vf.add(text + "\n        (extern_ident, attrs)\n    }\n}\n",
           origin={"file": F, "item": frag["path"], "line": src.line_of(p.a), "end_line": src.line_of(p.b)}, edits=p.log)
    vf.functions.append({"path": frag["path"], "file": F, "line": src.line_of(p.a), "end_line": src.line_of(p.b), "engine": "verus",
                         "mode": "verus (function prefix up to `let extern_ident`)", "bound": "none"})
    vf.expected.append("from_syn")
    vf.add(vhelp.FOOTER)
    return vf


CANARY_FUNCTIONS = ["from_syn"]
ASSUMPTIONS = [
    "E16: only the prefix of Method::from_syn up to `let extern_ident = ..;` is verified (attribute merge + symbol construction); the syn-typed rest (params, receiver, return type, lifetime env) is dropped",
    "format!(\"{self_ident}_{method_ident}\"), RenameAttr::apply, syn::Ident::new, Attrs::add_attrs are abstract deterministic functions (spec_type_method, spec_apply, spec_new_ident, spec_add)",
    "precondition: the self path has at least one segment (else `.last().unwrap()` panics: syn guarantees a non-empty path)",
]
UNVERIFIED = {"C06": ["that abi_name later equals Ident::from(&extern_ident) (suffix of the function)", "every backend printing abi_name"]}
