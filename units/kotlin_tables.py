"""K kotlin_tables: JNA types chosen for primitives denote the C ABI of the Rust function / repr(C) struct field."""
from kunit import define
F = "tool/src/kotlin/formatter.rs"
def f(n): return (F, "impl KotlinFormatter<'tcx>::" + n)
E = [
    ("kotlin_native_types_match_rust_abi", "all 15 primitives: JNA meaning of fmt_primitive_as_ffi / fmt_primitive_type_native has the width of the Rust ABI type and its signedness for every plain integer/float; bool struct fields are 1-byte; fmt_primitive_as_kt and fmt_unsigned_primitive_ffi_cast consistent with the FFI type",
     [f("fmt_primitive_as_ffi"), f("fmt_primitive_type_native"), f("fmt_primitive_as_kt"), f("fmt_unsigned_primitive_ffi_cast")], 2, ["C07", "C15"], "complete", "none (finite domain)"),
]
define(globals(), "kotlin_tables", "tool", F, "verif_kotlin_tables", "kotlin_tables.rs",
       {"C07": "Kotlin/JNA native declarations: primitive width/signedness", "C15": "no panic outside Int128"},
       E, lambda tier: {},
       ["JNA meaning table: Byte/Short/Int/Long/Float/Double per JNA docs; FFIUintN/FFISizet/FFIIsizet are the IntegerType wrappers shipped by the backend (their definitions in the Kotlin templates are not verified)",
        "bool parameters mapped to JNA Boolean: the backend's documented convention, not judged", "RandomState::new stubbed; TypeContext::__verif_empty hook"],
       {"C07": ["parameter order/arity in gen_native_method_info", "struct field order and record shapes (template text)"], "C15": []},
       kani_args=["-Z", "stubbing"],
       extra_appends=[("core/src/hir/type_context.rs", "core_hooks.rs"), ("tool/src/lib.rs", "tool_common.rs")],
       quick_elsewhere={"C15": "C07"})
