"""V nanobind_method_clash: tool/src/nanobind/ty.rs gen_methods — the `.and_modify(|e| { .. })` closure that merges a method into an existing entry of
the per-type method table (keyed by property name, else method name).  It `assert!`s / `panic!`s unless the two entries are a getter/setter pair.  Nothing
upstream makes keys unique outside such pairs: a getter `foo` next to a method named `foo` (or two getters of one property) passes lowering and attribute
validation and aborts the nanobind backend (known finding).  E18: the closure is hoisted to a function of the existing entry, the new method and its info."""
import re
from rsrc import Src, Piece, rule_panics, rule_asserts, match_close
from verus_engine import VerusFile, CANARY
from common import Undecided
import vhelp

NAME = "nanobind_method_clash"
ENGINE = "verus"
PROPERTIES = {"C15": "nanobind gen_methods: merging two method-table entries with one key never panics (known finding: only getter/setter pairs are handled)"}
F = "tool/src/nanobind/ty.rs"

PRELUDE = r"""
#[verifier::external_body] pub struct Text { x: u8 }
impl Clone for Text { #[verifier::external_body] fn clone(&self) -> (r: Self) ensures r == *self { unimplemented!() } }
pub mod hir {
    use vstd::prelude::*;
    // hir::SpecialMethod with the variants the closure distinguishes (payloads opaque)
    pub enum SpecialMethod { Getter(Option<u8>), Setter(Option<u8>), Other(u8) }
    pub struct Attrs { pub special_method: Option<SpecialMethod> }
    pub struct Method { pub attrs: Attrs }
}
pub struct MethodInfo<'a> {
    pub method: &'a hir::Method, pub method_name: Text, pub cpp_method_name: Text, pub setter_name: Option<Text>, pub def: Text, pub param_decls: Text,
}
"""


def build(tier):
    vf = VerusFile(NAME)
    src = Src(F)
    vf.add(vhelp.HEADER)
    vf.add(PRELUDE)
    body = src.bytes.decode() if isinstance(src.bytes, bytes) else src.bytes
    ms = list(re.finditer(r"\.and_modify\(\|e\| \{", body))
    if len(ms) != 1:
        raise Undecided("anchor-lost", f"nanobind/ty.rs: `.and_modify(|e| {{` found {len(ms)} times, expected 1")
    o = ms[0].end() - 1
    c = match_close(body, o)
    a, b = o, c + 1
    frag = {"path": "impl TyGenContext::gen_methods#and_modify closure", "kind": "stmt", "start": a, "after_attrs": a, "end": b, "loops": []}
    p = Piece(src, frag)
    p.fn("E5", rule_asserts, why="assert! becomes an obligation")
    p.fn("E5", rule_panics, why="panic! becomes an obligation")
    org = {"file": F, "item": frag["path"], "line": src.line_of(a), "end_line": src.line_of(b)}
    vf.add("""// E18: closure `|e| { .. }` hoisted; captured `method` and `info` are explicit parameters.  No precondition relates the two entries: the key is a
// property or method name, and nothing upstream keeps those apart
fn on_existing_entry<'a>(e: &mut MethodInfo<'a>, method: &'a hir::Method, info: &MethodInfo<'a>)
""", origin=org)
    vf.add(p.render(), origin=org, edits=p.log)
    vf.add("\n", origin=org)
    vf.functions.append({"path": frag["path"], "file": F, "line": org["line"], "end_line": org["end_line"], "engine": "verus", "mode": "verus (closure hoisted, E18)", "bound": "none"})
    vf.expected.append("on_existing_entry")
    vf.add(vhelp.FOOTER)
    return vf


ASSUMPTIONS = [
    "E18: the and_modify closure hoisted to a function; MethodInfo / hir::Method re-declared with the fields it touches; generated text opaque",
    "no precondition: neither lowering nor attribute validation compares method names with property names, or property names with each other (read: core/src/hir/attrs.rs)",
]
UNVERIFIED = {"C15": ["the rest of nanobind gen_methods (HashMap entry API, iterator adapters)"]}
