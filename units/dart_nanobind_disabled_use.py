"""V dart_nanobind_disabled_use: the `Type::Opaque` / `Type::Struct` / `Type::Enum` arm bodies of Dart `gen_type_name` and nanobind `gen_type_name`
(E15 ×9, incl. JS gen_js_type_str): naming a type whose definition is disabled for the backend pushes the "Found usage of disabled type" diagnostic.  Same contract as units
c_ty_name / cpp_disabled_use / kotlin_disabled_use for the other backends."""
import re
from rsrc import Src, Piece, rule_format_msgs, match_close
from verus_engine import VerusFile, CANARY
from common import Undecided
import vhelp

NAME = "dart_nanobind_disabled_use"
ENGINE = "verus"
PROPERTIES = {"C13": "a type disabled for the dart / nanobind / js backend and named in an enabled method or field is reported: opaque, struct and enum arms of their gen_type_name"}
DART = "tool/src/dart/mod.rs"
NB = "tool/src/nanobind/ty.rs"

PRELUDE = r"""
#[derive(Copy, Clone, PartialEq, Eq, Structural)] pub struct TypeId { pub n: u32 }
#[derive(Copy, Clone, PartialEq, Eq, Structural)] pub struct OpaqueId { pub n: u32 }
#[derive(Copy, Clone, PartialEq, Eq, Structural)] pub struct EnumId { pub n: u32 }
impl OpaqueId { pub fn into(self) -> (r: TypeId) ensures r == (TypeId { n: self.n }) { TypeId { n: self.n } } }
impl EnumId { pub fn into(self) -> (r: TypeId) ensures r == (TypeId { n: self.n }) { TypeId { n: self.n } } }
#[derive(Copy, Clone, PartialEq, Eq, Structural)] pub enum Mutability { Immutable, Mutable }
pub mod hir { pub use super::Mutability; }
pub struct Owner { pub owned: bool, pub m: Option<Mutability> }
impl Owner { pub fn mutability(&self) -> Option<Mutability> { self.m } pub fn is_owned(&self) -> bool { self.owned } }
pub struct OpaquePath { pub tcx_id: OpaqueId, pub owner: Owner, pub optional: bool }
impl OpaquePath { pub fn is_optional(&self) -> bool { self.optional } }
pub struct StructPath { pub tcx_id: TypeId }
impl StructPath { pub fn id(&self) -> (r: TypeId) ensures r == self.tcx_id { self.tcx_id } }
pub struct EnumPath { pub tcx_id: EnumId }
#[verifier::external_body] pub struct Text { x: u8 }
impl Clone for Text { #[verifier::external_body] fn clone(&self) -> Self { unimplemented!() } }
impl Text { pub fn into_owned(self) -> Text { self } pub fn into(self) -> Text { self } }
#[verifier::external_body] pub struct Msg { x: u8 }
#[verifier::external_body] pub fn __msg() -> Msg { unimplemented!() }
#[verifier::external_body] pub struct Path { x: u8 }
impl Path { pub fn into(self) -> Path { self } }
pub struct AttrsV { pub disable: bool }
pub struct DefView { pub a: AttrsV }
impl DefView { pub fn attrs(&self) -> (r: &AttrsV) ensures *r == self.a { &self.a } }
#[verifier::external_body] pub struct Tcx { x: u8 }
pub uninterp spec fn disabled_in(tcx: &Tcx, id: TypeId) -> bool;
impl Tcx { #[verifier::external_body] pub fn resolve_type(&self, id: TypeId) -> (r: &DefView) ensures r.a.disable == disabled_in(self, id) { unimplemented!() } }
pub struct ErrorStore { pub n: usize }
impl ErrorStore { #[verifier::external_body] pub fn push_error(&mut self, m: Msg) ensures final(self).n == old(self).n + 1 { unimplemented!() } }
#[verifier::external_body] pub struct Includes { x: u8 }
impl Includes { #[verifier::external_body] pub fn insert(&mut self, p: Path) -> bool { unimplemented!() } }
pub struct Binding { pub includes: Includes }
pub struct NameFormatter { pub x: u8 }
impl NameFormatter {
    #[verifier::external_body] pub fn fmt_type_name(&self, id: TypeId) -> Text { unimplemented!() }
    #[verifier::external_body] pub fn fmt_nullable(&self, t: &Text) -> Text { unimplemented!() }
    #[verifier::external_body] pub fn fmt_owned(&self, t: &Text) -> Text { unimplemented!() }
    #[verifier::external_body] pub fn fmt_optional_borrowed(&self, t: &Text, m: Mutability) -> Text { unimplemented!() }
    #[verifier::external_body] pub fn fmt_borrowed(&self, t: &Text, m: Mutability) -> Text { unimplemented!() }
    #[verifier::external_body] pub fn fmt_impl_header_path(&self, id: TypeId) -> Path { unimplemented!() }
}
pub struct DartCx<'a> { pub formatter: &'a NameFormatter, pub tcx: &'a Tcx, pub errors: ErrorStore }
pub mod super_gen { #[derive(Copy, Clone)] pub enum ImportUsage { Both } }
pub struct JsCx<'a> { pub formatter: &'a NameFormatter, pub tcx: &'a Tcx, pub errors: ErrorStore }
impl<'a> JsCx<'a> {
    #[verifier::external_body] pub fn add_import(&mut self, t: Text, f: Option<u8>, u: super_gen::ImportUsage) ensures final(self).errors == old(self).errors, final(self).tcx == old(self).tcx { unimplemented!() }
}
pub struct NbFormatter<'a> { pub cxx: &'a NameFormatter }
pub struct C2<'a> { pub tcx: &'a Tcx }
pub struct NbCx<'a> { pub formatter: NbFormatter<'a>, pub c2: C2<'a>, pub errors: ErrorStore, pub binding: Binding }
"""

ARMS = [("Opaque", "op", "OpaquePath", "TypeId { n: op.tcx_id.n }"), ("Struct", "st", "StructPath", "st.tcx_id"), ("Enum", "e", "EnumPath", "TypeId { n: e.tcx_id.n }")]
JS_ARMS = [("Opaque", "op", "OpaquePath", "TypeId { n: op.tcx_id.n }"), ("Struct", "st", "StructPath", "st.tcx_id"), ("Enum", "enumerator", "EnumPath", "TypeId { n: enumerator.tcx_id.n }")]


def arms_of(vf, rel, item_path, cx, tcx_expr, tag, ARMS=ARMS):
    src = Src(rel)
    it = src.item(item_path, "fn")
    body = src.slice(it["start"], it["end"])
    vf.add(f"impl<'a> {cx}<'a> {{\n")
    for (variant, var, pty, idexpr) in ARMS:
        m = re.search(r"Type::" + variant + r"\(ref (\w+)\) => \{", body)
        if not m or m.group(1) != var:
            raise Undecided("anchor-lost", f"{tag} gen_type_name: `Type::{variant}(ref {var}) => {{` not found")
        o = m.end() - 1
        c = match_close(body, o)
        a, b = it["start"] + o + 1, it["start"] + c
        frag = {"path": it["path"] + f"#Type::{variant} arm body", "kind": "stmt", "start": a, "after_attrs": a, "end": b, "loops": []}
        org = {"file": rel, "item": frag["path"], "line": src.line_of(a), "end_line": src.line_of(b)}
        p = Piece(src, frag)
        p.fn("E6", rule_format_msgs, why="diagnostic text dropped")
        p.sub("E3", r"self\s*\.errors\s*\.push_error\(", "self.errors.push_error(", count=None, why="ErrorStore's interior mutability modelled as &mut (explicit count)")
        p.sub("E3", r"self\s*\.formatter\s*\.cxx\s*\.", "self.formatter.cxx.", count=None, why="method chain on one line")
        p.sub("E12", r"super::gen::ImportUsage", "super_gen::ImportUsage", count=None, why="module path re-rooted")
        name = f"{tag}_name_{variant.lower()}"
        vf.add(f"// E15: body of the `Type::{variant}(ref {var})` arm of {tag} gen_type_name\n"
               f"fn {name}(&mut self, {var}: &{pty}) -> (r: Text)\n"
               f"    ensures {CANARY} disabled_in(old(self).{tcx_expr}, {idexpr}) ==> final(self).errors.n > old(self).errors.n,\n{{", origin=org)
        vf.add(p.render(), origin=org, edits=p.log)
        vf.add("}\n", origin=org)
        vf.functions.append({"path": frag["path"], "file": rel, "line": src.line_of(a), "end_line": src.line_of(b), "engine": "verus", "mode": "verus (match arm body)", "bound": "none"})
        vf.expected.append(name)
    vf.add("}\n")


def build(tier):
    vf = VerusFile(NAME)
    vf.add(vhelp.HEADER)
    vf.add(PRELUDE)
    arms_of(vf, DART, "impl TyGenContext<'_,'cx>::gen_type_name", "DartCx", "tcx", "dart")
    arms_of(vf, NB, "impl TyGenContext<'ccx,'tcx>::gen_type_name", "NbCx", "c2.tcx", "nanobind")
    arms_of(vf, "tool/src/js/converter.rs", "impl TyGenContext<'_,'tcx>::gen_js_type_str", "JsCx", "tcx", "js", ARMS=JS_ARMS)
    vf.add(vhelp.FOOTER)
    return vf


CANARY_FUNCTIONS = ["dart_name_opaque", "dart_name_struct", "dart_name_enum", "nanobind_name_opaque", "nanobind_name_struct", "nanobind_name_enum", "js_name_opaque", "js_name_struct", "js_name_enum"]
ASSUMPTIONS = [
    "E15: three arm bodies per backend; formatter / include collaborators abstract; tool::ErrorStore::push_error modelled as a counter on &mut self",
]
UNVERIFIED = {"C13": ["Dart gen_type_name_ffi carries the same three checks (read)"]}
