"""V c_option_names: tool/src/c/formatter.rs CFormatter::fmt_optional_type_name — the C name of the `{payload, is_ok}` mirror of an
Option payload.  For string payloads (one string or a slice of strings, three encodings) the name must be one of the four mirrors
capi.h declares (MAKE_SLICES_AND_OPTIONS(String | String16 | Strings | Strings16)): the two 8-bit encodings share the plain one,
UTF-16 uses the *16 one — and the function must not panic for any payload lowering allows inside an Option."""
import re
from rsrc import Src, Piece, rule_panics
from verus_engine import VerusFile, CANARY
from common import Undecided
import vhelp

NAME = "c_option_names"
ENGINE = "verus"
PROPERTIES = {"C10": "Option<string-like> payloads are declared with the option mirror of the right code-unit width, for every string encoding",
              "C01": "same table: the C name denotes the {payload, is_ok} struct of the payload the macro compiled",
              "C15": "fmt_optional_type_name's unimplemented!/unreachable! arms are dead for every payload lowering allows inside an Option"}
F = "tool/src/c/formatter.rs"
TYPES = "core/src/ast/types.rs"

PRELUDE = r"""
#[verifier::external_body] pub struct PrimitiveType { x: u8 }
impl Clone for PrimitiveType { #[verifier::external_body] fn clone(&self) -> Self { unimplemented!() } }
impl Copy for PrimitiveType {}
#[derive(Copy, Clone, PartialEq, Eq, Structural)] pub enum Mutability { Immutable, Mutable }
impl Mutability { pub fn is_immutable(&self) -> (r: bool) ensures r == (*self == Mutability::Immutable) { matches!(self, Mutability::Immutable) } }
pub struct Borrow { pub mutability: Mutability }
// hir::Slice / hir::Type with the payloads fmt_optional_type_name inspects (E12: TyPosition marker erased)
pub enum Slice { Str(Option<u8>, StringEncoding), Primitive(Option<Borrow>, PrimitiveType), Strs(StringEncoding) }
pub enum Type { Primitive(PrimitiveType), Struct(u8), Enum(u8), Slice(Slice), Opaque(u8), Callback(u8), DiplomatOption(Box<Type>) }
pub mod hir { pub use super::Type; pub use super::Slice; pub use super::StringEncoding; }
#[verifier::external_body] pub struct CowStr { x: u8 }

// ---- E6t: a generated C type name carried as which declared mirror it is (None: a name assembled from parts, not judged here)
#[derive(Copy, Clone, PartialEq, Eq, Structural)] pub enum Mirror { OptionStringView, OptionString16View, OptionStringsView, OptionStrings16View }
pub struct CName { pub mirror: Option<Mirror> }
impl CName {
    pub fn lit(m: Mirror) -> (r: CName) ensures r.mirror == Some(m) { CName { mirror: Some(m) } }
    #[verifier::external_body] pub fn assembled() -> (r: CName) ensures r.mirror is None { unimplemented!() }
}
pub struct CFormatter { pub is_for_cpp: bool }
impl CFormatter {
    // diplomat_namespace only prefixes `diplomat::capi::` in C++ mode: the mirror named is the same
    pub fn diplomat_namespace(&self, n: CName) -> (r: CName) ensures r == n { n }
    #[verifier::external_body] pub fn fmt_primitive_name_for_derived_type(&self, p: PrimitiveType) -> CowStr { unimplemented!() }
}

// ---- oracle (capi.h.jinja: MAKE_SLICES_AND_OPTIONS(String, char) / (String16, char16_t) / (Strings, DiplomatStringView) / (Strings16, DiplomatString16View))
pub open spec fn wide(e: StringEncoding) -> bool { e is UnvalidatedUtf16 }
pub open spec fn expected_mirror(t: Type) -> Option<Mirror> {
    match t {
        Type::Slice(Slice::Str(_, e)) => Some(if wide(e) { Mirror::OptionString16View } else { Mirror::OptionStringView }),
        Type::Slice(Slice::Strs(e)) => Some(if wide(e) { Mirror::OptionStrings16View } else { Mirror::OptionStringsView }),
        _ => None,
    }
}
// payloads lowering allows inside an Option (unit lower_type_gate: allowed_in / allowed_out, Option clause): primitives, structs, enums, slices
pub open spec fn allowed_option_payload(t: Type) -> bool { (t is Primitive) || (t is Struct) || (t is Enum) || (t is Slice) }
"""


def build(tier):
    vf = VerusFile(NAME)
    src = Src(F)
    types = Src(TYPES)
    vf.add(vhelp.HEADER)
    vhelp.typedef(vf, types, "StringEncoding", "enum", derive=vhelp.FIELDLESS_DERIVE)
    vf.add(PRELUDE)
    vf.add("impl CFormatter {\n")
    p = Piece(src, src.item("impl CFormatter<'tcx>::fmt_optional_type_name", "fn"))
    p.sub("E12", r"<P: TyPosition>", "", count=1, why="TyPosition marker erased")
    p.sub("E12", r"ty: &hir::Type<P>", "ty: &hir::Type", count=1, why="TyPosition marker erased")
    p.sub("E6t", r'"(Option(?:String|String16|Strings|Strings16)View)"\.into\(\)', r"CName::lit(Mirror::\1)", count="+", why="literal name of a capi.h option mirror -> tagged name")
    p.sub("E6t", r"self\.diplomat_namespace\(format!\((?:[^()]|\([^()]*\))*\)\.into\(\)\)(?:\.into\(\)|\.to_string\(\))", "CName::assembled()", count="+", why="name assembled from a primitive name: not judged here")
    p.sub("E6t", r'format!\("\{ty_name\}_option"\)', "CName::assembled()", count=1, why="struct / enum option name: not judged here")
    p.sub("E6t", r"\)\.to_string\(\)", ")", count=None, why="Cow -> String conversion keeps the name")
    p.sub("E6t", r"[ \t]*let prim = self\.fmt_primitive_name_for_derived_type\(\*prim\);\n", "", count=None, why="only used in the assembled name")
    p.fn("E5", rule_panics, why="unimplemented!/unreachable! arms become obligations")
    p.contract(f"""        requires allowed_option_payload(*ty),
        ensures {CANARY}
            expected_mirror(*ty) is Some ==> r.mirror == expected_mirror(*ty),""", ret_name="r")
    p.sub("E6t", r"\(r: String\)", "(r: CName)", count=1, why="tagged name")
    vf.add_piece(p, expected="fmt_optional_type_name")
    vf.add("}\n")
    vf.add(vhelp.FOOTER)
    return vf


CANARY_FUNCTIONS = ["fmt_optional_type_name"]
ASSUMPTIONS = [
    "E6t: the four literal mirror names are mapped to tags keyed on their spelling; names assembled with format! (primitive / struct / enum / primitive-slice payloads) are opaque and not judged (the primitive part is unit c_tables)",
    "diplomat_namespace only adds the C++ namespace prefix (read from its 4-line body), modelled as identity on the tag",
    "hir::Type / hir::Slice re-declared with the payloads inspected here; which payloads lowering allows inside an Option is taken from the gate's contract (unit lower_type_gate)",
]
UNVERIFIED = {"C10": ["capi.h.jinja declares the four mirrors (read; the primitive MAKE_SLICES_AND_OPTIONS lines are checked by unit c_tables)"], "C01": [], "C15": []}
