"""V macro_attr_info: macro/src/lib.rs AttributeInfo::extract — the predicate closure of `attrs.retain(|attr| {..})` (E18: hoisted with the three
captured flags as `&mut` parameters).  `repr` is set exactly by an attribute whose path starts with the identifier `repr` (and that attribute is
kept), `opaque` / `is_out` exactly by `#[diplomat::opaque]` / `#[diplomat::out]` (removed), the other diplomat attributes are removed or kept
without touching the flags.  gen_bridge omits its own `#[repr(C)]` on a struct iff `repr` is set (unit macro_repr), so nothing but a literal,
unconditional `#[repr(..)]` may set it."""
import re
from rsrc import Src, Piece, rule_panics, match_close
from verus_engine import VerusFile, CANARY
from common import Undecided
import vhelp

NAME = "macro_attr_info"
ENGINE = "verus"
PROPERTIES = {"C01": "the macro considers a type to carry a user-written repr only if it has an attribute literally named `repr` (then kept as written); `#[diplomat::opaque]` / `#[diplomat::out]` alone decide opaque / out",
              "C15": "the panics of the closure are the documented compile errors for unknown #[diplomat::..] attributes"}
F = "macro/src/lib.rs"

PRELUDE = r"""
#[verifier::external_body] pub struct Ident { x: u8 }
pub uninterp spec fn ident_is(i: Ident, s: Seq<char>) -> bool;
impl Ident { #[verifier::external_body] pub fn is(&self, s: &str) -> (r: bool) ensures r == ident_is(*self, s@) { unimplemented!() } }
// syn::Attribute: only the identifiers of its path segments are inspected
pub struct Attribute { pub segs: Vec<Ident> }
impl Attribute {
    pub fn seg(&self, i: usize) -> (r: &Ident) requires i < self.segs@.len() ensures *r == self.segs@[i as int] { &self.segs[i] }
    pub fn nsegs(&self) -> (r: usize) ensures r == self.segs@.len() { self.segs.len() }
}
pub open spec fn seg_is(a: Attribute, i: int, s: Seq<char>) -> bool { 0 <= i < a.segs@.len() && ident_is(a.segs@[i], s) }
pub open spec fn known_diplomat_attr(a: Attribute) -> bool {
    a.segs@.len() == 2 && (seg_is(a, 1, "opaque"@) || seg_is(a, 1, "out"@) || seg_is(a, 1, "rust_link"@) || seg_is(a, 1, "attr"@) || seg_is(a, 1, "abi_rename"@)
        || seg_is(a, 1, "demo"@) || seg_is(a, 1, "enum_convert"@) || seg_is(a, 1, "transparent_convert"@))
}
"""


def build(tier):
    vf = VerusFile(NAME)
    src = Src(F)
    vf.add(vhelp.HEADER)
    vf.add(PRELUDE)
    it = src.item("impl AttributeInfo::extract", "fn")
    body = src.slice(it["start"], it["end"])
    m = re.search(r"attrs\.retain\(\|attr\| \{", body)
    if not m:
        raise Undecided("anchor-lost", "AttributeInfo::extract: `attrs.retain(|attr| {` not found")
    o = m.end() - 1
    c = match_close(body, o)
    a, b = it["start"] + o + 1, it["start"] + c
    frag = {"path": it["path"] + "#retain predicate closure body", "kind": "stmt", "start": a, "after_attrs": a, "end": b, "loops": []}
    org = {"file": F, "item": frag["path"], "line": src.line_of(a), "end_line": src.line_of(b)}
    p = Piece(src, frag)
    p.sub("E3s", r"&attr\.path\(\)\.segments\.iter\(\)\.next\(\)\.unwrap\(\)\.ident", "attr.seg(0)", count=1, why="first path segment's identifier (syn paths are non-empty: precondition)")
    p.sub("E3s", r"&attr\.path\(\)\.segments\.iter\(\)\.nth\(1\)\.unwrap\(\)\.ident", "attr.seg(1)", count=1, why="second path segment's identifier")
    p.sub("E3s", r"attr\.path\(\)\.segments\.len\(\)", "attr.nsegs()", count=None, why="number of path segments")
    p.sub("E3s", r'\b(ident|seg) == ("[a-z_]+")', r"\1.is(\2)", count=None, why="syn::Ident == \"literal\"")
    p.sub("E18", r"\b(repr|opaque|is_out) = true;", r"*\1 = true;", count=None, why="captured flag is an explicit &mut parameter")
    p.fn("E5", rule_panics, why="panic! (compile error for an unknown diplomat attribute) becomes an obligation under precondition known_diplomat_attr")
    vf.add("// E18: body of the closure passed to `attrs.retain(..)`, the captured flags as explicit parameters\n"
           "fn attribute_info_retain(attr: &Attribute, repr: &mut bool, opaque: &mut bool, is_out: &mut bool) -> (keep: bool)\n"
           "    requires attr.segs@.len() >= 1, seg_is(*attr, 0, \"diplomat\"@) && !seg_is(*attr, 0, \"repr\"@) ==> known_diplomat_attr(*attr),\n"
           f"    ensures {CANARY}\n"
           "        // a user-written repr is exactly an attribute named `repr`; it is kept as written\n"
           "        *final(repr) == (*old(repr) || seg_is(*attr, 0, \"repr\"@)),\n"
           "        seg_is(*attr, 0, \"repr\"@) ==> keep,\n"
           "        // the two marker attributes, and only they, set the other flags\n"
           "        *final(opaque) == (*old(opaque) || (!seg_is(*attr, 0, \"repr\"@) && seg_is(*attr, 0, \"diplomat\"@) && seg_is(*attr, 1, \"opaque\"@))),\n"
           "        *final(is_out) == (*old(is_out) || (!seg_is(*attr, 0, \"repr\"@) && seg_is(*attr, 0, \"diplomat\"@) && !seg_is(*attr, 1, \"opaque\"@) && seg_is(*attr, 1, \"out\"@))),\n"
           "        // attributes that are neither `repr` nor `diplomat::..` are left alone\n"
           "        !seg_is(*attr, 0, \"repr\"@) && !seg_is(*attr, 0, \"diplomat\"@) ==> keep,\n{", origin=org)
    vf.add(p.render(), origin=org, edits=p.log)
    vf.add("}\n", origin=org)
    vf.functions.append({"path": frag["path"], "file": F, "line": src.line_of(a), "end_line": src.line_of(b), "engine": "verus", "mode": "verus (closure hoisted, E18)", "bound": "none"})
    vf.expected.append("attribute_info_retain")
    vf.add(vhelp.FOOTER)
    return vf


CANARY_FUNCTIONS = ["attribute_info_retain"]
ASSUMPTIONS = [
    "E18: the closure of Vec::retain verified as a function of one attribute with the captured flags as &mut parameters; retain calling it once per attribute in order is std",
    "syn::Attribute reduced to the identifiers of its path segments (non-empty path: syn invariant); `ident == \"lit\"` abstract",
    "precondition: a `diplomat::` attribute is one of the known ones (anything else is a compile error by design: the two panics)",
]
UNVERIFIED = {"C01": ["Vec::retain (std)", "rustc's treatment of the kept repr attribute"], "C15": []}
