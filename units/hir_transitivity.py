"""V hir_transitivity: hir::LifetimeTransitivityIterator::{new,next} compute exactly the reflexive-transitive closure
of the outlives graph (all_longer_lifetimes / all_shorter_lifetimes), for any number of lifetimes and any bounds."""
from rsrc import Src, Piece
from verus_engine import VerusFile, CANARY
from common import Undecided
import vhelp

NAME = "hir_transitivity"
ENGINE = "verus"
PROPERTIES = {"C04": "all_longer_lifetimes(o) / all_shorter_lifetimes(o) = exactly the lifetimes forced to outlive / be outlived by o (transitive closure of declared+implied bounds)",
              "C15": "visited[next] / nodes.get never out of range; iterator terminates"}
F = "core/src/hir/lifetimes.rs"

PRELUDE = r"""
#[verifier::external_body]
pub struct IdentBuf { s: String }
"""

SPECS = r"""
// ---- the outlives graph as data: direct edges of node i in the chosen direction
pub open spec fn edges(env: &LifetimeEnv, longer: bool, i: int) -> Seq<Lifetime> {
    if 0 <= i < env.nodes@.len() {
        if longer { env.nodes@[i].longer@ } else { env.nodes@[i].shorter@ }
    } else { Seq::empty() }
}
pub open spec fn edge(env: &LifetimeEnv, longer: bool, a: int, b: int) -> bool {
    exists|k: int| 0 <= k < edges(env, longer, a).len() && #[trigger] edges(env, longer, a)[k].0 == b
}
// well-formedness established by lowering (SelfParamLifetimeLowerer::new copies AST edges of named lifetimes):
// named lifetimes come first, every edge target is a lifetime of the env
pub open spec fn env_wf(env: &LifetimeEnv) -> bool {
    &&& env.nodes@.len() <= env.num_lifetimes
    &&& forall|i: int, k: int| 0 <= i < env.nodes@.len() && 0 <= k < env.nodes@[i].longer@.len() ==> #[trigger] env.nodes@[i].longer@[k].0 < env.num_lifetimes
    &&& forall|i: int, k: int| 0 <= i < env.nodes@.len() && 0 <= k < env.nodes@[i].shorter@.len() ==> #[trigger] env.nodes@[i].shorter@[k].0 < env.num_lifetimes
}
// ---- oracle (from the property statement): b is reachable from a iff there is a finite path of direct bounds
pub open spec fn is_path(env: &LifetimeEnv, longer: bool, p: Seq<usize>) -> bool {
    p.len() >= 1 && forall|i: int| 0 <= i < p.len() - 1 ==> edge(env, longer, #[trigger] p[i] as int, p[i + 1] as int)
}
pub open spec fn reach(env: &LifetimeEnv, longer: bool, a: usize, b: usize) -> bool {
    exists|p: Seq<usize>| is_path(env, longer, p) && p[0] == a && p[p.len() - 1] == b
}
pub open spec fn known(visited: Seq<bool>, queue: Seq<usize>, x: usize) -> bool {
    (x < visited.len() && visited[x as int]) || queue.contains(x)
}
"""

INV_SPEC = r"""
impl<'env> LifetimeTransitivityIterator<'env> {
    pub open spec fn inv(&self) -> bool {
        &&& env_wf(self.env)
        &&& self.visited@.len() == self.env.num_lifetimes
        &&& forall|k: int| 0 <= k < self.queue@.len() ==> #[trigger] self.queue@[k] < self.env.num_lifetimes
        // closure: every edge out of a visited node leads to a visited or queued node
        &&& forall|v: int, k: int| 0 <= v < self.visited@.len() && self.visited@[v] && 0 <= k < edges(self.env, self.longer, v).len()
              ==> known(self.visited@, self.queue@, #[trigger] edges(self.env, self.longer, v)[k].0)
    }
}
"""

NEW_CONTRACT = f"""        requires env_wf(env), starting < env.num_lifetimes,
        ensures {CANARY}
            r.inv(), r.env == env, r.longer == longer,
            r.queue@ == seq![starting],
            forall|i: int| 0 <= i < r.visited@.len() ==> !r.visited@[i],"""

NEXT_CONTRACT = f"""        requires old(self).inv(),
        ensures {CANARY}
            final(self).inv(),
            final(self).env == old(self).env, final(self).longer == old(self).longer,
            // nothing known is forgotten
            forall|x: usize| known(old(self).visited@, old(self).queue@, x) ==> known(final(self).visited@, final(self).queue@, x),
            match r {{
                Some(l) => l.0 < old(self).visited@.len() && !old(self).visited@[l.0 as int]
                    && old(self).queue@.contains(l.0)
                    && final(self).visited@ == old(self).visited@.update(l.0 as int, true)
                    // soundness half: what is queued afterwards was queued before or is a direct successor of l
                    && (forall|x: usize| final(self).queue@.contains(x) ==> old(self).queue@.contains(x) || edge(old(self).env, old(self).longer, l.0 as int, x as int)),
                None => final(self).queue@.len() == 0 && final(self).visited@ == old(self).visited@,
            }},"""

WHILE_INV = r"""            invariant self.inv(), old(self).inv(), self.env == old(self).env, self.longer == old(self).longer,
               self.visited@ == old(self).visited@,
               self.queue@.len() <= old(self).queue@.len(),
               self.queue@ == old(self).queue@.subrange(0, self.queue@.len() as int),
               forall|k: int| self.queue@.len() <= k < old(self).queue@.len() ==> old(self).visited@[#[trigger] old(self).queue@[k] as int],
            ensures self.queue@.len() == 0,"""

BODY_PREFIX = r"""            let ghost q0 = self.queue@;   // after pop
            let ghost oldq = old(self).queue@;
            let ghost vis0 = self.visited@;
            let ghost hq = oldq.subrange(0, q0.len() as int + 1);
            proof {
                assert(next == oldq[q0.len() as int]);
                assert(q0 == oldq.subrange(0, q0.len() as int));
                assert(hq =~= q0.push(next));
                assert(forall|k: int| q0.len() < k < oldq.len() ==> vis0[#[trigger] oldq[k] as int]);
                assert(forall|k: int| 0 <= k < oldq.len() ==> #[trigger] oldq[k] < vis0.len());
                if vis0[next as int] {
                    // already visited: dropping it from the queue keeps the closure invariant
                    assert forall|v: int, k: int| 0 <= v < self.visited@.len() && self.visited@[v] && 0 <= k < edges(self.env, self.longer, v).len()
                        implies known(self.visited@, self.queue@, #[trigger] edges(self.env, self.longer, v)[k].0) by {
                        let e = edges(self.env, self.longer, v)[k].0;
                        assert(known(vis0, hq, e));
                        if !(e < vis0.len() && vis0[e as int]) {
                            let j = choose|j: int| 0 <= j < hq.len() && hq[j] == e;
                            if j < q0.len() { assert(q0[j] == e); } else { assert(e == next); }
                        }
                    }
                }
            }"""

FOR_INV = r"""                    invariant
                        self.env == old(self).env, self.longer == old(self).longer,
                        self.visited@ == vis0.update(next as int, true),
                        edge_dir@ == edges(self.env, self.longer, next as int),
                        env_wf(self.env),
                        next < self.env.nodes@.len(),
                        self.queue@.len() == q0.len() + it.index@,
                        forall|j: int| 0 <= j < q0.len() ==> self.queue@[j] == q0[j],
                        forall|k: int| 0 <= k < it.index@ ==> self.queue@[q0.len() + k] == #[trigger] edge_dir@[k].0,"""

RETURN_PROOF = r"""            proof {
                let q2 = self.queue@;
                assert(self.visited@ == vis0.update(next as int, true));
                // after the edge loop the queue is q0 followed by exactly the successors of `next`
                assert(q2.len() == q0.len() + edges(self.env, self.longer, next as int).len());
                assert(forall|j: int| 0 <= j < q0.len() ==> q2[j] == q0[j]);
                assert(forall|k: int| 0 <= k < edges(self.env, self.longer, next as int).len() ==> q2[q0.len() + k] == #[trigger] edges(self.env, self.longer, next as int)[k].0);
                assert forall|k: int| 0 <= k < q2.len() implies #[trigger] q2[k] < self.env.num_lifetimes by {
                    if k < q0.len() { assert(q2[k] == q0[k]); assert(q0[k] == oldq[k]); }
                    else { let kk = k - q0.len(); assert(q2[q0.len() + kk] == edges(self.env, self.longer, next as int)[kk].0); }
                }
                assert forall|v: int, k: int| 0 <= v < self.visited@.len() && self.visited@[v] && 0 <= k < edges(self.env, self.longer, v).len()
                    implies known(self.visited@, self.queue@, #[trigger] edges(self.env, self.longer, v)[k].0) by {
                    let e = edges(self.env, self.longer, v)[k].0;
                    if v == next as int {
                        assert(q2[q0.len() + k] == e);
                    } else {
                        assert(vis0[v]);
                        assert(known(vis0, hq, e));
                        if !(e < vis0.len() && vis0[e as int]) {
                            let j = choose|j: int| 0 <= j < hq.len() && hq[j] == e;
                            if j < q0.len() { assert(q2[j] == e); } else { assert(e == next); }
                        }
                    }
                }
                assert forall|x: usize| known(old(self).visited@, oldq, x) implies known(self.visited@, q2, x) by {
                    if !(x < vis0.len() && vis0[x as int]) {
                        let j = choose|j: int| 0 <= j < oldq.len() && oldq[j] == x;
                        if j < q0.len() { assert(q2[j] == q0[j]); assert(q2[j] == x); }
                        else if j == q0.len() { assert(x == next); }
                        else { assert(vis0[oldq[j] as int]); assert(oldq[j] < vis0.len()); }
                    }
                }
                assert forall|x: usize| q2.contains(x) implies oldq.contains(x) || edge(self.env, self.longer, next as int, x as int) by {
                    let j = choose|j: int| 0 <= j < q2.len() && q2[j] == x;
                    if j < q0.len() { assert(q0[j] == oldq[j]); assert(oldq[j] == x); }
                    else { let kk = j - q0.len(); assert(edges(self.env, self.longer, next as int)[kk].0 == x); }
                }
                assert(oldq.contains(next));
            }
"""

END_PROOF = r"""
        proof {
            assert forall|x: usize| known(old(self).visited@, old(self).queue@, x) implies known(self.visited@, self.queue@, x) by {
                if !(x < old(self).visited@.len() && old(self).visited@[x as int]) {
                    let j = choose|j: int| 0 <= j < old(self).queue@.len() && old(self).queue@[j] == x;
                    assert(old(self).visited@[old(self).queue@[j] as int]);
                }
            }
        }
"""

LEMMAS = r"""
// ---- closure + empty queue + start visited  ==>  everything reachable is visited   (induction on path length)
pub proof fn lemma_closed_contains_reach(env: &LifetimeEnv, longer: bool, visited: Seq<bool>, start: usize, p: Seq<usize>)
    requires
        env_wf(env), visited.len() == env.num_lifetimes,
        start < visited.len() && visited[start as int],
        forall|v: int, k: int| 0 <= v < visited.len() && visited[v] && 0 <= k < edges(env, longer, v).len()
              ==> known(visited, Seq::<usize>::empty(), #[trigger] edges(env, longer, v)[k].0),
        is_path(env, longer, p), p[0] == start,
    ensures p[p.len() - 1] < visited.len() && visited[p[p.len() - 1] as int],
    decreases p.len(),
{
    if p.len() > 1 {
        let q = p.drop_last();
        assert(is_path(env, longer, q)) by {
            assert forall|i: int| 0 <= i < q.len() - 1 implies edge(env, longer, #[trigger] q[i] as int, q[i + 1] as int) by {
                assert(q[i] == p[i] && q[i + 1] == p[i + 1]);
            }
        }
        lemma_closed_contains_reach(env, longer, visited, start, q);
        let a = q[q.len() - 1];
        let b = p[p.len() - 1];
        assert(a == p[p.len() - 2]);
        assert(edge(env, longer, p[p.len() - 2] as int, p[p.len() - 2 + 1] as int));
        let k = choose|k: int| 0 <= k < edges(env, longer, a as int).len() && #[trigger] edges(env, longer, a as int)[k].0 == b as int;
        assert(known(visited, Seq::<usize>::empty(), edges(env, longer, a as int)[k].0));
    }
}

pub proof fn lemma_reach_step(env: &LifetimeEnv, longer: bool, s: usize, a: usize, b: usize)
    requires reach(env, longer, s, a), edge(env, longer, a as int, b as int),
    ensures reach(env, longer, s, b),
{
    let p = choose|p: Seq<usize>| is_path(env, longer, p) && p[0] == s && p[p.len() - 1] == a;
    let q = p.push(b);
    assert forall|i: int| 0 <= i < q.len() - 1 implies edge(env, longer, #[trigger] q[i] as int, q[i + 1] as int) by {
        if i < p.len() - 1 { assert(q[i] == p[i] && q[i + 1] == p[i + 1]); }
        else { assert(q[i] == a && q[i + 1] == b); }
    }
    assert(is_path(env, longer, q) && q[0] == s && q[q.len() - 1] == b);
}

pub proof fn lemma_reach_refl(env: &LifetimeEnv, longer: bool, s: usize)
    ensures reach(env, longer, s, s),
{
    let p = seq![s];
    assert(is_path(env, longer, p) && p[0] == s && p[p.len() - 1] == s);
}

pub open spec fn in_out(out: Seq<Lifetime>, x: usize) -> bool {
    exists|i: int| 0 <= i < out.len() && #[trigger] out[i].0 == x
}

// ---- driver theorem: what `Iterator::collect()` on the real iterator yields.
// Harness code (not repo code): calls the real `new`, then the real `next()` until None, exactly like collect().
#[verifier::exec_allows_no_decreases_clause]
fn collect_all(env: &LifetimeEnv, starting: usize, longer: bool) -> (out: Vec<Lifetime>)
    requires env_wf(env), starting < env.num_lifetimes,
    ensures
        // exactly the reflexive-transitive closure ...
        forall|b: usize| reach(env, longer, starting, b) <==> in_out(out@, b),
        // ... with the starting lifetime first and nothing reported twice
        out@.len() >= 1 && out@[0].0 == starting,
        forall|i: int, j: int| 0 <= i < j < out@.len() ==> out@[i].0 != out@[j].0,
{
    let mut it = LifetimeTransitivityIterator::new(env, starting, longer);
    let mut out: Vec<Lifetime> = Vec::new();
    proof {
        lemma_reach_refl(env, longer, starting);
        assert(it.queue@[0] == starting);
        assert(it.queue@.contains(starting));
        assert forall|x: usize| known(it.visited@, it.queue@, x) implies reach(env, longer, starting, x) by {
            let j = choose|j: int| 0 <= j < it.queue@.len() && it.queue@[j] == x;
            assert(x == starting);
        }
    }
    loop
        invariant
            it.inv(), it.env == env, it.longer == longer, env_wf(env), starting < env.num_lifetimes,
            known(it.visited@, it.queue@, starting),
            // soundness: everything visited or queued is reachable from start
            forall|x: usize| known(it.visited@, it.queue@, x) ==> reach(env, longer, starting, x),
            // out == visited, without repetition
            forall|x: usize| x < it.visited@.len() && #[trigger] it.visited@[x as int] ==> in_out(out@, x),
            forall|i: int| 0 <= i < out@.len() ==> (#[trigger] out@[i]).0 < it.visited@.len() && it.visited@[out@[i].0 as int],
            forall|i: int, j: int| 0 <= i < j < out@.len() ==> out@[i].0 != out@[j].0,
            out@.len() == 0 ==> it.queue@ == seq![starting] && (forall|i: int| 0 <= i < it.visited@.len() ==> !it.visited@[i]),
            out@.len() >= 1 ==> out@[0].0 == starting,
    {
        let ghost vis0 = it.visited@;
        let ghost q0 = it.queue@;
        let ghost out0 = out@;
        match it.next() {
            Some(l) => {
                out.push(l);
                proof {
                    let vis1 = it.visited@;
                    let q1 = it.queue@;
                    assert(vis1 == vis0.update(l.0 as int, true));
                    assert(known(vis0, q0, l.0));
                    assert(reach(env, longer, starting, l.0));
                    assert forall|x: usize| known(vis1, q1, x) implies reach(env, longer, starting, x) by {
                        if x < vis1.len() && vis1[x as int] {
                            if x != l.0 { assert(vis0[x as int]); assert(known(vis0, q0, x)); }
                        } else {
                            assert(q1.contains(x));
                            if q0.contains(x) { assert(known(vis0, q0, x)); }
                            else { lemma_reach_step(env, longer, starting, l.0, x); }
                        }
                    }
                    assert forall|x: usize| x < vis1.len() && #[trigger] vis1[x as int] implies in_out(out@, x) by {
                        if x == l.0 { assert(out@[out0.len() as int].0 == x); }
                        else {
                            assert(vis0[x as int]);
                            assert(in_out(out0, x));
                            let i = choose|i: int| 0 <= i < out0.len() && #[trigger] out0[i].0 == x;
                            assert(out@[i].0 == x);
                        }
                    }
                    assert forall|i: int| 0 <= i < out@.len() implies (#[trigger] out@[i]).0 < vis1.len() && vis1[out@[i].0 as int] by {
                        if i < out0.len() { assert(out@[i] == out0[i]); }
                        else { assert(out@[i] == l); }
                    }
                    assert forall|i: int, j: int| 0 <= i < j < out@.len() implies out@[i].0 != out@[j].0 by {
                        if j == out0.len() {
                            // l was unvisited, everything in out0 was visited
                            assert(out0[i] == out@[i]);
                            if out@[i].0 == l.0 { assert(vis0[out0[i].0 as int]); }
                        } else { assert(out0[i].0 == out@[i].0 && out0[j].0 == out@[j].0); }
                    }
                    if out0.len() == 0 {
                        assert(q0 == seq![starting]);
                        let j = choose|j: int| 0 <= j < q0.len() && q0[j] == l.0;
                        assert(l.0 == starting);
                    } else { assert(out@[0] == out0[0]); }
                    assert(known(vis1, q1, starting));
                }
            }
            None => {
                proof {
                    assert(it.queue@ =~= Seq::<usize>::empty());
                    assert(it.visited@[starting as int]);
                    assert forall|b: usize| reach(env, longer, starting, b) implies in_out(out@, b) by {
                        let p = choose|p: Seq<usize>| is_path(env, longer, p) && p[0] == starting && p[p.len() - 1] == b;
                        lemma_closed_contains_reach(env, longer, it.visited@, starting, p);
                    }
                    assert forall|b: usize| in_out(out@, b) implies reach(env, longer, starting, b) by {
                        let i = choose|i: int| 0 <= i < out@.len() && #[trigger] out@[i].0 == b;
                        assert(out@[i].0 < it.visited@.len() && it.visited@[out@[i].0 as int]);
                        assert(known(it.visited@, it.queue@, b));
                    }
                    if out@.len() == 0 { assert(it.queue@.len() == 1); }
                }
                return out;
            }
        }
    }
}
"""


def _e7(for_inv):
    import re

    def f(text):
        pat = re.compile(r"self\.queue\.extend\(edge_dir\.iter\(\)\.map\(\|(\w+)\| (\w+)\.0\)\);")
        ms = list(pat.finditer(text))
        if len(ms) != 1 or ms[0].group(1) != ms[0].group(2):
            raise Undecided("edit-mismatch", "E7: `self.queue.extend(edge_dir.iter().map(|i| i.0));` not found exactly once")
        m = ms[0]
        v = m.group(1)
        new = (f"for {v} in it: edge_dir.iter()\n{for_inv}\n                {{\n                    self.queue.push({v}.0);\n                }}")
        return text[:m.start()] + new + text[m.end():], [(m.group(0), new)]
    return f


def build(tier):
    vf = VerusFile(NAME)
    src = Src(F)
    vf.add(vhelp.HEADER)
    vf.add(PRELUDE)
    sv = [("E3", r"SmallVec<\[([A-Za-z]+); [A-Z_0-9]+\]>", r"Vec<\1>")]
    vhelp.typedef(vf, src, "Lifetime", "struct", derive="#[derive(Copy, Clone, PartialEq, Eq)]", pub_tuple_fields=True)
    vf.add("impl Lifetime {\n")
    p = Piece(src, src.item("impl Lifetime::new", "fn"))
    p.sub("E1", r"pub\(super\)", "pub", count=1)
    p.contract("        ensures r.0 == index,", ret_name="r")
    vf.add_piece(p)
    vf.add("}\n")
    vhelp.typedef(vf, src, "BoundedLifetime", "struct", subs=sv)
    vhelp.typedef(vf, src, "LifetimeEnv", "struct", subs=sv + [("E1", r"\n    nodes:", "\n    pub nodes:"), ("E1", r"\n    num_lifetimes:", "\n    pub num_lifetimes:")])
    vf.add("impl LifetimeEnv {\n")
    p = Piece(src, src.item("impl LifetimeEnv::num_lifetimes", "fn"))
    p.contract("        ensures r == self.num_lifetimes,", ret_name="r")
    vf.add_piece(p)
    vf.add("}\n")
    vf.add(SPECS)
    ci = src.item("INLINE_NUM_LIFETIMES", "const")
    vf.add("pub " + src.slice(ci["after_attrs"], ci["end"]).strip().replace("pub(crate) ", "") + "\n",
           origin={"file": F, "item": "INLINE_NUM_LIFETIMES", "line": src.line_of(ci["start"]), "end_line": src.line_of(ci["end"])})
    it_struct = src.item("LifetimeTransitivityIterator", "struct")
    pst = Piece(src, it_struct)
    pst.sub("E1", r"\A(\s*)struct ", r"\1pub struct ", count=1)
    pst.sub("E1", r"\n    (env|visited|queue|longer):", r"\n    pub \1:", count=4)
    pst.sub("E3", r"SmallVec<\[([A-Za-z]+); [A-Z_0-9]+\]>", r"Vec<\1>", count=None, why="SmallVec -> Vec")
    vf.add_piece(pst, under_contract=False)
    vf.add(INV_SPEC)
    vf.add("impl<'env> LifetimeTransitivityIterator<'env> {\n")
    p = Piece(src, src.item("impl LifetimeTransitivityIterator<'env>::new", "fn"))
    p.contract(NEW_CONTRACT, ret_name="r")
    p.sub("E3", r"smallvec!\[", "vec![", count=None, why="SmallVec -> Vec")
    vf.add_piece(p, expected="new")
    it = src.item("impl Iterator for LifetimeTransitivityIterator<'env>::next", "fn")
    p = Piece(src, it)
    p.expect_loops(1)
    p.contract(NEXT_CONTRACT, ret_name="r")
    p.loop_spec(0, WHILE_INV)
    p.loop_body_prefix(0, BODY_PREFIX)
    p.insert("E4", it["loops"][0]["end"], END_PROOF, "ghost proof after the loop")
    p.fn("E7", _e7(FOR_INV), why="Vec::extend(iter.map(..)) desugared to for/push (std-documented meaning of Extend for Vec)")
    p.sub("E4", r"([ \t]*)return Some\(", lambda m: RETURN_PROOF + m.group(0), count=1, why="ghost proof before the return")
    vf.add("    // E9: `impl Iterator for LifetimeTransitivityIterator { type Item = Lifetime; fn next }` emitted as an inherent method\n    #[verifier::exec_allows_no_decreases_clause]\n")
    vf.add_piece(p, expected="next")
    vf.add("}\n")
    # ---- the two public entry points: direction flag and start node handed to the iterator
    vf.add("impl LifetimeEnv {\n")
    for fn, flag, doc in [("all_longer_lifetimes", "true", "lifetimes that must outlive `lt`: follow the `longer` edges"),
                          ("all_shorter_lifetimes", "false", "lifetimes `lt` must outlive: follow the `shorter` edges")]:
        p = Piece(src, src.item(f"impl LifetimeEnv::{fn}", "fn"))
        p.sub("E11", r"lt: impl Borrow<Lifetime>", "lt: &Lifetime", count=1, why="`impl Borrow<Lifetime>` instantiated at &Lifetime (callers pass &Lifetime or Lifetime; Borrow::borrow is the identity view)")
        p.sub("E11", r"\*lt\.borrow\(\)", "*lt", count=1, why="Borrow::borrow on &Lifetime")
        p.sub("E9", r"impl Iterator<Item = Lifetime> \+ '_", "LifetimeTransitivityIterator<'_>", count=1, why="opaque return type written out")
        p.contract(f"""        requires env_wf(self), lt.0 < self.num_lifetimes,
        ensures {CANARY}
            // {doc}
            r.inv(), r.env == self, r.longer == {flag}, r.queue@ == seq![lt.0],
            forall|i: int| 0 <= i < r.visited@.len() ==> !r.visited@[i],""", ret_name="r")
        vf.add_piece(p, expected=fn)
    vf.add("}\n")
    vf.add(LEMMAS)
    vf.expected += ["lemma_closed_contains_reach", "lemma_reach_step", "collect_all"]
    vf.add(vhelp.FOOTER)
    return vf


CANARY_FUNCTIONS = ["new", "next", "all_longer_lifetimes", "all_shorter_lifetimes"]
ASSUMPTIONS = [
    "A-smallvec: SmallVec<[T; N]> replaced by Vec<T> (same API subset: get, iter, extend/push; inline capacity not observable)",
    "A-iter (E7): Vec::extend(iter.map(f)) == for x in iter { push(f(x)) }",
    "E9: trait impl `Iterator::next` verified as an inherent method; Iterator::collect modelled by the driver `collect_all` (calls next until None)",
    "precondition env_wf (edge targets < num_lifetimes, nodes.len() <= num_lifetimes) is established by lowering (SelfParamLifetimeLowerer / LifetimeEnv construction): assumed here",
    "termination of next(): exec_allows_no_decreases_clause (the while-let pops a finite queue; not proved)",
]
UNVERIFIED = {
    "C04": ["BorrowingParamVisitor::visit_param edge rule (BTreeMap/BTreeSet: out of reach of both engines)", "lowering that builds the HIR LifetimeEnv from the AST env",
            "validate_ty_in_method", "emission of edge arrays by JS/Dart/Kotlin/nanobind backends (template text)"],
    "C15": [],
}
