"""V elision: the lifetime-elision state machine of core/src/hir/elision.rs and the copy of AST outlives edges into the HIR
LifetimeEnv (SelfParamLifetimeLowerer::new)."""
import re
from rsrc import Src, Piece, rule_panics
from verus_engine import VerusFile, CANARY
from common import Undecided
import vhelp

NAME = "elision"
ENGINE = "verus"
PROPERTIES = {"C04": "anonymous input lifetimes: the output's elided lifetime is the &self borrow, else the only input lifetime; the HIR outlives graph has exactly the AST's longer/shorter edges",
              "C05": "elided output lifetime without a unique source is the documented rejection (panic arm reachable only in NoBorrows / MultipleBorrows)",
              "C15": "panic arms of ReturnLifetimeLowerer::lower_lifetime reachable exactly in the two documented states"}
F = "core/src/hir/elision.rs"
LT = "core/src/hir/lifetimes.rs"

PRELUDE = r"""
global size_of usize == 8;
#[verifier::external_body] pub struct IdentBuf { s: String }
#[verifier::external_body] pub struct Lifetimes { x: u8 }
#[verifier::external_body] pub struct LoweringContext { x: u8 }
impl LoweringContext {
    // lower_ident validates an identifier string: Err pushes an error; abstract here
    #[verifier::external_body] pub fn lower_ident(&mut self, ident: &ast::Ident, context: &'static str) -> Result<IdentBuf, ()> { unimplemented!() }
}
pub mod ast {
    use vstd::prelude::*;
    #[verifier::external_body] pub struct Ident { s: String }
    pub struct NamedLifetime(pub Ident);
    impl NamedLifetime { #[verifier::external_body] pub fn name(&self) -> &Ident { unimplemented!() } }
    pub enum Lifetime { Static, Named(NamedLifetime), Anonymous }
    // ast/lifetimes.rs LifetimeNode / LifetimeEnv: the fields SelfParamLifetimeLowerer::new reads
    pub struct LifetimeNode { pub lifetime: NamedLifetime, pub shorter: Vec<usize>, pub longer: Vec<usize> }
    pub struct LifetimeEnv { pub nodes: Vec<LifetimeNode> }
    pub uninterp spec fn spec_id(env: &LifetimeEnv, named: &NamedLifetime) -> usize;
}
"""

SPECS = r"""
impl Lifetime {
    // Lifetime::from_ast: index of the named lifetime in the method's AST env (HashMap-free linear lookup + panic if absent: abstract)
    #[verifier::external_body]
    pub fn from_ast(named: &ast::NamedLifetime, lifetime_env: &ast::LifetimeEnv) -> (r: Self)
        ensures r.0 == ast::spec_id(lifetime_env, named)
    { unimplemented!() }
}
impl LifetimeEnv {
    pub fn new(nodes: Vec<BoundedLifetime>, num_lifetimes: usize) -> (r: Self)
        ensures r.nodes == nodes, r.num_lifetimes == num_lifetimes
    { Self { nodes, num_lifetimes } }
}
impl BoundedLifetime {
    pub fn new(ident: IdentBuf, longer: Vec<Lifetime>, shorter: Vec<Lifetime>) -> (r: Self)
        ensures r.longer == longer, r.shorter == shorter
    { Self { ident, longer, shorter } }
}

// ---- oracle: the Nomicon elision rules as a fold over the lifetimes visited in the non-self parameters
//   rule 1: a &self / &mut self borrow wins;  rule 2: otherwise exactly one input lifetime;  rule 3: otherwise none
pub open spec fn source_after(start: ElisionSource, visited: Seq<MaybeStatic<Lifetime>>) -> ElisionSource
    decreases visited.len()
{
    if visited.len() == 0 { start } else {
        step_source(source_after(start, visited.drop_last()), visited.last())
    }
}
pub open spec fn step_source(s: ElisionSource, l: MaybeStatic<Lifetime>) -> ElisionSource {
    match s {
        ElisionSource::NoBorrows => ElisionSource::OneParam(l),
        ElisionSource::SelfParam(x) => ElisionSource::SelfParam(x),
        ElisionSource::OneParam(_) => ElisionSource::MultipleBorrows,
        ElisionSource::MultipleBorrows => ElisionSource::MultipleBorrows,
    }
}
pub proof fn lemma_nomicon(start: ElisionSource, visited: Seq<MaybeStatic<Lifetime>>)
    ensures
        // rule 1
        start is SelfParam ==> source_after(start, visited) == start,
        // rules 2 and 3, without a self borrow
        start is NoBorrows ==> source_after(start, visited) == (
            if visited.len() == 0 { ElisionSource::NoBorrows }
            else if visited.len() == 1 { ElisionSource::OneParam(visited[0]) }
            else { ElisionSource::MultipleBorrows }),
    decreases visited.len()
{
    if visited.len() > 0 {
        lemma_nomicon(start, visited.drop_last());
        if visited.len() == 2 { assert(visited.drop_last()[0] == visited[0]); }
        if visited.len() == 1 { assert(visited.last() == visited[0]); }
    }
}
// the elided output lifetime
pub open spec fn elided_output(s: ElisionSource) -> Option<MaybeStatic<Lifetime>> {
    match s { ElisionSource::SelfParam(l) => Some(l), ElisionSource::OneParam(l) => Some(l), _ => None }
}
pub open spec fn edges_copied(src: Seq<usize>, dst: Seq<Lifetime>) -> bool {
    dst.len() == src.len() && forall|k: int| 0 <= k < src.len() ==> (#[trigger] dst[k]).0 == src[k]
}
"""

E7_COLLECT = """{{
                        // E7: `{src}.iter().map(|i| Lifetime::new(*i)).collect()` desugared to for/push (A-iter)
                        let mut v__: Vec<Lifetime> = Vec::new();
                        for i in it__: {src}.iter()
                            invariant v__@.len() == it__.index@,
                                forall|k: int| 0 <= k < it__.index@ ==> (#[trigger] v__@[k]).0 == {src}@[k],
                        {{
                            v__.push(Lifetime::new(*i));
                        }}
                        v__
                    }}"""


def e7_collect(text):
    pat = re.compile(r"(\w+\.\w+)\.iter\(\)\.map\(\|i\| Lifetime::new\(\*i\)\)\.collect\(\)")
    pairs = []

    def r(m):
        new = E7_COLLECT.format(src=m.group(1))
        pairs.append((m.group(0), new))
        return new
    text2 = pat.sub(r, text)
    if len(pairs) != 2:
        raise Undecided("edit-mismatch", f"E7: expected 2 `.iter().map(|i| Lifetime::new(*i)).collect()` sites, found {len(pairs)}")
    return text2, pairs


def build(tier):
    vf = VerusFile(NAME)
    src = Src(F)
    lts = Src(LT)
    vf.add(vhelp.HEADER)
    vf.add(PRELUDE)
    sv = [("E3", r"SmallVec<\[([A-Za-z]+); [A-Za-z_:0-9]+\]>", r"Vec<\1>")]
    vhelp.typedef(vf, lts, "Lifetime", "struct", derive="#[derive(Copy, Clone)]", pub_tuple_fields=True)
    vf.add("impl Lifetime {\n")
    p = Piece(lts, lts.item("impl Lifetime::new", "fn"))
    p.sub("E1", r"pub\(super\)", "pub", count=1)
    p.contract("        ensures r.0 == index,", ret_name="r")
    vf.add_piece(p)
    vf.add("}\n")
    vhelp.typedef(vf, lts, "MaybeStatic", "enum", derive="#[derive(Copy, Clone)]")
    vhelp.typedef(vf, lts, "BoundedLifetime", "struct", subs=sv)
    vhelp.typedef(vf, lts, "LifetimeEnv", "struct", subs=sv + [("E1", r"\n    nodes:", "\n    pub nodes:"), ("E1", r"\n    num_lifetimes:", "\n    pub num_lifetimes:")])
    vhelp.typedef(vf, src, "ElisionSource", "enum", derive="#[derive(Copy, Clone)]")
    vf.add(SPECS)
    pubf = lambda names: [("E1", r"\n    (" + "|".join(names) + "):", r"\n    pub \1:")]
    vhelp.typedef(vf, src, "BaseLifetimeLowerer", "struct", subs=sv + pubf(["lifetime_env", "self_lifetimes", "nodes", "num_lifetimes"]))
    vhelp.typedef(vf, src, "SelfParamLifetimeLowerer", "struct", subs=pubf(["base"]))
    vhelp.typedef(vf, src, "ParamLifetimeLowerer", "struct", subs=pubf(["elision_source", "base"]))
    vhelp.typedef(vf, src, "ReturnLifetimeLowerer", "struct", subs=pubf(["elision_source", "base"]))

    vf.add("impl ElisionSource {\n")
    p = Piece(src, src.item("impl ElisionSource::visit_lifetime", "fn"))
    p.contract(f"        ensures {CANARY} *final(self) == step_source(*old(self), lifetime),")
    vf.add_piece(p, expected="visit_lifetime")
    vf.add("}\n")

    vf.add("impl<'ast> BaseLifetimeLowerer<'ast> {\n")
    p = Piece(src, src.item("impl BaseLifetimeLowerer<'ast>::new_elided", "fn"))
    p.contract(f"""        requires old(self).num_lifetimes < usize::MAX,
        ensures {CANARY} r.0 == old(self).num_lifetimes, final(self).num_lifetimes == old(self).num_lifetimes + 1,
            final(self).nodes == old(self).nodes, final(self).lifetime_env == old(self).lifetime_env, final(self).self_lifetimes == old(self).self_lifetimes,""", ret_name="r")
    vf.add_piece(p, expected="new_elided")
    p = Piece(src, src.item("impl BaseLifetimeLowerer<'ast>::lower_lifetime", "fn"))
    p.contract(f"""        requires old(self).num_lifetimes < usize::MAX,
        ensures {CANARY}
            final(self).nodes == old(self).nodes, final(self).lifetime_env == old(self).lifetime_env, final(self).self_lifetimes == old(self).self_lifetimes,
            match *lifetime {{
                ast::Lifetime::Static => (r is Static) && final(self).num_lifetimes == old(self).num_lifetimes,
                ast::Lifetime::Named(n) => r == MaybeStatic::NonStatic(Lifetime(ast::spec_id(old(self).lifetime_env, &n))) && final(self).num_lifetimes == old(self).num_lifetimes,
                // an elided input lifetime becomes a fresh anonymous lifetime after all named ones
                ast::Lifetime::Anonymous => r == MaybeStatic::NonStatic(Lifetime(old(self).num_lifetimes)) && final(self).num_lifetimes == old(self).num_lifetimes + 1,
            }},""", ret_name="r")
    vf.add_piece(p, expected="lower_lifetime")
    vf.add("}\n")

    vf.add("impl<'ast> SelfParamLifetimeLowerer<'ast> {\n")
    it = src.item("impl SelfParamLifetimeLowerer<'ast>::new", "fn")
    p = Piece(src, it)
    p.expect_loops(1)
    p.contract(f"""        ensures {CANARY}
            r is Ok ==> {{
                let b = r.unwrap().base;
                &&& b.lifetime_env == lifetime_env
                &&& b.self_lifetimes is None
                // named lifetimes first, no anonymous ones yet
                &&& b.nodes@.len() == lifetime_env.nodes@.len() && b.num_lifetimes == lifetime_env.nodes@.len()
                // the HIR outlives graph has exactly the AST's edges, direction preserved
                &&& forall|j: int| 0 <= j < b.nodes@.len() ==> edges_copied(lifetime_env.nodes@[j].longer@, (#[trigger] b.nodes@[j]).longer@)
                &&& forall|j: int| 0 <= j < b.nodes@.len() ==> edges_copied(lifetime_env.nodes@[j].shorter@, (#[trigger] b.nodes@[j]).shorter@)
            }},""", ret_name="r")
    p.loop_spec(0, """            invariant
                hir_nodes is Ok ==> {
                    let hn = hir_nodes.unwrap();
                    &&& hn@.len() == it.index@
                    &&& forall|j: int| 0 <= j < hn@.len() ==> edges_copied(lifetime_env.nodes@[j].longer@, (#[trigger] hn@[j]).longer@)
                    &&& forall|j: int| 0 <= j < hn@.len() ==> edges_copied(lifetime_env.nodes@[j].shorter@, (#[trigger] hn@[j]).shorter@)
                },""", iter_name="it")
    p.loop_body_prefix(0, "            proof { assert(ast_node == lifetime_env.nodes@[it.index@]); }")
    p.sub("E3", r"let mut hir_nodes = Ok\(SmallVec::new\(\)\);", "let mut hir_nodes: Result<Vec<BoundedLifetime>, ()> = Ok(Vec::new());", count=1, why="SmallVec -> Vec, inferred type written out")
    p.fn("E7", e7_collect, why="iterator map/collect desugared to for/push")
    p.sub("E12", r"ctx: &mut LoweringContext,", "ctx: &mut LoweringContext,", count=1)
    # hir_nodes.map(|nodes| Self {..}) : Result::map with a struct-literal closure -> match (E10)
    def e10(text):
        m = re.search(r"hir_nodes\.map\(\|nodes\| (Self \{.*?\n        \})\)", text, re.S)
        if not m:
            raise Undecided("edit-mismatch", "E10: `hir_nodes.map(|nodes| Self {..})` not found")
        new = "match hir_nodes { Ok(nodes) => Ok(" + m.group(1) + "), Err(e__) => Err(e__) }"
        return text[:m.start()] + new + text[m.end():], [(m.group(0)[:120], new[:160])]
    p.fn("E10", e10, why="Result::map unfolded to a match")
    vf.add_piece(p, expected="new")
    for fn, contract in [
        ("lower_self_ref", f"""        requires SELF.base.num_lifetimes < usize::MAX,
        ensures {CANARY}
            // rule 1: the &self borrow becomes the elision source, whatever is visited later
            r.1.elision_source == ElisionSource::SelfParam(r.0),
            r.1.base.nodes == SELF.base.nodes, r.1.base.lifetime_env == SELF.base.lifetime_env,"""),
        ("no_self_ref", f"""        ensures {CANARY} r.elision_source is NoBorrows, r.base == self.base,"""),
        ("into_param_ltl", f"""        ensures {CANARY} r.elision_source == elision_source, r.base == self.base,"""),
    ]:
        p = Piece(src, src.item(f"impl SelfParamLifetimeLowerer<'ast>::{fn}", "fn"))
        if fn == "lower_self_ref":
            (a0, a1) = p.item["params"][0]
            if src.slice(a0, a1) != "mut self":
                raise Undecided("anchor-lost", "lower_self_ref: receiver is no longer `mut self`")
            p.replace("E13", a0, a1, "self", "`mut self` receiver unsupported by Verus: immutable receiver + `let mut this__ = self;`")
            p.body_prefix("        let mut this__ = self;", rule="E13")
            p.sub("E13", r"\bself\.", "this__.", count="+", why="body uses the mutable copy")
            p.sub("E13", r"SELF\.", "self.", count="+", why="contract refers to the entry value")
        p.contract(contract, ret_name="r")
        vf.add_piece(p, expected=fn)
    vf.add("}\n")

    vf.add("impl<'ast> ParamLifetimeLowerer<'ast> {\n")
    p = Piece(src, src.item("impl ParamLifetimeLowerer<'ast>::into_return_ltl", "fn"))
    p.contract(f"        ensures {CANARY} r.elision_source == self.elision_source, r.base == self.base,", ret_name="r")
    vf.add_piece(p, expected="into_return_ltl")
    vf.add("    // E9: `impl LifetimeLowerer for ParamLifetimeLowerer { fn lower_lifetime }` emitted as an inherent method\n")
    p = Piece(src, src.item("impl LifetimeLowerer for ParamLifetimeLowerer<'ast>::lower_lifetime", "fn"))
    p.contract(f"""        requires old(self).base.num_lifetimes < usize::MAX,
        ensures {CANARY}
            // every lifetime of a non-self parameter is a candidate for output elision (Nomicon rules via step_source)
            final(self).elision_source == step_source(old(self).elision_source, r),
            final(self).base.nodes == old(self).base.nodes,
            (*borrow is Anonymous) ==> r == MaybeStatic::NonStatic(Lifetime(old(self).base.num_lifetimes)),""", ret_name="r")
    vf.add_piece(p, expected="lower_lifetime")
    vf.add("}\n")

    vf.add("impl<'ast> ReturnLifetimeLowerer<'ast> {\n")
    p = Piece(src, src.item("impl ReturnLifetimeLowerer<'ast>::finish", "fn"))
    p.contract(f"        ensures {CANARY} r.nodes == self.base.nodes, r.num_lifetimes == self.base.num_lifetimes,", ret_name="r")
    vf.add_piece(p, expected="finish")
    vf.add("    // E9: `impl LifetimeLowerer for ReturnLifetimeLowerer { fn lower_lifetime }` emitted as an inherent method\n")
    p = Piece(src, src.item("impl LifetimeLowerer for ReturnLifetimeLowerer<'ast>::lower_lifetime", "fn"))
    p.contract(f"""        // documented rejection: an elided output lifetime needs a unique source (rustc rejects the method otherwise)
        requires (*borrow is Anonymous) ==> elided_output(old(self).elision_source) is Some,
        ensures {CANARY}
            *final(self) == *old(self),
            (*borrow is Anonymous) ==> Some(r) == elided_output(old(self).elision_source),
            (*borrow is Static) ==> r is Static,""", ret_name="r")
    p.fn("E5", rule_panics, why="panic arms become obligations under the documented-rejection precondition")
    vf.add_piece(p, expected="lower_lifetime")
    vf.add("}\n")
    vf.expected += ["lemma_nomicon"]
    vf.add(vhelp.FOOTER)
    return vf


ASSUMPTIONS = [
    "A-smallvec, A-iter (E7 map/collect -> for/push), E9 (trait impl methods as inherent methods), E10 (Result::map unfolded)",
    "Lifetime::from_ast abstract (spec_id: index of a named lifetime in the AST env); lower_ident abstract",
    "ast::LifetimeNode / ast::LifetimeEnv re-declared with the fields read here (lifetime, longer, shorter / nodes)",
    "num_lifetimes < usize::MAX (no overflow when numbering anonymous lifetimes)",
    "lower_generics / self_lifetimes_or_new (closures capturing &mut self) not verified",
]
UNVERIFIED = {
    "C04": ["lower_generics / lower_lifetimes / self_lifetimes_or_new (Self-type lifetimes are lowered but not visited)", "ast::LifetimeEnv construction incl. extend_implicit_lifetime_bounds"],
    "C05": [], "C15": [],
}
