"""K write_step: <DiplomatWrite as fmt::Write>::write_str against the C12 step contract (harness-checked)."""
import os
from common import VERIF, read
from kunit import add_end_covers

NAME = "write_step"
ENGINE = "kani"
CRATE = "runtime"
PROPERTIES = {"C12": "one write step: exact content, sticky failure, no byte beyond capacity", "C15": "panic freedom of write_str"}
PLAYBACK_MODULE = ("runtime/src/write.rs", "verif_write_step")
FILE = "runtime/src/write.rs"


def _n(tier):
    return 8 if tier == "quick" else 12


def splice(sess, tier):
    n = _n(tier)
    t = read(os.path.join(VERIF, "units/harness/write_step.rs")).replace("@N@", str(n)).replace("@UNWIND@", str(n + 2))
    sess.append(FILE, add_end_covers(t))


def harnesses(tier):
    n = _n(tier)
    return [{
        "name": "verif_write_step::check_write_str",
        "obligation": "write_str step contract: Ok always; grow_failed sticky and nothing changes; failed growth leaves len/cap/buf/prefix unchanged "
                      "(no partial chunk); success appends exactly the chunk, prefix preserved, len<=cap; every pointer access inside the "
                      "exactly-cap-sized allocation (CBMC pointer checks); foreign grow = nondeterministic documented-invariant model",
        "functions": [(FILE, "impl fmt::Write for DiplomatWrite::write_str")],
        "mode": "bounded", "bound": f"cap <= {n}, chunk length <= {n} bytes (arbitrary bytes, superset of UTF-8); single step",
        "covers": 4, "timeout": 900,
    }]


ASSUMPTIONS = [
    "foreign grow() obeys the documented DiplomatWrite safety invariant (returns false changing nothing, or installs a valid buffer of >= requested capacity holding the old len bytes); modelled nondeterministically with slack 0..2",
    "chunk is an arbitrary byte string built with from_utf8_unchecked (write_str only uses as_bytes/len)",
    "CBMC allocator model: allocation succeeds",
]
UNVERIFIED = {"C12": ["macro write_flushes emission (macro/src/lib.rs token stream)", "C++ WriteFromString/_grow/_flush in runtime.hpp.jinja", "C runtime.h.jinja mirror"]}
QUICK_ELSEWHERE = {"C15": "C12"}
