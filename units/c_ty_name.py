"""V c_ty_name: tool/src/c/ty.rs TyGenContext::gen_ty_name — the C spelling of a HIR type in a declaration (parameter, return value,
struct field, callback argument) denotes the ABI of the Rust type the macro compiled: a primitive by its fixed-width C type, an
opaque ALWAYS behind a pointer (const exactly for a shared borrow; owned = mutable), struct / enum by value under their own name, the
three slice families by their view structs, an Option payload by the `{payload, is_ok}` mirror of the payload's own spelling.
Recursive (Option), so with a decreases clause; tagged text (E6t)."""
import re
from rsrc import Src, Piece, rule_panics, rule_format_msgs
from verus_engine import VerusFile, CANARY
from common import Undecided
import vhelp

NAME = "c_ty_name"
ENGINE = "verus"
PROPERTIES = {"C01": "C declaration spells every type position with the pointer-vs-by-value choice and const-ness of the compiled Rust signature (opaque => pointer, const iff shared borrow; everything else by value), recursively through Option",
              "C13": "naming an opaque / struct / enum that is disabled for the backend pushes the 'Found usage of disabled type' diagnostic",
              "C15": "gen_ty_name's unreachable! arms are dead for the types that reach it (everything except callbacks, which gen_ty_decl handles before)"}
F = "tool/src/c/ty.rs"

PRELUDE = r"""
#[verifier::external_body] pub struct PrimitiveType { x: u8 }
impl Clone for PrimitiveType { #[verifier::external_body] fn clone(&self) -> (r: Self) ensures r == *self { unimplemented!() } }
impl Copy for PrimitiveType {}
#[verifier::external_body] pub struct StringEncoding { x: u8 }
impl Clone for StringEncoding { #[verifier::external_body] fn clone(&self) -> (r: Self) ensures r == *self { unimplemented!() } }
impl Copy for StringEncoding {}
#[verifier::external_body] pub struct Lifetime { x: u8 }
#[derive(Copy, Clone, PartialEq, Eq, Structural)] pub enum Mutability { Immutable, Mutable }
#[derive(Copy, Clone)] pub struct Borrow { pub mutability: Mutability }
#[derive(Copy, Clone, PartialEq, Eq, Structural)] pub struct TypeId { pub n: u32 }
#[derive(Copy, Clone, PartialEq, Eq, Structural)] pub struct OpaqueId { pub n: u32 }
#[derive(Copy, Clone, PartialEq, Eq, Structural)] pub struct EnumId { pub n: u32 }
#[derive(Copy, Clone, PartialEq, Eq, Structural)] pub struct TraitId { pub n: u32 }
#[derive(Copy, Clone, PartialEq, Eq, Structural)] pub enum SymbolId { TypeId(TypeId), TraitId(TraitId) }
impl OpaqueId { pub fn into(self) -> (r: TypeId) ensures r == (TypeId { n: self.n }) { TypeId { n: self.n } } }
impl EnumId { pub fn into(self) -> (r: TypeId) ensures r == (TypeId { n: self.n }) { TypeId { n: self.n } } }
impl TypeId { pub fn into(self) -> (r: SymbolId) ensures r == SymbolId::TypeId(self) { SymbolId::TypeId(self) } }
impl TraitId { pub fn into(self) -> (r: SymbolId) ensures r == SymbolId::TraitId(self) { SymbolId::TraitId(self) } }
// ownership of an opaque in a type position: borrowed (with a mutability) or owned (Box) — E12: the TyPosition-dependent type erased
pub enum Owner { Borrowed(Mutability), Owned }
impl Owner { pub fn mutability(&self) -> (r: Option<Mutability>) ensures r == (match *self { Owner::Borrowed(m) => Some(m), Owner::Owned => None::<Mutability> }) { match self { Owner::Borrowed(m) => Some(*m), Owner::Owned => None } } }
pub struct OpaquePath { pub tcx_id: OpaqueId, pub owner: Owner }
pub struct StructPath { pub tcx_id: TypeId }
impl StructPath { pub fn id(&self) -> (r: TypeId) ensures r == self.tcx_id { self.tcx_id } }
pub struct EnumPath { pub tcx_id: EnumId }
pub struct TraitPath { pub tcx_id: TraitId }
impl TraitPath { pub fn id(&self) -> (r: TraitId) ensures r == self.tcx_id { self.tcx_id } }
pub enum Slice { Primitive(Option<Borrow>, PrimitiveType), Str(Option<Lifetime>, StringEncoding), Strs(StringEncoding) }
pub enum Type { Primitive(PrimitiveType), Opaque(OpaquePath), Struct(StructPath), Enum(EnumPath), Slice(Slice), DiplomatOption(Box<Type>), ImplTrait(TraitPath), Callback(u8) }
pub mod hir { pub use super::{Type, Slice, Mutability}; }
#![feature(allocator_api)]
"""

PRELUDE2 = r"""
// ---- E6t: a C type spelling, by what it denotes
pub enum CTy {
    Prim(PrimitiveType),                         // fixed-width C type of the primitive (table: unit c_tables)
    Named(SymbolId),                             // struct / enum / trait-vtable struct, by value
    Ptr(Box<CTy>, Mutability),                   // `T*` (Mutable) or `const T*` (Immutable)
    PrimSlice(Option<Borrow>, PrimitiveType),    // Diplomat<Prim>View / ViewMut
    StrView(StringEncoding), StrsView(StringEncoding),
    OptionOf(Box<CTy>),                          // Option<payload> mirror struct of the payload's spelling (names: unit c_option_names)
}
#[verifier::external_body] pub struct Attrs2 { x: u8 }
pub struct AttrsV { pub disable: bool }
pub struct DefView { pub a: AttrsV }
impl DefView { pub fn attrs(&self) -> (r: &AttrsV) ensures *r == self.a { &self.a } }
pub struct TraitDefView { pub attrs: AttrsV }
#[verifier::external_body] pub struct Tcx { x: u8 }
pub uninterp spec fn disabled_in(tcx: &Tcx, id: TypeId) -> bool;
impl Tcx {
    #[verifier::external_body] pub fn resolve_type(&self, id: TypeId) -> (r: &DefView) ensures r.a.disable == disabled_in(self, id) { unimplemented!() }
    #[verifier::external_body] pub fn resolve_trait(&self, id: TraitId) -> &TraitDefView { unimplemented!() }
}
// tool::ErrorStore (RefCell inside): modelled by an explicit count on &mut
pub struct ErrorStore { pub n: usize }
#[verifier::external_body] pub struct Msg { x: u8 }
#[verifier::external_body] pub fn __msg() -> Msg { unimplemented!() }
impl ErrorStore { #[verifier::external_body] pub fn push_error(&mut self, m: Msg) ensures final(self).n == old(self).n + 1 { unimplemented!() } }
#[verifier::external_body] pub struct Path { x: u8 }
#[verifier::external_body] pub struct Includes { x: u8 }
impl Includes { #[verifier::external_body] pub fn insert(&mut self, p: Path) -> bool { unimplemented!() } }
pub struct Header { pub includes: Includes }
pub struct CFormatter { pub x: u8 }
impl CFormatter {
    #[verifier::external_body] pub fn fmt_primitive_as_c(&self, p: PrimitiveType) -> (r: CTy) ensures r == CTy::Prim(p) { unimplemented!() }
    #[verifier::external_body] pub fn fmt_type_name_maybe_namespaced(&self, id: SymbolId) -> (r: CTy) ensures r == CTy::Named(id) { unimplemented!() }
    #[verifier::external_body] pub fn fmt_ptr(&self, t: &CTy, m: Mutability) -> (r: CTy) ensures r == CTy::Ptr(Box::new(*t), m) { unimplemented!() }
    #[verifier::external_body] pub fn fmt_decl_header_path(&self, id: SymbolId) -> Path { unimplemented!() }
    #[verifier::external_body] pub fn fmt_primitive_slice_name(&self, b: Option<Borrow>, p: PrimitiveType) -> (r: CTy) ensures r == CTy::PrimSlice(b, p) { unimplemented!() }
    #[verifier::external_body] pub fn fmt_str_view_name(&self, e: StringEncoding) -> (r: CTy) ensures r == CTy::StrView(e) { unimplemented!() }
    #[verifier::external_body] pub fn fmt_strs_view_name(&self, e: StringEncoding) -> (r: CTy) ensures r == CTy::StrsView(e) { unimplemented!() }
    #[verifier::external_body] pub fn fmt_optional_type_name(&self, t: &Type, inner: &CTy) -> (r: CTy) ensures r == CTy::OptionOf(Box::new(*inner)) { unimplemented!() }
}
impl Clone for CTy { #[verifier::external_body] fn clone(&self) -> (r: Self) ensures r == *self { unimplemented!() } }
impl CTy {
    // Cow plumbing: same text
    pub fn into_owned(self) -> (r: CTy) ensures r == self { self }
    pub fn into(self) -> (r: CTy) ensures r == self { self }
}
pub struct TyGenContext<'a> { pub formatter: &'a CFormatter, pub tcx: &'a Tcx, pub errors: ErrorStore }

// ---- oracle, from the property statement: pointer-vs-by-value and const-ness of the compiled Rust signature
pub open spec fn cty(t: Type) -> CTy decreases t {
    match t {
        Type::Primitive(p) => CTy::Prim(p),
        // an opaque is never passed by value: `&T` -> `const T*`, `&mut T` and `Box<T>` -> `T*`
        Type::Opaque(op) => CTy::Ptr(Box::new(CTy::Named(SymbolId::TypeId(TypeId { n: op.tcx_id.n }))), match op.owner { Owner::Borrowed(m) => m, Owner::Owned => Mutability::Mutable }),
        Type::Struct(s) => CTy::Named(SymbolId::TypeId(s.tcx_id)),
        Type::Enum(e) => CTy::Named(SymbolId::TypeId(TypeId { n: e.tcx_id.n })),
        Type::Slice(Slice::Primitive(b, p)) => CTy::PrimSlice(b, p),
        Type::Slice(Slice::Str(_, e)) => CTy::StrView(e),
        Type::Slice(Slice::Strs(e)) => CTy::StrsView(e),
        Type::DiplomatOption(inner) => CTy::OptionOf(Box::new(cty(*inner))),
        Type::ImplTrait(t) => CTy::Named(SymbolId::TraitId(t.tcx_id)),
        Type::Callback(_) => arbitrary(),
    }
}
// the user type a spelling names directly (opaque / struct / enum)
pub open spec fn named_id(t: Type) -> Option<TypeId> {
    match t { Type::Opaque(o) => Some(TypeId { n: o.tcx_id.n }), Type::Struct(s) => Some(s.tcx_id), Type::Enum(e) => Some(TypeId { n: e.tcx_id.n }), _ => None }
}
pub open spec fn no_callback(t: Type) -> bool decreases t {
    match t { Type::Callback(_) => false, Type::DiplomatOption(inner) => no_callback(*inner), _ => true }
}
"""


def build(tier):
    vf = VerusFile(NAME)
    src = Src(F)
    vf.add(vhelp.HEADER)
    vf.add(PRELUDE.replace("#![feature(allocator_api)]\n", ""))
    vf.add(PRELUDE2)
    vf.add("impl<'a> TyGenContext<'a> {\n")
    p = Piece(src, src.item("impl TyGenContext<'_,'tcx>::gen_ty_name", "fn"))
    p.sub("E12", r"<P: TyPosition>", "", count=1, why="TyPosition marker erased")
    p.sub("E12", r"ty: &Type<P>", "ty: &Type", count=1, why="TyPosition marker erased")
    p.sub("E6t", r"-> \(r: Cow<'tcx, str>\)", "-> (r: CTy)", count=1, why="tagged C type spelling")
    p.fn("E6", rule_format_msgs, why="diagnostic text dropped")
    p.sub("E6", r"push_error\(__msg\(\)\)", "push_error(__msg())", count=None)
    p.sub("E12", r"let op_id: TypeId = op\.tcx_id\.into\(\);", "let op_id: TypeId = op.tcx_id.into();", count=1)
    p.sub("E12", r"let id: TypeId = e\.tcx_id\.into\(\);", "let id: TypeId = e.tcx_id.into();", count=1)
    p.sub("E14", r"&_ => unreachable!", "_ => unreachable!", count=None, why="reference wildcard pattern")
    p.sub("E14", r"match \*ty \{", "match ty {", count=1, why="match on the reference (default binding modes), `ref` bindings below become plain")
    p.sub("E14", r"\(ref (\w+)\)", r"(\1)", count=None, why="`ref x` under default binding modes")
    p.sub("E14", r"Type::Primitive\(prim\) => self\.formatter\.fmt_primitive_as_c\(prim\)", "Type::Primitive(prim) => self.formatter.fmt_primitive_as_c(*prim)", count=1, why="binding is a reference now")
    p.fn("E5", rule_panics, why="unreachable! arms become obligations")
    p.sub("E3", r"\(&self, ty: &Type", "(&mut self, ty: &Type", count=1, why="tool::ErrorStore's interior mutability (RefCell) modelled as &mut with an explicit count")
    p.sub("E3", r"self\.errors\s*\.push_error\(", "self.errors.push_error(", count=None, why="same")
    p.contract(f"""        requires no_callback(*ty),
        ensures {CANARY}
            r == cty(*ty),
            // C13: naming a type that is disabled for the backend is reported, never silent
            final(self).errors.n >= old(self).errors.n, final(self).tcx == old(self).tcx,
            match named_id(*ty) {{ Some(id) => disabled_in(old(self).tcx, id) ==> final(self).errors.n > old(self).errors.n, None => true }},
        decreases *ty,""", ret_name="r")
    vf.add_piece(p, expected="gen_ty_name")
    vf.add("}\n")
    vf.add(vhelp.FOOTER)
    return vf


CANARY_FUNCTIONS = ["gen_ty_name"]
ASSUMPTIONS = [
    "E6t: formatter results are tags of what the text denotes (Prim / Named / Ptr(.., const?) / slice views / OptionOf); the spellings behind the tags are units c_tables (Kani) and c_option_names",
    "hir::Type re-declared with the variants and fields inspected (E12: the TyPosition-dependent ownership of an opaque is one enum Owner {Borrowed(mutability), Owned}); ids are plain numbers",
    "precondition: no Callback in the type (gen_ty_decl handles callbacks before calling gen_ty_name: read)",
    "E14: `match *ty { .. (ref x) .. }` rewritten to matching on the reference (same arms, default binding modes)",
]
UNVERIFIED = {"C01": ["gen_ty_decl (callback structs) and the struct/method templates that print the names (read)"], "C15": [], "C13": []}
