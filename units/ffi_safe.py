"""V ffi_safe: ast::TypeName::{is_ffi_safe, ffi_safe_version} against an independent spec; C10 spelling lemma."""
from rsrc import Src, Piece
from verus_engine import VerusFile, CANARY
import vhelp

NAME = "ffi_safe"
ENGINE = "verus"
PROPERTIES = {"C10": "std Option / DiplomatOption spellings reach the macro as the same FFI type; pointer niche vs DiplomatOption choice",
              "C05": "struct-field FFI-safety test used by gen_bridge and lower_struct",
              "C01": "the macro's param_ty relies on exactly these two functions"}
TYPES = "core/src/ast/types.rs"

SPEC = r"""
// ---- oracle, written from the property statement (C10/C05), not from the code:
// an optional *pointer* is the std Option (null niche); every other Option is DiplomatOption;
// std slices / str / Result / unit / Write / Ordering are never FFI-safe as written.
pub open spec fn is_ptr(t: TypeName) -> bool { t is Reference || t is Box }

pub open spec fn spec_ffi_safe(t: TypeName) -> bool {
    match t {
        TypeName::Option(inner, sd) => if is_ptr(*inner) { sd == StdlibOrDiplomat::Stdlib } else { sd == StdlibOrDiplomat::Diplomat },
        TypeName::StrReference(_, _, sd) => sd == StdlibOrDiplomat::Diplomat,
        TypeName::StrSlice(_, sd) => sd == StdlibOrDiplomat::Diplomat,
        TypeName::PrimitiveSlice(_, _, sd) => sd == StdlibOrDiplomat::Diplomat,
        TypeName::Unit | TypeName::Write | TypeName::Result(..) | TypeName::Ordering => false,
        _ => true,
    }
}

// the FFI type a written type is sent as
pub open spec fn spec_fsv(t: TypeName) -> TypeName
    decreases t
{
    match t {
        TypeName::StrReference(lt, enc, _) => TypeName::StrReference(lt, enc, StdlibOrDiplomat::Diplomat),
        TypeName::StrSlice(enc, _) => TypeName::StrSlice(enc, StdlibOrDiplomat::Diplomat),
        TypeName::PrimitiveSlice(lm, p, _) => TypeName::PrimitiveSlice(lm, p, StdlibOrDiplomat::Diplomat),
        TypeName::Ordering => TypeName::Primitive(PrimitiveType::i8),
        TypeName::Option(inner, _) =>
            if is_ptr(*inner) { TypeName::Option(inner, StdlibOrDiplomat::Stdlib) }
            else { TypeName::Option(Box::new(spec_fsv(*inner)), StdlibOrDiplomat::Diplomat) },
        _ => t,
    }
}
"""

LEMMAS = r"""
// ---- lemmas over the contracts (C10): the two spellings of an optional reach the macro as the same type
pub proof fn lemma_spelling_independent(x: TypeName)
    ensures spec_fsv(TypeName::Option(Box::new(x), StdlibOrDiplomat::Stdlib))
         == spec_fsv(TypeName::Option(Box::new(x), StdlibOrDiplomat::Diplomat)),
{
}

pub proof fn lemma_slice_spelling_independent(lm: Option<(Lifetime, Mutability)>, p: PrimitiveType, lt: Option<Lifetime>, enc: StringEncoding)
    ensures
        spec_fsv(TypeName::PrimitiveSlice(lm, p, StdlibOrDiplomat::Stdlib)) == spec_fsv(TypeName::PrimitiveSlice(lm, p, StdlibOrDiplomat::Diplomat)),
        spec_fsv(TypeName::StrReference(lt, enc, StdlibOrDiplomat::Stdlib)) == spec_fsv(TypeName::StrReference(lt, enc, StdlibOrDiplomat::Diplomat)),
        spec_fsv(TypeName::StrSlice(enc, StdlibOrDiplomat::Stdlib)) == spec_fsv(TypeName::StrSlice(enc, StdlibOrDiplomat::Diplomat)),
{
}

pub proof fn lemma_fsv_ptrness(t: TypeName)
    ensures is_ptr(spec_fsv(t)) == is_ptr(t),
    decreases t
{
}

pub proof fn lemma_fsv_safe(t: TypeName)
    ensures spec_ffi_safe(spec_fsv(t)) || (t is Unit) || (t is Write) || (t is Result),
    decreases t
{
    match t {
        TypeName::Option(inner, _) => {
            lemma_fsv_ptrness(*inner);
            assert(*Box::new(spec_fsv(*inner)) == spec_fsv(*inner));
        }
        _ => {}
    }
}

pub proof fn lemma_fsv_idempotent(t: TypeName)
    ensures spec_fsv(spec_fsv(t)) == spec_fsv(t),
    decreases t
{
    match t {
        TypeName::Option(inner, _) => {
            lemma_fsv_idempotent(*inner);
            lemma_fsv_ptrness(*inner);
            assert(*Box::new(spec_fsv(*inner)) == spec_fsv(*inner));
        }
        _ => {}
    }
}

// an already FFI-safe optional is sent unchanged (so DiplomatOption<prim> and Option<&T> are fixed points)
pub proof fn lemma_safe_option_head_fixed(t: TypeName)
    requires t is Option, spec_ffi_safe(t),
    ensures spec_fsv(t) is Option, spec_fsv(t)->Option_1 == t->Option_1,
{
}
"""


def build(tier):
    vf = VerusFile(NAME)
    types = Src(TYPES)
    lts = Src("core/src/ast/lifetimes.rs")
    paths = Src("core/src/ast/paths.rs")
    vf.add(vhelp.HEADER)
    vf.add("""#[verifier::external_body]
pub struct Ident { s: String }
""" + vhelp.clone_stub("Ident"))
    vhelp.typedef(vf, lts, "NamedLifetime", "struct", pub_tuple_fields=True)
    vhelp.typedef(vf, lts, "Lifetime", "enum")
    vhelp.typedef(vf, paths, "Path", "struct")
    vhelp.typedef(vf, types, "PathType", "struct")
    vhelp.typedef(vf, types, "Mutability", "enum", derive=vhelp.FIELDLESS_DERIVE)
    vhelp.typedef(vf, types, "StdlibOrDiplomat", "enum", derive=vhelp.FIELDLESS_DERIVE)
    vhelp.typedef(vf, types, "StringEncoding", "enum", derive="#[derive(Copy, Clone)]")
    vhelp.typedef(vf, types, "PrimitiveType", "enum", derive="#[derive(Copy, Clone)]")
    vhelp.typedef(vf, types, "TypeName", "enum")
    for t in ("NamedLifetime", "Lifetime", "Path", "PathType", "TypeName"):
        vf.add(vhelp.clone_stub(t))
    vf.add("""#[verifier::external_body]
pub fn __clone_ltmt(o: &Option<(Lifetime, Mutability)>) -> (r: Option<(Lifetime, Mutability)>) ensures r == *o { o.clone() }
""")
    vf.add(SPEC)
    vf.add("impl TypeName {\n")
    p = Piece(types, types.item("impl TypeName::is_ffi_safe", "fn"))
    p.contract("        ensures r == spec_ffi_safe(*self),\n        decreases self,", ret_name="r")
    vf.add_piece(p, expected="is_ffi_safe")
    p = Piece(types, types.item("impl TypeName::ffi_safe_version", "fn"))
    p.contract("        ensures r == spec_fsv(*self),\n        decreases self,", ret_name="r")
    p.lit("E2", "ltmt.clone()", "__clone_ltmt(ltmt)", count=1,
          why="Verus has no spec for Clone on tuples: clone of Option<(Lifetime, Mutability)> goes through a trusted structural stub (A-derive)")
    vf.add_piece(p, expected="ffi_safe_version")
    vf.add("}\n")
    vf.add(LEMMAS)
    vf.expected += ["lemma_spelling_independent", "lemma_slice_spelling_independent", "lemma_fsv_safe", "lemma_fsv_idempotent", "lemma_fsv_ptrness", "lemma_safe_option_head_fixed"]
    vf.add(vhelp.FOOTER)
    return vf


ASSUMPTIONS = [
    "A-derive: derived Clone on AST types is structural (trusted stubs `ensures r == *self`)",
    "Ident is opaque (its string content is irrelevant to FFI-safety)",
    "the macro (gen_bridge / param_ty, token-stream code) really calls is_ffi_safe / ffi_safe_version: read, not proved",
]
UNVERIFIED = {
    "C10": ["macro return-type rewriting ok_or(()).into() (macro/src/lib.rs, token streams)", "C/C++ declaration text for option structs beyond the name table"],
    "C05": ["syn parsing of types (TypeName::from_syn)"],
    "C01": ["param_conversion / gen_custom_type_method token streams"],
}
