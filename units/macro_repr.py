"""V macro_repr: macro/src/lib.rs gen_bridge — the representation attributes the proc macro puts on bridge types (E15 ×2, token templates as tags,
E6t): a non-opaque ENUM is always re-emitted with `#[repr(C)]` (its C / Dart / Kotlin / JS mirrors are a C `int`-sized enum); a non-opaque STRUCT gets
`#[repr(C)]` unless the user wrote a repr attribute of their own (then theirs is kept as written)."""
import re
from rsrc import Src, Piece, match_close
from verus_engine import VerusFile, CANARY
from common import Undecided
import vhelp

NAME = "macro_repr"
ENGINE = "verus"
PROPERTIES = {"C01": "every by-value bridge enum is compiled as #[repr(C)] whatever the user wrote on it; every by-value bridge struct is compiled as #[repr(C)] unless the user supplied a repr attribute"}
F = "macro/src/lib.rs"

PRELUDE = r"""
pub struct AttributeInfo { pub opaque: bool, pub repr: bool }
// the item as re-emitted: which representation attribute the macro put in front of it
pub enum Repr { C, None }
pub struct Item { pub macro_repr: Repr, pub derive_clone_copy: bool }
"""

# token templates of the two arms (exact text after whitespace normalisation) -> tagged values
QUOTES = {
    "#[repr(C)]": "Repr::C",
    "": "Repr::None",
}
PARSE_QUOTES = {
    "#repr #s": "Item { macro_repr: repr, derive_clone_copy: s.derive_clone_copy }",
    "#[repr(C)] #[derive(Clone, Copy)] #e": "Item { macro_repr: Repr::C, derive_clone_copy: true }",
    # same shapes with the attribute taken from a variable (meaning: whatever that variable holds)
    "#repr #[derive(Clone, Copy)] #e": "Item { macro_repr: repr, derive_clone_copy: true }",
    "#[repr(C)] #s": "Item { macro_repr: Repr::C, derive_clone_copy: s.derive_clone_copy }",
}


def norm(t):
    return re.sub(r"\s+", " ", t).strip()


def tag_templates(text, what):
    def q(mo):
        k = norm(mo.group(1))
        if k not in QUOTES:
            raise Undecided("edit-mismatch", f"E6t: unknown token template `quote!({k})` in {what}")
        return QUOTES[k]
    text = re.sub(r"quote!\(((?:[^()]|\([^()]*\))*)\)", q, text)
    out = []
    pos = 0
    for mo in re.finditer(r"syn::parse_quote!\s*\{", text):
        c = match_close(text, mo.end() - 1)
        k = norm(text[mo.end():c])
        if k not in PARSE_QUOTES:
            raise Undecided("edit-mismatch", f"E6t: unknown token template `parse_quote!{{{k}}}` in {what}")
        out.append((mo.start(), c + 1, PARSE_QUOTES[k]))
    for (a, b, new) in reversed(out):
        text = text[:a] + new + text[b:]
    return text


def build(tier):
    vf = VerusFile(NAME)
    src = Src(F)
    vf.add(vhelp.HEADER)
    vf.add(PRELUDE)
    it = src.item("gen_bridge", "fn")
    body = src.slice(it["start"], it["end"])
    for (variant, var, ensures) in (
            ("Struct", "s", "!info.opaque ==> (final(s).macro_repr is C) == !info.repr,\n        info.opaque ==> *final(s) == *old(s),"),
            ("Enum", "e", "!info.opaque ==> final(e).macro_repr is C,\n        info.opaque ==> *final(e) == *old(e),")):
        m = re.search(r"Item::" + variant + r"\((\w+)\) => \{", body)
        if not m or m.group(1) != var:
            raise Undecided("anchor-lost", f"gen_bridge: `Item::{variant}({var}) => {{` not found")
        arm_open = m.end() - 1
        arm_close = match_close(body, arm_open)
        arm = body[arm_open + 1:arm_close]
        # the last `if !info.opaque { .. }` statement of the arm
        ks = [x.start() for x in re.finditer(r"if !info\.opaque \{", arm)]
        if not ks:
            raise Undecided("anchor-lost", f"gen_bridge Item::{variant} arm: `if !info.opaque {{ .. }}` not found")
        k = ks[-1]
        c = match_close(arm, arm.index("{", k))
        a, b = it["start"] + arm_open + 1 + k, it["start"] + arm_open + 1 + c + 1
        frag = {"path": it["path"] + f"#Item::{variant} arm: the re-emitting `if !info.opaque {{..}}` statement", "kind": "stmt", "start": a, "after_attrs": a, "end": b, "loops": []}
        org = {"file": F, "item": frag["path"], "line": src.line_of(a), "end_line": src.line_of(b)}
        p = Piece(src, frag)
        p.fn("E6t", lambda t, v=variant: (tag_templates(t, f"the Item::{v} arm"), [("token templates", "tagged values")]), why="quote!/parse_quote! templates -> tagged values keyed on their exact text")
        vf.add(f"// E15: the statement of gen_bridge's Item::{variant} arm that re-emits the item\n"
               f"fn macro_repr_{variant.lower()}(info: &AttributeInfo, {var}: &mut Item)\n"
               f"    ensures {CANARY}\n        {ensures}\n{{\n    ", origin=org)
        vf.add(p.render(), origin=org, edits=p.log)
        vf.add("\n}\n", origin=org)
        vf.functions.append({"path": frag["path"], "file": F, "line": src.line_of(a), "end_line": src.line_of(b), "engine": "verus", "mode": "verus (statement fragment, E15/E6t)", "bound": "none"})
        vf.expected.append(f"macro_repr_{variant.lower()}")
    vf.add(vhelp.FOOTER)
    return vf


CANARY_FUNCTIONS = ["macro_repr_struct", "macro_repr_enum"]
ASSUMPTIONS = [
    "E6t: the four quote!/parse_quote! templates of the two statements are mapped, keyed on their exact (whitespace-normalised) text, to a value recording which repr attribute precedes the item; any other template text makes the unit undecided",
    "AttributeInfo::extract (what counts as a user-written repr / opaque) is syn code outside this unit",
]
UNVERIFIED = {"C01": ["AttributeInfo::extract (syn)", "rustc honouring the emitted attribute"]}
