"""V struct_mirror_fields: the per-field closures that build the native struct mirrors of the Kotlin (JNA `Structure`) and Dart (`ffi.Struct`)
backends — `ty.fields.iter().map(|field| { .. }).collect()` in kotlin gen_struct_def and dart gen_struct_def.  The closure body is hoisted to
a function of the field (E18); contract: the mirror entry is named after THIS field and its native type / ffi annotation is generated from
THIS field's type.  `Iterator::map(..).collect()` keeping one entry per field in order is std's documented meaning (trusted)."""
import re
from rsrc import Src, Piece, match_close, rule_format_msgs
from verus_engine import VerusFile, CANARY
from common import Undecided
import vhelp

NAME = "struct_mirror_fields"
ENGINE = "verus"
PROPERTIES = {"C07": "every native struct mirror (Kotlin JNA Structure, Dart ffi.Struct) has, per Rust field and in field order, a member named after that field whose native type is generated from that field's type"}
KT = "tool/src/kotlin/mod.rs"
DART = "tool/src/dart/mod.rs"

PRELUDE = r"""
#[verifier::external_body] pub struct Text { x: u8 }
impl Clone for Text { #[verifier::external_body] fn clone(&self) -> (r: Self) ensures r == *self { unimplemented!() } }
impl Text { #[verifier::external_body] pub fn as_ref(&self) -> (r: &Text) ensures *r == *self { unimplemented!() } }
impl From<String> for Text { #[verifier::external_body] fn from(s: String) -> Text { unimplemented!() } }
#[verifier::external_body] pub fn __fmt() -> String { unimplemented!() }
#[verifier::external_body] pub struct IdentBuf { x: u8 }
impl IdentBuf { #[verifier::external_body] pub fn as_str(&self) -> (r: &IdentBuf) ensures *r == *self { unimplemented!() } }
#[verifier::external_body] pub struct Docs { x: u8 }
#[verifier::external_body] pub struct LifetimeEnv { x: u8 }
#[verifier::external_body] pub struct Rest { x: u8 }
pub enum Type { Primitive(PrimitiveType), Enum(Rest), Struct(Rest), Other(Rest) }
pub mod hir { pub use super::Type; pub use super::{PrimitiveType, IntType, IntSizeType, Int128Type, FloatType}; }
pub struct StructField { pub docs: Docs, pub name: IdentBuf, pub ty: Type }
pub struct StructDef { pub fields: Vec<StructField>, pub lifetimes: LifetimeEnv, pub docs: Docs }
// generated names as functions of what they are generated from
pub uninterp spec fn name_of(n: IdentBuf) -> Text;
pub uninterp spec fn native_ty_of(t: Type) -> Text;
pub uninterp spec fn ffi_cast_of(t: Type) -> Text;
pub uninterp spec fn prim_ffi(p: PrimitiveType) -> Text;
pub uninterp spec fn enum_ffi() -> Text;
"""

KOTLIN = r"""
pub struct StructFieldDef { pub name: Text, pub ffi_type_default: Text, pub ffi_cast_type_name: Text, pub field_type: Text, pub native_to_kt: Text, pub docs: String }
pub struct KotlinFormatter { pub x: u8 }
impl KotlinFormatter {
    #[verifier::external_body] pub fn fmt_field_name(&self, n: &IdentBuf) -> (r: Text) ensures r == name_of(*n) { unimplemented!() }
    #[verifier::external_body] pub fn fmt_field_default(&self, t: &Type) -> Text { unimplemented!() }
    #[verifier::external_body] pub fn fmt_struct_field_type_native(&self, t: &Type) -> (r: Text) ensures r == native_ty_of(*t) { unimplemented!() }
    #[verifier::external_body] pub fn fmt_struct_field_type_kt(&self, t: &Type) -> Text { unimplemented!() }
    #[verifier::external_body] pub fn fmt_struct_field_native_to_kt(&self, n: &Text, l: &LifetimeEnv, t: &Type) -> Text { unimplemented!() }
    #[verifier::external_body] pub fn fmt_docs(&self, d: &Docs) -> String { unimplemented!() }
}
pub struct KtCx<'a> { pub formatter: &'a KotlinFormatter }
"""

DARTP = r"""
pub struct DartFormatter { pub x: u8 }
impl DartFormatter {
    #[verifier::external_body] pub fn fmt_param_name(&self, n: &IdentBuf) -> (r: Text) ensures r == name_of(*n) { unimplemented!() }
    #[verifier::external_body] pub fn fmt_primitive_as_ffi(&self, p: PrimitiveType, cast: bool) -> (r: Text) ensures !cast ==> r == prim_ffi(p) { unimplemented!() }
    #[verifier::external_body] pub fn fmt_enum_as_ffi(&self, cast: bool) -> (r: Text) ensures !cast ==> r == enum_ffi() { unimplemented!() }
}
pub struct DartCx<'a> { pub formatter: &'a DartFormatter }
impl<'a> DartCx<'a> {
    #[verifier::external_body] pub fn gen_type_name_ffi(&mut self, t: &Type, cast: bool) -> (r: Text) ensures cast ==> r == ffi_cast_of(*t) { unimplemented!() }
}
// the native annotation of a Dart struct member: primitives and enums carry one (@ffi.Uint16() ..), everything else is a nested struct / pointer type
pub open spec fn dart_annotation(t: Type) -> Option<Text> {
    match t { Type::Primitive(p) => Some(prim_ffi(p)), Type::Enum(_) => Some(enum_ffi()), _ => None }
}
"""


def closure_body(src, it, head_re, what):
    body = src.slice(it["start"], it["end"])
    m = re.search(head_re, body)
    if not m:
        raise Undecided("anchor-lost", f"{what}: field closure `{head_re}` not found")
    o = m.end() - 1
    c = match_close(body, o)
    return it["start"] + o + 1, it["start"] + c, m


def build(tier):
    vf = VerusFile(NAME)
    vf.add(vhelp.HEADER)
    prims = Src("core/src/hir/primitives.rs")
    for e in ("IntType", "IntSizeType", "Int128Type", "FloatType"):
        vhelp.typedef(vf, prims, e, "enum", derive=vhelp.FIELDLESS_DERIVE)
    vhelp.typedef(vf, prims, "PrimitiveType", "enum", derive="#[derive(Copy, Clone)]")
    vf.add(PRELUDE)
    vf.add(KOTLIN)
    vf.add(DARTP)
    # ---------------- Kotlin
    kt = Src(KT)
    it = kt.item("impl TyGenContext<'_,'cx>::gen_struct_def", "fn")
    a, b, m = closure_body(kt, it, r"\.map\(\|field: &StructField<P>\| \{", "kotlin gen_struct_def")
    frag = {"path": it["path"] + "#field closure body", "kind": "stmt", "start": a, "after_attrs": a, "end": b, "loops": []}
    org = {"file": KT, "item": frag["path"], "line": kt.line_of(a), "end_line": kt.line_of(b)}
    p = Piece(kt, frag)
    vf.add("impl<'a> KtCx<'a> {\n// E18: body of the closure `|field: &StructField<P>| {..}` of kotlin gen_struct_def, as a function of the field\n"
           "fn kotlin_struct_field(&self, ty: &StructDef, field: &StructField) -> (r: StructFieldDef)\n"
           f"    ensures {CANARY} r.name == name_of(field.name), r.ffi_cast_type_name == native_ty_of(field.ty),\n{{", origin=org)
    vf.add(p.render(), origin=org, edits=p.log)
    vf.add("}\n}\n", origin=org)
    vf.functions.append({"path": frag["path"], "file": KT, "line": kt.line_of(a), "end_line": kt.line_of(b), "engine": "verus", "mode": "verus (closure body hoisted, E18)", "bound": "none"})
    vf.expected.append("kotlin_struct_field")
    # ---------------- Dart: the head of the closure (name, annotation, cast type)
    dt = Src(DART)
    it = dt.item("impl TyGenContext<'_,'cx>::gen_struct_def", "fn")
    a, b, m = closure_body(dt, it, r"\.map\(\|field\| \{", "dart gen_struct_def")
    text = dt.slice(a, b)
    k = re.search(r"\n\s*let dart_type_name\b", text)
    if not k:
        raise Undecided("anchor-lost", "dart gen_struct_def closure: `let dart_type_name` (end of the head) not found")
    b2 = a + k.start()
    frag = {"path": it["path"] + "#field closure: stmts(.. before let dart_type_name)", "kind": "stmt", "start": a, "after_attrs": a, "end": b2, "loops": []}
    org = {"file": DART, "item": frag["path"], "line": dt.line_of(a), "end_line": dt.line_of(b2)}
    p = Piece(dt, frag)
    p.sub("E14", r"match field\.ty \{", "match &field.ty {", count=1, why="match on a reference to the field type")
    p.sub("E14", r"hir::Type::Primitive\(p\) => Some\(self\.formatter\.fmt_primitive_as_ffi\(p, false\)\)", "hir::Type::Primitive(p) => Some(self.formatter.fmt_primitive_as_ffi(*p, false))", count=1, why="binding is a reference now")
    vf.add("impl<'a> DartCx<'a> {\n// E18/E15: head of the closure `|field| {..}` of dart gen_struct_def (member name, ffi annotation, native cast type)\n"
           "fn dart_struct_field_head(&mut self, field: &StructField) -> (r: (Text, Option<Text>, Text))\n"
           f"    ensures {CANARY} r.0 == name_of(field.name), r.1 == dart_annotation(field.ty), r.2 == ffi_cast_of(field.ty),\n{{", origin=org)
    vf.add(p.render(), origin=org, edits=p.log)
    vf.add("\n    (name, annotation, ffi_cast_type_name)\n}\n}\n", origin=org)
    vf.functions.append({"path": frag["path"], "file": DART, "line": dt.line_of(a), "end_line": dt.line_of(b2), "engine": "verus", "mode": "verus (closure head, E18/E15)", "bound": "none"})
    vf.expected.append("dart_struct_field_head")
    vf.add(vhelp.FOOTER)
    return vf


CANARY_FUNCTIONS = ["kotlin_struct_field", "dart_struct_field_head"]
ASSUMPTIONS = [
    "E18: the closure passed to `ty.fields.iter().map(..)` is verified as a function of one field; `map(..).collect()` producing one entry per field in field order is std's documented behaviour (trusted)",
    "formatter results are abstract functions of what they are generated from (name_of, native_ty_of, prim_ffi, ffi_cast_of); the primitive tables behind them are units kotlin_tables / dart_tables",
    "the templates print the entries in list order with `name` as the member name and the native type / annotation in front (Struct.kt.jinja incl. getFieldOrder(), struct.dart.jinja: read)",
]
UNVERIFIED = {"C07": ["Struct.kt.jinja / struct.dart.jinja (read)", "the remaining members of each entry (conversions, defaults)"]}
