"""V disable_gates: every backend skips a disabled method / type at the top of its generator: the `if <x>.attrs.disable { return None |
return "".into() | continue }` statement of the six method generators and the six per-type loops in `run`.  Each statement is wrapped with
its exit (`return ..` / `continue`) turned into `return true` (E17c): the generator leaves exactly when the HIR says `disable` — whose
value for this backend is Attrs::from_ast's (units attr_cfg_gate / cfg_eval / attr_inherit)."""
import re
from rsrc import Src, Piece, match_close
from verus_engine import VerusFile, CANARY
from common import Undecided
import vhelp

NAME = "disable_gates"
ENGINE = "verus"
PROPERTIES = {"C13": "a method / type whose HIR attrs say `disable` is skipped by every backend's generator, and only then (C, C++, JS, Dart, Kotlin, nanobind; methods and types)"}

PRELUDE = r"""
pub struct Attrs { pub disable: bool }
pub struct Method { pub attrs: Attrs }
pub struct TypeDef { pub a: Attrs }
impl TypeDef { pub fn attrs(&self) -> (r: &Attrs) ensures *r == self.a { &self.a } }
"""

METHOD_SITES = [
    ("tool/src/c/ty.rs", "gen_impl|gen_struct_def|gen_opaque_def|gen_enum_def|gen_.*", "C"),
    ("tool/src/cpp/ty.rs", "gen_method_info", "C++"),
    ("tool/src/js/gen.rs", "generate_method", "JS"),
    ("tool/src/dart/mod.rs", "gen_method_info", "Dart"),
    ("tool/src/kotlin/mod.rs", "gen_method", "Kotlin"),
    ("tool/src/nanobind/ty.rs", "gen_method_info", "nanobind"),
]
TYPE_SITES = ["tool/src/c/mod.rs", "tool/src/cpp/mod.rs", "tool/src/js/mod.rs", "tool/src/dart/mod.rs", "tool/src/kotlin/mod.rs", "tool/src/nanobind/mod.rs"]
GATE = re.compile(r"if (method\.attrs|ty\.attrs\(\))\.disable \{")


def add_gate(vf, src, rel, start, end, name, what, param, want):
    frag = {"path": f"{rel}#{what}", "kind": "stmt", "start": start, "after_attrs": start, "end": end, "loops": []}
    org = {"file": rel, "item": frag["path"], "line": src.line_of(start), "end_line": src.line_of(end)}
    p = Piece(src, frag, label=frag["path"])
    p.sub("E17c", r"\breturn\b[^;]*;|\bcontinue\s*;", "return true;", count=1, why="the statement's exit (`return ..` / `continue`) -> the fragment function returns `skipped = true`")
    vf.add(f"// E15/E17c: {what}\nfn {name}({param}) -> (skipped: bool)\n    ensures {CANARY} skipped == {want},\n{{\n    ", origin=org)
    vf.add(p.render(), origin=org, edits=p.log)
    vf.add("\n    false\n}\n", origin=org)
    vf.functions.append({"path": frag["path"], "file": rel, "line": src.line_of(start), "end_line": src.line_of(end), "engine": "verus", "mode": "verus (statement fragment, exit -> return true)", "bound": "none"})
    vf.expected.append(name)


def build(tier):
    vf = VerusFile(NAME)
    vf.add(vhelp.HEADER)
    vf.add(PRELUDE)
    for (rel, fnpat, backend) in METHOD_SITES:
        src = Src(rel)
        text = src.bytes.decode("utf-8")
        hits = []
        for it in src.index["items"]:
            if it["kind"] != "fn" or not re.search(r"::(" + fnpat + r")$", it["path"]):
                continue
            body = src.slice(it["start"], it["end"])
            for m in re.finditer(r"if method\.attrs\.disable \{", body):
                c = match_close(body, m.end() - 1)
                hits.append((it, it["start"] + m.start(), it["start"] + c + 1))
        if len(hits) != 1:
            raise Undecided("anchor-lost", f"{rel}: expected exactly one `if method.attrs.disable {{..}}` in the method generator, found {len(hits)}")
        (it, a, b) = hits[0]
        add_gate(vf, src, rel, a, b, "method_gate_" + re.sub(r"\W", "_", backend.lower()), f"{backend} method generator ({it['path']}): disable gate", "method: &Method", "method.attrs.disable")
    for rel in TYPE_SITES:
        src = Src(rel)
        hits = []
        for it in src.index["items"]:
            if it["kind"] != "fn" or not it["path"].endswith("run"):
                continue
            body = src.slice(it["start"], it["end"])
            for m in re.finditer(r"if ty\.attrs\(\)\.disable \{", body):
                c = match_close(body, m.end() - 1)
                hits.append((it, it["start"] + m.start(), it["start"] + c + 1))
        if len(hits) != 1:
            raise Undecided("anchor-lost", f"{rel}: expected exactly one `if ty.attrs().disable {{..}}` in run(), found {len(hits)}")
        (it, a, b) = hits[0]
        backend = rel.split("/")[2]
        add_gate(vf, src, rel, a, b, "type_gate_" + backend, f"{backend} run(): per-type loop disable gate", "ty: &TypeDef", "ty.a.disable")
    vf.add(vhelp.FOOTER)
    return vf


CANARY_FUNCTIONS = ["method_gate_c", "method_gate_c__", "method_gate_js", "method_gate_dart", "method_gate_kotlin", "method_gate_nanobind",
                    "type_gate_c", "type_gate_cpp", "type_gate_js", "type_gate_dart", "type_gate_kotlin", "type_gate_nanobind"]
ASSUMPTIONS = [
    "E15/E17c: one `if ..disable {..}` statement per generator, wrapped with its exit rewritten to `return true`; that the statement sits before anything is emitted for the method / type (it is the first statement of the function or loop body, after context guards) is read",
    "hir::Method / TypeDef re-declared with the `disable` flag only",
]
UNVERIFIED = {"C13": ["type USES of a disabled type inside enabled methods (each backend pushes an error instead: read)", "demo_gen (reuses the JS generator)"]}
