"""V c_result_ty: the C struct the C backend declares for a Result/Option return (`typedef struct f_result {union {T ok; E err;}; bool is_ok;}`)
has an `ok` member exactly when the success type occupies storage, an `err` member exactly when the error type does, a union
exactly when one of them exists, and always the trailing `bool is_ok` — the shape of diplomat_runtime::DiplomatResult<T, E>
(whose layout the Kani unit result_ownership checks for zero-sized arms).  tool/src/c/ty.rs gen_result_ty."""
import re
from rsrc import Src, Piece, rule_panics
from verus_engine import VerusFile, CANARY
from common import Undecided
import vhelp

NAME = "c_result_ty"
ENGINE = "verus"
PROPERTIES = {"C01": "C result struct = {union{ok,err} without zero-sized arms; bool is_ok}: member presence decided exactly by zero-sizedness of each arm",
              "C10": "Option<T>/Result<T,E> returns use the same {union; is_ok} wire struct; unit / zero-sized arms have no member",
              "C13": "a struct disabled for the backend and used as a Result/Option payload is not mistaken for a zero-sized one: it reaches gen_ty_name, which reports the use",
              "C15": "gen_result_ty's unreachable! arms"}
F = "tool/src/c/ty.rs"

PRELUDE = r"""
#[verifier::external_body] pub struct CowStr { x: u8 }
#[verifier::external_body] pub struct Header { x: u8 }
#[verifier::external_body] pub struct TypeContext { x: u8 }
#[verifier::external_body] pub struct CFormatter { x: u8 }
#[verifier::external_body] pub struct Field { x: u8 }
pub struct Attrs { pub disable: bool }
pub struct StructDef { pub fields: Vec<Field>, pub attrs: Attrs }
pub struct OutStructDef { pub fields: Vec<Field>, pub attrs: Attrs }
// hir::ReturnableStructDef is #[non_exhaustive] with exactly these two variants
pub enum ReturnableStructDef<'tcx> { Struct(&'tcx StructDef), OutStruct(&'tcx OutStructDef) }
#[verifier::external_body] pub struct ReturnableStructPath { x: u8 }
// whether the struct named by a path has no fields (resolved through the TypeContext; abstract)
pub uninterp spec fn spec_no_fields(p: ReturnableStructPath, tcx: &TypeContext) -> bool;
// whether that struct is disabled for this backend: lowering does not lower the fields of a disabled struct ("Only compute fields if the type
// isn't disabled"), so its HIR field list is empty whatever the Rust struct looks like
pub uninterp spec fn spec_disabled(p: ReturnableStructPath, tcx: &TypeContext) -> bool;
impl ReturnableStructPath {
    #[verifier::external_body]
    pub fn resolve<'tcx>(&self, tcx: &'tcx TypeContext) -> (r: ReturnableStructDef<'tcx>)
        ensures match r { ReturnableStructDef::Struct(s) => (s.fields@.len() == 0) == spec_no_fields(*self, tcx) && s.attrs.disable == spec_disabled(*self, tcx),
                          ReturnableStructDef::OutStruct(s) => (s.fields@.len() == 0) == spec_no_fields(*self, tcx) && s.attrs.disable == spec_disabled(*self, tcx) }
    { unimplemented!() }
}
// hir::Type<OutputOnly>: the Struct variant is inspected; enums are named so that a rule about them can be stated (a bridge enum is
// #[repr(C)]: never zero-sized, whatever its number of variants)
#[verifier::external_body] pub struct Variant { x: u8 }
pub struct EnumDef { pub variants: Vec<Variant> }
pub struct EnumPath { pub tcx_id: u32 }
impl EnumPath { #[verifier::external_body] pub fn resolve<'tcx>(&self, tcx: &'tcx TypeContext) -> &'tcx EnumDef { unimplemented!() } }
pub enum Type { Struct(ReturnableStructPath), Enum(EnumPath), Other(u8) }
pub mod hir { pub type OutType = super::Type; }

// ---- E6t: the C text carried as what it declares
pub struct CText { pub ok: bool, pub err: bool, pub union_: bool, pub is_ok_flag: bool }
impl CText {
    pub fn empty() -> (r: CText) ensures r == (CText { ok: false, err: false, union_: false, is_ok_flag: false }) { CText { ok: false, err: false, union_: false, is_ok_flag: false } }
    pub fn ok_member(n: CowStr) -> (r: CText) ensures r == (CText { ok: true, err: false, union_: false, is_ok_flag: false }) { CText { ok: true, err: false, union_: false, is_ok_flag: false } }
    pub fn err_member(n: CowStr) -> (r: CText) ensures r == (CText { ok: false, err: true, union_: false, is_ok_flag: false }) { CText { ok: false, err: true, union_: false, is_ok_flag: false } }
    pub fn union_of(a: CText, b: CText) -> (r: CText) ensures r == (CText { ok: a.ok || b.ok, err: a.err || b.err, union_: true, is_ok_flag: false })
    { CText { ok: a.ok || b.ok, err: a.err || b.err, union_: true, is_ok_flag: false } }
    pub fn result_struct(u: CText) -> (r: CText) ensures r == (CText { is_ok_flag: true, ..u }) { CText { ok: u.ok, err: u.err, union_: u.union_, is_ok_flag: true } }
}

pub struct TyGenContext<'cx, 'tcx> { pub tcx: &'tcx TypeContext, pub formatter: &'cx CFormatter }

// ---- oracle (Rust side: DiplomatResult<T, E> is repr(C) { union { ok: ManuallyDrop<T>, err: ManuallyDrop<E> }, is_ok: bool }; a zero-sized
// arm occupies no storage and C has no zero-sized members, so the arm is omitted; with both arms zero-sized the union is omitted)
// an empty HIR field list means "zero-sized Rust struct" only for a struct that was actually lowered; a DISABLED struct used here is not
// zero-sized, it is a use of a disabled type: it must be handed on to gen_ty_name, which reports it (C13: a disabled type is absent from the
// backend's symbol uses — never silently declared with another shape)
pub open spec fn zst(t: Type, tcx: &TypeContext) -> bool { match t { Type::Struct(p) => spec_no_fields(p, tcx) && !spec_disabled(p, tcx), _ => false } }
pub open spec fn arm_present(t: Option<&Type>, tcx: &TypeContext) -> bool { match t { Some(t) => !zst(*t, tcx), None => false } }
pub open spec fn spec_result_ty(ok: Option<&Type>, err: Option<&Type>, tcx: &TypeContext) -> CText {
    CText { ok: arm_present(ok, tcx), err: arm_present(err, tcx), union_: arm_present(ok, tcx) || arm_present(err, tcx), is_ok_flag: true }
}

impl<'cx, 'tcx> TyGenContext<'cx, 'tcx> {
    #[verifier::external_body]
    fn gen_ty_name(&self, ty: &Type, header: &mut Header) -> CowStr { unimplemented!() }
"""

CONTRACT = f"""        ensures {CANARY}
            r == spec_result_ty(ok_ty, err_ty, self.tcx),"""


def build(tier):
    vf = VerusFile(NAME)
    src = Src(F)
    vf.add(vhelp.HEADER)
    vf.add(PRELUDE)
    it = src.item("impl TyGenContext<'_,'tcx>::gen_result_ty", "fn")
    cls = it.get("closures", [])
    if not (1 <= len(cls) <= 4):
        raise Undecided("anchor-lost", f"gen_result_ty: expected the `.filter(..)` predicate closure(s), found {len(cls)} closures")
    p = Piece(src, it)
    named = {}      # local name bound to a hoisted closure -> k
    literal = []    # (c0, c1, k) closures written directly as `.filter(|t| ..)` argument
    for k, cl in enumerate(cls):
        c0, c1 = cl["start"], cl["end"]
        ctext = src.slice(c0, c1)
        m = re.match(r"\|\s*(\w+)\s*(?::\s*&&(?:hir::)?(?:OutType|Type))?\s*\|\s*\{", ctext)
        if not m:
            raise Undecided("anchor-lost", "gen_result_ty: a closure is no longer `|t| { .. }` / `|t: &&hir::OutType| { .. }`")
        pn = m.group(1)
        st = [x for x in it["stmts"] if x[0] <= c0 and c1 <= x[1]]
        if len(st) != 1:
            raise Undecided("anchor-lost", "closure statement not found")
        sa, sb = st[0]
        # E18: closure (captures only `self`) hoisted to a method
        body_open = c0 + ctext.index("{")
        frag = {"start": body_open, "after_attrs": body_open, "end": c1, "path": it["path"] + f"#closure {k} (filter predicate)", "loops": []}
        pc = Piece(src, frag)
        pc.fn("E5", rule_panics, why="unreachable! arm becomes an obligation")
        org = {"file": F, "item": frag["path"], "line": src.line_of(c0), "end_line": src.line_of(c1)}
        vf.add(f"    // E18: predicate closure #{k} of gen_result_ty (captures only `self`) as a method\n"
               f"    fn __keep_{k}(&self, {pn}: &&Type) -> (keep: bool)\n        ensures {CANARY} keep == !zst(**{pn}, self.tcx),\n    ", origin=org)
        vf.add(pc.render() + "\n", origin=org, edits=pc.log)
        vf.functions.append({"path": frag["path"], "file": F, "line": src.line_of(c0), "end_line": src.line_of(c1), "engine": "verus",
                             "mode": "verus (closure hoisted, E18)", "bound": "none"})
        vf.expected.append(f"__keep_{k}")
        mm = re.fullmatch(r"let\s+(\w+)\s*=\s*", src.slice(sa, c0))
        if mm and src.slice(c1, sb).strip() == ";":
            named[mm.group(1)] = k
            p.replace("E18", sa, sb, "", "closure definition hoisted (see method above)")
        elif re.search(r"\.filter\(\s*$", src.slice(sa, c0)):
            p.replace("E18", c0, c1, f"__KEEP_{k}__", "closure literal hoisted (see method above)")
        else:
            raise Undecided("anchor-lost", "a closure of gen_result_ty is neither bound by `let NAME = |..| {..};` nor a `.filter(..)` argument")

    def unfold_filters(text):
        # E10: `X.filter(P)` (P a hoisted predicate) unfolded to the definition of Option::filter
        out = []
        pat = re.compile(r"(\w+)\s*\.filter\(\s*(\w+)\s*\)")
        def rep(mo):
            recv, arg = mo.group(1), mo.group(2)
            mk = re.fullmatch(r"__KEEP_(\d+)__", arg)
            k = int(mk.group(1)) if mk else named.get(arg)
            if k is None:
                raise Undecided("unsupported", f"gen_result_ty: `.filter({arg})` with a predicate that is not a closure of this function")
            new = f"(match {recv} {{ Some(t__) => if self.__keep_{k}(&t__) {{ Some(t__) }} else {{ None }}, None => None }})"
            out.append((mo.group(0), new))
            return new
        t2 = pat.sub(rep, text)
        if not out:
            raise Undecided("edit-mismatch", "gen_result_ty: no `.filter(<predicate>)` left to unfold")
        return t2, out
    p.fn("E10", unfold_filters, why="Option::filter(pred) unfolded to its definition; pred is the hoisted method")
    p.contract(CONTRACT, ret_name="r")
    p.sub("E6t", r"\(r: String\)", "(r: CText)", count=1, why="generated C text carried as what it declares")
    p.sub("E6t", r'format!\("\{ok_name\} ok;"\)', "CText::ok_member(ok_name)", count=1, why="`T ok;` member")
    p.sub("E6t", r'format!\("\{err_name\} err;"\)', "CText::err_member(err_name)", count=1, why="`E err;` member")
    p.sub("E6t", r'format!\("union \{\{\{ok_line\} \{err_line\}\}\};"\)', "CText::union_of(ok_line, err_line)", count=1, why="anonymous union of the present members")
    p.sub("E6t", r'format!\("typedef struct \{fn_name\}_result \{\{\{union_def\} bool is_ok;\}\} \{fn_name\}_result;\\n\{fn_name\}_result"\)', "CText::result_struct(union_def)", count=1,
          why="`typedef struct f_result {<union> bool is_ok;} f_result`")
    p.sub("E6t", r'"".into\(\)', "CText::empty()", count=3, why="empty text")
    p.sub("E12", r"&hir::OutType", "&Type", count="+", why="path re-rooted")
    vf.add_piece(p, expected="gen_result_ty")
    vf.add("}\n")
    vf.add(vhelp.FOOTER)
    return vf


CANARY_FUNCTIONS = ["__keep_0", "gen_result_ty"]
ASSUMPTIONS = [
    "E18/E10: the two `.filter(|t| ..)` predicate closures (capturing only `self`) are verified as methods; Option::filter is unfolded to its definition",
    "E6t: the five text-producing expressions are replaced by tagged abstract constructors keyed on their template literal (`{ok_name} ok;`, `{err_name} err;`, `union {..};`, `typedef struct .._result {.. bool is_ok;}`, empty); characters dropped, declared members kept",
    "hir::Type re-declared with the Struct variant only (no other variant is inspected); ReturnableStructPath::resolve abstract: returns a definition whose field list is empty iff spec_no_fields",
    "gen_ty_name abstract (produces the member's type name)",
]
UNVERIFIED = {"C01": ["type names of the members (gen_ty_name)", "DiplomatOption struct macros in capi.h.jinja"], "C10": [], "C15": []}
