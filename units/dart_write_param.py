"""V dart_write_param: the Dart backend appends the trailing DiplomatWrite parameter (conversion, ffi type, cast type, name)
exactly when the method's success type is Write, for every return shape.  Statement-range fragment of dart gen_method_info."""
import re
from rsrc import Src, Piece, rule_format_msgs
from verus_engine import VerusFile, CANARY
from common import Undecided
import vhelp

NAME = "dart_write_param"
ENGINE = "verus"
PROPERTIES = {"C07": "Dart native signature has the same parameter count as the C ABI: the trailing write pointer is present for Infallible/Fallible/Nullable write-outs alike"}
F = "tool/src/dart/mod.rs"
METHODS = "core/src/hir/methods.rs"

PRELUDE = r"""
#[verifier::external_body] pub struct CowStr { x: u8 }
impl From<&str> for CowStr { #[verifier::external_body] fn from(s: &str) -> CowStr { unimplemented!() } }
#[verifier::external_body] pub fn __msg() -> CowStr { unimplemented!() }
#[verifier::external_body] pub struct OutType { x: u8 }
"""
AFTER = r"""
pub open spec fn success_of(r: ReturnType) -> SuccessType {
    match r { ReturnType::Infallible(s) => s, ReturnType::Fallible(s, _) => s, ReturnType::Nullable(s) => s }
}
impl ReturnType {
    // `method.output.is_write()` resolves through `Deref<Target = SuccessType>`; both halves are proved in unit return_type_helpers
    #[verifier::external_body]
    pub fn is_write(&self) -> (r: bool) ensures r == (success_of(*self) is Write) { unimplemented!() }
}
pub struct Method { pub output: ReturnType }
#[verifier::external_body] pub struct DartFormatter { x: u8 }
impl DartFormatter { #[verifier::external_body] pub fn fmt_opaque_as_ffi(&self) -> &'static str { unimplemented!() } }
#[verifier::external_body] pub struct HelperClasses { x: u8 }
impl HelperClasses { #[verifier::external_body] pub fn insert(&mut self, k: CowStr, v: CowStr) { unimplemented!() } }
pub struct TyGenContext<'a> { pub formatter: &'a DartFormatter, pub helper_classes: HelperClasses }
"""


def build(tier):
    vf = VerusFile(NAME)
    src = Src(F)
    ms = Src(METHODS)
    vf.add(vhelp.HEADER)
    vf.add(PRELUDE)
    vhelp.typedef(vf, ms, "SuccessType", "enum")
    vhelp.typedef(vf, ms, "ReturnType", "enum")
    vf.add(AFTER)
    it = src.item("impl TyGenContext<'_,'cx>::gen_method_info", "fn")
    stmts = it.get("stmts", [])
    loops = it.get("loops", [])
    # the range: every top-level statement after the `for param in method.params` loop and before `let return_ty`
    fo = None
    for i, (a, b) in enumerate(stmts):
        if src.slice(a, b).startswith("for param in"):
            fo = i
    lr = None
    for i, (a, b) in enumerate(stmts):
        if src.slice(a, b).startswith("let return_ty "):
            lr = i
    if fo is None or lr is None or lr <= fo + 1:
        raise Undecided("anchor-lost", "gen_method_info: statements between the parameter loop and `let return_ty` not found")
    a, b = stmts[fo + 1][0], stmts[lr - 1][1]
    frag = {"path": it["path"] + "#stmts(after param loop .. before let return_ty)", "kind": "stmt", "start": a, "after_attrs": a, "end": b}
    p = Piece(src, frag)
    p.sub("E6", r'include_str!\("[^"]*"\)\.into\(\)', "__msg()", count=None, why="template text dropped")
    text = p.render()
    vf.add("// E15: statement range of tool/src/dart/mod.rs gen_method_info wrapped in a method of the locals it reads/writes\n"
           "impl<'a> TyGenContext<'a> {\n"
           "fn dart_append_write_param(&mut self, method: &Method, needs_temp_arena: bool, arenas: &mut Vec<CowStr>, param_conversions: &mut Vec<CowStr>,\n"
           "        param_types_ffi: &mut Vec<CowStr>, param_types_ffi_cast: &mut Vec<CowStr>, param_names_ffi: &mut Vec<CowStr>)\n"
           f"    ensures {CANARY}\n"
           "        final(param_types_ffi)@.len() == old(param_types_ffi)@.len() + (if success_of(method.output) is Write { 1int } else { 0int }),\n"
           "        final(param_types_ffi_cast)@.len() == old(param_types_ffi_cast)@.len() + (if success_of(method.output) is Write { 1int } else { 0int }),\n"
           "        final(param_names_ffi)@.len() == old(param_names_ffi)@.len() + (if success_of(method.output) is Write { 1int } else { 0int }),\n"
           "        final(param_conversions)@.len() == old(param_conversions)@.len() + (if success_of(method.output) is Write { 1int } else { 0int }),\n"
           "        // earlier entries (self, parameters in order) are untouched: the write pointer goes LAST\n"
           "        old(param_types_ffi)@.is_prefix_of(final(param_types_ffi)@), old(param_names_ffi)@.is_prefix_of(final(param_names_ffi)@),\n{\n        ")
    vf.add(text, origin={"file": F, "item": frag["path"], "line": src.line_of(a), "end_line": src.line_of(b)}, edits=p.log)
    vf.add("\n}\n}\n")
    vf.functions.append({"path": frag["path"], "file": F, "line": src.line_of(a), "end_line": src.line_of(b), "engine": "verus", "mode": "verus (statement range)", "bound": "none"})
    vf.expected.append("dart_append_write_param")
    vf.add(vhelp.FOOTER)
    return vf


CANARY_FUNCTIONS = ["dart_append_write_param"]
ASSUMPTIONS = [
    "E15: only the statements of gen_method_info between the parameter loop and `let return_ty` are verified; the locals they touch become parameters",
    "ReturnType::is_write (via Deref) abstract here with the contract proved in unit return_type_helpers",
]
UNVERIFIED = {"C07": ["the self/parameter part of gen_method_info (borrow visitor, nested fn, closures)", "Kotlin gen_native_method_info", "templates"]}
