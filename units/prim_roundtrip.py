"""K prim_roundtrip: the Rust spelling the proc macro emits for each primitive (ast::PrimitiveType::as_code_str) and its parse-back."""
from kunit import define
F = "core/src/ast/types.rs"
E = [("macro_spelling_matches_primitive", "for all 17 AST primitives: the Rust type name written into the extern \"C\" signature denotes the width/signedness/kind the primitive stands for (char -> DiplomatChar = u32, byte -> DiplomatByte = u8) and PrimitiveType::from_str parses it back to the same primitive",
      [(F, "impl PrimitiveType::as_code_str"), (F, "impl FromStr for PrimitiveType::from_str")], 2, ["C01"], "complete", "none (finite domain)")]
define(globals(), "prim_roundtrip", "core", F, "verif_prims", "prim_roundtrip.rs",
       {"C01": "scalar arguments are declared with the Rust type of the right width/signedness in the extern \"C\" layer"},
       E, lambda tier: {}, ["Rust spelling -> ABI table from the Rust reference and diplomat_runtime's aliases (DiplomatChar = u32, DiplomatByte = u8)"],
       {"C01": ["to_syn / param_ty token construction in the macro"]}, features="hir")
