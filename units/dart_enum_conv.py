"""V dart_enum_conv: tool/src/dart/mod.rs — the two enum arms of gen_c_to_dart_for_type (value received from Rust -> Dart variant) and the enum
arm of gen_dart_to_c_for_type (Dart variant -> value sent to Rust).  The positional shortcuts `T.values[x]` / `x.index` may only be used when
is_contiguous_enum holds (discriminant(j) == j for every variant: unit enum_contiguous); otherwise the conversion goes through the variant's own
`_ffi` value.  Tagged text (E6t): which of the two mechanisms the generated expression uses."""
import re
from rsrc import Src, Piece, match_close
from verus_engine import VerusFile, CANARY
from common import Undecided
import vhelp

NAME = "dart_enum_conv"
ENGINE = "verus"
PROPERTIES = {"C11": "Dart converts enum values positionally (values[x] / .index) only for enums whose discriminants are 0..n-1 in declaration order; every other enum is converted through the variant's stored discriminant, in both directions"}
F = "tool/src/dart/mod.rs"

PRELUDE = r"""
#[derive(Copy, Clone, PartialEq, Eq, Structural)] pub struct TypeId { pub n: u32 }
#[derive(Copy, Clone, PartialEq, Eq, Structural)] pub struct EnumId { pub n: u32 }
impl EnumId { pub fn into(self) -> (r: TypeId) ensures r == (TypeId { n: self.n }) { TypeId { n: self.n } } }
#[verifier::external_body] pub struct Variant { x: u8 }
pub struct EnumDef { pub variants: Vec<Variant> }
#[verifier::external_body] pub struct Tcx { x: u8 }
pub struct EnumPath { pub tcx_id: EnumId }
pub uninterp spec fn def_of(p: EnumPath, tcx: &Tcx) -> EnumDef;
impl EnumPath { #[verifier::external_body] pub fn resolve<'a>(&self, tcx: &'a Tcx) -> (r: &'a EnumDef) ensures *r == def_of(*self, tcx) { unimplemented!() } }
// is_contiguous_enum(def) <=> every variant's discriminant equals its index (proved on the real function in unit enum_contiguous)
pub uninterp spec fn contiguous(d: EnumDef) -> bool;
#[verifier::external_body] pub fn is_contiguous_enum(d: &EnumDef) -> (r: bool) ensures r == contiguous(*d) { unimplemented!() }
#[verifier::external_body] pub struct Rest { x: u8 }
pub enum Type { Enum(EnumPath), Other(Rest) }
#[verifier::external_body] pub struct Text { x: u8 }
pub struct DartFormatter { pub x: u8 }
impl DartFormatter { #[verifier::external_body] pub fn fmt_type_name(&self, id: TypeId) -> Text { unimplemented!() } }
// E6t: the generated conversion expression, by the mechanism it uses
pub enum Conv { Positional, ByDiscriminant, NotAnEnum }
impl Conv {
    pub fn values_index(t: Text, v: &Text) -> (r: Conv) ensures r is Positional { Conv::Positional }          // `T.values[x]`
    pub fn first_where_ffi(t: Text, v: &Text) -> (r: Conv) ensures r is ByDiscriminant { Conv::ByDiscriminant } // `T.values.firstWhere((v) => v._ffi == x)`
    pub fn dot_index(v: &Text) -> (r: Conv) ensures r is Positional { Conv::Positional }                       // `x.index`
    pub fn dot_ffi(v: &Text) -> (r: Conv) ensures r is ByDiscriminant { Conv::ByDiscriminant }                  // `x._ffi`
    pub fn into(self) -> (r: Conv) ensures r == self { self }
}
pub struct TyGenContext<'a> { pub formatter: &'a DartFormatter, pub tcx: &'a Tcx }
pub open spec fn conv_ok(t: Type, tcx: &Tcx, c: Conv) -> bool {
    match t { Type::Enum(e) => (c is Positional ==> contiguous(def_of(e, tcx))) && !(c is NotAnEnum), _ => true }
}
"""


def arms(src, it, first_re, n_arms, what):
    body = src.slice(it["start"], it["end"])
    m = re.search(first_re, body)
    if not m:
        raise Undecided("anchor-lost", f"{what}: `{first_re}` not found")
    start = m.start()
    pos = start
    for _ in range(n_arms):
        mm = re.compile(r"\s*Type::(?:Opaque\(\.\.\) \| Type::)?Enum\((?:ref e|\.\.)\)[^=]*=>\s*").match(body, pos)
        if not mm:
            raise Undecided("anchor-lost", f"{what}: expected {n_arms} consecutive enum arms")
        if body[mm.end()] == "{":
            pos = match_close(body, mm.end()) + 1
        else:
            pos = body.index(",", mm.end()) + 1
    return it["start"] + start, it["start"] + pos


def build(tier):
    vf = VerusFile(NAME)
    src = Src(F)
    vf.add(vhelp.HEADER)
    vf.add(PRELUDE)
    vf.add("impl<'a> TyGenContext<'a> {\n")
    # ---- from native: the two consecutive arms of gen_c_to_dart_for_type
    it = src.item("impl TyGenContext<'_,'cx>::gen_c_to_dart_for_type", "fn")
    a, b = arms(src, it, r"Type::Enum\(ref e\)(?: if [^=]*)? => \{\s*let id = e\.tcx_id\.into\(\);\s*let type_name[^;]*;\s*format!\(\"\{type_name\}\.values\[", 2, "gen_c_to_dart_for_type")
    frag = {"path": it["path"] + "#the two Type::Enum arms", "kind": "stmt", "start": a, "after_attrs": a, "end": b, "loops": []}
    org = {"file": F, "item": frag["path"], "line": src.line_of(a), "end_line": src.line_of(b)}
    p = Piece(src, frag)
    p.sub("E6t", r'format!\("\{type_name\}\.values\[\{var_name\}\]"\)', "Conv::values_index(type_name, &var_name)", count=1, why="`T.values[x]`: positional")
    p.sub("E6t", r'format!\("\{type_name\}\.values\.firstWhere\(\(v\) => v\._ffi == \{var_name\}\)"\)', "Conv::first_where_ffi(type_name, &var_name)", count=1, why="lookup by stored discriminant")
    vf.add("// E15: the enum arms of gen_c_to_dart_for_type inside a match on the type\n"
           "fn dart_enum_from_native(&self, ty: &Type, var_name: Text) -> (r: Conv)\n"
           f"    ensures {CANARY} conv_ok(*ty, self.tcx, r),\n{{\n    match *ty {{\n            ", origin=org)
    vf.add(p.render(), origin=org, edits=p.log)
    vf.add("\n            _ => Conv::NotAnEnum,\n    }\n}\n", origin=org)
    vf.functions.append({"path": frag["path"], "file": F, "line": src.line_of(a), "end_line": src.line_of(b), "engine": "verus", "mode": "verus (match arms, E15/E6t)", "bound": "none"})
    vf.expected.append("dart_enum_from_native")
    # ---- to native: the guarded enum arm of gen_dart_to_c_for_type and the fallback arm shared with opaques
    it = src.item("impl TyGenContext<'_,'cx>::gen_dart_to_c_for_type", "fn")
    body = src.slice(it["start"], it["end"])
    m1 = re.search(r"Type::Enum\(ref e\) if is_contiguous_enum\(e\.resolve\(self\.tcx\)\) => \{\s*format!\(\"\{dart_name\}\.index\"\)\.into\(\)\s*\}", body)
    m2 = re.search(r"Type::Opaque\(\.\.\) \| Type::Enum\(\.\.\) => format!\(\"\{dart_name\}\._ffi\"\)\.into\(\),", body)
    if not m1 or not m2 or m2.start() < m1.end():
        raise Undecided("anchor-lost", "gen_dart_to_c_for_type: guarded `Type::Enum(ref e) if is_contiguous_enum(..)` arm followed by the `Type::Opaque(..) | Type::Enum(..)` arm not found")
    for (mm, tag) in ((m1, "guarded enum arm"), (m2, "fallback arm")):
        pass
    a1, b1 = it["start"] + m1.start(), it["start"] + m1.end()
    a2, b2 = it["start"] + m2.start(), it["start"] + m2.end()
    org = {"file": F, "item": it["path"] + "#enum arms (to native)", "line": src.line_of(a1), "end_line": src.line_of(b2)}
    p1 = Piece(src, {"path": it["path"] + "#guarded Type::Enum arm", "kind": "stmt", "start": a1, "after_attrs": a1, "end": b1, "loops": []})
    p1.sub("E6t", r'format!\("\{dart_name\}\.index"\)', "Conv::dot_index(&dart_name)", count=1, why="`x.index`: positional")
    p2 = Piece(src, {"path": it["path"] + "#Type::Opaque | Type::Enum arm", "kind": "stmt", "start": a2, "after_attrs": a2, "end": b2, "loops": []})
    p2.sub("E6t", r'format!\("\{dart_name\}\._ffi"\)', "Conv::dot_ffi(&dart_name)", count=1, why="`x._ffi`: stored discriminant")
    p2.sub("E12", r"Type::Opaque\(\.\.\) \| Type::Enum\(\.\.\)", "Type::Enum(..)", count=1, why="the opaque alternative of the or-pattern is not modelled here")
    vf.add("// E15: the two arms of gen_dart_to_c_for_type that convert an enum (the arms between them concern other types)\n"
           "fn dart_enum_to_native(&self, ty: &Type, dart_name: Text) -> (r: Conv)\n"
           f"    ensures {CANARY} conv_ok(*ty, self.tcx, r),\n{{\n    match *ty {{\n            ", origin=org)
    vf.add(p1.render() + "\n            ", origin=org, edits=p1.log)
    vf.add(p2.render(), origin=org, edits=p2.log)
    vf.add("\n            _ => Conv::NotAnEnum,\n    }\n}\n", origin=org)
    vf.functions.append({"path": it["path"] + "#enum arms (to native)", "file": F, "line": src.line_of(a1), "end_line": src.line_of(b2), "engine": "verus", "mode": "verus (match arms, E15/E6t)", "bound": "none"})
    vf.expected.append("dart_enum_to_native")
    vf.add("}\n")
    vf.add(vhelp.FOOTER)
    return vf


CANARY_FUNCTIONS = ["dart_enum_from_native", "dart_enum_to_native"]
ASSUMPTIONS = [
    "E15/E6t: the enum arms of the two conversion functions, with the generated expression carried as the mechanism it uses (positional vs by stored discriminant); the arms in between (structs, opaques, slices) are not part of this unit",
    "is_contiguous_enum is used through its contract (unit enum_contiguous); `T.values` lists the variants in declaration order and `_ffi` is each variant's discriminant (enum.dart.jinja: read)",
    "gen_dart_to_c_self (`index` for a contiguous enum self) has the same shape: read",
]
UNVERIFIED = {"C11": ["enum.dart.jinja (read)", "gen_dart_to_c_self's enum arm (read)"]}
