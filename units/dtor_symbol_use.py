"""V dtor_symbol_use: the destructor symbol the JS and Dart backends hand to their opaque-type templates is the HIR's
`dtor_abi_name` — the name the proc macro exports (`Type_destroy` after abi_rename, computed once on the AST side: units opaque_dtor /
attr_inherit; carried through lowering unchanged) — not something recomputed from the backend's display name or rename attributes."""
import re
from rsrc import Src, Piece
from verus_engine import VerusFile, CANARY
from common import Undecided
import vhelp

NAME = "dtor_symbol_use"
ENGINE = "verus"
PROPERTIES = {"C06": "the destructor symbol referenced by generated JS / Dart code is exactly OpaqueDef::dtor_abi_name (the exported symbol)"}
JS = "tool/src/js/gen.rs"
DART = "tool/src/dart/mod.rs"

PRELUDE = r"""
// ---- everything in scope of the statements that could be used to build a symbol name (so that a different recipe is refuted, not undecided)
#[verifier::external_body] pub struct CowStr { x: u8 }
impl CowStr { pub uninterp spec fn view(&self) -> Seq<char>; }
#[verifier::external_body] pub fn __cow() -> CowStr { unimplemented!() }            // E6: any format!(..) text
impl From<String> for CowStr { #[verifier::external_body] fn from(s: String) -> CowStr { unimplemented!() } }
#[verifier::external_body] pub struct IdentBuf { x: u8 }
impl IdentBuf {
    pub uninterp spec fn view(&self) -> Seq<char>;
    #[verifier::external_body] pub fn as_str(&self) -> (r: &str) ensures r@ == self@ { unimplemented!() }
}
#[verifier::external_body] pub struct RenameAttr { x: u8 }
impl RenameAttr { #[verifier::external_body] pub fn apply(&self, name: CowStr) -> CowStr { unimplemented!() } }   // result unconstrained
pub struct Attrs { pub abi_rename: RenameAttr, pub rename: RenameAttr, pub disable: bool }
pub struct OpaqueDef { pub name: IdentBuf, pub dtor_abi_name: IdentBuf, pub attrs: Attrs }
pub mod hir { pub use super::OpaqueDef; }
// what the template finally prints
pub trait Symbol { spec fn sym(&self) -> Seq<char>; }
impl Symbol for &str { open spec fn sym(&self) -> Seq<char> { self@ } }
impl Symbol for &IdentBuf { open spec fn sym(&self) -> Seq<char> { self@ } }
impl Symbol for IdentBuf { open spec fn sym(&self) -> Seq<char> { self@ } }
impl Symbol for CowStr { open spec fn sym(&self) -> Seq<char> { self@ } }
impl Symbol for &CowStr { open spec fn sym(&self) -> Seq<char> { self@ } }
pub struct TyGenContext { pub type_name: CowStr }
"""


def fragment(vf, src, rel, item_path, var, fn_name, backend):
    it = src.item(item_path, "fn")
    st = None
    for (a, b) in it["stmts"]:
        if src.slice(a, b).startswith("let destructor ="):
            st = (a, b)
    if st is None:
        raise Undecided("anchor-lost", f"{item_path}: `let destructor = ..` not found")
    a, b = st
    frag = {"path": it["path"] + "#let destructor", "kind": "stmt", "start": a, "after_attrs": a, "end": b, "loops": []}
    p = Piece(src, frag)
    p.sub("E6", r'format!\((?:[^()]|\([^()]*\))*\)', "__cow()", count=None, why="any text assembled with format! is opaque")
    org = {"file": rel, "item": frag["path"], "line": src.line_of(a), "end_line": src.line_of(b)}
    vf.add(f"""    // E15: the statement of the {backend} backend that picks the destructor symbol, as a function of the opaque definition
    fn {fn_name}<'a>(&'a self, {var}: &'a OpaqueDef) -> (sym: Ghost<Seq<char>>)
        ensures {CANARY} sym@ == {var}.dtor_abi_name@,
    {{
        """, origin=org)
    vf.add(p.render(), origin=org, edits=p.log)
    vf.add("\n        Ghost(destructor.sym())\n    }\n", origin=org)
    vf.functions.append({"path": frag["path"], "file": rel, "line": src.line_of(a), "end_line": src.line_of(b), "engine": "verus", "mode": "verus (statement fragment, E15)", "bound": "none"})
    vf.expected.append(fn_name)


def build(tier):
    vf = VerusFile(NAME)
    vf.add(vhelp.HEADER)
    vf.add(PRELUDE)
    vf.add("impl TyGenContext {\n")
    fragment(vf, Src(JS), JS, "impl TyGenContext<'_,'tcx>::gen_opaque", "opaque_def", "js_destructor_symbol", "JS")
    fragment(vf, Src(DART), DART, "impl TyGenContext<'_,'cx>::gen_opaque_def", "ty", "dart_destructor_symbol", "Dart")
    vf.add("}\n")
    vf.add(vhelp.FOOTER)
    return vf


CANARY_FUNCTIONS = ["js_destructor_symbol", "dart_destructor_symbol"]
ASSUMPTIONS = [
    "E15: one statement per backend; OpaqueDef / Attrs / RenameAttr re-declared with the fields in scope, RenameAttr::apply and format! unconstrained (so a symbol built from them cannot be proved equal to dtor_abi_name)",
    "that the templates print `destructor` verbatim (opaque.js.jinja / opaque.dart.jinja) and that C / C++ / Kotlin pass `dtor_abi_name.as_str()` directly into their templates is read, not proved",
]
UNVERIFIED = {"C06": ["method symbols (`abi_name`) in every backend's templates", "C / C++ / Kotlin / nanobind destructor use (direct field reads inside template structs)"]}
