"""V kotlin_callback_args: tool/src/kotlin/mod.rs gen_method, `Type::Callback` arm: the closure converting each callback argument
(`match in_param.ty { .. }`) has a `panic!("Non-primitive slices are not allowed as callback args")` arm.  Lowering allows string
slices as callback parameters (the c / cpp / nanobind backends generate them), so the arm is reachable: known finding."""
import re
from rsrc import Src, Piece, rule_panics, rule_format_msgs, match_close
from verus_engine import VerusFile, CANARY
from common import Undecided
import vhelp

NAME = "kotlin_callback_args"
ENGINE = "verus"
PROPERTIES = {"C15": "Kotlin gen_method's per-argument conversion of a callback parameter has no reachable panic for the argument types lowering allows"}
KT = "tool/src/kotlin/mod.rs"

PRELUDE = r"""
#[verifier::external_body] pub struct Rest { x: u8 }
// hir::Slice / hir::Type with the variants inspected here
pub enum Slice { Primitive(Rest, Rest), Str(Rest, Rest), Strs(Rest) }
pub enum Type { Enum(Rest), Struct(Rest), Slice(Slice), Opaque(Rest), Primitive(Rest), Other(Rest) }
pub struct CallbackParam { pub ty: Type }
#[verifier::external_body] pub struct Text { x: u8 }
impl Clone for Text { #[verifier::external_body] fn clone(&self) -> Self { unimplemented!() } }
#[verifier::external_body] pub fn __msg() -> Text { unimplemented!() }
"""


def build(tier):
    vf = VerusFile(NAME)
    kt = Src(KT)
    vf.add(vhelp.HEADER)
    vf.add(PRELUDE)
    it = kt.item("impl TyGenContext<'_,'cx>::gen_method", "fn")
    body = kt.slice(it["start"], it["end"])
    m = re.search(r"\.map\(\|\(\(in_param, in_ty\), in_name\)\| (match in_param\.ty \{)", body)
    if not m:
        raise Undecided("anchor-lost", "gen_method: `.map(|((in_param, in_ty), in_name)| match in_param.ty { .. })` not found")
    a_rel = m.start(1)
    o = body.index("{", a_rel)
    c = match_close(body, o)
    a = it["start"] + a_rel
    b = it["start"] + c + 1
    frag = {"path": it["path"] + "#callback argument closure: match in_param.ty", "kind": "stmt", "start": a, "after_attrs": a, "end": b, "loops": []}
    p = Piece(kt, frag)
    p.fn("E5", rule_panics, why="panic! site becomes an obligation")
    p.fn("E6", rule_format_msgs, why="generated Kotlin text dropped (not judged here)")
    org = {"file": KT, "item": frag["path"], "line": kt.line_of(a), "end_line": kt.line_of(b)}
    vf.add("// E15/E18: body of the closure `|((in_param, in_ty), in_name)| match in_param.ty {..}` in gen_method's Type::Callback arm\n"
           "fn kotlin_callback_arg(in_param: &CallbackParam, in_ty: &Text, in_name: &Text) -> (Text, Text)\n{\n        ", origin=org)
    vf.add(p.render(), origin=org, edits=p.log)
    vf.add("\n}\n", origin=org)
    vf.functions.append({"path": frag["path"], "file": KT, "line": kt.line_of(a), "end_line": kt.line_of(b), "engine": "verus", "mode": "verus (closure body, E15)", "bound": "none"})
    vf.expected.append("kotlin_callback_arg")
    vf.add(vhelp.FOOTER)
    return vf


ASSUMPTIONS = [
    "hir::Type / hir::Slice re-declared with the variants inspected; no precondition on the argument type: lowering (lower_callback_param, unit lower_type_gate) allows string slices as callback parameters when unsafe_references_in_callbacks is set",
]
UNVERIFIED = {"C15": ["the rest of Kotlin gen_method"]}
