"""V macro_callback_capture: macro/src/lib.rs param_conversion, the `TypeName::Function` arm: the closure the proc macro wraps around a foreign
callback (`let cb = move |args| unsafe { .. (cb.run_callback)(cb.data, ..) }`) forces the capture of the WHOLE DiplomatCallback object
(`let _ = &cb;`), for Fn and FnMut callbacks alike — with Rust 2021 disjoint captures the closure would otherwise capture only the two fields it
uses, the DiplomatCallback value would be dropped when the bridge function returns and its destructor would release the foreign callable while
the closure can still be stored and called.  Statement range `let mutability = ..` ..= `let tokens = quote! {..};` (E15), templates as tags (E6t)."""
import re
from rsrc import Src, Piece, match_close
from verus_engine import VerusFile, CANARY
from common import Undecided
import vhelp

NAME = "macro_callback_capture"
ENGINE = "verus"
PROPERTIES = {"C03": "the callback wrapper closure emitted by the macro owns the whole DiplomatCallback (destructor runs when the closure is dropped, not when the bridge call returns), for const and mut callbacks alike"}
F = "macro/src/lib.rs"

PRELUDE = r"""
#[derive(Copy, Clone, PartialEq, Eq, Structural)] pub enum Mutability { Immutable, Mutable }
pub mod ast { pub use super::Mutability; }
// E6t: the emitted tokens, by what they declare
#[derive(Copy, Clone, PartialEq, Eq, Structural)] pub enum PtrKind { Const, Mut }
pub struct Closure { pub force_capture_of_whole_object: bool, pub data_ptr: PtrKind }
"""

CLOSURE_TEMPLATE = ("let #cb_wrap_ident = move | #(#cb_params_and_types_list,)* | unsafe { #(#all_params_conversion)* let _ = &#cb_wrap_ident; "
                    "std::mem::transmute::<unsafe extern \"C\" fn (*mut c_void, ...) -> #cb_ret_type, unsafe extern \"C\" fn (*#mutability c_void, #(#cb_arg_type_list,)*) -> #cb_ret_type> "
                    "(#cb_wrap_ident.run_callback)(#cb_wrap_ident.data, #(#cb_param_list,)*) };")


def norm(t):
    t = re.sub(r"//[^\n]*", "", t)
    return re.sub(r"\s+", " ", t).strip()


def build(tier):
    vf = VerusFile(NAME)
    src = Src(F)
    vf.add(vhelp.HEADER)
    vf.add(PRELUDE)
    it = src.item("param_conversion", "fn")
    body = src.slice(it["start"], it["end"])
    m1 = re.search(r"let mutability = match mutability \{", body)
    m2 = re.search(r"let tokens = quote!\s*\{", body)
    if not m1 or not m2 or m2.start() < m1.start():
        raise Undecided("anchor-lost", "param_conversion: `let mutability = match mutability {` ..= `let tokens = quote! {..};` not found")
    c = match_close(body, m2.end() - 1)
    if body[c + 1] != ";":
        raise Undecided("anchor-lost", "param_conversion: end of `let tokens = quote! {..};` not found")
    a, b = it["start"] + m1.start(), it["start"] + c + 2
    text = src.slice(a, b)
    tmpl = norm(body[m2.end():c])
    if tmpl != norm(CLOSURE_TEMPLATE):
        raise Undecided("edit-mismatch", "E6t: the closure token template of param_conversion is not the known one (its meaning is keyed on the exact text)")
    frag = {"path": it["path"] + "#TypeName::Function arm: stmts(let mutability ..= let tokens)", "kind": "stmt", "start": a, "after_attrs": a, "end": b, "loops": []}
    org = {"file": F, "item": frag["path"], "line": src.line_of(a), "end_line": src.line_of(b)}
    p = Piece(src, frag)
    p.sub("E6t", r"quote!\(const\)", "PtrKind::Const", count=1, why="`const` token -> tag")
    p.sub("E6t", r"quote!\(mut\)", "PtrKind::Mut", count=1, why="`mut` token -> tag")
    p.replace("E6t", it["start"] + m2.start(), it["start"] + c + 2,
              "let tokens = Closure { force_capture_of_whole_object: true, data_ptr: mutability };",
              "the closure template (exact text, see CLOSURE_TEMPLATE) -> what it declares: contains `let _ = &#cb_wrap_ident;`, data pointer kind = #mutability")
    vf.add("// E15: the statements of param_conversion's Function arm that assemble the wrapper closure\n"
           "fn macro_callback_closure(mutability: &Mutability) -> (tokens: Closure)\n"
           f"    ensures {CANARY}\n"
           "        tokens.force_capture_of_whole_object,\n"
           "        tokens.data_ptr == (match *mutability { Mutability::Immutable => PtrKind::Const, Mutability::Mutable => PtrKind::Mut }),\n{\n    ", origin=org)
    vf.add(p.render(), origin=org, edits=p.log)
    vf.add("\n    tokens\n}\n", origin=org)
    vf.functions.append({"path": frag["path"], "file": F, "line": src.line_of(a), "end_line": src.line_of(b), "engine": "verus", "mode": "verus (statement range, E15/E6t)", "bound": "none"})
    vf.expected.append("macro_callback_closure")
    vf.add(vhelp.FOOTER)
    return vf


CANARY_FUNCTIONS = ["macro_callback_closure"]
ASSUMPTIONS = [
    "E6t: the closure template is compared (comments and whitespace normalised) with the one known text; its tag says what that text declares; any other text makes the unit undecided",
    "Rust 2021 closure capture rules and Drop for DiplomatCallback (unit callback_drop) give the tag its meaning",
]
UNVERIFIED = {"C03": ["rustc's capture analysis itself"]}
