"""V macro_symbol_export: macro/src/lib.rs — the identifiers of the `extern "C"` functions the proc macro emits are the AST's
`abi_name` (methods, gen_custom_type_method) and `dtor_abi_name` (opaque destructors, gen_bridge): the same two fields every backend
reads through the HIR (units method_symbol_use / dtor_symbol_use), so exported and referenced symbols coincide."""
import re
from rsrc import Src, Piece
from verus_engine import VerusFile, CANARY
from common import Undecided
import vhelp

NAME = "macro_symbol_export"
ENGINE = "verus"
PROPERTIES = {"C06": "the extern \"C\" function the macro exports for a method / destructor is named exactly ast::Method::abi_name / OpaqueType::dtor_abi_name"}
F = "macro/src/lib.rs"

PRELUDE = r"""
#[verifier::external_body] pub struct AstIdent { x: u8 }
impl AstIdent {
    pub uninterp spec fn view(&self) -> Seq<char>;
    #[verifier::external_body] pub fn as_str(&self) -> (r: &str) ensures r@ == self@ { unimplemented!() }
}
#[verifier::external_body] pub struct Span { x: u8 }
impl Span { #[verifier::external_body] pub fn call_site() -> Span { unimplemented!() } }
// proc_macro2::Ident::new(text, span): an identifier with that text
#[verifier::external_body] pub struct Ident { x: u8 }
impl Ident {
    pub uninterp spec fn view(&self) -> Seq<char>;
    #[verifier::external_body] pub fn new(s: &str, span: Span) -> (r: Ident) ensures r@ == s@ { unimplemented!() }
}
#[verifier::external_body] pub fn __fmt() -> String { unimplemented!() }  // any format!(..) text: unconstrained
pub struct Method { pub name: AstIdent, pub abi_name: AstIdent }
pub struct OpaqueType { pub name: AstIdent, pub dtor_abi_name: AstIdent }
"""


def build(tier):
    vf = VerusFile(NAME)
    src = Src(F)
    vf.add(vhelp.HEADER)
    vf.add(PRELUDE)
    sites = [("gen_custom_type_method", r"let extern_ident\s*=", "extern_ident", "m: &Method", "m.abi_name@", "macro_method_symbol"),
             ("gen_bridge", r"let destroy_ident\s*=", "destroy_ident", "opaque: &OpaqueType", "opaque.dtor_abi_name@", "macro_destructor_symbol")]
    for (fn, pat, var, params, want, name) in sites:
        it = src.item(fn, "fn")
        body = src.slice(it["start"], it["end"])
        m = re.search(pat + r"[^;]*;", body)
        if not m:
            raise Undecided("anchor-lost", f"{fn}: statement `{pat}` not found")
        a, b = it["start"] + m.start(), it["start"] + m.end()
        frag = {"path": it["path"] + f"#let {var}", "kind": "stmt", "start": a, "after_attrs": a, "end": b, "loops": []}
        org = {"file": F, "item": frag["path"], "line": src.line_of(a), "end_line": src.line_of(b)}
        p = Piece(src, frag)
        p.sub("E6", r'&?format!\((?:[^()]|\([^()]*\))*\)', "&__fmt()", count=None, why="any text assembled with format! is opaque")
        vf.add(f"// E15: the statement of {fn} that names the exported function\n"
               f"fn {name}({params}) -> (r: Ident)\n    ensures {CANARY} r@ == {want},\n{{\n    ", origin=org)
        vf.add(p.render(), origin=org, edits=p.log)
        vf.add(f"\n    {var}\n}}\n", origin=org)
        vf.functions.append({"path": frag["path"], "file": F, "line": src.line_of(a), "end_line": src.line_of(b), "engine": "verus", "mode": "verus (statement fragment, E15)", "bound": "none"})
        vf.expected.append(name)
    vf.add(vhelp.FOOTER)
    return vf


CANARY_FUNCTIONS = ["macro_method_symbol", "macro_destructor_symbol"]
ASSUMPTIONS = [
    "E15: one statement each; Ident::new(text, span) yields an identifier with that text (proc_macro2); that `#extern_ident` / `#destroy_ident` is the name in the emitted `extern \"C\" fn` item is read from the quote! templates following the statements",
    "ast -> hir lowering copies abi_name unchanged: unit lower_method_gate (lower_method / lower_opaque postconditions)",
]
UNVERIFIED = {"C06": ["the quote! templates (read)"]}
