"""V enum_discriminants: ast::Enum::new assigns every variant the discriminant rustc assigns (explicit literal, or previous + 1,
starting at 0)."""
import re
from rsrc import Src, Piece, rule_panics, match_close
from verus_engine import VerusFile, CANARY
from common import Undecided
import vhelp

NAME = "enum_discriminants"
ENGINE = "verus"
PROPERTIES = {"C11": "the numeric value recorded for each enum variant (and printed by every backend) equals the discriminant rustc assigns",
              "C01": "enum values seen by C are the ones the proc macro's #[repr(C)] enum compiled"}
F = "core/src/ast/enums.rs"

PRELUDE = r"""
global size_of usize == 8;
// ---- syn items read by Enum::new, re-declared with the fields it uses (Punctuated -> Vec: only iteration is used)
pub mod syn {
    use vstd::prelude::*;
    #[verifier::external_body] pub struct Ident { x: u8 }
    #[verifier::external_body] pub struct Attribute { x: u8 }
    #[verifier::external_body] pub struct GenericParam { x: u8 }
    #[verifier::external_body] pub struct Expr { x: u8 }
    #[verifier::external_body] pub struct EqToken { x: u8 }
    pub struct Generics { pub params: Vec<GenericParam> }
    pub enum Fields { Named, Unnamed, Unit }
    pub struct Variant { pub attrs: Vec<Attribute>, pub ident: Ident, pub fields: Fields, pub discriminant: Option<(EqToken, Expr)> }
    pub struct ItemEnum { pub attrs: Vec<Attribute>, pub ident: Ident, pub generics: Generics, pub variants: Vec<Variant> }
}
#[verifier::external_body] pub struct Ident { x: u8 }
impl From<&syn::Ident> for Ident { #[verifier::external_body] fn from(i: &syn::Ident) -> Ident { unimplemented!() } }
#[verifier::external_body] pub struct Docs { x: u8 }
impl Docs { #[verifier::external_body] pub fn from_attrs(attrs: &Vec<syn::Attribute>) -> Docs { unimplemented!() } }
#[verifier::external_body] pub struct Method { x: u8 }
#[derive(Copy, Clone)] pub enum AttrInheritContext { Variant, Type }
#[verifier::external_body] pub struct Attrs { x: u8 }
impl Clone for Attrs { #[verifier::external_body] fn clone(&self) -> (r: Self) ensures r == *self { unimplemented!() } }
impl Attrs {
    #[verifier::external_body] pub fn add_attrs(&mut self, attrs: &Vec<syn::Attribute>) { unimplemented!() }
    #[verifier::external_body] pub fn attrs_for_inheritance(&self, context: AttrInheritContext) -> Attrs { unimplemented!() }
}

// the value of an explicit discriminant expression (re-parsed by syn as a signed integer literal): abstract
pub uninterp spec fn explicit_value(d: syn::Expr) -> isize;
pub uninterp spec fn is_int_literal(d: syn::Expr) -> bool;
#[verifier::external_body]
pub fn __parse_discriminant(d: &(syn::EqToken, syn::Expr)) -> (r: isize)
    requires is_int_literal(d.1),
    ensures r == explicit_value(d.1)
{ unimplemented!() }

// ---- oracle (Rust reference, "Enumerations / Implicit discriminants"): an explicit discriminant is its literal;
// otherwise one more than the previous variant's; the first implicit one is 0
pub open spec fn disc(vs: Seq<syn::Variant>, j: int) -> int
    decreases j
{
    if j < 0 { -1 } else {
        match vs[j].discriminant {
            Some(d) => explicit_value(d.1) as int,
            None => if j == 0 { 0 } else { disc(vs, j - 1) + 1 },
        }
    }
}
pub open spec fn accepted_enum(enm: &syn::ItemEnum) -> bool {
    // documented rejections (panic!): generics, variants with fields, non-literal discriminants; rustc rejects overflow
    &&& enm.generics.params@.len() == 0
    &&& forall|j: int| 0 <= j < enm.variants@.len() ==> (#[trigger] enm.variants@[j]).fields is Unit
    &&& forall|j: int| 0 <= j < enm.variants@.len() && enm.variants@[j].discriminant is Some ==> is_int_literal((#[trigger] enm.variants@[j]).discriminant.unwrap().1)
    // the property quantifies over discriminants within i32 (a #[repr(C)] enum is a C int); isize arithmetic on them cannot overflow
    &&& forall|j: int| 0 <= j < enm.variants@.len() ==> i32::MIN <= #[trigger] disc(enm.variants@, j) <= i32::MAX
}
"""

CONTRACT = f"""        requires accepted_enum(enm),
        ensures {CANARY}
            r.variants@.len() == enm.variants@.len(),
            forall|j: int| 0 <= j < r.variants@.len() ==> (#[trigger] r.variants@[j]).1 == disc(enm.variants@, j),"""

LOOP = """{{
                // E7: `{recv}.iter().map(|v| {{ BODY }}).collect()` desugared to for/push (A-iter); BODY verbatim as a block
                let mut out__: Vec<(Ident, isize, Docs, Attrs)> = Vec::new();
                for v in it__: {recv}.iter()
                    invariant
                        accepted_enum(enm),
                        out__@.len() == it__.index@,
                        forall|j: int| 0 <= j < it__.index@ ==> (#[trigger] out__@[j]).1 == disc(enm.variants@, j),
                        @STATE_INV@,
                {{
                    proof {{
                        assert(v == enm.variants@[it__.index@]);
                        assert(disc(enm.variants@, it__.index@ as int) == match enm.variants@[it__.index@ as int].discriminant {{
                            Some(d) => explicit_value(d.1) as int, None => if it__.index@ == 0 {{ 0 }} else {{ disc(enm.variants@, it__.index@ - 1) + 1 }} }});
                    }}
                    let item__ = {body};
                    out__.push(item__);
                }}
                out__
            }}"""


def e7_map_collect(text):
    m = re.search(r"(\w+)\s*\.variants\s*\.iter\(\)\s*\.map\(\|v\| ", text)
    if not m:
        raise Undecided("edit-mismatch", "E7: `enm.variants.iter().map(|v| {..}).collect()` not found")
    b0 = text.index("{", m.end() - 1)
    b1 = match_close(text, b0)
    rest = text[b1 + 1:]
    m2 = re.match(r"\)\s*\.collect\(\)", rest)
    if not m2:
        raise Undecided("edit-mismatch", "E7: closure is not followed by `).collect()`")
    new = LOOP.format(recv=m.group(1) + ".variants", body=text[b0:b1 + 1])
    end = b1 + 1 + m2.end()
    return text[:m.start()] + new + text[end:], [(text[m.start():m.start() + 60] + " ... .collect()", "for v in it__: ... { let item__ = { BODY }; out__.push(item__); }")]


def e10_discriminant(text):
    """`v.discriminant.as_ref().map(|d| { syn re-parse }).unwrap_or_else(|| E)` -> match; the syn re-parse is abstract."""
    m = re.search(r"v\s*\.discriminant\s*\.as_ref\(\)\s*\.map\(\|d\| ", text)
    if not m:
        raise Undecided("edit-mismatch", "E10: `v.discriminant.as_ref().map(|d| ..)` not found")
    b0 = text.index("{", m.end() - 1)
    b1 = match_close(text, b0)
    rest = text[b1 + 1:]
    m2 = re.match(r"\)\s*\.unwrap_or_else\(\|\| ", rest) or re.match(r"\)\s*\.unwrap_or\(", rest)
    if not m2:
        raise Undecided("edit-mismatch", "E10: `.unwrap_or_else(|| ..)` / `.unwrap_or(..)` not found after the map")
    e0 = b1 + 1 + m2.end()
    # closing paren of unwrap_or_else(
    po = text.rfind("(", 0, e0)
    pc = match_close(text, po)
    dflt = text[e0:pc]
    new = f"(match v.discriminant.as_ref() {{ Some(d) => __parse_discriminant(d), None => {dflt} }})"
    return text[:m.start()] + new + text[pc + 1:], [(text[m.start():pc + 1][:200], new)]


def build(tier):
    vf = VerusFile(NAME)
    src = Src(F)
    vf.add(vhelp.HEADER)
    vf.add(PRELUDE)
    vhelp.typedef(vf, src, "Enum", "struct")
    vf.add("impl Enum {\n")
    it = src.item("impl Enum::new", "fn")
    p = Piece(src, it)
    p.expect_loops(0)
    p.contract(CONTRACT, ret_name="r")
    p.fn("E10", e10_discriminant, why="Option::map/unwrap_or_else unfolded; syn literal re-parsing abstracted (explicit_value)")
    p.fn("E7", e7_map_collect, why="iterator map/collect with a mutable capture desugared to for/push")
    p.fn("E5", rule_panics, why="documented rejections become unreachable under `accepted_enum`")
    # the running state of the numbering: one `let mut NAME = -1;` ("the previous variant's value") or `let mut NAME = 0;` ("the next implicit value").
    # The invariant is phrased over the oracle, the local's name is read from the code (a renamed local is not an alarm and not an anchor loss)
    body = src.slice(it["start"], it["end"])
    ms = re.findall(r"let mut (\w+) = (-1|0);", body)
    if len(ms) != 1:
        raise Undecided("anchor-lost", f"Enum::new: expected one running-state local `let mut NAME = -1;` or `= 0;`, found {ms}")
    sname, init = ms[0]
    state_inv = f"{sname} == disc(enm.variants@, it__.index@ - 1)" + (" + 1" if init == "0" else "")
    p.sub("E4", r"@STATE_INV@", state_inv, count=1, why="loop invariant: the running-state local against the oracle")
    p.sub("E3", rf"let mut {sname} = {init};", f"let mut {sname}: isize = {init};", count=1, why="inferred integer type written out")
    vf.add_piece(p, expected="new")
    vf.add("}\n")
    vf.add(vhelp.FOOTER)
    return vf


CANARY_FUNCTIONS = ["new"]
ASSUMPTIONS = [
    "syn::ItemEnum/Variant/Fields re-declared with the fields Enum::new reads; Punctuated<Variant, _> as Vec<Variant> (iteration order = declaration order)",
    "the re-parse of an explicit discriminant (syn::parse2 + base10_parse::<isize>) is abstract: explicit_value(expr)",
    "documented rejections as preconditions: no generics, unit variants only, integer-literal discriminants, every discriminant within i32 (the property's domain; a #[repr(C)] enum is a C int)",
    "A-iter (E7), E10; Attrs/Docs/Ident conversions opaque",
]
UNVERIFIED = {
    "C11": ["per-backend printing of the discriminant (templates)", "syn literal parsing"],
    "C01": [],
}
