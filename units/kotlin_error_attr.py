"""V kotlin_error_attr: tool/src/kotlin/mod.rs gen_return_conversion, the closure that converts the error payload of a fallible
method: it `panic!`s when the error type (opaque / struct / out-struct / enum) does not carry the `error` attribute.  A module
with such a method passes lowering and validation for Kotlin, so the panic is reachable (known finding): the requirement is
reported by crashing instead of through the backend's diagnostics list."""
import re
from rsrc import Src, Piece, rule_panics, match_close
from verus_engine import VerusFile, CANARY
from common import Undecided
import vhelp

NAME = "kotlin_error_attr"
ENGINE = "verus"
PROPERTIES = {"C15": "Kotlin return conversion: the `must have the `error` attribute` panic! sites are reachable for modules lowering accepts (known finding)"}
KT = "tool/src/kotlin/mod.rs"

PRELUDE = r"""
#[derive(Copy, Clone, PartialEq, Eq, Structural)] pub struct OpaqueId(pub usize);
#[derive(Copy, Clone, PartialEq, Eq, Structural)] pub struct StructId(pub usize);
#[derive(Copy, Clone, PartialEq, Eq, Structural)] pub struct OutStructId(pub usize);
#[verifier::external_body] pub struct IdentBuf { x: u8 }
pub struct Attrs { pub custom_errors: bool }
pub struct Def { pub attrs: Attrs, pub name: IdentBuf }
pub struct OpaquePath { pub tcx_id: OpaqueId, pub other: u8 }
pub struct StructPath { pub tcx_id: StructId }
pub struct OutStructPath { pub tcx_id: OutStructId }
pub enum ReturnableStructPath { Struct(StructPath), OutStruct(OutStructPath) }
#[verifier::external_body] pub struct EnumPath { x: u8 }
#[verifier::external_body] pub struct TypeContext { x: u8 }
// the `error` attribute of the definition a path resolves to: an arbitrary fact about the module (nothing in lowering / validation demands it)
pub uninterp spec fn opaque_def(tcx: &TypeContext, id: OpaqueId) -> Def;
pub uninterp spec fn struct_def(tcx: &TypeContext, id: StructId) -> Def;
pub uninterp spec fn out_struct_def(tcx: &TypeContext, id: OutStructId) -> Def;
pub uninterp spec fn enum_def(tcx: &TypeContext, p: &EnumPath) -> Def;
impl TypeContext {
    #[verifier::external_body] pub fn resolve_opaque(&self, id: OpaqueId) -> (r: &Def) ensures *r == opaque_def(self, id) { unimplemented!() }
    #[verifier::external_body] pub fn resolve_struct(&self, id: StructId) -> (r: &Def) ensures *r == struct_def(self, id) { unimplemented!() }
    #[verifier::external_body] pub fn resolve_out_struct(&self, id: OutStructId) -> (r: &Def) ensures *r == out_struct_def(self, id) { unimplemented!() }
}
impl EnumPath { #[verifier::external_body] pub fn resolve<'a>(&self, tcx: &'a TypeContext) -> (r: &'a Def) ensures *r == enum_def(tcx, self) { unimplemented!() } }
// hir::OutType with the variants inspected here
pub enum Type { Opaque(OpaquePath), Struct(ReturnableStructPath), Enum(EnumPath), Primitive(u8), Slice(u8), Other(u8) }
pub use Type as OutType;
pub struct TyGenContext<'cx> { pub tcx: &'cx TypeContext }
"""


def build(tier):
    vf = VerusFile(NAME)
    kt = Src(KT)
    vf.add(vhelp.HEADER)
    vf.add(PRELUDE)
    it = kt.item("impl TyGenContext<'_,'cx>::gen_return_conversion", "fn")
    body = kt.slice(it["start"], it["end"])
    m = re.search(r"\.map\(\|err\| \{\s*(match err \{)", body)
    if not m:
        raise Undecided("anchor-lost", "gen_return_conversion: `.map(|err| { match err { .. } ..` not found")
    a_rel = m.start(1)
    o = body.index("{", a_rel)
    c = match_close(body, o)
    a = it["start"] + a_rel
    b = it["start"] + c + 1
    frag = {"path": it["path"] + "#error-payload closure: match err", "kind": "stmt", "start": a, "after_attrs": a, "end": b, "loops": []}
    p = Piece(kt, frag)
    p.fn("E5", rule_panics, why="panic! sites become obligations (message arguments dropped)")
    org = {"file": KT, "item": frag["path"], "line": kt.line_of(a), "end_line": kt.line_of(b)}
    vf.add("impl<'cx> TyGenContext<'cx> {\n    // E15/E18: first statement of the closure `|err| {..}` that converts the error payload in gen_return_conversion\n"
           "    fn kotlin_error_payload_check(&self, err: &OutType)\n    {\n        ", origin=org)
    vf.add(p.render(), origin=org, edits=p.log)
    vf.add("\n    }\n}\n", origin=org)
    vf.functions.append({"path": frag["path"], "file": KT, "line": kt.line_of(a), "end_line": kt.line_of(b), "engine": "verus", "mode": "verus (statement fragment, E15)", "bound": "none"})
    vf.expected.append("kotlin_error_payload_check")
    vf.add(vhelp.FOOTER)
    return vf


ASSUMPTIONS = [
    "hir::OutType / paths / definitions re-declared with the fields read here; TypeContext::resolve_* abstract (a function of the id)",
    "no precondition: whether a type carries `#[diplomat::attr(.., error)]` is not constrained by lowering or validation (read from hir/attrs.rs validate: custom_errors is only checked to sit on a type)",
]
UNVERIFIED = {"C15": ["the rest of Kotlin gen_return_conversion"]}
