"""V rename_pattern: core/src/ast/attrs.rs `impl FromStr for RenamePattern::from_str` and `RenameAttr::apply` — the string half of
abi_rename: a pattern is split at its FIRST `{0}`, and applying it yields prefix + name + suffix exactly once (with the
placeholder) or the replacement alone (without), and the name unchanged when no pattern is set.  Rust `str` operations are mapped
one-for-one onto a byte-sequence string model (E3s) whose specs are std's documented behaviour."""
import re
from rsrc import Src, Piece
from verus_engine import VerusFile, CANARY
from common import Undecided
import vhelp
import os
from common import VERIF, read

NAME = "rename_pattern"
ENGINE = "verus"
PROPERTIES = {"C06": "abi_rename application: with `{0}` the symbol is pattern-prefix + Type_method + pattern-suffix (inserted exactly once, at the first placeholder), without it the symbol is the replacement, with no pattern the name is unchanged; slicing never panics"}
F = "core/src/ast/attrs.rs"

PRELUDE_TAIL = r"""
#[verifier::external_body] pub struct Infallible { x: u8 } // std::convert::Infallible (uninhabited; only named in the return type)
"""


SPEC = r"""
// ---- oracle, from the property statement / the documentation of abi_rename ("icu4x_{0}": up to one {0} for replacement)
pub open spec fn first_placeholder(s: Seq<u8>) -> Option<int> {
    if exists|i: int| occurs_at(s, placeholder(), i) {
        Some(choose|i: int| occurs_at(s, placeholder(), i) && forall|j: int| 0 <= j < i ==> !occurs_at(s, placeholder(), j))
    } else { None }
}
pub open spec fn pattern_wf(p: RenamePattern) -> bool {
    match p.insertion_index { Some(i) => i <= p.replacement@.len(), None => true }
}
// what applying the WRITTEN pattern text `s` to `name` must give
pub open spec fn renamed(s: Seq<u8>, i: Option<int>, name: Seq<u8>) -> Seq<u8> {
    match i { Some(i) => s.subrange(0, i) + name + s.subrange(i + 3, s.len() as int), None => s }
}
pub open spec fn spec_apply(a: RenameAttr, name: Seq<u8>) -> Seq<u8> {
    match a.pattern {
        None => name,
        Some(p) => match p.insertion_index {
            Some(i) => p.replacement@.subrange(0, i as int) + name + p.replacement@.subrange(i as int, p.replacement@.len() as int),
            None => p.replacement@,
        },
    }
}
// a parsed pattern stands for the written text: index of the first placeholder, replacement = text without it
pub open spec fn parsed_from(p: RenamePattern, s: Seq<u8>) -> bool {
    &&& pattern_wf(p)
    &&& match p.insertion_index {
        Some(i) => occurs_at(s, placeholder(), i as int) && (forall|j: int| 0 <= j < i ==> !occurs_at(s, placeholder(), j))
                   && p.replacement@ =~= s.subrange(0, i as int) + s.subrange(i + 3, s.len() as int),
        None => (forall|j: int| !occurs_at(s, placeholder(), j)) && p.replacement@ =~= s,
    }
}
// composition: parse-then-apply == textual substitution of the first `{0}` by the name (or the text itself when there is none)
pub proof fn lemma_parse_apply(p: RenamePattern, s: Seq<u8>, name: Seq<u8>)
    requires parsed_from(p, s),
    ensures spec_apply(RenameAttr { pattern: Some(p) }, name) =~= renamed(s, match p.insertion_index { Some(i) => Some(i as int), None => None }, name),
{
    match p.insertion_index {
        Some(i) => {
            let r = p.replacement@;
            assert(r.subrange(0, i as int) =~= s.subrange(0, i as int));
            assert(r.subrange(i as int, r.len() as int) =~= s.subrange(i + 3, s.len() as int));
        }
        None => {}
    }
}
"""

FMT = re.compile(r'format!\(\s*"((?:\{\w*\})+)"\s*((?:,\s*[^,()]+(?:\([^()]*\))?[^,()]*)*),?\s*\)')


def e6_format():
    """format! whose template consists of placeholders only -> Str::concatN of the arguments in template order"""
    def one(m):
        holes = re.findall(r"\{(\w*)\}", m.group(1))
        args = [a.strip() for a in m.group(2).split(",") if a.strip()]
        out, k = [], 0
        for h in holes:
            if h == "":
                if k >= len(args):
                    raise Undecided("unsupported", "format!: fewer arguments than placeholders")
                out.append(args[k]); k += 1
            elif h.isdigit():
                out.append(args[int(h)])
            else:
                out.append(h)
        if len(out) not in (2, 3):
            raise Undecided("unsupported", f"format! with {len(out)} placeholders")
        return f"Str::concat{len(out)}(" + ", ".join(out) + ")"
    return one


def str_edits(p):
    p.sub("E3s", r"&(\w+)\[\.\.(\w+)\]", r"\1.slice_to(\2)", count=None, why="&s[..i] -> slice_to(i) (panics beyond the length: precondition)")
    p.sub("E3s", r"&(\w+)\[(\w+(?: \+ \d+)?)\.\.\]", r"\1.slice_from(\2)", count=None, why="&s[i..] -> slice_from(i)")
    p.sub("E3s", FMT.pattern, e6_format(), count="+", why="format! of placeholders only -> concatenation of the arguments in template order")
    p.sub("E3s", r'\.find\("\{0\}"\)', ".find_placeholder()", count=None, why='str::find("{0}") -> first occurrence of the three bytes')
    p.sub("E3s", r"(Str::concat\d\((?:[^()]|\([^()]*\))*\))\.into\(\)", r"\1", count=None, why="String -> Cow conversion keeps the text")
    p.sub("E3s", r"\b(replacement|s)\.into\(\)", r"\1.conv()", count=None, why="&str/&String -> String/Cow conversion keeps the text")


def build(tier):
    vf = VerusFile(NAME)
    src = Src(F)
    vf.add(vhelp.HEADER)
    vf.add(read(os.path.join(VERIF, "units", "prelude", "str_model.rs")))
    vf.add(PRELUDE_TAIL)
    vhelp.typedef(vf, src, "RenamePattern", "struct", subs=[("E1", r"\n    (replacement|insertion_index):", r"\n    pub \1:"),
                                                            ("E3s", r"replacement: String", "replacement: Str")])
    vhelp.typedef(vf, src, "RenameAttr", "struct", subs=[("E1", r"\n    pattern:", r"\n    pub pattern:")])
    vf.add(SPEC)
    vf.add("impl RenamePattern {\n")
    p = Piece(src, src.item("impl FromStr for RenamePattern::from_str", "fn"))
    p.sub("E3s", r"fn from_str\(s: &str\)", "pub fn from_str(s: Str)", count=1, why="&str -> Str; trait impl method verified as inherent function")
    str_edits(p)
    p.contract(f"""        ensures {CANARY}
            r is Ok, parsed_from(r->Ok_0, s@),""", ret_name="r")
    vf.add_piece(p, expected="from_str")
    vf.add("}\nimpl RenameAttr {\n")
    p = Piece(src, src.item("impl RenameAttr::apply", "fn"))
    p.sub("E3s", r"apply<'a>\(&'a self, name: Cow<'a, str>\) -> \(r: Cow<'a, str>\)", "apply(&self, name: Str) -> (r: Str)", count=1, why="Cow<str> -> Str")
    str_edits(p)
    p.contract(f"""        requires match self.pattern {{ Some(p) => pattern_wf(p), None => true }},
        ensures {CANARY}
            r@ =~= spec_apply(*self, name@),""", ret_name="r")
    vf.add_piece(p, expected="apply")
    vf.add("}\n")
    vf.add(vhelp.FOOTER)
    return vf


CANARY_FUNCTIONS = ["from_str", "apply"]
ASSUMPTIONS = [
    "E3s: &str / String / Cow<str> are one value type `Str` viewed as its byte sequence; str::find, slicing, split_at, starts_with, ends_with, is_empty, From conversions and placeholder-only format! are given std's documented behaviour as trusted specs (UTF-8 char-boundary panics of slicing are not modelled: `{0}` is ASCII, so both cut points are boundaries)",
    "RenameAttr::apply assumes the pattern invariant insertion_index <= replacement.len(); from_str is proved to establish it and RenamePattern's fields are private to attrs.rs (no other constructor: read)",
    "`impl FromStr for RenamePattern::from_str` is verified as an inherent function (trait dispatch from str::parse is not modelled; unit attr_inherit keeps parse abstract)",
]
UNVERIFIED = {"C06": ["that every symbol goes through apply exactly once is units method_abi_name / opaque_dtor / dtor_symbol_use"]}
