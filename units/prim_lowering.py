"""K prim_lowering: hir::PrimitiveType::from_ast preserves the meaning of every AST primitive."""
from kunit import define
F = "core/src/hir/primitives.rs"
E = [("from_ast_preserves_meaning", "for all 17 AST primitives: hir::PrimitiveType::from_ast(p) has the same width, signedness and kind (so the backends' tables are indexed by the type the macro compiled)",
      [(F, "impl PrimitiveType::from_ast")], 2, ["C01", "C07"], "complete", "none (finite domain)")]
define(globals(), "prim_lowering", "core", F, "verif_prim_lowering", "prim_lowering.rs",
       {"C01": "the C backend renders the primitive the macro compiled", "C07": "Dart/Kotlin tables are indexed by the primitive the macro compiled"},
       E, lambda tier: {}, [], {"C01": [], "C07": []}, features="hir")
