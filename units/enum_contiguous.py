"""V enum_contiguous: the `index` shortcut for enum conversion is taken only when every variant's value equals its index
(Dart is_contiguous_enum, JS gen_enum's is_contiguous)."""
import re
from rsrc import Src, Piece
from verus_engine import VerusFile, CANARY
from common import Undecided
import vhelp

NAME = "enum_contiguous"
ENGINE = "verus"
PROPERTIES = {"C11": "Dart, JS and Kotlin use variant index as the numeric value only when index == discriminant for every variant; Kotlin's non-contiguous table carries each variant's discriminant"}
KT = "tool/src/kotlin/mod.rs"
DART = "tool/src/dart/mod.rs"
JS = "tool/src/js/gen.rs"
DEFS = "core/src/hir/defs.rs"

PRELUDE = r"""
global size_of usize == 8;
#[verifier::external_body] pub struct Docs { x: u8 }
#[verifier::external_body] pub struct IdentBuf { x: u8 }
#[verifier::external_body] pub struct Attrs { x: u8 }
#[verifier::external_body] pub struct Method { x: u8 }
#[verifier::external_body] pub struct SpecialMethodPresence { x: u8 }
pub mod hir { pub use super::EnumDef; pub use super::EnumVariant; }
// std integer helpers without a vstd specification
pub assume_specification[isize::unsigned_abs](x: isize) -> (r: usize) ensures r as int == (if x < 0 { -(x as int) } else { x as int });
"""
SPEC = r"""
// oracle (property statement): value of variant j in the binding == its Rust discriminant, so the index may stand in for the
// value only if discriminant(j) == j for all j
pub open spec fn contiguous(e: &EnumDef) -> bool {
    forall|j: int| 0 <= j < e.variants@.len() ==> (#[trigger] e.variants@[j]).discriminant == j
}
"""

E7_TEMPLATE = """{{
        // E7: `{recv}.variants.iter().enumerate().all(|(i, v)| P)` desugared (std-documented meaning of Iterator::all, P side-effect free)
        let mut all__ = true;
        let mut i: usize = 0;
        while i < {recv}.variants.len()
            invariant 0 <= i <= {recv}.variants@.len(), {recv}.variants@.len() <= 0x7fff_ffff_ffff_ffff,
                all__ == (forall|j: int| 0 <= j < i ==> (#[trigger] {recv}.variants@[j]).discriminant == j),
            decreases {recv}.variants@.len() - i,
        {{
            let v = &{recv}.variants[i];
            if !({pred}) {{
                all__ = false;
            }}
            i += 1;
        }}
        all__
    }}"""


KT_PRELUDE = r"""
// ---- Kotlin: EnumVariants::new folds the variants with a step closure; E3: Cow<'d, str> carried opaquely
#[verifier::external_body] pub struct CowStr { x: u8 }
pub uninterp spec fn name_of(v: &EnumVariant) -> CowStr;
#[verifier::external_body] pub fn __name_of(v: &EnumVariant) -> (r: CowStr) ensures r == name_of(v) { unimplemented!() }
// E7: `vec.into_iter().enumerate().map(|(index, name)| NonContiguousEnumVariant { name, index: index as i32 }).chain(once(X)).collect()`
// (std-documented meaning: the old names renumbered by position, then X appended)
#[verifier::external_body]
pub fn __renumber_then_push(vec: Vec<CowStr>, x: NonContiguousEnumVariant) -> (r: Vec<NonContiguousEnumVariant>)
    ensures r@.len() == vec@.len() + 1, r@[vec@.len() as int] == x,
        forall|k: int| 0 <= k < vec@.len() ==> (#[trigger] r@[k]).index == k as i32 && r@[k].name == vec@[k],
{ unimplemented!() }
"""
KT_SPEC = r"""
// oracle: after folding the first n variants, the state is Contiguous iff discriminant(k) == k for all k < n (then it lists the
// names in order); otherwise it lists (name, discriminant) for every one of the n variants
pub open spec fn prefix_contiguous(e: &EnumDef, n: int) -> bool {
    forall|j: int| 0 <= j < n ==> (#[trigger] e.variants@[j]).discriminant == j
}
pub open spec fn state_ok(s: EnumVariants, e: &EnumDef, n: int) -> bool {
    match s {
        EnumVariants::Contiguous(vec) => prefix_contiguous(e, n) && vec@.len() == n && forall|k: int| 0 <= k < n ==> #[trigger] vec@[k] == name_of(&e.variants@[k]),
        EnumVariants::NonContiguous(vec) => !prefix_contiguous(e, n) && vec@.len() == n
            && forall|k: int| 0 <= k < n ==> (#[trigger] vec@[k]).index == e.variants@[k].discriminant as i32 && vec@[k].name == name_of(&e.variants@[k]),
    }
}
"""


def build_kotlin(vf):
    kt = Src(KT)
    base = "impl TyGenContext<'_,'cx>::fn gen_enum_def::"
    vf.add(KT_PRELUDE)
    sub = [("E3", r"Cow<'d, str>", "CowStr")]
    vhelp.typedef(vf, kt, base + "NonContiguousEnumVariant", "struct", subs=sub + [("E12", r"<'d>", ""), ("E1", r"(?m)^(\s+)(index|name):", r"\1pub \2:")])
    vhelp.typedef(vf, kt, base + "EnumVariants", "enum", subs=sub + [("E12", r"NonContiguousEnumVariant<'d>", "NonContiguousEnumVariant"), ("E12", r"<'d>", "")])
    vf.add(KT_SPEC)
    it = kt.item(base + "impl EnumVariants<'d>::new", "fn")
    cls = it.get("closures", [])
    if not cls:
        raise Undecided("anchor-lost", "EnumVariants::new: fold closure not found")
    c0, c1 = cls[0]["start"], cls[0]["end"]
    ctext = kt.slice(c0, c1)
    m = re.match(r"\|\s*(\w+)\s*,\s*\(\s*(\w+)\s*,\s*(\w+)\s*\)\s*\|\s*", ctext)
    if not m or not re.search(r"\.iter\(\)\s*\.enumerate\(\)\s*\.fold\(\s*EnumVariants::Contiguous\(Vec::with_capacity\(\w+\)\),\s*$", kt.slice(it["body_open"], c0)):
        raise Undecided("anchor-lost", "EnumVariants::new is no longer `ty.variants.iter().enumerate().fold(Contiguous(empty), |acc, (i, v)| ..)`")
    acc, iv, vv = m.groups()
    frag = {"start": c0 + m.end(), "after_attrs": c0 + m.end(), "end": c1, "path": it["path"] + "#fold step closure", "loops": []}
    p = Piece(kt, frag)
    p.sub("E7", r"vec\s*\.into_iter\(\)\s*\.enumerate\(\)\s*\.map\(\|\(index, name\)\| NonContiguousEnumVariant \{\s*name,\s*index: index as i32,\s*\}\)\s*\.chain\(once\((NonContiguousEnumVariant \{[^}]*\})\)\)\s*\.collect\(\)",
          r"__renumber_then_push(vec, \1)", count=None, flags=re.S, why="adapter chain with std-documented meaning -> specified helper")
    p.sub("E6", rf"{vv}\.name\.as_str\(\)\.into\(\)", f"__name_of({vv})", count="+", why="variant name carried opaquely")
    origin = {"file": KT, "item": frag["path"], "line": kt.line_of(c0), "end_line": kt.line_of(c1)}
    vf.add(f"// E18: the step closure of `ty.variants.iter().enumerate().fold(EnumVariants::Contiguous(vec![]), |{acc}, ({iv}, {vv})| ..)` as a function\n"
           f"fn kotlin_enum_fold_step({acc}: EnumVariants, {iv}: usize, {vv}: &EnumVariant, Ghost(e): Ghost<&EnumDef>) -> (r: EnumVariants)\n"
           f"    requires 0 <= {iv} < e.variants@.len(), e.variants@.len() <= 0x7fff_ffff_ffff_ffff, *{vv} == e.variants@[{iv} as int], state_ok({acc}, e, {iv} as int),\n"
           f"    ensures {CANARY} state_ok(r, e, {iv} as int + 1),\n{{\n    ", origin=origin)
    vf.add(p.render(), origin=origin, edits=p.log)
    vf.add("\n}\n")
    vf.functions.append({"path": frag["path"], "file": KT, "line": kt.line_of(c0), "end_line": kt.line_of(c1), "engine": "verus", "mode": "verus (closure hoisted, E18)", "bound": "none"})
    vf.expected.append("kotlin_enum_fold_step")


def e7(text):
    pat = re.compile(r"(\w+)\s*\.variants\s*\.iter\(\)\s*\.enumerate\(\)\s*\.all\(\|\(i, v\)\| ([^)]+)\)")
    ms = list(pat.finditer(text))
    if len(ms) == 0:
        # the adapter chain is gone: the body is verified as written (loop-free bodies are decided exactly by Verus;
        # a body with its own loop has no invariant from us and is reported undecided by the caller)
        return text, []
    if len(ms) != 1:
        raise Undecided("edit-mismatch", "E7: `.variants.iter().enumerate().all(|(i, v)| ..)` found more than once")
    m = ms[0]
    new = E7_TEMPLATE.format(recv=m.group(1), pred=m.group(2).strip())
    return text[:m.start()] + new + text[m.end():], [(m.group(0), new)]


def build(tier):
    vf = VerusFile(NAME)
    dart = Src(DART)
    js = Src(JS)
    defs = Src(DEFS)
    vf.add(vhelp.HEADER)
    vf.add(PRELUDE)
    vhelp.typedef(vf, defs, "EnumVariant", "struct")
    vhelp.typedef(vf, defs, "EnumDef", "struct")
    vf.add(SPEC)
    p = Piece(dart, dart.item("is_contiguous_enum", "fn"))
    p.expect_loops(0)
    p.contract("    requires ty.variants@.len() <= 0x7fff_ffff_ffff_ffff,\n    ensures " + CANARY + " r == contiguous(ty),", ret_name="r")
    p.fn("E7", e7, why="iterator adapter chain desugared to a loop")
    vf.add_piece(p, expected="is_contiguous_enum")
    # JS: the first statement of gen_enum computes the same flag inline; extracted as a statement fragment
    it = js.item("impl TyGenContext<'_,'tcx>::gen_enum", "fn")
    st = None
    for (a, b) in it.get("stmts", []):
        t = js.slice(a, b)
        if t.startswith("let is_contiguous"):
            st = (a, b)
            break
    if st is None:
        raise Undecided("anchor-lost", "gen_enum: statement `let is_contiguous = ..` not found")
    frag = dict(it)
    frag = {"path": it["path"] + "#let is_contiguous", "kind": "stmt", "start": st[0], "after_attrs": st[0], "end": st[1]}
    p = Piece(js, frag)
    p.fn("E7", e7, why="iterator adapter chain desugared to a loop")
    body = p.render()
    vf.add("// E15: statement fragment of tool/src/js/gen.rs gen_enum wrapped in a function (the statement only reads enum_def)\n"
           "fn js_gen_enum_is_contiguous(enum_def: &EnumDef) -> (r: bool)\n    requires enum_def.variants@.len() <= 0x7fff_ffff_ffff_ffff,\n    ensures " + CANARY + " r == contiguous(enum_def),\n{\n        ",
           )
    vf.add(body, origin={"file": JS, "item": frag["path"], "line": js.line_of(st[0]), "end_line": js.line_of(st[1])}, edits=p.log)
    vf.add("\n        is_contiguous\n}\n")
    vf.functions.append({"path": frag["path"], "file": JS, "line": js.line_of(st[0]), "end_line": js.line_of(st[1]), "engine": "verus", "mode": "verus (statement fragment)", "bound": "none"})
    vf.expected.append("js_gen_enum_is_contiguous")
    build_kotlin(vf)
    vf.add(vhelp.FOOTER)
    return vf


CANARY_FUNCTIONS = ["is_contiguous_enum", "js_gen_enum_is_contiguous", "kotlin_enum_fold_step"]
ASSUMPTIONS = [
    "A-iter (E7): Iterator::enumerate().all(P) over a slice == forall index. P is side-effect free",
    "number of variants <= isize::MAX (Vec of a non-zero-sized element type), 64-bit usize",
    "E15: the `let is_contiguous = ..` statement of gen_enum is verified in isolation (it reads only enum_def)",
    "Kotlin: only the step closure of EnumVariants::new's fold is verified (E18), against the inductive state invariant state_ok; that Iterator::fold applies it to variants 0..n in order starting from Contiguous([]) is the std-documented meaning (trusted); the renumbering adapter chain is replaced by a specified helper (E7); names are opaque",
]
UNVERIFIED = {"C11": ["ast::Enum::new discriminant inference (closure over syn nodes)", "C/C++/nanobind numeric tables printed by templates", "Enum.kt.jinja use of EnumVariants", "enum.dart.jinja / enum.js.jinja use of the flag (template text)"]}
