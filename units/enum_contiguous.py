"""V enum_contiguous: the `index` shortcut for enum conversion is taken only when every variant's value equals its index
(Dart is_contiguous_enum, JS gen_enum's is_contiguous)."""
import re
from rsrc import Src, Piece
from verus_engine import VerusFile
from common import Undecided
import vhelp

NAME = "enum_contiguous"
ENGINE = "verus"
PROPERTIES = {"C11": "Dart and JS use variant index as the numeric value only when index == discriminant for every variant"}
DART = "tool/src/dart/mod.rs"
JS = "tool/src/js/gen.rs"
DEFS = "core/src/hir/defs.rs"

PRELUDE = r"""
global size_of usize == 8;
#[verifier::external_body] pub struct Docs { x: u8 }
#[verifier::external_body] pub struct IdentBuf { x: u8 }
#[verifier::external_body] pub struct Attrs { x: u8 }
#[verifier::external_body] pub struct Method { x: u8 }
#[verifier::external_body] pub struct SpecialMethodPresence { x: u8 }
pub mod hir { pub use super::EnumDef; pub use super::EnumVariant; }
"""
SPEC = r"""
// oracle (property statement): value of variant j in the binding == its Rust discriminant, so the index may stand in for the
// value only if discriminant(j) == j for all j
pub open spec fn contiguous(e: &EnumDef) -> bool {
    forall|j: int| 0 <= j < e.variants@.len() ==> (#[trigger] e.variants@[j]).discriminant == j
}
"""

E7_TEMPLATE = """{{
        // E7: `{recv}.variants.iter().enumerate().all(|(i, v)| P)` desugared (std-documented meaning of Iterator::all, P side-effect free)
        let mut all__ = true;
        let mut i: usize = 0;
        while i < {recv}.variants.len()
            invariant 0 <= i <= {recv}.variants@.len(), {recv}.variants@.len() <= 0x7fff_ffff_ffff_ffff,
                all__ == (forall|j: int| 0 <= j < i ==> (#[trigger] {recv}.variants@[j]).discriminant == j),
            decreases {recv}.variants@.len() - i,
        {{
            let v = &{recv}.variants[i];
            if !({pred}) {{
                all__ = false;
            }}
            i += 1;
        }}
        all__
    }}"""


def e7(text):
    pat = re.compile(r"(\w+)\s*\.variants\s*\.iter\(\)\s*\.enumerate\(\)\s*\.all\(\|\(i, v\)\| ([^)]+)\)")
    ms = list(pat.finditer(text))
    if len(ms) == 0:
        # the adapter chain is gone: the body is verified as written (loop-free bodies are decided exactly by Verus;
        # a body with its own loop has no invariant from us and is reported undecided by the caller)
        return text, []
    if len(ms) != 1:
        raise Undecided("edit-mismatch", "E7: `.variants.iter().enumerate().all(|(i, v)| ..)` found more than once")
    m = ms[0]
    new = E7_TEMPLATE.format(recv=m.group(1), pred=m.group(2).strip())
    return text[:m.start()] + new + text[m.end():], [(m.group(0), new)]


def build(tier):
    vf = VerusFile(NAME)
    dart = Src(DART)
    js = Src(JS)
    defs = Src(DEFS)
    vf.add(vhelp.HEADER)
    vf.add(PRELUDE)
    vhelp.typedef(vf, defs, "EnumVariant", "struct")
    vhelp.typedef(vf, defs, "EnumDef", "struct")
    vf.add(SPEC)
    p = Piece(dart, dart.item("is_contiguous_enum", "fn"))
    p.expect_loops(0)
    p.contract("    requires ty.variants@.len() <= 0x7fff_ffff_ffff_ffff,\n    ensures r == contiguous(ty),", ret_name="r")
    p.fn("E7", e7, why="iterator adapter chain desugared to a loop")
    vf.add_piece(p, expected="is_contiguous_enum")
    # JS: the first statement of gen_enum computes the same flag inline; extracted as a statement fragment
    it = js.item("impl TyGenContext<'_,'tcx>::gen_enum", "fn")
    st = None
    for (a, b) in it.get("stmts", []):
        t = js.slice(a, b)
        if t.startswith("let is_contiguous"):
            st = (a, b)
            break
    if st is None:
        raise Undecided("anchor-lost", "gen_enum: statement `let is_contiguous = ..` not found")
    frag = dict(it)
    frag = {"path": it["path"] + "#let is_contiguous", "kind": "stmt", "start": st[0], "after_attrs": st[0], "end": st[1]}
    p = Piece(js, frag)
    p.fn("E7", e7, why="iterator adapter chain desugared to a loop")
    body = p.render()
    vf.add("// E15: statement fragment of tool/src/js/gen.rs gen_enum wrapped in a function (the statement only reads enum_def)\n"
           "fn js_gen_enum_is_contiguous(enum_def: &EnumDef) -> (r: bool)\n    requires enum_def.variants@.len() <= 0x7fff_ffff_ffff_ffff,\n    ensures r == contiguous(enum_def),\n{\n        ",
           )
    vf.add(body, origin={"file": JS, "item": frag["path"], "line": js.line_of(st[0]), "end_line": js.line_of(st[1])}, edits=p.log)
    vf.add("\n        is_contiguous\n}\n")
    vf.functions.append({"path": frag["path"], "file": JS, "line": js.line_of(st[0]), "end_line": js.line_of(st[1]), "engine": "verus", "mode": "verus (statement fragment)", "bound": "none"})
    vf.expected.append("js_gen_enum_is_contiguous")
    vf.add(vhelp.FOOTER)
    return vf


ASSUMPTIONS = [
    "A-iter (E7): Iterator::enumerate().all(P) over a slice == forall index. P is side-effect free",
    "number of variants <= isize::MAX (Vec of a non-zero-sized element type), 64-bit usize",
    "E15: the `let is_contiguous = ..` statement of gen_enum is verified in isolation (it reads only enum_def)",
]
UNVERIFIED = {"C11": ["ast::Enum::new discriminant inference (closure over syn nodes)", "C/C++/nanobind/Kotlin numeric tables printed by templates", "enum.dart.jinja / enum.js.jinja use of the flag (template text)"]}
