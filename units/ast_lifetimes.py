"""V ast_lifetimes: ast::LifetimeEnv::extend_implicit_lifetime_bounds — after visiting a type, every lifetime `'b` of a
named type behind a reference `&'a T<'b>` is (transitively) longer than `'a` in the env (bounds implied by the types used);
existing edges are preserved.  Callees LifetimeTransitivity::longer_than and extend_bounds are abstract here (part B verifies
the former)."""
import re
from rsrc import Src, Piece, rule_panics, match_close
from verus_engine import VerusFile, CANARY
from common import Undecided
import vhelp

NAME = "ast_lifetimes"
ENGINE = "verus"
PROPERTIES = {"C04": "implied bounds from &'a T<'b>: the method env relates 'b as longer than 'a after extend_implicit_lifetime_bounds, so all_longer_lifetimes sees it"}
F = "core/src/ast/lifetimes.rs"
TYPES = "core/src/ast/types.rs"

PRELUDE = r"""
global size_of usize == 8;
// Vec::extend: existing elements are kept (nothing is said about the appended ones)
pub assume_specification<T, A: core::alloc::Allocator, I: core::iter::IntoIterator<Item = T>> [<Vec<T, A> as core::iter::Extend<T>>::extend] (v: &mut Vec<T, A>, iter: I)
    ensures old(v)@.is_prefix_of(final(v)@);
#[verifier::external_body] pub struct Ident { s: String }
"""

SPECS = r"""
// ---- the AST outlives graph: node a has an edge to b in `longer` iff 'b: 'a was recorded (b outlives a)
pub open spec fn edge_l(env: &LifetimeEnv, a: int, b: int) -> bool {
    0 <= a < env.nodes@.len() && exists|k: int| 0 <= k < env.nodes@[a].longer@.len() && #[trigger] env.nodes@[a].longer@[k] == b
}
pub open spec fn is_path_l(env: &LifetimeEnv, p: Seq<int>) -> bool {
    p.len() >= 1 && forall|i: int| 0 <= i < p.len() - 1 ==> edge_l(env, #[trigger] p[i], p[i + 1])
}
// oracle: b is (reflexively, transitively) longer than a
pub open spec fn reach_l(env: &LifetimeEnv, a: int, b: int) -> bool {
    exists|p: Seq<int>| is_path_l(env, p) && p[0] == a && p[p.len() - 1] == b
}
pub open spec fn has_id(env: &LifetimeEnv, n: NamedLifetime, i: int) -> bool {
    0 <= i < env.nodes@.len() && env.nodes@[i].lifetime == n
}
pub open spec fn declared(env: &LifetimeEnv, n: NamedLifetime) -> bool { exists|i: int| has_id(env, n, i) }
pub open spec fn names_distinct(env: &LifetimeEnv) -> bool {
    forall|i: int, j: int| 0 <= i < env.nodes@.len() && 0 <= j < env.nodes@.len() && env.nodes@[i].lifetime == env.nodes@[j].lifetime ==> i == j
}
// only edges are added; names and node count stay
pub open spec fn env_le(e1: &LifetimeEnv, e2: &LifetimeEnv) -> bool {
    &&& e1.nodes@.len() == e2.nodes@.len()
    &&& forall|i: int| 0 <= i < e1.nodes@.len() ==> (#[trigger] e1.nodes@[i]).lifetime == e2.nodes@[i].lifetime
    &&& forall|a: int, b: int| edge_l(e1, a, b) ==> edge_l(e2, a, b)
}
// every named lifetime b of a path type is longer than the named borrow lifetime a it sits behind
pub open spec fn named_longer(env: &LifetimeEnv, a: NamedLifetime, b: NamedLifetime) -> bool {
    forall|ia: int, ib: int| has_id(env, a, ia) && has_id(env, b, ib) ==> reach_l(env, ia, ib)
}
pub open spec fn implied_ok(env: &LifetimeEnv, typ: TypeName, behind: Option<NamedLifetime>) -> bool
    decreases typ
{
    match typ {
        TypeName::Named(path) => match behind {
            Some(a) => forall|j: int| 0 <= j < path.lifetimes@.len() && (#[trigger] path.lifetimes@[j]) is Named
                            ==> named_longer(env, a, path.lifetimes@[j]->Named_0),
            None => true,
        },
        TypeName::Reference(lt, _, inner) => implied_ok(env, *inner, match lt { Lifetime::Named(n) => Some(n), _ => None }),
        TypeName::Option(inner, _) => implied_ok(env, *inner, None),
        TypeName::Result(ok, err, _) => implied_ok(env, *ok, None) && implied_ok(env, *err, None),
        _ => true,
    }
}
// all named lifetimes mentioned where the function looks are declared in the env (else `expect` panics: documented bug trap)
pub open spec fn all_declared(env: &LifetimeEnv, typ: TypeName, behind: Option<NamedLifetime>) -> bool
    decreases typ
{
    match typ {
        TypeName::Named(path) => match behind {
            Some(a) => declared(env, a) && forall|j: int| 0 <= j < path.lifetimes@.len() && (#[trigger] path.lifetimes@[j]) is Named
                            ==> declared(env, path.lifetimes@[j]->Named_0),
            None => true,
        },
        TypeName::Reference(lt, _, inner) => all_declared(env, *inner, match lt { Lifetime::Named(n) => Some(n), _ => None }),
        TypeName::Option(inner, _) => all_declared(env, *inner, None),
        TypeName::Result(ok, err, _) => all_declared(env, *ok, None) && all_declared(env, *err, None),
        _ => true,
    }
}

pub proof fn lemma_reach_mono(e1: &LifetimeEnv, e2: &LifetimeEnv, a: int, b: int)
    requires env_le(e1, e2), reach_l(e1, a, b),
    ensures reach_l(e2, a, b),
{
    let p = choose|p: Seq<int>| is_path_l(e1, p) && p[0] == a && p[p.len() - 1] == b;
    assert(is_path_l(e2, p));
}
pub proof fn lemma_le_trans(e1: &LifetimeEnv, e2: &LifetimeEnv, e3: &LifetimeEnv)
    requires env_le(e1, e2), env_le(e2, e3),
    ensures env_le(e1, e3),
{
}
pub proof fn lemma_named_longer_mono(e1: &LifetimeEnv, e2: &LifetimeEnv, a: NamedLifetime, b: NamedLifetime)
    requires env_le(e1, e2), named_longer(e1, a, b),
    ensures named_longer(e2, a, b),
{
    assert forall|ia: int, ib: int| has_id(e2, a, ia) && has_id(e2, b, ib) implies reach_l(e2, ia, ib) by {
        assert(has_id(e1, a, ia) && has_id(e1, b, ib));
        lemma_reach_mono(e1, e2, ia, ib);
    }
}
pub proof fn lemma_implied_mono(e1: &LifetimeEnv, e2: &LifetimeEnv, typ: TypeName, behind: Option<NamedLifetime>)
    requires env_le(e1, e2), implied_ok(e1, typ, behind),
    ensures implied_ok(e2, typ, behind),
    decreases typ
{
    match typ {
        TypeName::Named(path) => match behind {
            Some(a) => {
                assert forall|j: int| 0 <= j < path.lifetimes@.len() && (#[trigger] path.lifetimes@[j]) is Named
                    implies named_longer(e2, a, path.lifetimes@[j]->Named_0) by {
                    lemma_named_longer_mono(e1, e2, a, path.lifetimes@[j]->Named_0);
                }
            }
            None => {}
        },
        TypeName::Reference(lt, _, inner) => lemma_implied_mono(e1, e2, *inner, match lt { Lifetime::Named(n) => Some(n), _ => None }),
        TypeName::Option(inner, _) => lemma_implied_mono(e1, e2, *inner, None),
        TypeName::Result(ok, err, _) => { lemma_implied_mono(e1, e2, *ok, None); lemma_implied_mono(e1, e2, *err, None); }
        _ => {}
    }
}
pub proof fn lemma_declared_mono(e1: &LifetimeEnv, e2: &LifetimeEnv, typ: TypeName, behind: Option<NamedLifetime>)
    requires env_le(e1, e2), all_declared(e1, typ, behind),
    ensures all_declared(e2, typ, behind),
    decreases typ
{
    match typ {
        TypeName::Named(path) => match behind {
            Some(a) => {
                let i = choose|i: int| has_id(e1, a, i);
                assert(has_id(e2, a, i));
                assert forall|j: int| 0 <= j < path.lifetimes@.len() && (#[trigger] path.lifetimes@[j]) is Named
                    implies declared(e2, path.lifetimes@[j]->Named_0) by {
                    let n = path.lifetimes@[j]->Named_0;
                    let k = choose|k: int| has_id(e1, n, k);
                    assert(has_id(e2, n, k));
                }
            }
            None => {}
        },
        TypeName::Reference(lt, _, inner) => lemma_declared_mono(e1, e2, *inner, match lt { Lifetime::Named(n) => Some(n), _ => None }),
        TypeName::Option(inner, _) => lemma_declared_mono(e1, e2, *inner, None),
        TypeName::Result(ok, err, _) => { lemma_declared_mono(e1, e2, *ok, None); lemma_declared_mono(e1, e2, *err, None); }
        _ => {}
    }
}
pub proof fn lemma_distinct_mono(e1: &LifetimeEnv, e2: &LifetimeEnv)
    requires env_le(e1, e2), names_distinct(e1),
    ensures names_distinct(e2),
{
    assert forall|i: int, j: int| 0 <= i < e2.nodes@.len() && 0 <= j < e2.nodes@.len() && e2.nodes@[i].lifetime == e2.nodes@[j].lifetime implies i == j by {
        assert(e1.nodes@[i].lifetime == e2.nodes@[i].lifetime && e1.nodes@[j].lifetime == e2.nodes@[j].lifetime);
    }
}
pub proof fn lemma_edge_reach(env: &LifetimeEnv, a: int, b: int)
    requires edge_l(env, a, b),
    ensures reach_l(env, a, b),
{
    let p = seq![a, b];
    assert(is_path_l(env, p) && p[0] == a && p[p.len() - 1] == b);
}
"""

CALLEES = r"""
pub open spec fn in_names(v: Seq<&NamedLifetime>, n: NamedLifetime) -> bool { exists|k: int| 0 <= k < v.len() && *#[trigger] v[k] == n }

// Vec<&NamedLifetime>::contains(&x): linear search with derived PartialEq (A-iter, A-derive)
#[verifier::external_body]
pub fn __contains_name(v: &Vec<&NamedLifetime>, x: &NamedLifetime) -> (r: bool)
    ensures r == in_names(v@, *x)
{ unimplemented!() }

pub struct LifetimeTransitivity { pub x: u8 }
impl LifetimeTransitivity {
    // callee contract (assumed here): exactly the names of the lifetimes transitively longer than `named`
    #[verifier::external_body]
    pub fn longer_than<'env>(env: &'env LifetimeEnv, named: &NamedLifetime) -> (r: Vec<&'env NamedLifetime>)
        ensures forall|v: int| 0 <= v < env.nodes@.len() ==>
            (in_names(r@, (#[trigger] env.nodes@[v]).lifetime) <==> exists|s: int| has_id(env, *named, s) && reach_l(env, s, v)),
    { unimplemented!() }
    // dual query (no contract needed by the verified code)
    #[verifier::external_body]
    pub fn shorter_than<'env>(env: &'env LifetimeEnv, named: &NamedLifetime) -> (r: Vec<&'env NamedLifetime>)
    { unimplemented!() }
}
"""

EXTEND_BOUNDS = r"""
    // callee contract (assumed here; the real extend_bounds is generic over iterators): for every (lifetime, Some(bound)) pair
    // record `lifetime: bound` (nodes[id(bound)].longer gets id(lifetime)); nothing is removed
    #[verifier::external_body]
    fn extend_bounds_pairs(&mut self, pairs: Vec<(&NamedLifetime, Option<&NamedLifetime>)>)
        requires
            forall|k: int| 0 <= k < pairs@.len() ==> declared(old(self), *(#[trigger] pairs@[k]).0)
                && (pairs@[k].1 is Some ==> declared(old(self), *pairs@[k].1->Some_0)),
        ensures
            env_le(old(self), final(self)),
            forall|k: int, il: int, ib: int| #![trigger has_id(final(self), *pairs@[k].0, il), has_id(final(self), *pairs@[k].1->Some_0, ib)]
                0 <= k < pairs@.len() && pairs@[k].1 is Some
                && has_id(final(self), *pairs@[k].0, il) && has_id(final(self), *pairs@[k].1->Some_0, ib) ==> edge_l(final(self), ib, il),
    { unimplemented!() }
"""

CONTRACT = f"""        requires all_declared(old(self), *typ, opt_name(behind_ref)), names_distinct(old(self)),
        ensures {CANARY}
            env_le(old(self), final(self)), names_distinct(final(self)),
            implied_ok(final(self), *typ, opt_name(behind_ref)),
        decreases typ,"""

LOOP_INV = """                        invariant
                            *typ == TypeName::Named(*path_type),
                            behind_ref == Some(borrow_lifetime),
                            *self == *old(self), names_distinct(self),
                            all_declared(self, *typ, opt_name(behind_ref)),
                            forall|k: int| 0 <= k < implicit_longer_than_borrow@.len() ==> declared(self, *#[trigger] implicit_longer_than_borrow@[k]),
                            // every named lifetime seen so far is already known longer than the borrow, or queued to be added
                            (forall|j: int| 0 <= j < it.index@ && (#[trigger] path_type.lifetimes@[j]) is Named ==>
                                named_longer(self, *borrow_lifetime, path_type.lifetimes@[j]->Named_0) || in_names(implicit_longer_than_borrow@, path_type.lifetimes@[j]->Named_0)),"""

LOOP_HINT = """                        proof {
                            assert(path_lifetime == path_type.lifetimes@[it.index@]);
                        }
                        let ghost impl0 = implicit_longer_than_borrow@;"""

AFTER_PUSH = """
                                proof {
                                    assert(implicit_longer_than_borrow@[impl0.len() as int] == path_lifetime);
                                    assert(path_type.lifetimes@[it.index@ as int] is Named);
                                    assert(declared(self, path_type.lifetimes@[it.index@ as int]->Named_0));
                                    assert forall|k: int| 0 <= k < implicit_longer_than_borrow@.len() implies declared(self, *#[trigger] implicit_longer_than_borrow@[k]) by {
                                        if k < impl0.len() { assert(implicit_longer_than_borrow@[k] == impl0[k]); }
                                    }
                                    assert forall|j: int| 0 <= j < it.index@ && (#[trigger] path_type.lifetimes@[j]) is Named && in_names(impl0, path_type.lifetimes@[j]->Named_0)
                                        implies in_names(implicit_longer_than_borrow@, path_type.lifetimes@[j]->Named_0) by {
                                        let k = choose|k: int| 0 <= k < impl0.len() && *#[trigger] impl0[k] == path_type.lifetimes@[j]->Named_0;
                                        assert(implicit_longer_than_borrow@[k] == impl0[k]);
                                    }
                                }"""

ELSE_HINT = """ else {
                                proof {
                                    // already known longer: explicit contains it
                                    let n = *path_lifetime;
                                    assert forall|ia: int, ib: int| has_id(self, *borrow_lifetime, ia) && has_id(self, n, ib) implies reach_l(self, ia, ib) by {
                                        assert(in_names(explicit_longer_than_borrow@, self.nodes@[ib].lifetime));
                                        let s = choose|s: int| has_id(self, *borrow_lifetime, s) && reach_l(self, s, ib);
                                        assert(s == ia);
                                    }
                                }
                            }"""

PAIRS_LOOP = """
                        // E7: `implicit.into_iter().map(|path_lifetime| (path_lifetime, Some(borrow_lifetime)))` materialised (A-iter)
                        let mut pairs__: Vec<(&NamedLifetime, Option<&NamedLifetime>)> = Vec::new();
                        let ghost env0 = *self;
                        for pl in it2: implicit_longer_than_borrow.iter()
                            invariant
                                pairs__@.len() == it2.index@,
                                (forall|k: int| 0 <= k < it2.index@ ==> (#[trigger] pairs__@[k]).0 == implicit_longer_than_borrow@[k] && pairs__@[k].1 == Some(borrow_lifetime)),
                        {
                            pairs__.push((*pl, Some(borrow_lifetime)));
                        }
                        proof {
                            assert(declared(self, *borrow_lifetime));
                            assert forall|k: int| 0 <= k < pairs__@.len() implies declared(self, *(#[trigger] pairs__@[k]).0)
                                && (pairs__@[k].1 is Some ==> declared(self, *pairs__@[k].1->Some_0)) by {
                                assert(pairs__@[k].0 == implicit_longer_than_borrow@[k]);
                                assert(declared(self, *implicit_longer_than_borrow@[k]));
                            }
                        }
                        self.extend_bounds_pairs(pairs__);
                        proof {
                            lemma_distinct_mono(&env0, self);
                            // every queued lifetime now has a direct edge from the borrow lifetime; the others keep their paths
                            assert forall|j: int| 0 <= j < path_type.lifetimes@.len() && (#[trigger] path_type.lifetimes@[j]) is Named
                                implies named_longer(self, *borrow_lifetime, path_type.lifetimes@[j]->Named_0) by {
                                let n = path_type.lifetimes@[j]->Named_0;
                                if in_names(implicit_longer_than_borrow@, n) {
                                    let k = choose|k: int| 0 <= k < implicit_longer_than_borrow@.len() && *#[trigger] implicit_longer_than_borrow@[k] == n;
                                    assert(pairs__@[k].0 == implicit_longer_than_borrow@[k]);
                                    assert forall|ia: int, ib: int| has_id(self, *borrow_lifetime, ia) && has_id(self, n, ib) implies reach_l(self, ia, ib) by {
                                        assert(has_id(self, *pairs__@[k].1->Some_0, ia));
                                        assert(edge_l(self, ia, ib));
                                        lemma_edge_reach(self, ia, ib);
                                    }
                                } else {
                                    lemma_named_longer_mono(&env0, self, *borrow_lifetime, n);
                                }
                            }
                        }
                    """


def e7_pairs(text):
    m = re.search(r"self\.extend_bounds\(\s*implicit_longer_than_borrow\s*\.into_iter\(\)\s*\.map\(\|path_lifetime\| \(path_lifetime, Some\(borrow_lifetime\)\)\),?\s*\);", text)
    if not m:
        raise Undecided("edit-mismatch", "E7: `self.extend_bounds(implicit.into_iter().map(|pl| (pl, Some(borrow))))` not found")
    return text[:m.start()] + PAIRS_LOOP + text[m.end():], [(m.group(0)[:160], "for/push into Vec of pairs; self.extend_bounds_pairs(pairs)")]


def e7_contains(text):
    m = re.search(r"if !(\w+)\.contains\(&path_lifetime\) \{", text)
    if not m:
        # the de-dup test has another shape: verify as written (no hint possible)
        return text, []
    o = m.end() - 1
    c = match_close(text, o)
    body = text[o + 1:c]
    tested = m.group(1)
    new = (f"if !__contains_name(&{tested}, path_lifetime) {{" + body.rstrip() + AFTER_PUSH + "\n                            }" + ELSE_HINT.replace("explicit_longer_than_borrow", tested))
    return text[:m.start()] + new + text[c + 1:], [(m.group(0), "Vec::contains -> __contains_name (linear search, structural ==) + ghost hints")]


def build(tier):
    vf = VerusFile(NAME)
    src = Src(F)
    types = Src(TYPES)
    paths = Src("core/src/ast/paths.rs")
    vf.add(vhelp.HEADER)
    vf.add(PRELUDE)
    vhelp.typedef(vf, src, "NamedLifetime", "struct", pub_tuple_fields=True)
    vhelp.typedef(vf, src, "Lifetime", "enum")
    vhelp.typedef(vf, src, "LifetimeNode", "struct")
    vhelp.typedef(vf, src, "LifetimeEnv", "struct")
    vhelp.typedef(vf, paths, "Path", "struct")
    vhelp.typedef(vf, types, "PathType", "struct")
    vhelp.typedef(vf, types, "Mutability", "enum", derive=vhelp.FIELDLESS_DERIVE)
    vhelp.typedef(vf, types, "StdlibOrDiplomat", "enum", derive=vhelp.FIELDLESS_DERIVE)
    vhelp.typedef(vf, types, "StringEncoding", "enum", derive="#[derive(Copy, Clone)]")
    vhelp.typedef(vf, types, "PrimitiveType", "enum", derive="#[derive(Copy, Clone)]")
    vhelp.typedef(vf, types, "TypeName", "enum")
    vf.add(SPECS)
    vf.add("pub open spec fn opt_name(o: Option<&NamedLifetime>) -> Option<NamedLifetime> { match o { Some(n) => Some(*n), None => None } }\n")
    vf.add(CALLEES)
    vf.add("impl LifetimeEnv {\n" + EXTEND_BOUNDS)
    it = src.item("impl LifetimeEnv::extend_implicit_lifetime_bounds", "fn")
    p = Piece(src, it)
    p.expect_loops(1)
    p.contract(CONTRACT)
    p.loop_spec(0, LOOP_INV, iter_name="it")
    p.loop_body_prefix(0, LOOP_HINT)
    p.sub("E3", r"let mut implicit_longer_than_borrow = vec!\[\];", "let mut implicit_longer_than_borrow: Vec<&NamedLifetime> = vec![];", count=1, why="inferred type written out")
    p.fn("E7", e7_contains, why="Vec::contains on references")
    p.fn("E7", e7_pairs, why="into_iter().map(..) argument materialised; generic extend_bounds specialised to the pair type used here")
    # recursive calls: carry monotonicity across the two Result arms (ghost)
    p.sub("E4", r"self\.extend_implicit_lifetime_bounds\(ok, None\);\s*self\.extend_implicit_lifetime_bounds\(err, None\);",
          """let ghost e0 = *self;
                proof { assert(all_declared(self, **ok, None) && all_declared(self, **err, None)); }
                self.extend_implicit_lifetime_bounds(ok, None);
                let ghost e1 = *self;
                proof { lemma_declared_mono(&e0, &e1, **err, None); }
                self.extend_implicit_lifetime_bounds(err, None);
                proof { lemma_implied_mono(&e1, self, **ok, None); lemma_le_trans(&e0, &e1, self); }""", count=1, why="ghost: monotonicity between the two recursive calls")
    vf.add("    #[verifier::loop_isolation(false)]\n")
    vf.add_piece(p, expected="extend_implicit_lifetime_bounds")
    vf.add("}\n")
    vf.expected += ["lemma_reach_mono", "lemma_implied_mono", "lemma_declared_mono"]
    vf.add(vhelp.FOOTER)
    return vf


CANARY_FUNCTIONS = ["extend_implicit_lifetime_bounds"]
ASSUMPTIONS = [
    "callee LifetimeTransitivity::longer_than assumed to return exactly the names transitively longer than its argument (part B: dfs)",
    "callee extend_bounds assumed to add the edge long -> short for every (lifetime, bound) pair and to remove nothing; the generic iterator signature is specialised to Vec<(&NamedLifetime, Option<&NamedLifetime>)> (E7/E11)",
    "Vec<&NamedLifetime>::contains is a linear search with structural equality (A-iter, A-derive)",
    "precondition: the named lifetimes involved are declared in the env (extend_generics ran first; otherwise the code's `expect` fires: documented bug trap) and names are distinct (extend_lifetimes panics on duplicates)",
]
UNVERIFIED = {"C04": ["extend_generics / extend_lifetimes / extend_bounds (syn generics; generic iterators)", "from_method_item's visiting order (syn)"]}
