"""V ast_lifetimes: ast::LifetimeEnv::extend_implicit_lifetime_bounds — after visiting a type, every lifetime `'b` of a
named type behind a reference `&'a T<'b>` is (transitively) longer than `'a` in the env (bounds implied by the types used);
existing edges are preserved.  Part B: the recursive DFS of ast::LifetimeTransitivity (longer_than / shorter_than) returns
exactly the names of the lifetimes reachable in the chosen direction.  Callee extend_bounds (generic iterators) is abstract."""
import re
from rsrc import Src, Piece, rule_panics, match_close
from verus_engine import VerusFile, CANARY
from common import Undecided
import vhelp

NAME = "ast_lifetimes"
ENGINE = "verus"
PROPERTIES = {"C04": "implied bounds from &'a T<'b>: the method env relates 'b as longer than 'a after extend_implicit_lifetime_bounds, so all_longer_lifetimes sees it"}
F = "core/src/ast/lifetimes.rs"
TYPES = "core/src/ast/types.rs"

PRELUDE = r"""
global size_of usize == 8;
// Vec::extend: existing elements are kept (nothing is said about the appended ones)
pub assume_specification<T, A: core::alloc::Allocator, I: core::iter::IntoIterator<Item = T>> [<Vec<T, A> as core::iter::Extend<T>>::extend] (v: &mut Vec<T, A>, iter: I)
    ensures old(v)@.is_prefix_of(final(v)@);
#[verifier::external_body] pub struct Ident { s: String }
"""

SPECS = r"""
// ---- the AST outlives graph: node a has an edge to b in `longer` iff 'b: 'a was recorded (b outlives a)
pub open spec fn edge_l(env: &LifetimeEnv, a: int, b: int) -> bool {
    0 <= a < env.nodes@.len() && exists|k: int| 0 <= k < env.nodes@[a].longer@.len() && #[trigger] env.nodes@[a].longer@[k] == b
}
pub open spec fn is_path_l(env: &LifetimeEnv, p: Seq<int>) -> bool {
    p.len() >= 1 && forall|i: int| 0 <= i < p.len() - 1 ==> edge_l(env, #[trigger] p[i], p[i + 1])
}
// oracle: b is (reflexively, transitively) longer than a
pub open spec fn reach_l(env: &LifetimeEnv, a: int, b: int) -> bool {
    exists|p: Seq<int>| is_path_l(env, p) && p[0] == a && p[p.len() - 1] == b
}
pub open spec fn has_id(env: &LifetimeEnv, n: NamedLifetime, i: int) -> bool {
    0 <= i < env.nodes@.len() && env.nodes@[i].lifetime == n
}
pub open spec fn declared(env: &LifetimeEnv, n: NamedLifetime) -> bool { exists|i: int| has_id(env, n, i) }
pub open spec fn names_distinct(env: &LifetimeEnv) -> bool {
    forall|i: int, j: int| 0 <= i < env.nodes@.len() && 0 <= j < env.nodes@.len() && env.nodes@[i].lifetime == env.nodes@[j].lifetime ==> i == j
}
// only edges are added; names and node count stay
pub open spec fn env_le(e1: &LifetimeEnv, e2: &LifetimeEnv) -> bool {
    &&& e1.nodes@.len() == e2.nodes@.len()
    &&& forall|i: int| 0 <= i < e1.nodes@.len() ==> (#[trigger] e1.nodes@[i]).lifetime == e2.nodes@[i].lifetime
    &&& forall|a: int, b: int| edge_l(e1, a, b) ==> edge_l(e2, a, b)
}
// every named lifetime b of a path type is longer than the named borrow lifetime a it sits behind
pub open spec fn named_longer(env: &LifetimeEnv, a: NamedLifetime, b: NamedLifetime) -> bool {
    forall|ia: int, ib: int| has_id(env, a, ia) && has_id(env, b, ib) ==> reach_l(env, ia, ib)
}
pub open spec fn implied_ok(env: &LifetimeEnv, typ: TypeName, behind: Option<NamedLifetime>) -> bool
    decreases typ
{
    match typ {
        TypeName::Named(path) => match behind {
            Some(a) => forall|j: int| 0 <= j < path.lifetimes@.len() && (#[trigger] path.lifetimes@[j]) is Named
                            ==> named_longer(env, a, path.lifetimes@[j]->Named_0),
            None => true,
        },
        TypeName::Reference(lt, _, inner) => implied_ok(env, *inner, match lt { Lifetime::Named(n) => Some(n), _ => None }),
        TypeName::Option(inner, _) => implied_ok(env, *inner, None),
        TypeName::Result(ok, err, _) => implied_ok(env, *ok, None) && implied_ok(env, *err, None),
        _ => true,
    }
}
// all named lifetimes mentioned where the function looks are declared in the env (else `expect` panics: documented bug trap)
pub open spec fn all_declared(env: &LifetimeEnv, typ: TypeName, behind: Option<NamedLifetime>) -> bool
    decreases typ
{
    match typ {
        TypeName::Named(path) => match behind {
            Some(a) => declared(env, a) && forall|j: int| 0 <= j < path.lifetimes@.len() && (#[trigger] path.lifetimes@[j]) is Named
                            ==> declared(env, path.lifetimes@[j]->Named_0),
            None => true,
        },
        TypeName::Reference(lt, _, inner) => all_declared(env, *inner, match lt { Lifetime::Named(n) => Some(n), _ => None }),
        TypeName::Option(inner, _) => all_declared(env, *inner, None),
        TypeName::Result(ok, err, _) => all_declared(env, *ok, None) && all_declared(env, *err, None),
        _ => true,
    }
}

pub proof fn lemma_reach_mono(e1: &LifetimeEnv, e2: &LifetimeEnv, a: int, b: int)
    requires env_le(e1, e2), reach_l(e1, a, b),
    ensures reach_l(e2, a, b),
{
    let p = choose|p: Seq<int>| is_path_l(e1, p) && p[0] == a && p[p.len() - 1] == b;
    assert(is_path_l(e2, p));
}
pub proof fn lemma_le_trans(e1: &LifetimeEnv, e2: &LifetimeEnv, e3: &LifetimeEnv)
    requires env_le(e1, e2), env_le(e2, e3),
    ensures env_le(e1, e3),
{
}
pub proof fn lemma_named_longer_mono(e1: &LifetimeEnv, e2: &LifetimeEnv, a: NamedLifetime, b: NamedLifetime)
    requires env_le(e1, e2), named_longer(e1, a, b),
    ensures named_longer(e2, a, b),
{
    assert forall|ia: int, ib: int| has_id(e2, a, ia) && has_id(e2, b, ib) implies reach_l(e2, ia, ib) by {
        assert(has_id(e1, a, ia) && has_id(e1, b, ib));
        lemma_reach_mono(e1, e2, ia, ib);
    }
}
pub proof fn lemma_implied_mono(e1: &LifetimeEnv, e2: &LifetimeEnv, typ: TypeName, behind: Option<NamedLifetime>)
    requires env_le(e1, e2), implied_ok(e1, typ, behind),
    ensures implied_ok(e2, typ, behind),
    decreases typ
{
    match typ {
        TypeName::Named(path) => match behind {
            Some(a) => {
                assert forall|j: int| 0 <= j < path.lifetimes@.len() && (#[trigger] path.lifetimes@[j]) is Named
                    implies named_longer(e2, a, path.lifetimes@[j]->Named_0) by {
                    lemma_named_longer_mono(e1, e2, a, path.lifetimes@[j]->Named_0);
                }
            }
            None => {}
        },
        TypeName::Reference(lt, _, inner) => lemma_implied_mono(e1, e2, *inner, match lt { Lifetime::Named(n) => Some(n), _ => None }),
        TypeName::Option(inner, _) => lemma_implied_mono(e1, e2, *inner, None),
        TypeName::Result(ok, err, _) => { lemma_implied_mono(e1, e2, *ok, None); lemma_implied_mono(e1, e2, *err, None); }
        _ => {}
    }
}
pub proof fn lemma_declared_mono(e1: &LifetimeEnv, e2: &LifetimeEnv, typ: TypeName, behind: Option<NamedLifetime>)
    requires env_le(e1, e2), all_declared(e1, typ, behind),
    ensures all_declared(e2, typ, behind),
    decreases typ
{
    match typ {
        TypeName::Named(path) => match behind {
            Some(a) => {
                let i = choose|i: int| has_id(e1, a, i);
                assert(has_id(e2, a, i));
                assert forall|j: int| 0 <= j < path.lifetimes@.len() && (#[trigger] path.lifetimes@[j]) is Named
                    implies declared(e2, path.lifetimes@[j]->Named_0) by {
                    let n = path.lifetimes@[j]->Named_0;
                    let k = choose|k: int| has_id(e1, n, k);
                    assert(has_id(e2, n, k));
                }
            }
            None => {}
        },
        TypeName::Reference(lt, _, inner) => lemma_declared_mono(e1, e2, *inner, match lt { Lifetime::Named(n) => Some(n), _ => None }),
        TypeName::Option(inner, _) => lemma_declared_mono(e1, e2, *inner, None),
        TypeName::Result(ok, err, _) => { lemma_declared_mono(e1, e2, *ok, None); lemma_declared_mono(e1, e2, *err, None); }
        _ => {}
    }
}
pub proof fn lemma_distinct_mono(e1: &LifetimeEnv, e2: &LifetimeEnv)
    requires env_le(e1, e2), names_distinct(e1),
    ensures names_distinct(e2),
{
    assert forall|i: int, j: int| 0 <= i < e2.nodes@.len() && 0 <= j < e2.nodes@.len() && e2.nodes@[i].lifetime == e2.nodes@[j].lifetime implies i == j by {
        assert(e1.nodes@[i].lifetime == e2.nodes@[i].lifetime && e1.nodes@[j].lifetime == e2.nodes@[j].lifetime);
    }
}
pub proof fn lemma_edge_reach(env: &LifetimeEnv, a: int, b: int)
    requires edge_l(env, a, b),
    ensures reach_l(env, a, b),
{
    let p = seq![a, b];
    assert(is_path_l(env, p) && p[0] == a && p[p.len() - 1] == b);
}
"""

CALLEES = r"""
pub open spec fn in_names(v: Seq<&NamedLifetime>, n: NamedLifetime) -> bool { exists|k: int| 0 <= k < v.len() && *#[trigger] v[k] == n }

// Vec<&NamedLifetime>::contains(&x): linear search with derived PartialEq (A-iter, A-derive)
#[verifier::external_body]
pub fn __contains_name(v: &Vec<&NamedLifetime>, x: &NamedLifetime) -> (r: bool)
    ensures r == in_names(v@, *x)
{ unimplemented!() }

// ---- part B: the DFS behind longer_than / shorter_than
pub open spec fn succs(env: &LifetimeEnv, dir: LongerOrShorter, v: int) -> Seq<usize> {
    if 0 <= v < env.nodes@.len() { if dir is Longer { env.nodes@[v].longer@ } else { env.nodes@[v].shorter@ } } else { Seq::empty() }
}
pub open spec fn edge_d(env: &LifetimeEnv, dir: LongerOrShorter, a: int, b: int) -> bool {
    exists|k: int| 0 <= k < succs(env, dir, a).len() && #[trigger] succs(env, dir, a)[k] == b
}
pub open spec fn is_path_d(env: &LifetimeEnv, dir: LongerOrShorter, p: Seq<int>) -> bool {
    p.len() >= 1 && forall|i: int| 0 <= i < p.len() - 1 ==> edge_d(env, dir, #[trigger] p[i], p[i + 1])
}
pub open spec fn reach_d(env: &LifetimeEnv, dir: LongerOrShorter, a: int, b: int) -> bool {
    exists|p: Seq<int>| is_path_d(env, dir, p) && p[0] == a && p[p.len() - 1] == b
}
// edge indices stay inside the node table (extend_bounds only pushes ids it looked up)
pub open spec fn wf_env(env: &LifetimeEnv) -> bool {
    forall|dir: LongerOrShorter, a: int, k: int| 0 <= a < env.nodes@.len() && 0 <= k < succs(env, dir, a).len()
        ==> (#[trigger] succs(env, dir, a)[k]) < env.nodes@.len()
}
pub proof fn lemma_longer_is_l(env: &LifetimeEnv, a: int, b: int)
    ensures reach_d(env, LongerOrShorter::Longer, a, b) ==> reach_l(env, a, b),
            reach_l(env, a, b) && 0 <= a < env.nodes@.len() ==> reach_d(env, LongerOrShorter::Longer, a, b),
{
    if reach_d(env, LongerOrShorter::Longer, a, b) {
        let p = choose|p: Seq<int>| is_path_d(env, LongerOrShorter::Longer, p) && p[0] == a && p[p.len() - 1] == b;
        assert forall|i: int| 0 <= i < p.len() - 1 implies edge_l(env, #[trigger] p[i], p[i + 1]) by {
            assert(edge_d(env, LongerOrShorter::Longer, p[i], p[i + 1]));
            let k = choose|k: int| 0 <= k < succs(env, LongerOrShorter::Longer, p[i]).len() && #[trigger] succs(env, LongerOrShorter::Longer, p[i])[k] == p[i + 1];
            assert(env.nodes@[p[i]].longer@[k] == p[i + 1]);
        }
        assert(is_path_l(env, p));
    }
    if reach_l(env, a, b) && 0 <= a < env.nodes@.len() {
        let p = choose|p: Seq<int>| is_path_l(env, p) && p[0] == a && p[p.len() - 1] == b;
        assert forall|i: int| 0 <= i < p.len() - 1 implies edge_d(env, LongerOrShorter::Longer, #[trigger] p[i], p[i + 1]) by {
            assert(edge_l(env, p[i], p[i + 1]));
            let k = choose|k: int| 0 <= k < env.nodes@[p[i]].longer@.len() && #[trigger] env.nodes@[p[i]].longer@[k] == p[i + 1];
            assert(succs(env, LongerOrShorter::Longer, p[i])[k] == p[i + 1]);
        }
        assert(is_path_d(env, LongerOrShorter::Longer, p));
    }
}
pub proof fn lemma_reach_prepend(env: &LifetimeEnv, dir: LongerOrShorter, a: int, b: int, c: int)
    requires edge_d(env, dir, a, b), reach_d(env, dir, b, c),
    ensures reach_d(env, dir, a, c),
{
    let p = choose|p: Seq<int>| is_path_d(env, dir, p) && p[0] == b && p[p.len() - 1] == c;
    let q = seq![a] + p;
    assert forall|i: int| 0 <= i < q.len() - 1 implies edge_d(env, dir, #[trigger] q[i], q[i + 1]) by {
        if i == 0 { assert(q[0] == a && q[1] == p[0]); } else { assert(q[i] == p[i - 1] && q[i + 1] == p[i]); }
    }
    assert(is_path_d(env, dir, q) && q[0] == a && q[q.len() - 1] == c);
}
pub proof fn lemma_reach_refl_d(env: &LifetimeEnv, dir: LongerOrShorter, a: int)
    ensures reach_d(env, dir, a, a),
{
    let p = seq![a];
    assert(is_path_d(env, dir, p) && p[0] == a && p[p.len() - 1] == a);
}
// a successor-closed visited set that contains the start contains everything reachable from it
pub proof fn lemma_closed_contains_reach_d(env: &LifetimeEnv, dir: LongerOrShorter, visited: Seq<bool>, start: int, p: Seq<int>)
    requires
        wf_env(env), visited.len() == env.nodes@.len(), 0 <= start < visited.len(), visited[start],
        forall|v: int, k: int| 0 <= v < visited.len() && visited[v] && 0 <= k < succs(env, dir, v).len() ==> visited[#[trigger] succs(env, dir, v)[k] as int],
        is_path_d(env, dir, p), p[0] == start,
    ensures 0 <= p[p.len() - 1] < visited.len() && visited[p[p.len() - 1]],
    decreases p.len(),
{
    if p.len() > 1 {
        let q = p.drop_last();
        assert(is_path_d(env, dir, q)) by {
            assert forall|i: int| 0 <= i < q.len() - 1 implies edge_d(env, dir, #[trigger] q[i], q[i + 1]) by { assert(q[i] == p[i] && q[i + 1] == p[i + 1]); }
        }
        lemma_closed_contains_reach_d(env, dir, visited, start, q);
        let a = q[q.len() - 1];
        assert(a == p[p.len() - 2]);
        assert(edge_d(env, dir, p[p.len() - 2], p[p.len() - 2 + 1]));
        let k = choose|k: int| 0 <= k < succs(env, dir, a).len() && #[trigger] succs(env, dir, a)[k] == p[p.len() - 1];
        assert(visited[succs(env, dir, a)[k] as int]);
    }
}
// derived PartialEq on NamedLifetime is structural (A-derive)
#[verifier::external_body]
pub fn __name_eq(a: &NamedLifetime, b: &NamedLifetime) -> (r: bool) ensures r == (*a == *b) { unimplemented!() }
"""

T_SPECS = r"""
impl<'env> LifetimeTransitivity<'env> {
    pub open spec fn out_matches(&self) -> bool {
        forall|v: int| 0 <= v < self.env.nodes@.len() ==> (self.visited@[v] <==> in_names(self.out@, (#[trigger] self.env.nodes@[v]).lifetime))
    }
    pub open spec fn t_inv(&self) -> bool {
        &&& wf_env(self.env) && names_distinct(self.env)
        &&& self.visited@.len() == self.env.nodes@.len()
        &&& self.out_matches()
        &&& forall|k: int| 0 <= k < self.out@.len() ==> declared(self.env, *#[trigger] self.out@[k])
    }
}
"""

DFS_CONTRACT = f"""        requires old(self).t_inv(), index < old(self).env.nodes@.len(),
        ensures {CANARY}
            final(self).t_inv(), final(self).env == old(self).env, final(self).longer_or_shorter == old(self).longer_or_shorter,
            forall|v: int| 0 <= v < old(self).visited@.len() && old(self).visited@[v] ==> final(self).visited@[v],
            final(self).visited@[index as int],
            // everything newly visited is successor-closed ...
            forall|v: int, k: int| 0 <= v < final(self).visited@.len() && final(self).visited@[v] && !old(self).visited@[v]
                && 0 <= k < succs(old(self).env, old(self).longer_or_shorter, v).len()
                ==> final(self).visited@[#[trigger] succs(old(self).env, old(self).longer_or_shorter, v)[k] as int],
            // ... and reachable from `index`
            forall|v: int| 0 <= v < final(self).visited@.len() && #[trigger] final(self).visited@[v] && !old(self).visited@[v]
                ==> reach_d(old(self).env, old(self).longer_or_shorter, index as int, v),"""

DFS_LOOP_INV = """                invariant
                    self.t_inv(), self.env == old(self).env, self.longer_or_shorter == old(self).longer_or_shorter,
                    index < self.env.nodes@.len(), !old(self).visited@[index as int],
                    node == self.env.nodes@[index as int],
                    forall|v: int| 0 <= v < old(self).visited@.len() && old(self).visited@[v] ==> self.visited@[v],
                    self.visited@[index as int],
                    // successors of `index` handled so far are visited
                    forall|k: int| 0 <= k < it.index@ ==> self.visited@[#[trigger] succs(self.env, self.longer_or_shorter, index as int)[k] as int],
                    // newly visited nodes other than `index` are closed
                    forall|v: int, k: int| 0 <= v < self.visited@.len() && self.visited@[v] && !old(self).visited@[v] && v != index
                        && 0 <= k < succs(self.env, self.longer_or_shorter, v).len()
                        ==> self.visited@[#[trigger] succs(self.env, self.longer_or_shorter, v)[k] as int],
                    forall|v: int| 0 <= v < self.visited@.len() && #[trigger] self.visited@[v] && !old(self).visited@[v]
                        ==> reach_d(self.env, self.longer_or_shorter, index as int, v),"""

DFS_BODY_HINT = """                let ghost vis_before = self.visited@;
                proof {
                    assert(edge_index__r == succs(self.env, self.longer_or_shorter, index as int)[it.index@]);
                    assert(edge_d(self.env, self.longer_or_shorter, index as int, *edge_index__r as int));
                }"""

DFS_AFTER_CALL = """
                proof {
                    let env = self.env; let dir = self.longer_or_shorter;
                    assert forall|v: int| 0 <= v < self.visited@.len() && #[trigger] self.visited@[v] && !old(self).visited@[v]
                        implies reach_d(env, dir, index as int, v) by {
                        if !vis_before[v] { lemma_reach_prepend(env, dir, index as int, edge_index as int, v); }
                    }
                    assert forall|v: int, k: int| 0 <= v < self.visited@.len() && self.visited@[v] && !old(self).visited@[v] && v != index
                        && 0 <= k < succs(env, dir, v).len() implies self.visited@[#[trigger] succs(env, dir, v)[k] as int] by {
                        if vis_before[v] { assert(vis_before[succs(env, dir, v)[k] as int]); }
                    }
                    assert forall|k: int| 0 <= k < it.index@ + 1 implies self.visited@[#[trigger] succs(env, dir, index as int)[k] as int] by {
                        if k < it.index@ { assert(vis_before[succs(env, dir, index as int)[k] as int]); }
                    }
                }"""

DFS_MARK_HINT = """
            proof {
                // after marking `index` and pushing its name the name list still mirrors the visited set
                let env = self.env;
                assert(self.out@[self.out@.len() - 1] == &node.lifetime);
                lemma_reach_refl_d(env, self.longer_or_shorter, index as int);
                assert(has_id(env, node.lifetime, index as int));
                assert forall|v: int| 0 <= v < env.nodes@.len() implies (self.visited@[v] <==> in_names(self.out@, (#[trigger] env.nodes@[v]).lifetime)) by {
                    let o0 = old(self).out@;
                    if v == index {
                        assert(*self.out@[o0.len() as int] == env.nodes@[v].lifetime);
                    } else {
                        if in_names(o0, env.nodes@[v].lifetime) {
                            let k = choose|k: int| 0 <= k < o0.len() && *#[trigger] o0[k] == env.nodes@[v].lifetime;
                            assert(self.out@[k] == o0[k]);
                        }
                        if in_names(self.out@, env.nodes@[v].lifetime) {
                            let k = choose|k: int| 0 <= k < self.out@.len() && *#[trigger] self.out@[k] == env.nodes@[v].lifetime;
                            if k == o0.len() { assert(env.nodes@[v].lifetime == env.nodes@[index as int].lifetime); }
                            else { assert(self.out@[k] == o0[k]); }
                        }
                    }
                }
                assert forall|k: int| 0 <= k < self.out@.len() implies declared(env, *#[trigger] self.out@[k]) by {
                    if k < old(self).out@.len() { assert(self.out@[k] == old(self).out@[k]); }
                }
            }"""

POSITION_LOOP = """{
            // E7: `self.env.nodes.iter().position(|node| node.lifetime == *named)` desugared (first index whose name equals `named`)
            let mut found__: Option<usize> = None;
            let mut i__: usize = 0;
            while i__ < self.env.nodes.len()
                invariant
                    i__ <= self.env.nodes@.len(), *self == *old(self),
                    found__ is Some ==> found__->Some_0 < i__ && self.env.nodes@[found__->Some_0 as int].lifetime == *named,
                    found__ is None ==> forall|k: int| 0 <= k < i__ ==> (#[trigger] self.env.nodes@[k]).lifetime != *named,
                decreases self.env.nodes@.len() - i__,
            {
                if found__.is_none() && __name_eq(&self.env.nodes[i__].lifetime, named) {
                    found__ = Some(i__);
                }
                i__ += 1;
            }
            found__
        }"""

EXTEND_BOUNDS = r"""
    // callee contract (assumed here; the real extend_bounds is generic over iterators): for every (lifetime, Some(bound)) pair
    // record `lifetime: bound` (nodes[id(bound)].longer gets id(lifetime)); nothing is removed
    #[verifier::external_body]
    fn extend_bounds_pairs(&mut self, pairs: Vec<(&NamedLifetime, Option<&NamedLifetime>)>)
        requires
            forall|k: int| 0 <= k < pairs@.len() ==> declared(old(self), *(#[trigger] pairs@[k]).0)
                && (pairs@[k].1 is Some ==> declared(old(self), *pairs@[k].1->Some_0)),
        ensures
            env_le(old(self), final(self)), wf_env(old(self)) ==> wf_env(final(self)),
            forall|k: int, il: int, ib: int| #![trigger has_id(final(self), *pairs@[k].0, il), has_id(final(self), *pairs@[k].1->Some_0, ib)]
                0 <= k < pairs@.len() && pairs@[k].1 is Some
                && has_id(final(self), *pairs@[k].0, il) && has_id(final(self), *pairs@[k].1->Some_0, ib) ==> edge_l(final(self), ib, il),
    { unimplemented!() }
"""

CONTRACT = f"""        requires all_declared(old(self), *typ, opt_name(behind_ref)), names_distinct(old(self)), wf_env(old(self)),
        ensures {CANARY}
            env_le(old(self), final(self)), names_distinct(final(self)), wf_env(final(self)),
            implied_ok(final(self), *typ, opt_name(behind_ref)),
        decreases typ,"""

LOOP_INV = """                        invariant
                            *typ == TypeName::Named(*path_type),
                            behind_ref == Some(borrow_lifetime),
                            *self == *old(self), names_distinct(self), wf_env(self),
                            all_declared(self, *typ, opt_name(behind_ref)),
                            forall|k: int| 0 <= k < implicit_longer_than_borrow@.len() ==> declared(self, *#[trigger] implicit_longer_than_borrow@[k]),
                            // every named lifetime seen so far is already known longer than the borrow, or queued to be added
                            (forall|j: int| 0 <= j < it.index@ && (#[trigger] path_type.lifetimes@[j]) is Named ==>
                                named_longer(self, *borrow_lifetime, path_type.lifetimes@[j]->Named_0) || in_names(implicit_longer_than_borrow@, path_type.lifetimes@[j]->Named_0)),"""

LOOP_HINT = """                        proof {
                            assert(path_lifetime == path_type.lifetimes@[it.index@]);
                        }
                        let ghost impl0 = implicit_longer_than_borrow@;"""

AFTER_PUSH = """
                                proof {
                                    assert(implicit_longer_than_borrow@[impl0.len() as int] == path_lifetime);
                                    assert(path_type.lifetimes@[it.index@ as int] is Named);
                                    assert(declared(self, path_type.lifetimes@[it.index@ as int]->Named_0));
                                    assert forall|k: int| 0 <= k < implicit_longer_than_borrow@.len() implies declared(self, *#[trigger] implicit_longer_than_borrow@[k]) by {
                                        if k < impl0.len() { assert(implicit_longer_than_borrow@[k] == impl0[k]); }
                                    }
                                    assert forall|j: int| 0 <= j < it.index@ && (#[trigger] path_type.lifetimes@[j]) is Named && in_names(impl0, path_type.lifetimes@[j]->Named_0)
                                        implies in_names(implicit_longer_than_borrow@, path_type.lifetimes@[j]->Named_0) by {
                                        let k = choose|k: int| 0 <= k < impl0.len() && *#[trigger] impl0[k] == path_type.lifetimes@[j]->Named_0;
                                        assert(implicit_longer_than_borrow@[k] == impl0[k]);
                                    }
                                }"""

ELSE_HINT = """ else {
                                proof {
                                    // already known longer: explicit contains it
                                    let n = *path_lifetime;
                                    assert forall|ia: int, ib: int| has_id(self, *borrow_lifetime, ia) && has_id(self, n, ib) implies reach_l(self, ia, ib) by {
                                        assert(in_names(explicit_longer_than_borrow@, self.nodes@[ib].lifetime));
                                        let s = choose|s: int| has_id(self, *borrow_lifetime, s) && reach_d(self, LongerOrShorter::Longer, s, ib);
                                        assert(s == ia);
                                        lemma_longer_is_l(self, ia, ib);
                                    }
                                }
                            }"""

PAIRS_LOOP = """
                        // E7: `implicit.into_iter().map(|path_lifetime| (path_lifetime, Some(borrow_lifetime)))` materialised (A-iter)
                        let mut pairs__: Vec<(&NamedLifetime, Option<&NamedLifetime>)> = Vec::new();
                        let ghost env0 = *self;
                        for pl in it2: implicit_longer_than_borrow.iter()
                            invariant
                                pairs__@.len() == it2.index@,
                                (forall|k: int| 0 <= k < it2.index@ ==> (#[trigger] pairs__@[k]).0 == implicit_longer_than_borrow@[k] && pairs__@[k].1 == Some(borrow_lifetime)),
                        {
                            pairs__.push((*pl, Some(borrow_lifetime)));
                        }
                        proof {
                            assert(declared(self, *borrow_lifetime));
                            assert forall|k: int| 0 <= k < pairs__@.len() implies declared(self, *(#[trigger] pairs__@[k]).0)
                                && (pairs__@[k].1 is Some ==> declared(self, *pairs__@[k].1->Some_0)) by {
                                assert(pairs__@[k].0 == implicit_longer_than_borrow@[k]);
                                assert(declared(self, *implicit_longer_than_borrow@[k]));
                            }
                        }
                        self.extend_bounds_pairs(pairs__);
                        proof {
                            lemma_distinct_mono(&env0, self);
                            // every queued lifetime now has a direct edge from the borrow lifetime; the others keep their paths
                            assert forall|j: int| 0 <= j < path_type.lifetimes@.len() && (#[trigger] path_type.lifetimes@[j]) is Named
                                implies named_longer(self, *borrow_lifetime, path_type.lifetimes@[j]->Named_0) by {
                                let n = path_type.lifetimes@[j]->Named_0;
                                if in_names(implicit_longer_than_borrow@, n) {
                                    let k = choose|k: int| 0 <= k < implicit_longer_than_borrow@.len() && *#[trigger] implicit_longer_than_borrow@[k] == n;
                                    assert(pairs__@[k].0 == implicit_longer_than_borrow@[k]);
                                    assert forall|ia: int, ib: int| has_id(self, *borrow_lifetime, ia) && has_id(self, n, ib) implies reach_l(self, ia, ib) by {
                                        assert(has_id(self, *pairs__@[k].1->Some_0, ia));
                                        assert(edge_l(self, ia, ib));
                                        lemma_edge_reach(self, ia, ib);
                                    }
                                } else {
                                    lemma_named_longer_mono(&env0, self, *borrow_lifetime, n);
                                }
                            }
                        }
                    """


def e7_pairs(text):
    m = re.search(r"self\.extend_bounds\(\s*implicit_longer_than_borrow\s*\.into_iter\(\)\s*\.map\(\|path_lifetime\| \(path_lifetime, Some\(borrow_lifetime\)\)\),?\s*\);", text)
    if not m:
        raise Undecided("edit-mismatch", "E7: `self.extend_bounds(implicit.into_iter().map(|pl| (pl, Some(borrow))))` not found")
    return text[:m.start()] + PAIRS_LOOP + text[m.end():], [(m.group(0)[:160], "for/push into Vec of pairs; self.extend_bounds_pairs(pairs)")]


def e7_contains(text):
    m = re.search(r"if !(\w+)\.contains\(&path_lifetime\) \{", text)
    if not m:
        # the de-dup test has another shape: verify as written (no hint possible)
        return text, []
    o = m.end() - 1
    c = match_close(text, o)
    body = text[o + 1:c]
    tested = m.group(1)
    new = (f"if !__contains_name(&{tested}, path_lifetime) {{" + body.rstrip() + AFTER_PUSH + "\n                            }" + ELSE_HINT.replace("explicit_longer_than_borrow", tested))
    return text[:m.start()] + new + text[c + 1:], [(m.group(0), "Vec::contains -> __contains_name (linear search, structural ==) + ghost hints")]


def build(tier):
    vf = VerusFile(NAME)
    src = Src(F)
    types = Src(TYPES)
    paths = Src("core/src/ast/paths.rs")
    vf.add(vhelp.HEADER)
    vf.add(PRELUDE)
    vhelp.typedef(vf, src, "NamedLifetime", "struct", pub_tuple_fields=True)
    vhelp.typedef(vf, src, "Lifetime", "enum")
    vhelp.typedef(vf, src, "LifetimeNode", "struct")
    vhelp.typedef(vf, src, "LifetimeEnv", "struct")
    vhelp.typedef(vf, paths, "Path", "struct")
    vhelp.typedef(vf, types, "PathType", "struct")
    vhelp.typedef(vf, types, "Mutability", "enum", derive=vhelp.FIELDLESS_DERIVE)
    vhelp.typedef(vf, types, "StdlibOrDiplomat", "enum", derive=vhelp.FIELDLESS_DERIVE)
    vhelp.typedef(vf, types, "StringEncoding", "enum", derive="#[derive(Copy, Clone)]")
    vhelp.typedef(vf, types, "PrimitiveType", "enum", derive="#[derive(Copy, Clone)]")
    vhelp.typedef(vf, types, "TypeName", "enum")
    vf.add(SPECS)
    vf.add("pub open spec fn opt_name(o: Option<&NamedLifetime>) -> Option<NamedLifetime> { match o { Some(n) => Some(*n), None => None } }\n")

    # ---- part B: the real DFS
    vf.add("impl LifetimeEnv {\n")
    p = Piece(src, src.item("impl LifetimeEnv::len", "fn"))
    p.contract("        ensures r == self.nodes@.len(),", ret_name="r")
    vf.add_piece(p)
    vf.add("}\n")
    vhelp.typedef(vf, src, "LongerOrShorter", "enum", derive=vhelp.FIELDLESS_DERIVE)
    vf.add(CALLEES)
    pubf = lambda names: [("E1", r"\n    (" + "|".join(names) + "):", r"\n    pub \1:")]
    vhelp.typedef(vf, src, "LifetimeTransitivity", "struct", subs=pubf(["env", "visited", "out", "longer_or_shorter"]))
    vf.add(T_SPECS)
    vf.add("impl LongerOrShorter {\n")
    p = Piece(src, src.item("impl LongerOrShorter::edges", "fn"))
    p.contract("        ensures r@ == (if *self is Longer { node.longer@ } else { node.shorter@ }),", ret_name="r")
    p.sub("E7", r"&node\.(longer|shorter)\[\.\.\]", r"node.\1.as_slice()", count=2, why="full-range slicing `&v[..]` spelled `v.as_slice()`")
    vf.add_piece(p, expected="edges")
    vf.add("}\nimpl<'env> LifetimeTransitivity<'env> {\n")
    p = Piece(src, src.item("impl LifetimeTransitivity<'env>::new", "fn"))
    p.contract(f"""        requires wf_env(env), names_distinct(env),
        ensures {CANARY} r.t_inv(), r.env == env, r.longer_or_shorter == longer_or_shorter, r.out@.len() == 0,
            forall|v: int| 0 <= v < r.visited@.len() ==> !r.visited@[v],""", ret_name="r")
    vf.add_piece(p, expected="new")
    it = src.item("impl LifetimeTransitivity<'env>::dfs", "fn")
    p = Piece(src, it)
    p.expect_loops(1)
    p.contract(DFS_CONTRACT)
    lp = it["loops"][0]
    pat = src.slice(lp["pat"][0], lp["pat"][1])
    if pat != "&edge_index":
        raise Undecided("anchor-lost", "dfs: loop pattern is no longer `&edge_index`")
    p.replace("E10", lp["pat"][0], lp["pat"][1], "edge_index__r", "`for &x in` spelled with an explicit deref")
    p.loop_spec(0, DFS_LOOP_INV, iter_name="it")
    p.loop_body_prefix(0, "                let edge_index = *edge_index__r;\n" + DFS_BODY_HINT)
    p.sub("E4", r"(self\.dfs\(edge_index\);)", lambda m: m.group(1) + DFS_AFTER_CALL, count=1, why="ghost hints after the recursive call")
    p.sub("E4", r"(self\.out\.push\(&node\.lifetime\);)", lambda m: m.group(1) + DFS_MARK_HINT, count=1, why="ghost hints after marking")
    vf.add("    #[verifier::exec_allows_no_decreases_clause]\n    #[verifier::loop_isolation(false)]\n")
    vf.add_piece(p, expected="dfs")
    p = Piece(src, src.item("impl LifetimeTransitivity<'env>::visit", "fn"))
    p.contract(f"""        requires old(self).t_inv(), forall|v: int| 0 <= v < old(self).visited@.len() ==> !old(self).visited@[v],
        ensures {CANARY} final(self).t_inv(), final(self).env == old(self).env, final(self).longer_or_shorter == old(self).longer_or_shorter,
            forall|v: int| 0 <= v < final(self).visited@.len() ==>
                (#[trigger] final(self).visited@[v] <==> exists|s: int| has_id(old(self).env, *named, s) && reach_d(old(self).env, old(self).longer_or_shorter, s, v)),""")
    def e7_position(text):
        m = re.search(r"self\s*\.env\s*\.nodes\s*\.iter\(\)\s*\.position\(\|node\| node\.lifetime == \*named\)", text)
        if not m:
            raise Undecided("edit-mismatch", "E7: `self.env.nodes.iter().position(|node| node.lifetime == *named)` not found")
        return text[:m.start()] + POSITION_LOOP + text[m.end():], [(m.group(0), "index loop")]
    p.fn("E7", e7_position, why="Iterator::position desugared")
    p.sub("E4", r"(self\.dfs\(id\);)", lambda m: m.group(1) + """
            proof {
                let env = self.env; let dir = self.longer_or_shorter;
                assert forall|s: int| has_id(env, *named, s) implies s == id by { }
                assert forall|v: int| 0 <= v < self.visited@.len() implies
                    (#[trigger] self.visited@[v] <==> exists|s: int| has_id(env, *named, s) && reach_d(env, dir, s, v)) by {
                    if self.visited@[v] { assert(has_id(env, *named, id as int) && reach_d(env, dir, id as int, v)); }
                    if exists|s: int| has_id(env, *named, s) && reach_d(env, dir, s, v) {
                        let s = choose|s: int| has_id(env, *named, s) && reach_d(env, dir, s, v);
                        assert(s == id);
                        let p = choose|p: Seq<int>| is_path_d(env, dir, p) && p[0] == id as int && p[p.len() - 1] == v;
                        lemma_closed_contains_reach_d(env, dir, self.visited@, id as int, p);
                    }
                }
            }""", count=1, why="ghost: closure + start visited => exactly the reachable set")
    vf.add_piece(p, expected="visit")
    p = Piece(src, src.item("impl LifetimeTransitivity<'env>::finish", "fn"))
    p.contract(f"        ensures {CANARY} r == self.out,", ret_name="r")
    vf.add_piece(p, expected="finish")
    for fn, dirn in (("longer_than", "Longer"), ("shorter_than", "Shorter")):
        p = Piece(src, src.item(f"impl LifetimeTransitivity<'env>::{fn}", "fn"))
        p.contract(f"""        requires wf_env(env), names_distinct(env),
        ensures {CANARY}
            forall|v: int| 0 <= v < env.nodes@.len() ==>
                (in_names(r@, (#[trigger] env.nodes@[v]).lifetime) <==> exists|s: int| has_id(env, *named, s) && reach_d(env, LongerOrShorter::{dirn}, s, v)),
            forall|k: int| 0 <= k < r@.len() ==> declared(env, *#[trigger] r@[k]),""", ret_name="r")
        vf.add_piece(p, expected=fn)
    vf.add("}\n")
    vf.add("impl LifetimeEnv {\n" + EXTEND_BOUNDS)
    it = src.item("impl LifetimeEnv::extend_implicit_lifetime_bounds", "fn")
    p = Piece(src, it)
    p.expect_loops(1)
    p.contract(CONTRACT)
    p.loop_spec(0, LOOP_INV, iter_name="it")
    p.loop_body_prefix(0, LOOP_HINT)
    p.sub("E3", r"let mut implicit_longer_than_borrow = vec!\[\];", "let mut implicit_longer_than_borrow: Vec<&NamedLifetime> = vec![];", count=1, why="inferred type written out")
    p.fn("E7", e7_contains, why="Vec::contains on references")
    p.fn("E7", e7_pairs, why="into_iter().map(..) argument materialised; generic extend_bounds specialised to the pair type used here")
    # recursive calls: carry monotonicity across the two Result arms (ghost)
    p.sub("E4", r"self\.extend_implicit_lifetime_bounds\(ok, None\);\s*self\.extend_implicit_lifetime_bounds\(err, None\);",
          """let ghost e0 = *self;
                proof { assert(all_declared(self, **ok, None) && all_declared(self, **err, None)); }
                self.extend_implicit_lifetime_bounds(ok, None);
                let ghost e1 = *self;
                proof { lemma_declared_mono(&e0, &e1, **err, None); }
                self.extend_implicit_lifetime_bounds(err, None);
                proof { lemma_implied_mono(&e1, self, **ok, None); lemma_le_trans(&e0, &e1, self); }""", count=1, why="ghost: monotonicity between the two recursive calls")
    vf.add("    #[verifier::loop_isolation(false)]\n")
    vf.add_piece(p, expected="extend_implicit_lifetime_bounds")
    vf.add("}\n")
    vf.expected += ["lemma_reach_mono", "lemma_implied_mono", "lemma_declared_mono"]
    vf.add(vhelp.FOOTER)
    return vf


CANARY_FUNCTIONS = ["extend_implicit_lifetime_bounds"]
ASSUMPTIONS = [
    "LifetimeTransitivity::{new, visit, dfs, finish, longer_than, shorter_than} and LongerOrShorter::edges are verified in this unit (the DFS visits exactly the lifetimes reachable in the chosen direction); termination of the recursive dfs is NOT proved (exec_allows_no_decreases_clause)",
    "E7: Iterator::position desugared to an index loop; `&v[..]` spelled `v.as_slice()`; derived PartialEq on NamedLifetime structural (__name_eq)",
    "precondition wf_env: every edge index is < nodes.len() (extend_bounds pushes only ids it has just looked up)",
    "callee extend_bounds assumed to add the edge long -> short for every (lifetime, bound) pair and to remove nothing; the generic iterator signature is specialised to Vec<(&NamedLifetime, Option<&NamedLifetime>)> (E7/E11)",
    "Vec<&NamedLifetime>::contains is a linear search with structural equality (A-iter, A-derive)",
    "precondition: the named lifetimes involved are declared in the env (extend_generics ran first; otherwise the code's `expect` fires: documented bug trap) and names are distinct (extend_lifetimes panics on duplicates)",
]
UNVERIFIED = {"C04": ["extend_generics / extend_lifetimes / extend_bounds (syn generics; generic iterators)", "from_method_item's visiting order (syn)"]}
