"""V validate_bounds: hir::TypeContext::validate_ty_in_method — the validation that every outlives bound a type's DEFINITION
imposes between its lifetime parameters is restated on the method that uses the type (so the method's LifetimeEnv, which
feeds all_longer_lifetimes and hence the borrow edges, contains the implied bounds).  An error is pushed iff some use-site
lifetime u (a named method lifetime), some def-site bound `d_longer: d` on its slot and the corresponding use-site lifetime c
(non-static, different from u) exist with `c: u` NOT declared on the method."""
import os
import re
from rsrc import Src, Piece, rule_panics
from verus_engine import VerusFile, CANARY
from common import Undecided, VERIF, read
import vhelp

NAME = "validate_bounds"
ENGINE = "verus"
PROPERTIES = {"C04": "a method is rejected iff a def-site bound of a parameter/return type is not restated on the method (implied bounds cannot be silently missing from the outlives graph)",
              "C05": "post-lowering validation: the missing-bound error is reported for exactly the violating (use lifetime, def bound) pairs",
              "C15": "def_to_use's expect is unreachable for linked lifetimes built by LinkedLifetimes::new"}
F = "core/src/hir/type_context.rs"
LT = "core/src/hir/lifetimes.rs"

CONTRACT = """        requires link_of_ty(param_ty, self) matches Some(l) ==> linked_wf(l),
        ensures /*CANARY*/
            final(errors).errors@.len() >= old(errors).errors@.len(),
            forall|k: int| 0 <= k < old(errors).errors@.len() ==> final(errors).errors@[k] == old(errors).errors@[k],
            match link_of_ty(param_ty, self) {
                // primitives, enums, slices, options ...: nothing to validate
                None => final(errors).errors@ == old(errors).errors@,
                Some(l) => (final(errors).errors@.len() > old(errors).errors@.len()) == any_viol(l, &method.lifetime_env, l.all@.len() as int, 0),
            },
        decreases param_ty,"""
OUTER = """let all__ = linked.lifetimes_all();
        let mut oi__: usize = 0;
        while oi__ < all__.len()
            invariant
                oi__ <= all__@.len(), all__@ == linked.all@, linked_wf(linked), link_of_ty(param_ty, self) == Some(linked),
                errors.errors@.len() >= old(errors).errors@.len(),
                forall|k: int| 0 <= k < old(errors).errors@.len() ==> errors.errors@[k] == old(errors).errors@[k],
                (errors.errors@.len() > old(errors).errors@.len()) == any_viol(linked, &method.lifetime_env, oi__ as int, 0),
            decreases all__@.len() - oi__
        {
            let @PAT@ = all__[oi__];
            let ghost oi = oi__ as int;
            oi__ += 1;"""
INNER = """let mut ii__: usize = 0;
            while ii__ < @EXPR@.len()
                invariant
                    ii__ <= @EXPR@@.len(), oi == oi__ - 1, 0 <= oi < linked.all@.len(), all__@ == linked.all@, linked_wf(linked),
                    linked.all@[oi] == (MaybeStatic::NonStatic(use_lt), def_lt), use_lt.0 < method.lifetime_env.nodes@.len(),
                    *use_longer_lifetimes == method.lifetime_env.nodes@[use_lt.0 as int].longer,
                    def_longer_seq(linked, def_lt) == Some(@EXPR@@),
                    errors.errors@.len() >= old(errors).errors@.len(),
                    forall|k: int| 0 <= k < old(errors).errors@.len() ==> errors.errors@[k] == old(errors).errors@[k],
                    (errors.errors@.len() > old(errors).errors@.len()) == any_viol(linked, &method.lifetime_env, oi, ii__ as int),
                decreases @EXPR@@.len() - ii__
            {
                let @PAT@ = &@EXPR@[ii__];
                proof { lemma_any_viol_next_inner(linked, &method.lifetime_env, oi, ii__ as int); }
                ii__ += 1;"""


DRIVER_LOOP_INV = """                    invariant
                        forall|k: int| 0 <= k < method.params@.len() ==> ty_wf(self, &(#[trigger] method.params@[k]).ty),
                        errors.errors@.len() >= old(errors).errors@.len(),
                        forall|k: int| 0 <= k < old(errors).errors@.len() ==> errors.errors@[k] == old(errors).errors@[k],
                        (errors.errors@.len() > old(errors).errors@.len())
                            == ((method.param_self matches Some(ps) && ty_viol(self, &self_as_type(ps.ty), method)) || params_viol_upto(self, method, it.index@ as int)),"""


def build_driver_fragment(vf, src):
    """E15: the statements of TypeContext::validate (per method) between the elided-lifetime early exit and the return-type check:
    which INPUTS are validated.  Anchors: the `if failed { .. continue; }` block before, `method.output.with_contained_types(` after."""
    it = src.item("impl TypeContext::validate", "fn")
    cls = it.get("closures", [])
    if len(cls) != 2:
        raise Undecided("anchor-lost", f"TypeContext::validate: expected 2 closures (elided-lifetime check, return-type check), found {len(cls)}")
    body = src.bytes.decode() if isinstance(src.bytes, bytes) else src.bytes
    seg0 = cls[0]["end"]
    m = re.compile(r"if failed \{").search(body, seg0)
    if not m or m.start() > cls[1]["start"]:
        raise Undecided("anchor-lost", "TypeContext::validate: `if failed { .. continue; }` not found")
    from rsrc import match_close
    a = match_close(body, m.end() - 1) + 1
    tail = body[a:cls[1]["start"]]
    m2 = re.search(r"method\.output\.with_contained_types\(\s*$", tail)
    if not m2:
        raise Undecided("anchor-lost", "TypeContext::validate: `method.output.with_contained_types(|out_ty| ..)` not found after the input checks")
    b = a + m2.start()
    loops = [l for l in it.get("loops", []) if a <= l["start"] < b]
    frag = {"path": it["path"] + "#input checks (between `if failed` and the return-type check)", "kind": "stmt", "start": a, "after_attrs": a, "end": b, "loops": loops}
    p = Piece(src, frag)
    p.expect_loops(1)
    if src.slice(*loops[0]["expr"]).strip() != "&method.params":
        raise Undecided("anchor-lost", "TypeContext::validate: the parameter loop is no longer `for param in &method.params`")
    p.replace("E7", loops[0]["expr"][0], loops[0]["expr"][1], "method.params.iter()", "`for x in &vec` spelled `vec.iter()`")
    p.loop_spec(0, DRIVER_LOOP_INV, iter_name="it")
    org = {"file": F, "item": frag["path"], "line": src.line_of(a), "end_line": src.line_of(b)}
    vf.add(f"""    // E15: statement range of TypeContext::validate (body of the per-method loop) as a function of what it reads.
    // Every INPUT of the method - the self parameter included - is checked for bounds implied by its type's definition.
    pub fn validate_inputs_fragment(&self, errors: &mut ErrorStore, method: &hir::Method)
        requires
            method.param_self matches Some(ps) ==> ty_wf(self, &self_as_type(ps.ty)),
            forall|k: int| 0 <= k < method.params@.len() ==> ty_wf(self, &(#[trigger] method.params@[k]).ty),
        ensures {CANARY}
            final(errors).errors@.len() >= old(errors).errors@.len(),
            forall|k: int| 0 <= k < old(errors).errors@.len() ==> final(errors).errors@[k] == old(errors).errors@[k],
            (final(errors).errors@.len() > old(errors).errors@.len())
                == ((method.param_self matches Some(ps) && ty_viol(self, &self_as_type(ps.ty), method)) || params_viol_upto(self, method, method.params@.len() as int)),
    {{
""", origin=org)
    vf.add(p.render(), origin=org, edits=p.log)
    vf.add("\n    }\n", origin=org)
    vf.functions.append({"path": frag["path"], "file": F, "line": src.line_of(a), "end_line": src.line_of(b), "engine": "verus", "mode": "verus (statement range, E15)", "bound": "none"})
    vf.expected.append("validate_inputs_fragment")


ELIDED_PRELUDE = """
// ---- elided-lifetime check (first closure of TypeContext::validate): which lifetimes a type mentions is abstract (Type::lifetimes(), E11: carried as a Vec)
pub uninterp spec fn lts_of(t: &Type) -> Seq<MaybeStatic<Lifetime>>;
impl Type { #[verifier::external_body] pub fn lifetimes(&self) -> (r: Vec<MaybeStatic<Lifetime>>) ensures r@ == lts_of(self) { unimplemented!() } }
#[verifier::external_body] pub fn __elided_msg() -> String { unimplemented!() }
// oracle, from the rule "no elided lifetimes in return types": a lifetime mentioned by a returned type is elided iff it is not one of the method's named
// lifetimes, i.e. the method's lifetime env has no node for it (elision.rs hands out indices >= num named lifetimes for anonymous ones)
pub open spec fn lt_elided(l: MaybeStatic<Lifetime>, env: &LifetimeEnv) -> bool { l matches MaybeStatic::NonStatic(x) && x.0 >= env.nodes@.len() }
pub open spec fn ty_elided_upto(t: &Type, env: &LifetimeEnv, n: int) -> bool { exists|j: int| 0 <= j < n && j < lts_of(t).len() && lt_elided(#[trigger] lts_of(t)[j], env) }
pub open spec fn ty_elided(t: &Type, env: &LifetimeEnv) -> bool { ty_elided_upto(t, env, lts_of(t).len() as int) }
"""
ELIDED_CONTRACT = """        ensures /*CANARY*/
            // the flag is raised (and exactly one diagnostic added) iff THIS returned type mentions an elided lifetime; otherwise nothing changes
            *final(failed) == (*old(failed) || ty_elided(out_ty, &method.lifetime_env)),
            ty_elided(out_ty, &method.lifetime_env) ==> final(errors).errors@.len() == old(errors).errors@.len() + 1,
            !ty_elided(out_ty, &method.lifetime_env) ==> final(errors).errors@ == old(errors).errors@,
            forall|k: int| 0 <= k < old(errors).errors@.len() ==> final(errors).errors@[k] == old(errors).errors@[k],
"""
ELIDED_INV = """                    invariant_except_break
                        *failed == f0__, errors.errors@ == e0__,
                        !ty_elided_upto(out_ty, &method.lifetime_env, it.index@ as int),
                    invariant
                        it.seq() == lts_of(out_ty),
                    ensures
                        *failed == (f0__ || ty_elided(out_ty, &method.lifetime_env)),
                        ty_elided(out_ty, &method.lifetime_env) ==> errors.errors@ == e0__.push(errors.errors@.last()) && errors.errors@.len() == e0__.len() + 1,
                        !ty_elided(out_ty, &method.lifetime_env) ==> errors.errors@ == e0__,"""


def build_elided_closure(vf, src):
    """E18: the first closure of TypeContext::validate (`method.output.with_contained_types(|out_ty| {..})`, captures `method`, `&mut errors`, `&mut failed`)
    hoisted to a function with the captured locals as explicit parameters."""
    it = src.item("impl TypeContext::validate", "fn")
    cls = it.get("closures", [])
    if len(cls) != 2:
        raise Undecided("anchor-lost", f"TypeContext::validate: expected 2 closures (elided-lifetime check, return-type check), found {len(cls)}")
    c0, c1 = cls[0]["start"], cls[0]["end"]
    ctext = src.slice(c0, c1)
    m = re.match(r"\|\s*(\w+)\s*\|\s*\{", ctext)
    if not m or m.group(1) != "out_ty":
        raise Undecided("anchor-lost", "TypeContext::validate: first closure is no longer `|out_ty| { .. }`")
    before = src.slice(max(it["start"], c0 - 60), c0)
    if not re.search(r"method\.output\.with_contained_types\(\s*$", before):
        raise Undecided("anchor-lost", "TypeContext::validate: the elided-lifetime closure is no longer the argument of `method.output.with_contained_types(`")
    frag = {"start": c0, "after_attrs": c0, "end": c1, "path": it["path"] + "#closure |out_ty| (elided-lifetime check)",
            "loops": [l for l in it.get("loops", []) if c0 <= l["start"] < c1], "body_open": c0 + ctext.index("{")}
    pc = Piece(src, frag)
    pc.expect_loops(1)
    pc.replace("E18", c0, frag["body_open"],
               "pub fn elided_check_closure(errors: &mut ErrorStore, failed: &mut bool, method: &hir::Method, out_ty: &hir::Type)\n" + ELIDED_CONTRACT.replace("/*CANARY*/", CANARY),
               "closure capturing `method`, `&mut errors`, `&mut failed` hoisted to a function with the captured locals as explicit parameters")
    pc.sub("E18", r"\bfailed = true;", "*failed = true;", count=1, why="captured `failed` is an explicit &mut parameter")
    pc.sub("E6", r'"Found elided lifetime in return type, please explicitly specify"\s*\.into\(\)', "__elided_msg()", count=1, why="error message text dropped")
    pc.body_prefix("        let ghost f0__ = *failed; let ghost e0__ = errors.errors@;")
    pc.loop_spec(0, ELIDED_INV, iter_name="it")
    org = {"file": F, "item": frag["path"], "line": src.line_of(c0), "end_line": src.line_of(c1)}
    vf.add(pc.render() + "\n", origin=org, edits=pc.log)
    vf.functions.append({"path": frag["path"], "file": F, "line": src.line_of(c0), "end_line": src.line_of(c1), "engine": "verus", "mode": "verus (closure hoisted, E18)", "bound": "none"})
    vf.expected.append("elided_check_closure")


def build(tier):
    vf = VerusFile(NAME)
    src = Src(F)
    lt = Src(LT)
    vf.add(vhelp.HEADER)
    pre = read(os.path.join(VERIF, "units", "prelude", "validate_bounds.rs"))
    a, rest = pre.split("/*@LIFETIME_TYPES@*/")
    b, rest = rest.split("/*@ENV_TYPES@*/")
    c, d = rest.split("/*@GET_BOUNDS@*/")
    vf.add(a)
    vhelp.typedef(vf, lt, "Lifetime", "struct", derive=vhelp.FIELDLESS_DERIVE, pub_tuple_fields=True)
    vhelp.typedef(vf, lt, "MaybeStatic", "enum", derive="#[derive(Copy, Clone)]")
    vf.add(b)
    sv = [("E3", r"SmallVec<\[([A-Za-z]+); [A-Z_0-9]+\]>", r"Vec<\1>")]
    vhelp.typedef(vf, lt, "BoundedLifetime", "struct", subs=sv)
    vhelp.typedef(vf, lt, "LifetimeEnv", "struct", subs=sv + [("E1", r"\n    nodes:", "\n    pub nodes:"), ("E1", r"\n    num_lifetimes:", "\n    pub num_lifetimes:")])
    vf.add(c)
    p = Piece(lt, lt.item("impl LifetimeEnv::get_bounds", "fn"))
    p.sub("E1", r"pub\(super\)", "pub", count=1)
    p.contract("        ensures r == (if named_lifetime.0 < self.nodes@.len() { Some(&self.nodes@[named_lifetime.0 as int]) } else { None::<&BoundedLifetime> }),", ret_name="r")
    vf.add_piece(p, expected="get_bounds")
    vf.add(d)
    vf.add("impl TypeContext {\n")
    it = src.item("impl TypeContext::validate_ty_in_method", "fn")
    p = Piece(src, it)
    p.expect_loops(2)
    L = it["loops"]
    ex = [src.slice(*l["expr"]).strip() for l in L]
    pats = [src.slice(*l["pat"]).strip() for l in L]
    if ex[0] != "linked.lifetimes_all()" or not re.fullmatch(r"\w+", ex[1]):
        raise Undecided("anchor-lost", f"validate_ty_in_method: loop headers changed: {list(zip(pats, ex))}")
    why = "E7w: `for x in <vector>` -> index loop with the index advanced at the START of the body, so that `continue` keeps its meaning (Verus rejects `continue` in for loops); elements are Copy"
    p.replace("E7w", L[0]["start"], L[0]["body_open"] + 1, OUTER.replace("@PAT@", pats[0]), why)
    p.replace("E7w", L[1]["start"], L[1]["body_open"] + 1, INNER.replace("@PAT@", pats[1]).replace("@EXPR@", ex[1]), why)
    p.sub("E12", r"<P: hir::TyPosition>", "", count=1, why="TyPosition marker erased")
    p.sub("E12", r"param_ty: &hir::Type<P>", "param_ty: &hir::Type", count=1, why="TyPosition marker erased")
    p.sub("E1", r"\A(\s*)fn validate_ty_in_method", r"\1pub fn validate_ty_in_method", count=1, why="private fn made pub")
    p.sub("E6", r"format!\((?:[^()]|\([^()]*\))*\)", "__msg()", count="+", why="error message text dropped")
    p.sub("E6", r'"comes from &-ref\'s lifetime in parameter"\.into\(\)', "__msg()", count=None, why="error message text dropped")
    p.sub("E7", r"\.all_lifetimes\(\)\.collect\(\)", ".all_lifetimes_vec()", count=None, why="(0..n).map(Lifetime::new).collect() carried as the vector [Lifetime(0), .., Lifetime(n-1)]")
    p.sub("E7", r"(\w+)\.contains\(&(\w+)\)", r"__contains(\1, &\2)", count=None, why="slice::contains with its definition (verified helper)")
    p.fn("E5", rule_panics, why="panic sites become obligations")
    p.contract(CONTRACT.replace("/*CANARY*/", CANARY))
    vf.add_piece(p, expected="validate_ty_in_method")
    build_driver_fragment(vf, src)
    vf.add("}\n")
    vf.add(ELIDED_PRELUDE)
    build_elided_closure(vf, src)
    vf.add(vhelp.FOOTER)
    vf.expected += ["lemma_any_viol_next_inner", "__contains"]
    return vf


CANARY_FUNCTIONS = ["validate_ty_in_method", "validate_inputs_fragment", "elided_check_closure"]
ASSUMPTIONS = [
    "E7w: both `for` loops desugared to index loops (index advanced at body start) because the bodies use `continue`; LinkedLifetimes::lifetimes_all() carried as the Vec of its items (abstract: link.all), def_to_use abstract with the precondition that the def lifetime has a use-site counterpart (linked_wf: what LinkedLifetimes::new's debug_assert states)",
    "E3: SmallVec -> Vec in BoundedLifetime / LifetimeEnv (verbatim otherwise); LifetimeEnv::get_bounds verbatim; fmt_lifetime and the error text abstract (E6)",
    "hir::Type re-declared (Opaque / Struct / other); link_lifetimes abstract functions of (path, type context)",
    "E18: the elided-lifetime closure of TypeContext::validate hoisted to a function (captured method / &mut errors / &mut failed as parameters); Type::lifetimes() carried as the Vec of its items (E11)",
    "E15: of TypeContext::validate only the statement range between `if failed {..}` and the return-type check is under contract (which inputs are validated); hir::Method / ParamSelf / Param / SelfType re-declared with the fields read there; From<SelfType> for Type abstract (Opaque -> Opaque, Struct -> Struct)",
]
UNVERIFIED = {"C04": ["the rest of TypeContext::validate (which types/methods are visited; that the two closures are applied to every contained type is ReturnType::with_contained_types, unit used_lifetimes)"],
              "C05": ["TypeContext::validate driver (iteration over all types and methods); the elided-lifetime closure is under contract, its application to ok AND err types is with_contained_types (unit used_lifetimes, linked by the anchor `method.output.with_contained_types(`)"], "C15": []}
