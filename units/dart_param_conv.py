"""V dart_param_conv: tool/src/dart/mod.rs gen_method_info — last statement of the per-parameter loop body: the parameter's
Dart->C conversion is APPENDED to param_conversions (the call's argument list is in Rust declaration order).  Kept apart from unit
dart_param_order so that a rewrite of this one statement cannot mask a verdict on the others."""
import re
from rsrc import Src, Piece
from verus_engine import VerusFile, CANARY
from common import Undecided
import vhelp
from units.dart_param_order import PRELUDE, F

NAME = "dart_param_conv"
ENGINE = "verus"
PROPERTIES = {"C07": "Dart native call passes the converted arguments in the C ABI's order: each parameter's conversion is appended in Rust declaration order"}


def build(tier):
    vf = VerusFile(NAME)
    src = Src(F)
    vf.add(vhelp.HEADER)
    vf.add(PRELUDE)
    it = src.item("impl TyGenContext<'_,'cx>::gen_method_info", "fn")
    lp = [l for l in it.get("loops", []) if src.slice(l["start"], l["body_open"]).startswith("for param in method.params")]
    if len(lp) != 1:
        raise Undecided("anchor-lost", "gen_method_info: `for param in method.params..` loop not found")
    lp = lp[0]
    body = src.slice(lp["body_open"] + 1, lp["end"] - 1)
    vf.add("impl TyGenContext {\n")
    # ---------------- C: last statement of the loop body (conversion)
    k = body.rfind("param_conversions")
    if k < 0:
        raise Undecided("anchor-lost", "parameter loop: final `param_conversions..` statement not found")
    # start of that statement: previous `;` or `}` boundary -> use line start
    ls = body.rfind("\n", 0, k) + 1
    tail = body[ls:].rstrip()
    if not re.match(r"\s*(let\s+\w+\s*=\s*)?(self\.|param_conversions\.)", tail) or not tail.endswith(";"):
        raise Undecided("anchor-lost", "parameter loop does not end with the `param_conversions.push(..)` statement")
    a = lp["body_open"] + 1 + ls
    b = a + len(body[ls:].rstrip())
    frag = {"path": it["path"] + "#for param: last statement (param_conversions)", "kind": "stmt", "start": a, "after_attrs": a, "end": b, "loops": []}
    org = {"file": F, "item": frag["path"], "line": src.line_of(a), "end_line": src.line_of(b)}
    p = Piece(src, frag)
    vf.add("// E15: last statement of the per-parameter loop body\n"
           "fn dart_param_conversion(&mut self, param: &Param, param_name: CowStr, struct_borrow_info: Option<StructBorrowContext>, alloc: AllocName, param_conversions: &mut Vec<CowStr>)\n"
           f"    ensures {CANARY}\n"
           "        final(param_conversions)@ == old(param_conversions)@.push(conv_of(param.ty, param_name)),\n"
           "{", origin=org)
    vf.add(p.render(), origin=org, edits=p.log)
    vf.add("\n}\n}\n", origin=org)
    vf.functions.append({"path": frag["path"], "file": F, "line": src.line_of(a), "end_line": src.line_of(b), "engine": "verus", "mode": "verus (loop body last statement)", "bound": "none"})
    vf.expected.append("dart_param_conversion")
    vf.add(vhelp.FOOTER)
    return vf


CANARY_FUNCTIONS = ["dart_param_conversion"]
ASSUMPTIONS = [
    "E15: only the last statement of the parameter loop body is under contract; `param_name`, `struct_borrow_info`, `alloc` are its free locals",
    "gen_dart_to_c_for_type is an abstract deterministic function of (type, name) here",
]
UNVERIFIED = {"C07": ["the jinja template joining the list in order (read)"]}
