"""V used_lifetimes: hir::ReturnType::used_method_lifetimes — the set of method lifetimes the borrow analysis starts from is
exactly the set of non-static lifetimes appearing in ANY type carried by the return value (success payload and error payload,
through Infallible / Nullable / Fallible alike).  BorrowingParamVisitor::new keys its borrow map on this set: a lifetime
missing here yields no borrow edge for any parameter."""
import re
from rsrc import Src, Piece
from verus_engine import VerusFile, CANARY
from common import Undecided
import vhelp

NAME = "used_lifetimes"
ENGINE = "verus"
PROPERTIES = {"C05": "ReturnType::with_contained_types hands EVERY type carried by the return value (success and error payload) to the validation callback",
              "C04": "used_method_lifetimes == non-static lifetimes of the success payload UNION those of the error payload (no payload forgotten, nothing invented)",
              "C15": "no panic site"}
F = "core/src/hir/methods.rs"
LT = "core/src/hir/lifetimes.rs"

PRELUDE = r"""
#[verifier::external_body] pub struct OutType { x: u8 }
// the lifetimes an OutType mentions, in order (Type::lifetimes(); abstract here)
pub uninterp spec fn lts_of(t: &OutType) -> Seq<MaybeStatic<Lifetime>>;
impl OutType {
    // E11: the `impl Iterator` returned by Type::lifetimes() is consumed by a `for` only: carried as the Vec of its items
    #[verifier::external_body] pub fn lifetimes(&self) -> (r: Vec<MaybeStatic<Lifetime>>) ensures r@ == lts_of(self) { unimplemented!() }
}
// E3: std BTreeSet carried as an abstract set (new / insert only)
#[verifier::external_body] #[verifier::reject_recursive_types(T)] pub struct BTreeSet<T> { x: Vec<T> }
impl<T> BTreeSet<T> {
    pub uninterp spec fn view(&self) -> Set<T>;
    #[verifier::external_body] pub fn new() -> (r: Self) ensures r@ == Set::<T>::empty() { unimplemented!() }
    #[verifier::external_body] pub fn insert(&mut self, v: T) -> (b: bool) ensures final(self)@ == old(self)@.insert(v) { unimplemented!() }
}
"""

SPEC = r"""
// ---- oracle, from the property statement: a lifetime is "used by the return" iff it occurs (non-static) in the success
// payload or in the error payload
pub open spec fn has_upto(s: Seq<MaybeStatic<Lifetime>>, n: int, l: Lifetime) -> bool {
    exists|i: int| #![trigger s[i]] 0 <= i < n && i < s.len() && s[i] == MaybeStatic::NonStatic(l)
}
pub open spec fn has(s: Seq<MaybeStatic<Lifetime>>, l: Lifetime) -> bool { has_upto(s, s.len() as int, l) }
pub open spec fn success_of(r: ReturnType) -> SuccessType {
    match r { ReturnType::Infallible(s) => s, ReturnType::Fallible(s, _) => s, ReturnType::Nullable(s) => s }
}
pub open spec fn in_success(r: ReturnType, l: Lifetime) -> bool {
    match success_of(r) { SuccessType::OutType(t) => has(lts_of(&t), l), _ => false }
}
pub open spec fn in_error(r: ReturnType, l: Lifetime) -> bool {
    match r { ReturnType::Fallible(_, Some(e)) => has(lts_of(&e), l), _ => false }
}
pub open spec fn used_spec(r: ReturnType, l: Lifetime) -> bool { in_success(r, l) || in_error(r, l) }
// E19: recorder standing in for an `impl FnMut(&OutType)` argument
pub struct Recorder { pub seen: Ghost<Seq<OutType>> }
impl Recorder {
    #[verifier::external_body] pub fn call(&mut self, t: &OutType) ensures final(self).seen@ == old(self).seen@.push(*t) { unimplemented!() }
}
pub open spec fn contained(r: ReturnType) -> Seq<OutType> {
    (match success_of(r) { SuccessType::OutType(t) => seq![t], _ => Seq::<OutType>::empty() })
    + (match r { ReturnType::Fallible(_, Some(e)) => seq![e], _ => Seq::<OutType>::empty() })
}
"""

CLOSURE_CONTRACT = f"""    ensures {CANARY}
        forall|l: Lifetime| #![trigger final(set)@.contains(l)] final(set)@.contains(l) <==> (old(set)@.contains(l) || has(lts_of(ty), l)),
"""
LOOP_INV = """            invariant
                it.seq() == lts_of(ty),
                forall|l: Lifetime| #![trigger set@.contains(l)] set@.contains(l) <==> (old(set)@.contains(l) || has_upto(lts_of(ty), it.index@ as int, l)),"""
MAIN_CONTRACT = f"""        ensures {CANARY}
            forall|l: Lifetime| #![trigger r@.contains(l)] r@.contains(l) <==> used_spec(*self, l),"""


def build(tier):
    vf = VerusFile(NAME)
    src = Src(F)
    lt = Src(LT)
    vf.add(vhelp.HEADER)
    vhelp.typedef(vf, lt, "Lifetime", "struct", derive=vhelp.FIELDLESS_DERIVE, pub_tuple_fields=True)
    vhelp.typedef(vf, lt, "MaybeStatic", "enum")
    vf.add(PRELUDE)
    vhelp.typedef(vf, src, "SuccessType", "enum")
    vhelp.typedef(vf, src, "ReturnType", "enum")
    vf.add(SPEC)
    it = src.item("impl ReturnType::used_method_lifetimes", "fn")
    cl = it.get("closures", [])
    if len(cl) != 1:
        raise Undecided("anchor-lost", f"used_method_lifetimes: expected 1 closure, found {len(cl)}")
    c0, c1 = cl[0]["start"], cl[0]["end"]
    ctext = src.slice(c0, c1)
    m = re.match(r"\|\s*(\w+)\s*:\s*&OutType\s*\|\s*\{", ctext)
    if not m:
        raise Undecided("anchor-lost", "used_method_lifetimes: closure is no longer `|x: &OutType| { .. }`")
    # the statement binding the closure
    st = [s for s in it["stmts"] if s[0] <= c0 and c1 <= s[1]]
    if len(st) != 1:
        raise Undecided("anchor-lost", "closure statement not found")
    sa, sb = st[0]
    mm = re.match(r"let\s+mut\s+(\w+)\s*=\s*", src.slice(sa, c0))
    if not mm or src.slice(c1, sb).strip() != ";":
        raise Undecided("anchor-lost", "closure is not bound by `let mut NAME = |..| {..};`")
    cname, pname = mm.group(1), m.group(1)
    # captured variable: the first statement `let mut set = BTreeSet::new();`
    m0 = re.match(r"let\s+mut\s+(\w+)\s*=\s*BTreeSet::new\(\)\s*;", src.slice(*it["stmts"][0]))
    if not m0:
        raise Undecided("anchor-lost", "first statement is not `let mut set = BTreeSet::new();`")
    sname = m0.group(1)
    # ---- E18: closure capturing one `&mut` local hoisted to a function taking that local as explicit `&mut` parameter
    frag = {"start": c0, "after_attrs": c0, "end": c1, "path": it["path"] + f"#closure {cname}",
            "loops": [l for l in it.get("loops", []) if c0 <= l["start"] < c1], "body_open": c0 + ctext.index("{")}
    pc = Piece(src, frag)
    pc.expect_loops(1)
    pc.replace("E18", c0, frag["body_open"],
               f"fn {cname}({sname}: &mut BTreeSet<Lifetime>, {pname}: &OutType)\n" + CLOSURE_CONTRACT.replace("(set)", f"({sname})").replace("(ty)", f"({pname})"),
               "closure capturing `&mut set` hoisted to a function with the captured local as explicit parameter")
    pc.loop_spec(0, LOOP_INV.replace("set@", f"{sname}@").replace("(set)", f"({sname})").replace("(ty)", f"({pname})"), iter_name="it")
    vf.add(pc.render() + "\n", origin={"file": F, "item": frag["path"], "line": src.line_of(c0), "end_line": src.line_of(c1)}, edits=pc.log)
    vf.functions.append({"path": frag["path"], "file": F, "line": src.line_of(c0), "end_line": src.line_of(c1), "engine": "verus",
                         "mode": "verus (closure hoisted, E18)", "bound": "none"})
    vf.expected.append(cname)
    vf.add("impl ReturnType {\n")
    p = Piece(src, it)
    p.replace("E18", sa, sb, "", "closure definition hoisted (see above)")
    p.sub("E18", rf"\b{cname}\(", f"{cname}(&mut {sname}, ", count="+", why="call of the hoisted closure passes the captured local")
    p.contract(MAIN_CONTRACT, ret_name="r")
    vf.add_piece(p, expected="used_method_lifetimes")
    # ---- with_contained_types: the driver TypeContext::validate uses to visit every type carried by the return value
    p = Piece(src, src.item("impl ReturnType::with_contained_types", "fn"))
    p.sub("E19", r"mut f: impl FnMut\(&OutType\)", "f: &mut Recorder", count=1,
          why="FnMut callback parameter modelled by a recording object: the function is parametric in the callback, what matters is on which arguments and in which order it is invoked")
    p.sub("E19", r"\bf\((\w+)\)", r"f.call(\1)", count="+", why="callback invocation recorded")
    p.contract(f"""        ensures {CANARY}
            // the callback sees the success payload (if it is a type) and then the error payload (if any) - every type the return value carries
            final(f).seen@ =~= old(f).seen@ + contained(*self),""")
    vf.add_piece(p, expected="with_contained_types")
    vf.add("}\n")
    vf.add(vhelp.FOOTER)
    return vf


CANARY_FUNCTIONS = ["add_to_set", "used_method_lifetimes", "with_contained_types"]
ASSUMPTIONS = [
    "E18: the closure `add_to_set` (captures `&mut set`) is verified as a function with `set` as explicit `&mut` parameter; calls pass `&mut set`",
    "E3: std::collections::BTreeSet carried as an abstract set with new()/insert() specified (ordering / iteration order not modelled)",
    "E19: with_contained_types' `impl FnMut(&OutType)` parameter is modelled by a recording object (parametricity): the contract states on which payloads, in which order, the callback is invoked",
    "E11: Type::lifetimes() (an `impl Iterator` consumed by `for`) carried as the Vec of its items; which lifetimes a type mentions (lts_of) is abstract",
]
UNVERIFIED = {"C04": ["Type::lifetimes() itself", "BorrowingParamVisitor::new's use of the set"], "C15": []}
