"""V macro_return: macro/src/lib.rs gen_custom_type_method — the statement that decides how the proc macro rewrites a method's
return type and which conversion it appends (`-> DiplomatResult<T,E>` + `.into()`, `-> DiplomatResult<T,()>` + `.ok_or(()).into()`,
FFI-safe slice types + `.into()`, `as i8` for Ordering, as written otherwise).  This is the Rust half of the wire encoding that
lower_return_type (unit lower_type_gate) assumes: an optional POINTER stays a nullable pointer, every other Option<T> and every
Result<T,E> is compiled as DiplomatResult."""
import re
from rsrc import Src, Piece
from verus_engine import VerusFile, CANARY
from common import Undecided
import vhelp
import units.ffi_safe as FS

NAME = "macro_return"
ENGINE = "verus"
PROPERTIES = {"C10": "the macro compiles Option<&/Box<T>> returns as written (null niche) and every other Option<T> / Result<T,E> return as DiplomatResult, std spelling converted with ok_or / into",
              "C12": "the generated extern \"C\" function flushes every DiplomatWrite parameter before returning (one `flush()` per write parameter, whatever its lifetime spelling)",
              "C01": "the compiled extern \"C\" return type is the one the C header declares (result struct vs pointer vs FFI-safe slice struct vs i8)"}
F = "macro/src/lib.rs"
TYPES = "core/src/ast/types.rs"

PRELUDE = r"""
pub assume_specification<T: ?Sized, A: core::alloc::Allocator> [<Box<T, A> as core::convert::AsRef<T>>::as_ref] (b: &Box<T, A>) -> (r: &T)
    ensures r == &**b;
// ---- E6t: token streams produced by quote! carried as what they say
// to_syn(): the syntax of a type, carried as the type it spells
pub struct SynTy { pub of: TypeName }
pub enum Tok {
    Empty,                       // quote! {}
    Into,                        // .into()
    AsI8,                        // as i8
    OkOrInto,                    // .ok_or(()).into()
    RetWritten(SynTy),           // -> #return_type_syn
    RetResult2(SynTy, SynTy),    // -> diplomat_runtime::DiplomatResult<#ok, #err>
    RetResultUnit(SynTy),        // -> diplomat_runtime::DiplomatResult<#ty, ()>
    Flush(Ident),                // #p.flush();
}
impl TypeName {
    #[verifier::external_body] pub fn to_syn(&self) -> (r: SynTy) ensures r.of == *self { unimplemented!() }
    #[verifier::external_body] pub fn ffi_safe_version(&self) -> (r: TypeName) ensures r == spec_fsv(*self) { unimplemented!() }
}
pub mod ast { pub use super::TypeName; }
#[verifier::external_body] pub struct Attrs { x: u8 }
#[verifier::external_body] pub fn __typename_eq(a: &TypeName, b: &TypeName) -> (r: bool) ensures r == (*a == *b) { unimplemented!() }
/*@PARAM@*/
pub struct MethodStub { pub return_type: Option<TypeName>, pub params: Vec<Param> }
// one `<param>.flush();` per DiplomatWrite parameter, in parameter order (C12: what Rust wrote is visible to the caller when the call returns)
pub open spec fn is_write_param(p: Param) -> bool {
    match p.ty { TypeName::Reference(_, m, w) => m == Mutability::Mutable && *w == TypeName::Write, _ => false }
}
pub open spec fn flushes_upto(ps: Seq<Param>, n: int) -> Seq<Tok>
    decreases n
{
    if n <= 0 { Seq::<Tok>::empty() } else {
        let prev = flushes_upto(ps, n - 1);
        if is_write_param(ps[n - 1]) { prev.push(Tok::Flush(ps[n - 1].name)) } else { prev }
    }
}

// ---- oracle (C10 statement + the HIR's expectation, unit lower_type_gate `return_shape`):
//  * no return type: nothing;
//  * Result<T, E>: DiplomatResult<T, E>, converted with into();
//  * std str / slice references: their FFI-safe struct, converted with into();
//  * Ordering: i8 (`as i8`);
//  * Option of a pointer (&T / Box<T>): as written - the null niche IS the encoding (the DiplomatOption spelling is converted with into());
//  * every other Option<T>: DiplomatResult<T, ()> - the std spelling converted with ok_or(()).into(), the DiplomatOption spelling is already that type;
//  * everything else: as written.
pub open spec fn expected(rt: Option<TypeName>) -> (Tok, Tok) {
    match rt {
        None => (Tok::Empty, Tok::Empty),
        Some(TypeName::Result(ok, err, StdlibOrDiplomat::Stdlib)) => (Tok::RetResult2(SynTy { of: *ok }, SynTy { of: *err }), Tok::Into),
        Some(TypeName::StrReference(lt, e, StdlibOrDiplomat::Stdlib)) => (Tok::RetWritten(SynTy { of: spec_fsv(TypeName::StrReference(lt, e, StdlibOrDiplomat::Stdlib)) }), Tok::Into),
        Some(TypeName::StrSlice(e, StdlibOrDiplomat::Stdlib)) => (Tok::RetWritten(SynTy { of: spec_fsv(TypeName::StrSlice(e, StdlibOrDiplomat::Stdlib)) }), Tok::Into),
        Some(TypeName::PrimitiveSlice(lm, p, StdlibOrDiplomat::Stdlib)) => (Tok::RetWritten(SynTy { of: spec_fsv(TypeName::PrimitiveSlice(lm, p, StdlibOrDiplomat::Stdlib)) }), Tok::Into),
        Some(TypeName::Ordering) => (Tok::RetWritten(SynTy { of: TypeName::Ordering }), Tok::AsI8),
        Some(TypeName::Option(inner, sd)) =>
            if is_ptr(*inner) { (Tok::RetWritten(SynTy { of: TypeName::Option(inner, sd) }), if sd == StdlibOrDiplomat::Stdlib { Tok::Empty } else { Tok::Into }) }
            else { (Tok::RetResultUnit(SynTy { of: *inner }), if sd == StdlibOrDiplomat::Stdlib { Tok::OkOrInto } else { Tok::Empty }) },
        Some(t) => (Tok::RetWritten(SynTy { of: t }), Tok::Empty),
    }
}
"""

QUOTES = {
    "-> diplomat_runtime::DiplomatResult<#ok, #err>": "Tok::RetResult2(ok, err)",
    ".into()": "Tok::Into",
    "-> #return_type_syn": "Tok::RetWritten(return_type_syn)",
    "as i8": "Tok::AsI8",
    "": "Tok::Empty",
    ".ok_or(()).into()": "Tok::OkOrInto",
    "-> diplomat_runtime::DiplomatResult<#ty, ()>": "Tok::RetResultUnit(ty)",
    "#p.flush();": "Tok::Flush(__ident_copy(p))",
}


def build_flushes(vf, src, it):
    """E15 + E7: `let write_flushes = m.params.iter().filter(|p| C).map(|p| { B }).collect::<Vec<_>>();`"""
    st = None
    for (a, b) in it["stmts"]:
        if src.slice(a, b).startswith("let write_flushes"):
            st = (a, b)
    if st is None:
        raise Undecided("anchor-lost", "gen_custom_type_method: `let write_flushes = ..` not found")
    a, b = st
    text = src.slice(a, b)
    m = re.fullmatch(r"let write_flushes = m\s*\.params\s*\.iter\(\)\s*\.filter\(\|(\w+)\| (.*?)\)\s*\.map\(\|(\w+)\| \{(.*)\}\)\s*\.collect::<Vec<_>>\(\);", text, re.S)
    if not m:
        raise Undecided("anchor-lost", "write_flushes is no longer `m.params.iter().filter(|p| ..).map(|p| {..}).collect::<Vec<_>>()`")
    fp, cond, mp, body = m.groups()
    if fp != mp:
        raise Undecided("anchor-lost", "filter / map closures name their parameter differently")
    qs = [q for q in it["macros"] if q["name"] == "quote" and a <= q["start"] < b]
    if len(qs) != 1:
        raise Undecided("anchor-lost", "expected one quote! in write_flushes")
    qt = src.slice(qs[0]["start"], qs[0]["end"])
    key = " ".join(re.fullmatch(r"quote!\s*\{(.*)\}", qt, re.S).group(1).split())
    if key not in QUOTES:
        raise Undecided("edit-mismatch", f"E6t: unknown token template `{key}` in write_flushes")
    body2 = body.replace(qt, QUOTES[key])
    org = {"file": F, "item": it["path"] + "#let write_flushes", "line": src.line_of(a), "end_line": src.line_of(b)}
    vf.add(f"""// E15 + E7: `let write_flushes = m.params.iter().filter(|{fp}| {cond.strip()}).map(|{fp}| {{..}}).collect::<Vec<_>>();` desugared to a loop
// (std-documented meaning of filter / map / collect); closure bodies verbatim
fn macro_write_flushes(m: &MethodStub) -> (write_flushes: Vec<Tok>)
    ensures {CANARY} write_flushes@ == flushes_upto(m.params@, m.params@.len() as int),
{{
    let mut write_flushes: Vec<Tok> = Vec::new();
    for {fp} in it: m.params.iter()
        invariant write_flushes@ == flushes_upto(m.params@, it.index@ as int),
    {{
        if {cond.strip()} {{
            let t__ = {{{body2}}};
            write_flushes.push(t__);
        }}
    }}
    write_flushes
}}
""", origin=org, edits=[{"item": org["item"], "rule": "E7", "before": text[:300], "after": "for/if/push loop", "why": "iterator adapter chain desugared"},
                          {"item": org["item"], "rule": "E6t", "before": qt, "after": QUOTES[key], "why": "token template -> tagged value"}])
    vf.functions.append({"path": org["item"], "file": F, "line": org["line"], "end_line": org["end_line"], "engine": "verus", "mode": "verus (statement fragment, E15/E7/E6t)", "bound": "none"})
    vf.expected.append("macro_write_flushes")


def build(tier):
    vf = VerusFile(NAME)
    src = Src(F)
    types = Src(TYPES)
    lts = Src("core/src/ast/lifetimes.rs")
    paths = Src("core/src/ast/paths.rs")
    vf.add(vhelp.HEADER)
    vf.add("#[verifier::external_body]\npub struct Ident { s: String }\n")
    vhelp.typedef(vf, lts, "NamedLifetime", "struct", pub_tuple_fields=True)
    vhelp.typedef(vf, lts, "Lifetime", "enum")
    vhelp.typedef(vf, paths, "Path", "struct")
    vhelp.typedef(vf, types, "PathType", "struct")
    vhelp.typedef(vf, types, "Mutability", "enum", derive=vhelp.FIELDLESS_DERIVE)
    vhelp.typedef(vf, types, "StdlibOrDiplomat", "enum", derive=vhelp.FIELDLESS_DERIVE)
    vhelp.typedef(vf, types, "StringEncoding", "enum", derive="#[derive(Copy, Clone)]")
    vhelp.typedef(vf, types, "PrimitiveType", "enum", derive="#[derive(Copy, Clone)]")
    vhelp.typedef(vf, types, "TypeName", "enum")
    vf.add(FS.SPEC)
    ms = Src("core/src/ast/methods.rs")
    pre_a, pre_b = PRELUDE.split("/*@PARAM@*/")
    vf.add(pre_a)
    vhelp.typedef(vf, ms, "Param", "struct")
    vf.add("#[verifier::external_body] pub fn __ident_copy(i: &Ident) -> (r: Ident) ensures r == *i { unimplemented!() }\n")
    vf.add(pre_b)
    vf.add("impl Param {\n")
    pw = Piece(ms, ms.item("impl Param::is_write", "fn"))
    pw.contract("        ensures r == is_write_param(*self),", ret_name="r")
    pw.sub("E2", r"\*\*w == TypeName::Write", "__typename_eq(&**w, &TypeName::Write)", count=1, why="derived PartialEq on TypeName: structural equality stub (A-derive)")
    vf.add_piece(pw, expected="is_write")
    vf.add("}\n")
    it = src.item("gen_custom_type_method", "fn")
    st = None
    for (a, b) in it["stmts"]:
        if src.slice(a, b).startswith("let (return_tokens, maybe_into)"):
            st = (a, b)
    if st is None:
        raise Undecided("anchor-lost", "gen_custom_type_method: `let (return_tokens, maybe_into) = ..` not found")
    a, b = st
    frag = {"path": it["path"] + "#let (return_tokens, maybe_into)", "kind": "stmt", "start": a, "after_attrs": a, "end": b, "loops": []}
    p = Piece(src, frag)
    qs = [m for m in it["macros"] if m["name"] == "quote" and a <= m["start"] < b]
    if not qs:
        raise Undecided("anchor-lost", "no quote! calls in the return-rewriting statement")
    for m in qs:
        t = src.slice(m["start"], m["end"])
        inner = re.fullmatch(r"quote!\s*\{(.*)\}", t, re.S)
        if not inner:
            raise Undecided("anchor-lost", f"quote! call with unexpected delimiters: {t[:60]}")
        key = " ".join(inner.group(1).split())
        key = key.replace("{ ", "{").strip()
        if key not in QUOTES:
            raise Undecided("edit-mismatch", f"E6t: unknown token template `{key}` in the return-rewriting statement")
        p.replace("E6t", m["start"], m["end"], QUOTES[key], f"token template `{key}` -> tagged value")
    p.sub("E15", r"&m\.return_type", "&m.return_type", count=1)
    org = {"file": F, "item": frag["path"], "line": src.line_of(a), "end_line": src.line_of(b)}
    vf.add(f"""// E15: the return-type rewriting statement of gen_custom_type_method as a function of the method's AST return type
fn macro_return_rewrite(m: &MethodStub) -> (r: (Tok, Tok))
    ensures {CANARY} r == expected(m.return_type),
{{
    """, origin=org)
    vf.add(p.render(), origin=org, edits=p.log)
    vf.add("\n    (return_tokens, maybe_into)\n}\n", origin=org)
    vf.functions.append({"path": frag["path"], "file": F, "line": src.line_of(a), "end_line": src.line_of(b), "engine": "verus", "mode": "verus (statement fragment, E15/E6t)", "bound": "none"})
    vf.expected.append("macro_return_rewrite")
    build_flushes(vf, src, it)
    vf.add(vhelp.FOOTER)
    return vf


CANARY_FUNCTIONS = ["macro_return_rewrite", "macro_write_flushes"]
ASSUMPTIONS = [
    "E6t: each quote! template of the statement is mapped - keyed on its exact token text - to a tagged value; an unknown template makes the unit undecided; interpolated `#x` become the tag's arguments",
    "TypeName::to_syn is carried as `the syntax of this type` (SynTy.of); TypeName::ffi_safe_version abstract with the contract proved in unit ffi_safe",
    "ast::TypeName and its dependencies extracted verbatim from core (as in unit ffi_safe)",
    "that the tokens are spliced into the generated extern \"C\" function as `fn f(..) #return_tokens { method(..) #maybe_into }` is read from the two parse_quote! templates below the statement, not proved",
]
UNVERIFIED = {"C12": ["where the flush tokens are spliced (parse_quote! template)"], "C10": ["parameter conversion (param_conversion)", "the parse_quote! templates that splice the tokens"], "C01": ["everything else in the proc macro (token streams)"]}
