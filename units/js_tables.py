"""K js_tables: the element type the JS backend uses for primitive slices (the tag string handed to runtime.mjs and the typed array)
has the width of the Rust element type on wasm32, and its kind."""
from kunit import define
F = "tool/src/js/formatter.rs"
def f(n): return (F, "impl JSFormatter<'tcx>::" + n)
E = [
    ("js_slice_element_types_match_rust_abi", "all 15 primitives: element width/kind denoted by fmt_primitive_list_view(p) (tag parsed by runtime.mjs) and fmt_primitive_slice(p) (typed array) == Rust ABI of p on wasm32 (usize/isize: 32 bits)",
     [f("fmt_primitive_list_view"), f("fmt_primitive_slice")], 2, ["C08", "C15"], "complete", "none (finite domain)"),
]
define(globals(), "js_tables", "tool", F, "verif_js_tables", "js_tables.rs",
       {"C08": "JS primitive slices (incl. slice fields of structs): element width/kind == the Rust element type on wasm32", "C15": "no panic outside Int128"},
       E, lambda tier: {},
       ["meaning of the tag strings read from runtime.mjs (DiplomatBuf.slice element size / typed array tables), typed arrays per ECMAScript", "RandomState::new stubbed; TypeContext::__verif_empty hook"],
       {"C08": ["runtime.mjs itself (JS)"], "C15": []},
       kani_args=["-Z", "stubbing"],
       extra_appends=[("core/src/hir/type_context.rs", "core_hooks.rs"), ("tool/src/lib.rs", "tool_common.rs")],
       quick_elsewhere={"C15": "C08"})
