"""V kotlin_field_types: tool/src/kotlin/formatter.rs KotlinFormatter::{fmt_struct_field_type_native, fmt_struct_field_type_kt} — the
JNA type of every member of a native struct mirror (`@JvmField var f: <native type>`; also the ok / err members of native result
classes) and the Kotlin type of the same field in the wrapper class.

C07: the native member type is chosen from the field's own type and denotes its C ABI: a primitive goes through
`fmt_primitive_type_native` (table proved by unit kotlin_tables), an enum is the 32-bit `Int` (C enums are `int`), every slice view is the
two-word `Slice` record, an opaque is a `Pointer`, a struct its own `<Name>Native` mirror (by value).
C15: both functions end in an `unreachable!` / `todo!` arm.  Kotlin declares `option = false`, so lowering rejects
Option<struct/enum/primitive> fields for it, but not Option<slice> (same root as unit kotlin_field_default): known finding."""
import re
from rsrc import Src, Piece, rule_panics, rule_format_msgs
from verus_engine import VerusFile, CANARY
from common import Undecided
import vhelp

NAME = "kotlin_field_types"
ENGINE = "verus"
PROPERTIES = {
    "C07": "the JNA member type of a native struct mirror is chosen from the field's type: primitive via the (proved) native table, enum == Int, slice == Slice, opaque == Pointer",
    "C15": "KotlinFormatter::fmt_struct_field_type_native / fmt_struct_field_type_kt have no reachable unreachable!/todo! for the field types lowering lets through for the kotlin backend",
}
F = "tool/src/kotlin/formatter.rs"

PRELUDE = r"""
#[verifier::external_body] pub struct Rest { x: u8 }
#[verifier::external_body] pub struct PrimitiveType { x: u8 }
impl Clone for PrimitiveType { #[verifier::external_body] fn clone(&self) -> (r: Self) ensures r == *self { unimplemented!() } }
impl Copy for PrimitiveType {}
// generated text: a value whose abstract content is a sequence of characters
#[verifier::external_body] pub struct Text { x: u8 }
pub uninterp spec fn tv(t: Text) -> Seq<char>;
pub uninterp spec fn is_fmt(t: Text) -> bool;   // text assembled by format! (content not judged)
impl From<&'static str> for Text { #[verifier::external_body] fn from(s: &'static str) -> (r: Text) ensures tv(r) == s@, !is_fmt(r) { unimplemented!() } }
impl From<String> for Text { #[verifier::external_body] fn from(s: String) -> (r: Text) ensures is_fmt(r) { unimplemented!() } }
#[verifier::external_body] pub fn __msg() -> String { unimplemented!() }
#[verifier::external_body] pub struct Name { x: u8 }
impl Name { #[verifier::external_body] pub fn as_str(&self) -> &str { unimplemented!() } }
pub struct OpaquePath { pub optional: bool, pub rest: Rest }
impl OpaquePath { pub fn is_optional(&self) -> (r: bool) ensures r == self.optional { self.optional } }
pub struct StructPath { pub rest: Rest }
impl StructPath { #[verifier::external_body] pub fn id(&self) -> u32 { unimplemented!() } }
pub struct EnumPath { pub tcx_id: u32 }
pub struct Def { pub name: Name }
impl Def { pub fn name(&self) -> &Name { &self.name } }
#[verifier::external_body] pub struct Tcx { x: u8 }
impl Tcx {
    #[verifier::external_body] pub fn resolve_type(&self, id: u32) -> &Def { unimplemented!() }
}
pub enum StringEncoding { UnvalidatedUtf8, UnvalidatedUtf16, Utf8 }
pub enum Slice { Str(Option<Rest>, StringEncoding), Primitive(Option<Rest>, PrimitiveType), Strs(StringEncoding) }
// hir::Type with the variants inspected here (E12: TyPosition marker erased)
pub enum Type { Primitive(PrimitiveType), Opaque(OpaquePath), Struct(StructPath), Enum(EnumPath), Slice(Slice), DiplomatOption(Box<Type>), Callback(Rest) }
#[verifier::external_body] pub struct TypeId { x: u8 }
impl Type {
    // hir::Type::id (proved in unit js_return_conv's prelude family): Some for every named user type
    #[verifier::external_body] pub fn id(&self) -> (r: Option<TypeId>) ensures (*self is Opaque || *self is Struct || *self is Enum) ==> r is Some { unimplemented!() }
}
pub uninterp spec fn prim_native(p: PrimitiveType) -> Seq<char>;
pub uninterp spec fn prim_kt(p: PrimitiveType) -> Seq<char>;
pub struct KotlinFormatter<'tcx> { pub tcx: &'tcx Tcx }
impl<'tcx> KotlinFormatter<'tcx> {
    #[verifier::external_body] pub fn fmt_primitive_type_native(&self, p: PrimitiveType) -> (r: &'static str) ensures r@ == prim_native(p) { unimplemented!() }
    #[verifier::external_body] pub fn fmt_primitive_as_kt(&self, p: PrimitiveType) -> (r: &'static str) ensures r@ == prim_kt(p) { unimplemented!() }
    #[verifier::external_body] pub fn fmt_type_name(&self, id: TypeId) -> (r: Text) ensures is_fmt(r) { unimplemented!() }
}
// what lowering lets through as a struct field / result payload when the backend declares option = false (kotlin): see unit kotlin_field_default
pub open spec fn kotlin_field_ok(t: Type) -> bool {
    match t {
        Type::DiplomatOption(inner) => *inner is Slice,
        Type::Callback(_) => false,
        _ => true,
    }
}
// C07 oracle, written from the C ABI of each field kind (not from the function): C enums are `int` (JNA Int), every slice view is
// {pointer, size_t} (the JNA `Slice` structure), a primitive is whatever the native table says
pub open spec fn native_member_ok(t: Type, r: Text) -> bool {
    match t {
        Type::Primitive(p) => tv(r) == prim_native(p) && !is_fmt(r),
        Type::Enum(_) => tv(r) == "Int"@ && !is_fmt(r),
        Type::Slice(_) => tv(r) == "Slice"@ && !is_fmt(r),
        Type::Opaque(_) => is_fmt(r),     // "Pointer" + optional "?": assembled text, read
        Type::Struct(_) => is_fmt(r),     // "<Name>Native": assembled text, read
        _ => true,
    }
}
"""


def build(tier):
    vf = VerusFile(NAME)
    src = Src(F)
    vf.add(vhelp.HEADER)
    vf.add(PRELUDE)
    vf.add("impl<'tcx> KotlinFormatter<'tcx> {\n")
    for fn, contract in (
        ("fmt_struct_field_type_native", "        requires kotlin_field_ok(*ty),\n        ensures native_member_ok(*ty, r),"),
        ("fmt_struct_field_type_kt", "        requires kotlin_field_ok(*ty),\n        ensures (*ty is Primitive) ==> tv(r) == prim_kt(ty->Primitive_0),"),
    ):
        p = Piece(src, src.item(f"impl KotlinFormatter<'tcx>::{fn}", "fn"))
        p.sub("E12", r"<'a, P: TyPosition>", "<'a>", count=1, why="TyPosition marker erased")
        p.sub("E12", r"ty: &'a Type<P>", "ty: &'a Type", count=1, why="TyPosition marker erased")
        p.sub("E6", r"-> Cow<'tcx, str>", "-> (r: Text)", count=1, why="generated text carried as an abstract Text value")
        p.fn("E6", rule_format_msgs, why="format!-assembled text dropped (marked is_fmt)")
        p.fn("E5", rule_panics, why="unreachable!/todo!/expect become obligations")
        p.contract(contract)
        vf.add_piece(p, expected=fn)
    vf.add("}\n")
    vf.add(vhelp.FOOTER)
    return vf


ASSUMPTIONS = [
    "hir::Type / hir::Slice re-declared with the variants inspected; format!-assembled text is an abstract value (is_fmt), literal text keeps its characters (From<&'static str>: tv(r) == s@)",
    "precondition kotlin_field_ok: read from lower_type / lower_out_type's Option arms and kotlin::attr_support (option = false); Option<slice> fields are let through",
    "fmt_primitive_type_native / fmt_primitive_as_kt are the tables proved by unit kotlin_tables (Kani), here by their contract",
    "hir::Type::id is Some for opaque/struct/enum (read: core/src/hir/types.rs)",
]
UNVERIFIED = {
    "C07": ["the text of the Opaque (`Pointer`/`Pointer?`) and Struct (`<Name>Native`) arms (format!: read)", "Struct.kt.jinja printing the member type next to the right field (unit struct_mirror_fields)"],
    "C15": ["fmt_struct_field_native_to_kt (iterator-adapter chains; its `_ => todo!()` arm is the same missing case)"],
}
