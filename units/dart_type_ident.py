"""V dart_type_ident: tool/src/dart/formatter.rs DartFormatter::fmt_type_as_ident — the identifier fragment that unit dart_result_key
assumes to be a faithful image of the precise dart:ffi payload name (`_Result<Ok><Err>` is the name AND the cache key of a result / option
record: two payload types mapped to one fragment share one record declaration, i.e. one of them gets the other's record shape).

Contract (string model E3s): the fragment is the payload name with exactly the three abbreviations of the naming scheme and nothing else —
the opaque pointer spelled `Opaque`, the `ffi.` prefix dropped, underscores dropped; an absent payload is `Void`.  Any further rewriting
(trimming a suffix, truncating, lower-casing ..) merges names the scheme keeps apart and is refuted.
NOT proved: injectivity of the scheme itself on the set of payload names.  It fails for struct names that differ only in underscores
(`Foo_Bar` / `FooBar`): observed on the unchanged tree and replayed with the real binary (findings/observed-C07-dart-result-name-underscore/),
recorded in DESIGN §4 as an observation because no obligation of this unit states it (`str::replace` is an uninterpreted function here)."""
import os
import re
from rsrc import Src, Piece
from verus_engine import VerusFile, CANARY
from common import Undecided, VERIF, read
import vhelp

NAME = "dart_type_ident"
ENGINE = "verus"
PROPERTIES = {"C07": "Dart result/option record names are built from the precise ffi payload name by the documented abbreviations only (no further merging of names)"}
F = "tool/src/dart/formatter.rs"

PRELUDE = r"""
impl Str {
    // E3s: Option<&str>::unwrap_or(literal), str::replace with a char pattern (std: every occurrence of the pattern is replaced)
    #[verifier::external_body] pub fn opt_or_lit(o: Option<&Str>, d: &str) -> (r: Str) ensures r@ == (match o { Some(s) => s@, None => lit(d) }) { unimplemented!() }
    #[verifier::external_body] pub fn replace_char(&self, c: char, to: &str) -> (r: Str) ensures r@ == spec_replace(self@, char_bytes(c), lit(to)) { unimplemented!() }
}
pub uninterp spec fn char_bytes(c: char) -> Seq<u8>;
// other str methods a rewrite of this function is likely to reach for: present with uninterpreted results, so that such a rewrite is judged
// against the contract (and refuted unless it provably equals the scheme) instead of leaving the unit undecided
pub uninterp spec fn spec_trim_end(s: Seq<u8>, p: Seq<u8>) -> Seq<u8>;
pub uninterp spec fn spec_trim_start(s: Seq<u8>, p: Seq<u8>) -> Seq<u8>;
pub uninterp spec fn spec_case(s: Seq<u8>, upper: bool) -> Seq<u8>;
impl Str {
    #[verifier::external_body] pub fn trim_end_matches(&self, p: &str) -> (r: Str) ensures r@ == spec_trim_end(self@, lit(p)) { unimplemented!() }
    #[verifier::external_body] pub fn trim_start_matches(&self, p: &str) -> (r: Str) ensures r@ == spec_trim_start(self@, lit(p)) { unimplemented!() }
    #[verifier::external_body] pub fn to_lowercase(&self) -> (r: Str) ensures r@ == spec_case(self@, false) { unimplemented!() }
    #[verifier::external_body] pub fn to_uppercase(&self) -> (r: Str) ensures r@ == spec_case(self@, true) { unimplemented!() }
}
pub uninterp spec fn opaque_ptr_name() -> Seq<u8>;          // "ffi.Pointer<ffi.Opaque>" (fmt_opaque_as_ffi, format!-assembled)
pub struct DartFormatter { pub x: u8 }
impl DartFormatter {
    #[verifier::external_body] pub fn fmt_opaque_as_ffi(&self) -> (r: Str) ensures r@ == opaque_ptr_name() { unimplemented!() }
}
// the naming scheme of the helper classes, written from the generated names one sees in lib.g.dart (`_ResultOpaqueInt32`, `_ResultFooFfiVoid`):
pub open spec fn scheme(name: Option<Seq<u8>>) -> Seq<u8> {
    let n = match name { Some(s) => s, None => lit("Void") };
    spec_replace(spec_replace(spec_replace(n, opaque_ptr_name(), lit("Opaque")), lit("ffi."), lit("")), char_bytes('_'), lit(""))
}
"""


def build(tier):
    vf = VerusFile(NAME)
    src = Src(F)
    vf.add(vhelp.HEADER)
    vf.add(read(os.path.join(VERIF, "units", "prelude", "str_model.rs")))
    vf.add(PRELUDE)
    vf.add("impl DartFormatter {\n")
    p = Piece(src, src.item("impl DartFormatter<'tcx>::fmt_type_as_ident", "fn"))
    p.sub("E3s", r"ty: Option<&str>", "ty: Option<&Str>", count=1, why="&str -> &Str")
    p.sub("E3s", r"-> String", "-> (r: Str)", count=1, why="String -> Str")
    p.sub("E3s", r'ty\.unwrap_or\("Void"\)', 'Str::opt_or_lit(ty, "Void")', count=1, why="Option<&str>::unwrap_or(literal)")
    p.sub("E3s", r'\.replace\(&self\.fmt_opaque_as_ffi\(\), "Opaque"\)', '.replace(self.fmt_opaque_as_ffi(), "Opaque")', count=1, why="&String pattern passed by value (Str is Copy)")
    p.sub("E3s", r'\.replace\("ffi\.", ""\)', '.replace_lit("ffi.", "")', count=1, why="literal pattern")
    p.sub("E3s", r"\.replace\('_', \"\"\)", ".replace_char('_', \"\")", count=1, why="char pattern")
    p.contract(f"        ensures {CANARY} r@ == scheme(match ty {{ Some(s) => Some(s@), None => None }}),")
    vf.add_piece(p, expected="fmt_type_as_ident")
    vf.add("}\n")
    vf.add(vhelp.FOOTER)
    return vf


CANARY_FUNCTIONS = ["fmt_type_as_ident"]
ASSUMPTIONS = [
    "E3s: &str/String carried as the byte-sequence model `Str`; str::replace is the uninterpreted spec_replace (documented behaviour: every match replaced)",
    "injectivity of the abbreviation scheme on the payload-name set is NOT proved (fails for struct names differing only in underscores: DESIGN §4, observation)",
]
UNVERIFIED = {"C07": ["injectivity of the naming scheme (see the unit's doc comment)", "fmt_opaque_as_ffi / fmt_pointer (format!)"]}
