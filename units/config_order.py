"""V config_order: the ORDER in which the three configuration sources reach Config::set, and what the backends then see.
  A. tool/src/main.rs main: `Config::default()`, then the file, then the --config settings (E15 statement range);
  B. tool/src/lib.rs gen: on top of the Config it is given, every top-level #[diplomat::config] pair in source order, THEN the
     target language's overrides, then the lowering configuration taken from the result (E15 statement range, nested loops under
     invariant);
  C. SharedConfig::lowering_config (verbatim).
Callees are the contracts proved in unit config_routing (Config::set / get_overridden / read_cli_settings); read_file and
find_top_level_attr are abstract."""
import os
import re
from rsrc import Src, Piece
from verus_engine import VerusFile, CANARY
from common import Undecided, VERIF, read
import vhelp
import units.config_routing as CR

NAME = "config_order"
ENGINE = "verus"
PROPERTIES = {"C17": "sources are applied in the documented order config.toml < --config < #[diplomat::config] (each through Config::set, later wins), and the language-scoped overrides are applied after all three"}
CFG = "tool/src/config.rs"
MAIN = "tool/src/main.rs"
LIB = "tool/src/lib.rs"

STUBS = r"""
#[verifier::external_body] pub struct PathBuf { x: u8 }
pub uninterp spec fn file_ok(p: PathBuf) -> bool;
pub uninterp spec fn file_apply(c: ConfigV, p: PathBuf) -> ConfigV;
pub uninterp spec fn default_cv() -> ConfigV;
impl Config {
    // ---- contracts proved in unit config_routing
    #[verifier::external_body] pub fn set(&mut self, key: &Str, value: Value)
@SET_C@
    { unimplemented!() }
    #[verifier::external_body] pub fn get_overridden(self, target_language: &Str) -> (r: Self)
@GET_C@
    { unimplemented!() }
    #[verifier::external_body] pub fn read_cli_settings(&mut self, settings: Vec<Str>)
@CLI_C@
    { unimplemented!() }
    // ---- abstract: fs + toml + heck
    #[verifier::external_body] pub fn read_file(&mut self, path: &PathBuf) -> (r: FileResult)
        ensures r.ok == file_ok(*path), r.ok ==> cv(*final(self)) == file_apply(cv(*old(self)), *path) { unimplemented!() }
    #[verifier::external_body] pub fn default() -> (r: Config) ensures cv(r) == default_cv() { unimplemented!() }
}
// Result<(), String> of read_file: only unwrapped (expect) here
pub struct FileResult { pub ok: bool }
impl FileResult { pub fn unwrap(self) requires self.ok { } }
pub struct Opt { pub config_file: PathBuf, pub config: Vec<Str> }
// LoweringConfig (core/src/hir/type_context.rs): the field the configuration feeds; Default::default() of a bool is false
pub struct LoweringConfig { pub unsafe_references_in_callbacks: bool }
impl LoweringConfig { pub fn default() -> (r: LoweringConfig) ensures !r.unsafe_references_in_callbacks { LoweringConfig { unsafe_references_in_callbacks: false } } }
#[verifier::external_body] pub struct SynItem { x: u8 }
pub struct SynFile { pub items: Vec<SynItem> }
#[verifier::external_body] pub fn __clone_items(v: &Vec<SynItem>) -> (r: Vec<SynItem>) ensures r@ == v@ { unimplemented!() }
"""

SPEC2 = r"""
// the #[diplomat::config] attributes found at the top level of lib.rs, in source order (find_top_level_attr: syn code, abstract)
pub uninterp spec fn spec_attrs(items: Seq<SynItem>) -> Seq<DiplomatBackendConfigAttr>;
#[verifier::external_body] pub fn find_top_level_attr(items: Vec<SynItem>) -> (r: Vec<DiplomatBackendConfigAttr>) ensures r@ == spec_attrs(items@) { unimplemented!() }
pub open spec fn kv_fold(c: ConfigV, kvs: Seq<DiplomatBackendConfigKeyValue>, n: int) -> ConfigV decreases n {
    if n <= 0 { c } else { config_set(kv_fold(c, kvs, n - 1), kvs[n - 1].key@, spec_toml_value(kvs[n - 1].value)) }
}
pub open spec fn attr_fold(c: ConfigV, attrs: Seq<DiplomatBackendConfigAttr>, n: int) -> ConfigV decreases n {
    if n <= 0 { c } else { kv_fold(attr_fold(c, attrs, n - 1), attrs[n - 1].key_value_pairs@, attrs[n - 1].key_value_pairs@.len() as int) }
}
pub open spec fn attrs_ok(attrs: Seq<DiplomatBackendConfigAttr>) -> bool {
    forall|i: int, j: int| 0 <= i < attrs.len() && 0 <= j < attrs[i].key_value_pairs@.len() ==>
        shared_ok(#[trigger] attrs[i].key_value_pairs@[j].key@, spec_toml_value(attrs[i].key_value_pairs@[j].value))
}
// what gen() works with: every attribute pair applied (in order) on top of the incoming configuration, then the target's overrides
pub open spec fn effective(c0: ConfigV, attrs: Seq<DiplomatBackendConfigAttr>, target: Seq<u8>) -> ConfigV {
    let f = attr_fold(c0, attrs, attrs.len() as int);
    ConfigV { shared: apply_overrides(f.shared, iter_order(f.ov), target + lit("."), iter_order(f.ov).len() as int), ..f }
}
"""


def build(tier):
    vf = VerusFile(NAME)
    cfg = Src(CFG)
    vf.add(vhelp.HEADER)
    vf.add(read(os.path.join(VERIF, "units", "prelude", "str_model.rs")))
    vf.add(CR.PRELUDE)
    vhelp.typedef(vf, cfg, "SharedConfig", "struct", subs=[("E3s", r"Option<String>", "Option<Str>")])
    vhelp.typedef(vf, cfg, "Config", "struct", subs=[("E2", r"\n\s*#\[serde\([^\]]*\)\]", ""), ("E3", r"HashMap<String, Value>", "OverrideMap")])
    vhelp.typedef(vf, cfg, "DiplomatBackendConfigKeyValue", "struct", subs=[("E3s", r": String", ": Str")])
    vhelp.typedef(vf, cfg, "DiplomatBackendConfigAttr", "struct")
    vf.add(CR.SPEC)
    vf.add(STUBS.replace("@SET_C@", CR.SET_C.replace("@CANARY@", "")).replace("@GET_C@", CR.GET_OVERRIDDEN_C.replace("@CANARY@", ""))
           .replace("@CLI_C@", CR.READ_CLI_C.replace("@CANARY@", "")))
    vf.add(SPEC2)
    # ---------------- C: SharedConfig::lowering_config
    vf.add("impl SharedConfig {\n")
    p = Piece(cfg, cfg.item("impl SharedConfig::lowering_config", "fn"))
    p.contract(f"""        ensures {CANARY}
            r.unsafe_references_in_callbacks == (match self.unsafe_references_in_callbacks {{ Some(b) => b, None => false }}),""", ret_name="r")
    vf.add_piece(p, expected="lowering_config")
    vf.add("}\n")
    # ---------------- A: main
    src = Src(MAIN)
    it = src.item("main", "fn")
    stmts = it.get("stmts", [])
    ia = ib = None
    for i, (a, b) in enumerate(stmts):
        t = src.slice(a, b)
        if ia is None and re.match(r"let path\s*=\s*opt\.config_file", t):
            ia = i
        if re.match(r"diplomat_tool::gen\(", t):
            ib = i
    if ia is None or ib is None or ib <= ia:
        raise Undecided("anchor-lost", "main: statements `let path = opt.config_file;` .. before `diplomat_tool::gen(` not found")
    a, b = stmts[ia][0], stmts[ib - 1][1]
    frag = {"path": it["path"] + "#stmts(let path .. before diplomat_tool::gen)", "kind": "stmt", "start": a, "after_attrs": a, "end": b, "loops": []}
    org = {"file": MAIN, "item": frag["path"], "line": src.line_of(a), "end_line": src.line_of(b)}
    p = Piece(src, frag)
    p.sub("E6", r'\.expect\("[^"]*"\)', ".unwrap()", count=None, why="expect(msg) -> unwrap(): the Err case (unreadable / invalid file: user error) is excluded by precondition file_ok")
    vf.add("// E15: statement range of main() as a function of the parsed command line\n"
           "fn main_config(opt: Opt) -> (config: Config)\n"
           "    requires file_ok(opt.config_file), cli_ok(opt.config@),\n"
           f"    ensures {CANARY}\n"
           "        // defaults, then the file, then the --config settings in command-line order\n"
           "        cv(config) == cli_fold(file_apply(default_cv(), opt.config_file), opt.config@, opt.config@.len() as int),\n{\n        ", origin=org)
    vf.add(p.render(), origin=org, edits=p.log)
    vf.add("\n        config\n}\n", origin=org)
    vf.functions.append({"path": frag["path"], "file": MAIN, "line": src.line_of(a), "end_line": src.line_of(b), "engine": "verus", "mode": "verus (statement range)", "bound": "none"})
    vf.expected.append("main_config")
    # ---------------- B: gen
    src = Src(LIB)
    it = src.item("gen", "fn")
    stmts = it.get("stmts", [])
    ia = ib = None
    for i, (a, b) in enumerate(stmts):
        t = src.slice(a, b)
        if ia is None and re.match(r"let cfg\s*=\s*find_top_level_attr", t):
            ia = i
        if re.match(r"let lowering_config\s*=", t):
            ib = i
    if ia is None or ib is None or ib <= ia:
        raise Undecided("anchor-lost", "gen: statements `let cfg = find_top_level_attr(..)` ..= `let lowering_config = ..` not found")
    a, b = stmts[ia][0], stmts[ib][1]
    loops = [l for l in it.get("loops", []) if a <= l["start"] and l["end"] <= b]
    frag = {"path": it["path"] + "#stmts(let cfg = find_top_level_attr ..= let lowering_config)", "kind": "stmt", "start": a, "after_attrs": a, "end": b, "loops": loops}
    org = {"file": LIB, "item": frag["path"], "line": src.line_of(a), "end_line": src.line_of(b)}
    p = Piece(src, frag)
    p.expect_loops(2)
    p.sub("E6", r"module\.items\.clone\(\)", "__clone_items(&module.items)", count=1, why="Vec<syn::Item>::clone: same items")
    p.loop_spec(0, """        invariant
            it.seq() == spec_attrs(module.items@), attrs_ok(it.seq()),
            cv(config) == attr_fold(cv(config__0), it.seq(), it.index@ as int),""", iter_name="it")
    p.loop_spec(1, """            invariant
                it.seq() == spec_attrs(module.items@), attrs_ok(it.seq()), 0 <= it.index@ < it.seq().len(),
                it2.seq() == it.seq()[it.index@ as int].key_value_pairs@,
                cv(config) == kv_fold(attr_fold(cv(config__0), it.seq(), it.index@ as int), it2.seq(), it2.index@ as int),""", iter_name="it2")
    vf.add("// E15: statement range of gen() as a function of the incoming configuration, the parsed lib.rs and the target language\n"
           "fn gen_config(config__0: Config, module: &SynFile, target_language: &Str) -> (r: (Config, LoweringConfig))\n"
           "    requires attrs_ok(spec_attrs(module.items@)),\n"
           "        overrides_ok(iter_order(attr_fold(cv(config__0), spec_attrs(module.items@), spec_attrs(module.items@).len() as int).ov), target_language@ + lit(\".\")),\n"
           f"    ensures {CANARY}\n"
           "        // #[diplomat::config] pairs are applied AFTER whatever main() put into the configuration (=> they win), the target's overrides after that\n"
           "        cv(r.0) == effective(cv(config__0), spec_attrs(module.items@), target_language@),\n"
           "        // and lowering sees the effective value\n"
           "        r.1.unsafe_references_in_callbacks == (match r.0.shared_config.unsafe_references_in_callbacks { Some(b) => b, None => false }),\n"
           "{\n    let mut config = config__0;\n    ", origin=org)
    vf.add(p.render(), origin=org, edits=p.log)
    vf.add("\n    (config, lowering_config)\n}\n", origin=org)
    vf.functions.append({"path": frag["path"], "file": LIB, "line": src.line_of(a), "end_line": src.line_of(b), "engine": "verus", "mode": "verus (statement range, nested loops)", "bound": "none"})
    vf.expected.append("gen_config")
    vf.add(vhelp.FOOTER)
    return vf


CANARY_FUNCTIONS = ["lowering_config", "main_config", "gen_config"]
ASSUMPTIONS = [
    "Config::set / get_overridden / read_cli_settings are used through the contracts proved in unit config_routing (same text)",
    "Config::read_file (fs, toml, heck) is an abstract function file_apply of (configuration, path) that fails exactly when !file_ok; Config::default() is abstract",
    "find_top_level_attr (syn) is an abstract function of the item list giving the attributes in source order",
    "E15: the statement ranges are wrapped in functions of the locals they read (opt; config, module, target_language); main() passes `config` to gen() unchanged (read: one call expression)",
    "preconditions: no wrong-typed shared value in any source (user error: panic with message)",
] + CR.ASSUMPTIONS[:3]
UNVERIFIED = {"C17": ["Config::read_file: kebab-case == snake_case (heck) and table flattening are NOT decided", "find_top_level_attr and the syn parsers of #[diplomat::config]",
                      "that main() hands the configuration to gen() unchanged (one call expression, read)"]}
