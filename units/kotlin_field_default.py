"""V kotlin_field_default: tool/src/kotlin/formatter.rs KotlinFormatter::fmt_field_default — the default initialiser of a JNA struct
field (also used for the ok / err members of native result classes).  Its last arm is `unreachable!("reached struct field that
can't be handled")`.  Kotlin declares `option = false`, so lowering rejects Option<struct/enum/primitive> fields for it — but the
gate does not consult that flag for Option<slice> payloads (lower_type, `StrReference | PrimitiveSlice` arm), so a field
`DiplomatOption<DiplomatStrSlice>` reaches the arm: known finding."""
import re
from rsrc import Src, Piece, rule_panics, rule_format_msgs
from verus_engine import VerusFile, CANARY
from common import Undecided
import vhelp

NAME = "kotlin_field_default"
ENGINE = "verus"
PROPERTIES = {"C15": "KotlinFormatter::fmt_field_default has no reachable unreachable! for the field / result payload types lowering lets through for the kotlin backend"}
F = "tool/src/kotlin/formatter.rs"

PRELUDE = r"""
#[verifier::external_body] pub struct Rest { x: u8 }
#[verifier::external_body] pub struct PrimitiveType { x: u8 }
impl Clone for PrimitiveType { #[verifier::external_body] fn clone(&self) -> Self { unimplemented!() } }
impl Copy for PrimitiveType {}
#[verifier::external_body] pub struct Text { x: u8 }
impl From<&'static str> for Text { #[verifier::external_body] fn from(s: &'static str) -> Text { unimplemented!() } }
#[verifier::external_body] pub fn __msg() -> Text { unimplemented!() }
#[verifier::external_body] pub struct Name { x: u8 }
impl Name { #[verifier::external_body] pub fn as_ref(&self) -> &str { unimplemented!() } }
pub struct OpaquePath { pub optional: bool, pub rest: Rest }
impl OpaquePath { pub fn is_optional(&self) -> (r: bool) ensures r == self.optional { self.optional } }
pub struct StructPath { pub rest: Rest }
impl StructPath { #[verifier::external_body] pub fn id(&self) -> u32 { unimplemented!() } }
pub struct EnumPath { pub tcx_id: u32 }
pub struct Def { pub name: Name }
impl Def { pub fn name(&self) -> &Name { &self.name } }
#[verifier::external_body] pub struct Tcx { x: u8 }
impl Tcx {
    #[verifier::external_body] pub fn resolve_type(&self, id: u32) -> &Def { unimplemented!() }
    #[verifier::external_body] pub fn resolve_enum(&self, id: u32) -> &Def { unimplemented!() }
}
// hir::Type with the variants inspected here (E12: TyPosition marker erased)
pub enum Type { Primitive(PrimitiveType), Opaque(OpaquePath), Struct(StructPath), Enum(EnumPath), Slice(Rest), DiplomatOption(Box<Type>), Callback(Rest) }
pub struct KotlinFormatter<'tcx> { pub tcx: &'tcx Tcx }
impl<'tcx> KotlinFormatter<'tcx> {
    #[verifier::external_body] pub fn fmt_primitive_default(&self, p: PrimitiveType) -> &'static str { unimplemented!() }
}
// what lowering lets through as a struct field / result payload when the backend declares option = false (kotlin):
// Option<struct/enum/primitive> is rejected ("Options of structs/enums/primitives not supported by this backend"),
// Option<slice> is NOT (lower_type / lower_out_type do not consult the flag in the StrReference | PrimitiveSlice arm); callbacks never are fields
pub open spec fn kotlin_field_ok(t: Type) -> bool {
    match t {
        Type::DiplomatOption(inner) => *inner is Slice,
        Type::Callback(_) => false,
        _ => true,
    }
}
"""


def build(tier):
    vf = VerusFile(NAME)
    src = Src(F)
    vf.add(vhelp.HEADER)
    vf.add(PRELUDE)
    vf.add("impl<'tcx> KotlinFormatter<'tcx> {\n")
    p = Piece(src, src.item("impl KotlinFormatter<'tcx>::fmt_field_default", "fn"))
    p.sub("E12", r"<'a, P: TyPosition>", "<'a>", count=1, why="TyPosition marker erased")
    p.sub("E12", r"ty: &'a Type<P>", "ty: &'a Type", count=1, why="TyPosition marker erased")
    p.sub("E6", r"-> \(r: Cow<'tcx, str>\)|-> Cow<'tcx, str>", "-> Text", count=1, why="generated text dropped (not judged here)")
    p.fn("E6", rule_format_msgs, why="generated text dropped")
    p.sub("E6", r"let field_type_name: &str = [^;]*;\n", "", count=None, why="only used in the dropped text")
    p.fn("E5", rule_panics, why="unreachable! arm becomes an obligation")
    p.contract("        requires kotlin_field_ok(*ty),")
    vf.add_piece(p, expected="fmt_field_default")
    vf.add("}\n")
    vf.add(vhelp.FOOTER)
    return vf


ASSUMPTIONS = [
    "hir::Type re-declared with the variants inspected; generated text dropped",
    "precondition kotlin_field_ok: read from lower_type / lower_out_type's Option arms and kotlin::attr_support (option = false); Option<slice> fields are let through",
]
UNVERIFIED = {"C15": ["fmt_struct_field_native_to_kt (iterator-adapter chains); fmt_struct_field_type_native / fmt_struct_field_type_kt are unit kotlin_field_types"]}
