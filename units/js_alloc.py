"""V js_alloc: tool/src/js/converter.rs gen_js_to_c_for_type — the JS argument conversion never reaches its four panic sites
("Expected an allocator ..", "Must provide some allocation anchor ..", unreachable!) provided the caller hands it an allocator
whenever the type (or the payload of an Option) needs one; and the statement of js/gen.rs generate_method that chooses the
allocator for a non-slice parameter establishes exactly that precondition."""
import re
from rsrc import Src, Piece, rule_panics
from verus_engine import VerusFile, CANARY
from common import Undecided
import vhelp

NAME = "js_alloc"
ENGINE = "verus"
PROPERTIES = {"C15": "JS parameter conversion: the allocator panics / unreachable! arms of gen_js_to_c_for_type are dead under the allocator rule its caller implements"}
CONV = "tool/src/js/converter.rs"
GEN = "tool/src/js/gen.rs"
JSMOD = "tool/src/js/mod.rs"

PRELUDE = r"""
global size_of usize == 8;
#[verifier::external_body] pub struct CowStr { x: u8 }
impl Clone for CowStr { #[verifier::external_body] fn clone(&self) -> Self { unimplemented!() } }
#[verifier::external_body] pub fn __cow() -> CowStr { unimplemented!() }
#[verifier::external_body] pub struct StructBorrowContext { x: u8 }
#[verifier::external_body] pub struct TypeContext { x: u8 }
#[verifier::external_body] pub struct JsFormatter { x: u8 }
#[derive(Copy, Clone)] pub struct PrimitiveType { pub x: u8 }
#[derive(Copy, Clone)] pub struct TypeId { pub x: usize }
pub struct JsConfig { pub abi: WasmABI }
#[derive(Copy, Clone, PartialEq, Eq, Structural)] pub enum MaybeStaticLt { Static, NonStatic }
#[derive(Copy, Clone)] pub enum StringEncoding { UnvalidatedUtf8, UnvalidatedUtf16, Utf8 }
// hir::Slice (Copy), hir::Type with what gen_js_to_c_for_type inspects (E12: TyPosition marker erased)
#[derive(Copy, Clone)] pub enum Slice { Str(Option<MaybeStaticLt>, StringEncoding), Primitive(Option<MaybeStaticLt>, PrimitiveType), Strs(StringEncoding) }
impl Slice {
    // hir::Slice::lifetime(): the slice's own lifetime, if it has one ('static possible)
    #[verifier::external_body] pub fn lifetime(&self) -> (r: Option<MaybeStaticLt>) ensures r == slice_lifetime(*self) { unimplemented!() }
}
pub open spec fn slice_lifetime(s: Slice) -> Option<MaybeStaticLt> { match s { Slice::Str(l, _) => l, Slice::Primitive(l, _) => l, Slice::Strs(_) => Some(MaybeStaticLt::NonStatic) } }
pub struct OpaquePath { pub optional: bool }
impl OpaquePath { pub fn is_optional(&self) -> (r: bool) ensures r == self.optional { self.optional } }
pub struct StructPath { pub tcx_id: TypeId }
impl StructPath { pub fn id(&self) -> TypeId { self.tcx_id } }
pub enum Type { Primitive(PrimitiveType), Opaque(OpaquePath), Enum(u8), Struct(StructPath), DiplomatOption(Box<Type>), Slice(Slice), Callback(u8) }
impl Type { #[verifier::external_body] pub fn id(&self) -> Option<TypeId> { unimplemented!() } }
pub mod hir { pub use super::Type; pub use super::Slice; pub use super::StringEncoding; pub use super::MaybeStaticLt as MaybeStatic; }
pub struct IntTypeNs;
pub struct Layout { pub s: usize, pub a: usize }
impl Layout { pub fn size(&self) -> usize { self.s } pub fn align(&self) -> usize { self.a } }
#[verifier::external_body] pub fn __type_size_alignment(t: &Type, tcx: &TypeContext) -> Layout { unimplemented!() }
impl JsFormatter {
    #[verifier::external_body] pub fn fmt_type_name(&self, id: TypeId) -> CowStr { unimplemented!() }
    #[verifier::external_body] pub fn fmt_primitive_list_view(&self, p: PrimitiveType) -> CowStr { unimplemented!() }
}
pub struct TyGenContext<'ctx> { pub tcx: &'ctx TypeContext, pub formatter: &'ctx JsFormatter, pub config: JsConfig }

// ---- the allocator rule (written from what the conversion emits: structs, slices and - under the C-spec ABI in list position - options
// write into memory obtained from an allocator expression; everything else is passed as a scalar)
pub open spec fn payload_needs_alloc(t: Type) -> bool
    decreases t
{
    match t { Type::Struct(_) => true, Type::Slice(_) => true, Type::DiplomatOption(inner) => payload_needs_alloc(*inner), _ => false }
}
pub open spec fn alloc_ok(t: Type, has_alloc: bool, ctx: JsToCConversionContext, abi: WasmABI) -> bool {
    match t {
        Type::Struct(_) | Type::Slice(_) => has_alloc,
        Type::DiplomatOption(inner) => (payload_needs_alloc(*inner) ==> has_alloc) && ((ctx is List) && (abi is CSpec) ==> has_alloc),
        _ => true,
    }
}
// what lowering / the JS feature profile guarantee about the type: no callbacks, no 'static slices (static_slices unsupported), and
// what the callers guarantee about the context: SlicePrealloc only for slices
pub open spec fn js_type_ok(t: Type) -> bool
    decreases t
{
    match t {
        Type::Callback(_) => false,
        Type::Slice(s) => !(slice_lifetime(s) == Some(MaybeStaticLt::Static)),
        Type::DiplomatOption(inner) => js_type_ok(*inner),
        _ => true,
    }
}
pub open spec fn ctx_ok(t: Type, ctx: JsToCConversionContext) -> bool { (ctx is SlicePrealloc) ==> (t is Slice) }
"""

CONTRACT = f"""        requires
            js_type_ok(*ty), ctx_ok(*ty, gen_context),
            alloc_ok(*ty, alloc is Some, gen_context, self.config.abi),
        ensures {CANARY} true,
        decreases ty,"""


def build(tier):
    vf = VerusFile(NAME)
    conv = Src(CONV)
    gen = Src(GEN)
    jm = Src(JSMOD)
    vf.add(vhelp.HEADER)
    vhelp.typedef(vf, jm, "WasmABI", "enum", derive="#[derive(Copy, Clone, PartialEq, Eq, Structural)]", subs=[("E2", r"\n\s*#\[default\]", ""), ("E2", r"\n\s*#\[serde\([^\]]*\)\]", "")])
    vhelp.typedef(vf, conv, "ForcePaddingStatus", "enum", derive="#[derive(Copy, Clone, PartialEq, Eq, Structural)]", subs=[("E2", r"\n\s*#\[default\]", "")])
    vhelp.typedef(vf, conv, "JsToCConversionContext", "enum", derive="#[derive(Copy, Clone)]")
    vf.add(PRELUDE)
    types = Src("core/src/hir/types.rs")
    vf.add("impl Type {\n")
    pu = Piece(types, types.item("impl Type<P>::unwrap_option", "fn"))
    pu.sub("E12", r"&Type<P>", "&Type", count=1, why="TyPosition marker erased")
    pu.contract("        ensures *r == (match *self { Type::DiplomatOption(o) => *o, _ => *self }),", ret_name="r")
    vf.add_piece(pu, expected="unwrap_option")
    vf.add("}\n")
    vf.add("""impl<'ctx> TyGenContext<'ctx> {
    #[verifier::external_body] fn maybe_wrap_in_write(&self, js_name: CowStr, gen_context: JsToCConversionContext, p: PrimitiveType) -> CowStr { unimplemented!() }
    #[verifier::external_body] fn gen_js_to_c_for_struct_type(&self, type_name: CowStr, js_name: CowStr, struct_borrow_info: Option<&StructBorrowContext>, alloc: &str, gen_context: JsToCConversionContext) -> CowStr { unimplemented!() }
""")
    it = conv.item("impl TyGenContext<'_,'tcx>::gen_js_to_c_for_type", "fn")
    p = Piece(conv, it)
    fm = [m for m in it["macros"] if m["name"] == "format"]
    if not fm:
        raise Undecided("anchor-lost", "gen_js_to_c_for_type: no format! calls found")
    for m in fm:
        e = m["end"]
        tail = conv.slice(e, e + 40)
        mt = re.match(r"\s*\.into\(\)", tail)
        # leave a trailing `.into()` only when it follows a closing brace (a block of alternatives), i.e. not directly after this call
        p.replace("E6", m["start"], e + (mt.end() if mt else 0), "__cow()", "generated JS text dropped (format! call located by its syn span)")
    p.sub("E12", r"<P: TyPosition>", "", count=1, why="TyPosition marker erased")
    p.sub("E12", r"ty: &Type<P>", "ty: &Type", count=1)
    p.sub("E1", r"pub\(super\) ", "pub ", count=1)
    p.sub("E3", r"Cow<'tcx, str>", "CowStr", count="+", why="generated text carried opaquely")
    p.sub("E3", r"Option<&StructBorrowContext<'tcx>>", "Option<&StructBorrowContext>", count=1)
    # panics with formatted messages first (their arguments contain nested calls), then the remaining text producers
    p.sub("E10", r"alloc\.unwrap_or_else\(\|\| panic!\((?:[^()]|\((?:[^()]|\([^()]*\))*\))*\)\)", "(match alloc { Some(a__) => a__, None => vstd::pervasive::unreached() })", count=1,
          why="Option::unwrap_or_else(|| panic!(..)) unfolded: the None arm is a panic site (obligation)")
    p.sub("E10", r"alloc\.unwrap_or_else\(\|\| \{.*?panic!\(\"Expected an allocator[^;]*\)\s*\}\)", "(match alloc { Some(a__) => a__, None => vstd::pervasive::unreached() })", count=1, flags=re.S,
          why="Option::unwrap_or_else(|| { .. panic!(..) }) unfolded: the None arm is a panic site (obligation); the message computation is dropped")
    p.sub("E10", r"alloc\.expect\(\s*\"[^\"]*\",?\s*\)", "(match alloc { Some(a__) => a__, None => vstd::pervasive::unreached() })", count=1, why="Option::expect unfolded: the None arm is a panic site (obligation)")
    p.sub("E6", r"PrimitiveType::Int\(IntType::[A-Z0-9]+\)", "PrimitiveType { x: 0 }", count="+", why="which scalar width is written is not judged here")
    p.sub("E6", r"crate::js::layout::type_size_alignment\(inner, self\.tcx\)", "__type_size_alignment(inner, self.tcx)", count=1, why="layout routine: contract in unit layout_arith")
    p.sub("E10", r"(\w+)\.filter\(\|_\| ((?:[^()]|\((?:[^()]|\([^()]*\))*\))*)\)", r"(match \1 { Some(v__) => if \2 { Some(v__) } else { None }, None => None })", count=None,
          why="Option::filter(|_| cond) unfolded to its definition (Verus rejects `_` closure parameters)")
    p.fn("E5", rule_panics, why="panic!/unreachable! arms become obligations")
    p.sub("E6", r'r#"[^#]*"#', '""', count=None, why="raw string literal dropped")
    p.sub("E6", r'"jsValue"\.into\(\)', "__cow()", count=1)
    p.sub("E6", r'"\.\.\."\.into\(\)', "__cow()", count=None)
    p.sub("E6", r'"\.splat\(\)"\.into\(\)', "__cow()", count=None)
    p.sub("E6", r'Cow::Borrowed\("[^"]*"\)', "__cow()", count=None)
    p.sub("E6", r'"[^"\n]*"\.into\(\)', "__cow()", count=None, why="text literal dropped")
    p.contract(CONTRACT, ret_name="r")
    vf.add_piece(p, expected="gen_js_to_c_for_type")
    # ---- the caller's choice of allocator for a non-slice parameter (js/gen.rs generate_method)
    g = gen.item("impl TyGenContext<'_,'tcx>::generate_method", "fn")
    body = gen.slice(g["start"], g["end"])
    m = re.search(r"let alloc = if matches!\(", body)
    if not m:
        raise Undecided("anchor-lost", "generate_method: `let alloc = if matches!(param.ty, ..)` not found")
    from rsrc import match_close
    o1 = body.index("{", m.end())
    c1 = match_close(body, o1)
    m2 = re.match(r"\s*else\s*\{", body[c1 + 1:])
    if not m2:
        raise Undecided("anchor-lost", "generate_method: else branch of `let alloc = ..` not found")
    o2 = c1 + 1 + m2.end() - 1
    c2 = match_close(body, o2)
    semi = body.index(";", c2)
    a = g["start"] + m.start()
    b = g["start"] + semi + 1
    frag = {"path": g["path"] + "#let alloc (non-slice parameter)", "kind": "stmt", "start": a, "after_attrs": a, "end": b, "loops": []}
    pf = Piece(gen, frag)
    pf.sub("E15", r"param\.ty", "(*param_ty)", count="+", why="free variable of the fragment -> parameter")
    pf.sub("E15", r"method_info\.needs_cleanup = true;", "*needs_cleanup = true;", count=None, why="captured mutable field -> &mut parameter")
    pf.sub("E12", r"hir::Type::", "Type::", count=None)
    org = {"file": GEN, "item": frag["path"], "line": gen.line_of(a), "end_line": gen.line_of(b)}
    vf.add(f"""    // E15: the statement of js/gen.rs generate_method (else-branch of `if let Type::Slice(..) = param.ty`) that picks the allocator
    fn js_param_alloc(&self, param_ty: &Type, needs_cleanup: &mut bool) -> (alloc: Option<&'static str>)
        requires !(*param_ty is Slice),
        ensures {CANARY}
            // whatever the force-padding status and the ABI: the conversion called next (List context) gets an allocator when it needs one
            forall|f: ForcePaddingStatus| #[trigger] alloc_ok(*param_ty, alloc is Some, JsToCConversionContext::List(f), self.config.abi),
    {{
        """, origin=org)
    vf.add(pf.render(), origin=org, edits=pf.log)
    vf.add("\n        alloc\n    }\n}\n", origin=org)
    vf.functions.append({"path": frag["path"], "file": GEN, "line": gen.line_of(a), "end_line": gen.line_of(b), "engine": "verus", "mode": "verus (statement fragment, E15)", "bound": "none"})
    vf.expected.append("js_param_alloc")
    vf.add(vhelp.FOOTER)
    return vf


CANARY_FUNCTIONS = ["gen_js_to_c_for_type", "js_param_alloc"]
ASSUMPTIONS = [
    "all generated JS text is dropped (E6): only the control flow that reaches the panic sites is kept; maybe_wrap_in_write / gen_js_to_c_for_struct_type / layout abstract",
    "Option::unwrap_or_else(|| panic!) / expect unfolded to a match whose None arm is the panic obligation (E10)",
    "preconditions js_type_ok (no callbacks, no 'static slices: JS has static_slices = false, enforced by lower_type's C13 clause) and ctx_ok (SlicePrealloc only for slices: read from the two call sites) are assumed",
    "that generate_method passes the `alloc` it computed to gen_js_to_c_for_type for the same parameter is read from the source (adjacent statements), not proved; the struct-field caller (generate_fields) is not under contract",
]
UNVERIFIED = {"C15": ["generate_fields' allocator choice", "the text the conversion emits"]}
