"""V method_symbol_use: the native symbol each backend's method generator hands to its template is the HIR method's `abi_name` — the
name the proc macro exports (`Type_method` after abi_rename: units method_abi_name / rename_pattern / attr_inherit) — not the
display name or something recomputed from rename attributes.  One statement per backend (E15): C, C++ (wrapped in the capi
namespace), JS, Dart, Kotlin (wrapper and JNA declaration)."""
import re
from rsrc import Src, Piece
from verus_engine import VerusFile, CANARY
from common import Undecided
import vhelp

NAME = "method_symbol_use"
ENGINE = "verus"
PROPERTIES = {"C06": "the method symbol referenced by generated C / C++ / JS / Dart / Kotlin code is exactly hir::Method::abi_name (the exported symbol)"}

PRELUDE = r"""
// ---- everything in scope that could be used to build a symbol name (so that a different recipe is refuted, not undecided)
#[verifier::external_body] pub struct CowStr { x: u8 }
impl CowStr { pub uninterp spec fn view(&self) -> Seq<char>; }
#[verifier::external_body] pub fn __cow() -> CowStr { unimplemented!() }            // E6: any format!(..) text
#[verifier::external_body] pub struct IdentBuf { x: u8 }
impl IdentBuf {
    pub uninterp spec fn view(&self) -> Seq<char>;
    #[verifier::external_body] pub fn as_str(&self) -> (r: &str) ensures r@ == self@ { unimplemented!() }
}
#[verifier::external_body] pub struct RenameAttr { x: u8 }
impl RenameAttr { #[verifier::external_body] pub fn apply(&self, name: CowStr) -> CowStr { unimplemented!() } }   // result unconstrained
pub struct Attrs { pub abi_rename: RenameAttr, pub rename: RenameAttr, pub disable: bool }
pub struct Method { pub name: IdentBuf, pub abi_name: IdentBuf, pub attrs: Attrs }
pub mod hir { pub use super::Method; }
#[verifier::external_body] pub struct TypeId { x: u8 }
impl Clone for TypeId { #[verifier::external_body] fn clone(&self) -> Self { unimplemented!() } }
impl Copy for TypeId {}
// an owned String made from a &str: same text
#[verifier::external_body] pub struct OwnedStr { x: u8 }
impl OwnedStr { pub uninterp spec fn view(&self) -> Seq<char>; }
pub struct StringNs { pub x: u8 }
impl StringNs { #[verifier::external_body] pub fn from(s: &str) -> (r: OwnedStr) ensures r@ == s@ { unimplemented!() } }
// C++: the C symbol wrapped in `<ns>::capi::` — the symbol part is the argument
pub struct Namespaced { pub symbol: Ghost<Seq<char>> }
pub struct Formatter { pub x: u8 }
impl Formatter {
    #[verifier::external_body] pub fn namespace_c_method_name(&self, ty: TypeId, name: &str) -> (r: Namespaced) ensures r.symbol@ == name@ { unimplemented!() }
    #[verifier::external_body] pub fn fmt_method_name(&self, m: &Method) -> CowStr { unimplemented!() }   // display name: unconstrained
}
pub trait Symbol { spec fn sym(&self) -> Seq<char>; }
impl Symbol for &str { open spec fn sym(&self) -> Seq<char> { self@ } }
impl Symbol for &IdentBuf { open spec fn sym(&self) -> Seq<char> { self@ } }
impl Symbol for IdentBuf { open spec fn sym(&self) -> Seq<char> { self@ } }
impl Symbol for CowStr { open spec fn sym(&self) -> Seq<char> { self@ } }
impl Symbol for OwnedStr { open spec fn sym(&self) -> Seq<char> { self@ } }
impl Symbol for Namespaced { open spec fn sym(&self) -> Seq<char> { self.symbol@ } }
pub struct TyGenContext { pub formatter: Formatter }
"""

SITES = [
    ("tool/src/c/ty.rs", "impl TyGenContext<'_,'tcx>::gen_method", r"let abi_name\s*=", "abi_name", "c_method_symbol", "C"),
    ("tool/src/cpp/ty.rs", "impl TyGenContext<'ccx,'tcx,'_>::gen_method_info", r"let abi_name\s*=", "abi_name", "cpp_method_symbol", "C++"),
    ("tool/src/js/gen.rs", "impl TyGenContext<'_,'tcx>::generate_method", r"let abi_name\s*=", "abi_name", "js_method_symbol", "JS"),
    ("tool/src/dart/mod.rs", "impl TyGenContext<'_,'cx>::gen_method_info", r"let abi_name\s*=", "abi_name", "dart_method_symbol", "Dart"),
    ("tool/src/kotlin/mod.rs", "impl TyGenContext<'_,'cx>::gen_method", r"let native_method_name\s*=", "native_method_name", "kotlin_wrapper_symbol", "Kotlin (wrapper)"),
    ("tool/src/kotlin/mod.rs", "impl TyGenContext<'_,'cx>::gen_native_method_info", r"let native_method\s*=", "native_method", "kotlin_native_decl_symbol", "Kotlin (JNA declaration)"),
]


def build(tier):
    vf = VerusFile(NAME)
    vf.add(vhelp.HEADER)
    vf.add(PRELUDE)
    vf.add("impl TyGenContext {\n")
    for (rel, item_path, pat, var, fn_name, backend) in SITES:
        src = Src(rel)
        its = src.items(item_path, "fn")
        if len(its) != 1:
            # fall back: any fn item whose path ends with the method name
            name = item_path.split("::")[-1]
            its = [i for i in src.index["items"] if i["kind"] == "fn" and i["path"].endswith("::" + name) and "TyGenContext" in i["path"]]
        if len(its) != 1:
            raise Undecided("anchor-lost", f"{rel}: {item_path} not found (or ambiguous)")
        it = its[0]
        st = None
        for (a, b) in it["stmts"]:
            if re.match(pat, src.slice(a, b)):
                st = (a, b)
                break
        if st is None:
            raise Undecided("anchor-lost", f"{rel} {it['path']}: statement `{pat}` not found")
        a, b = st
        frag = {"path": it["path"] + f"#let {var}", "kind": "stmt", "start": a, "after_attrs": a, "end": b, "loops": []}
        p = Piece(src, frag)
        p.sub("E6", r'format!\((?:[^()]|\([^()]*\))*\)', "__cow()", count=None, why="any text assembled with format! is opaque")
        p.sub("E12", r"String::from\(", "StringNs::from(", count=None, why="String::from(&str): same text")
        org = {"file": rel, "item": frag["path"], "line": src.line_of(a), "end_line": src.line_of(b)}
        vf.add(f"""    // E15: the statement of the {backend} backend that picks the method's native symbol, as a function of the HIR method
    fn {fn_name}<'a>(&'a self, method: &'a Method, id: TypeId) -> (sym: Ghost<Seq<char>>)
        ensures {CANARY} sym@ == method.abi_name@,
    {{
        """, origin=org)
        vf.add(p.render(), origin=org, edits=p.log)
        vf.add(f"\n        Ghost({var}.sym())\n    }}\n", origin=org)
        vf.functions.append({"path": frag["path"], "file": rel, "line": src.line_of(a), "end_line": src.line_of(b), "engine": "verus", "mode": "verus (statement fragment, E15)", "bound": "none"})
        vf.expected.append(fn_name)
    vf.add("}\n")
    vf.add(vhelp.FOOTER)
    return vf


CANARY_FUNCTIONS = [s[4] for s in SITES]
ASSUMPTIONS = [
    "E15: one statement per backend; hir::Method / Attrs / RenameAttr re-declared with the fields in scope; RenameAttr::apply, fmt_method_name and format! are unconstrained (a symbol built from them cannot be proved equal to abi_name)",
    "CppFormatter::namespace_c_method_name wraps its `name` argument in `<namespace>::capi::` (read from its 7-line body): the symbol part is the argument",
    "that the variable bound here is what the templates print as the called / declared symbol (struct field of the same name) is read, not proved; nanobind calls through the C++ header",
]
UNVERIFIED = {"C06": ["the templates and the struct fields between these statements and the templates (read)"]}
