"""V attr_inherit: which abi_rename / rename / disable / namespace reaches an item through attribute inheritance."""
import re
from rsrc import Src, Piece
from verus_engine import VerusFile, CANARY
from common import Undecided
import vhelp

NAME = "attr_inherit"
ENGINE = "verus"
PROPERTIES = {"C06": "the abi_rename pattern that reaches a method / destructor is the last non-empty of (module, impl|type, method)",
              "C13": "disable is inherited everywhere except to variants; rename per the documented rule; namespace only to types"}
AST = "core/src/ast/attrs.rs"
HIR = "core/src/hir/attrs.rs"

PRELUDE = r"""
// ---- trusted replacements for derived / std impls (A-derive)
#[verifier::external_body] pub struct Attribute { x: u8 }
#[verifier::external_body] pub struct DiplomatBackendAttr { x: u8 }
#[verifier::external_body] pub struct DemoBackendAttr { x: u8 }
#[verifier::external_body] pub struct DemoInfo { x: u8 }
#[verifier::external_body] pub struct SpecialMethod { x: u8 }
impl Clone for Attribute { #[verifier::external_body] fn clone(&self) -> (r: Self) ensures r == *self { unimplemented!() } }
impl Clone for DiplomatBackendAttr { #[verifier::external_body] fn clone(&self) -> (r: Self) ensures r == *self { unimplemented!() } }
impl Clone for DemoBackendAttr { #[verifier::external_body] fn clone(&self) -> (r: Self) ensures r == *self { unimplemented!() } }
impl Default for DemoInfo { #[verifier::external_body] fn default() -> Self { unimplemented!() } }
"""

AFTER_TYPES = r"""
impl Clone for RenamePattern { #[verifier::external_body] fn clone(&self) -> (r: Self) ensures r == *self { unimplemented!() } }
impl Clone for RenameAttr { #[verifier::external_body] fn clone(&self) -> (r: Self) ensures r == *self { unimplemented!() } }
#[verifier::external_body] pub fn __parse_pattern(s: &str) -> RenamePattern { unimplemented!() }
impl Default for RenameAttr { #[verifier::external_body] fn default() -> (r: Self) ensures r.pattern is None { unimplemented!() } }

// ---- oracle, from the documentation on ast::Attrs / hir::Attrs fields:
//   abi_rename: inherited except through variants;  rename: inherited except module->method-likes and variants
pub open spec fn inherit_pattern(p: Option<RenamePattern>, context: AttrInheritContext, is_abi_rename: bool) -> Option<RenamePattern> {
    if context == AttrInheritContext::Variant { None }
    else if context == AttrInheritContext::MethodOrImplFromModule && !is_abi_rename { None }
    else { p }
}
// a child's own attribute overrides what it inherited; absent keeps the inherited one
pub open spec fn extend_pattern(inherited: Option<RenamePattern>, own: Option<RenamePattern>) -> Option<RenamePattern> {
    if own is Some { own } else { inherited }
}
"""

LEMMAS = r"""
// ---- lemmas over the contracts above (C06): effective abi_rename pattern.
// ast/modules.rs: impl_attrs = module.attrs_for_inheritance(MethodOrImplFromModule) + impl's own; method_parent = impl_attrs.attrs_for_inheritance(MethodFromImpl);
// Method::from_syn: parent + method's own.  Types: type_parent = module.attrs_for_inheritance(Type) + type's own (destructor name).
pub open spec fn last_some(a: Option<RenamePattern>, b: Option<RenamePattern>, c: Option<RenamePattern>) -> Option<RenamePattern> {
    if c is Some { c } else if b is Some { b } else { a }
}
pub proof fn lemma_abi_rename_chain_method(module: Option<RenamePattern>, imp: Option<RenamePattern>, method: Option<RenamePattern>)
    ensures
        extend_pattern(inherit_pattern(extend_pattern(inherit_pattern(module, AttrInheritContext::MethodOrImplFromModule, true), imp),
                                       AttrInheritContext::MethodFromImpl, true), method)
            == last_some(module, imp, method),
{
}
pub proof fn lemma_abi_rename_chain_dtor(module: Option<RenamePattern>, ty: Option<RenamePattern>)
    ensures extend_pattern(inherit_pattern(module, AttrInheritContext::Type, true), ty) == last_some(module, ty, None),
{
}
// `rename` (display names) does not flow from a module to methods, abi_rename does: the two never get confused
pub proof fn lemma_rename_vs_abi_rename(module: Option<RenamePattern>)
    ensures
        inherit_pattern(module, AttrInheritContext::MethodOrImplFromModule, false) is None,
        inherit_pattern(module, AttrInheritContext::MethodOrImplFromModule, true) == module,
        inherit_pattern(module, AttrInheritContext::Variant, true) is None,
{
}
"""


def build(tier):
    vf = VerusFile(NAME)
    ast = Src(AST)
    hir = Src(HIR)
    vf.add(vhelp.HEADER)
    vf.add(PRELUDE)
    vhelp.typedef(vf, ast, "AttrInheritContext", "enum", derive=vhelp.FIELDLESS_DERIVE,
                  subs=[("E2", r"\n\s*#\[allow\(unused\)\]", "")])
    vhelp.typedef(vf, ast, "RenamePattern", "struct", subs=[("E1", r"\n    (replacement|insertion_index):", r"\n    pub \1:")])
    vhelp.typedef(vf, ast, "RenameAttr", "struct", subs=[("E1", r"\n    pattern:", r"\n    pub pattern:")])
    vf.add(AFTER_TYPES)
    vf.add("impl RenameAttr {\n")
    p = Piece(ast, ast.item("impl RenameAttr::is_empty", "fn"))
    p.sub("E1", r"pub\(crate\)", "pub", count=1)
    p.contract("        ensures r == (self.pattern is None),", ret_name="r")
    vf.add_piece(p, expected="is_empty")
    p = Piece(ast, ast.item("impl RenameAttr::extend", "fn"))
    p.sub("E1", r"pub\(crate\)", "pub", count=1)
    p.contract(f"        ensures {CANARY} final(self).pattern == extend_pattern(old(self).pattern, other.pattern),")
    p.sub("E7", r"self\.pattern\.clone_from\(&other\.pattern\);", "self.pattern = other.pattern.clone();", count=1,
          why="Clone::clone_from(&mut a, &b) is documented as equivalent to a = b.clone()")
    vf.add_piece(p, expected="extend")
    p = Piece(ast, ast.item("impl RenameAttr::attrs_for_inheritance", "fn"))
    p.sub("E1", r"pub\(crate\)", "pub", count=1)
    p.contract(f"        ensures {CANARY} r.pattern == inherit_pattern(self.pattern, context, is_abi_rename),", ret_name="r")
    vf.add_piece(p, expected="attrs_for_inheritance")
    # from_pattern: an attribute that is present is never stored as "absent" (extend() treats None as "keep the inherited one")
    p = Piece(ast, ast.item("impl RenameAttr::from_pattern", "fn"))
    p.contract(f"        ensures {CANARY} r.pattern is Some,", ret_name="r")
    p.sub("E6", r"s\.parse\(\)\.unwrap\(\)", "__parse_pattern(s)", count=None, why="str::parse::<RenamePattern>() (FromStr, Infallible) abstracted")
    vf.add_piece(p, expected="from_pattern")
    vf.add("}\n")
    # ---- ast::Attrs
    vf.add("pub mod ast_attrs {\nuse super::*;\n")
    vhelp.typedef(vf, ast, "Attrs", "struct")
    vf.add("impl Attrs {\n")
    p = Piece(ast, ast.item("impl Attrs::attrs_for_inheritance", "fn"))
    p.sub("E1", r"pub\(crate\)", "pub", count=1)
    p.contract(f"""        ensures {CANARY}
            // abi_rename: inherited except through variants (always passed with is_abi_rename = true)
            r.abi_rename.pattern == (if context == AttrInheritContext::Variant {{ None }} else {{ self.abi_rename.pattern }}),
            // HIR backend attrs (incl. disable / rename conditions) are copied only from an impl block to its methods
            context == AttrInheritContext::MethodFromImpl ==> r.attrs@.len() == self.attrs@.len(),
            context != AttrInheritContext::MethodFromImpl ==> r.attrs@.len() == 0,""", ret_name="r")
    vf.add_piece(p, expected="attrs_for_inheritance")
    # add_attr: an item's own abi_rename attribute always overrides what is already there (the inherited pattern seeded by the
    # callers); other attribute kinds never touch abi_rename
    vhelp_attr = ast.item("Attr", "enum")
    p = Piece(ast, ast.item("impl Attrs::add_attr", "fn"))
    p.sub("E1", r"\A(\s*)fn add_attr", r"\1pub fn add_attr", count=1, why="private fn made pub")
    p.contract(f"""        ensures {CANARY}
            match attr {{
                Attr::CRename(rename) => final(self).abi_rename.pattern == extend_pattern(old(self).abi_rename.pattern, rename.pattern)
                    && final(self).attrs@ == old(self).attrs@ && final(self).cfg@ == old(self).cfg@ && final(self).demo_attrs@ == old(self).demo_attrs@,
                Attr::DiplomatBackend(a) => final(self).abi_rename == old(self).abi_rename && final(self).attrs@ == old(self).attrs@.push(a),
                Attr::Cfg(a) => final(self).abi_rename == old(self).abi_rename && final(self).cfg@ == old(self).cfg@.push(a) && final(self).attrs@ == old(self).attrs@,
                Attr::DemoBackend(a) => final(self).abi_rename == old(self).abi_rename && final(self).demo_attrs@ == old(self).demo_attrs@.push(a) && final(self).attrs@ == old(self).attrs@,
            }},""")
    vf.add_piece(p, expected="add_attr")
    vf.add("}\n")
    vhelp.typedef(vf, ast, "Attr", "enum")
    vf.add("}\n")
    # ---- hir::Attrs
    vf.add("pub mod hir_attrs {\nuse super::*;\n")
    vhelp.typedef(vf, hir, "Attrs", "struct")
    vf.add("impl Attrs {\n")
    p = Piece(hir, hir.item("impl Attrs::for_inheritance", "fn"))
    p.sub("E1", r"pub\(crate\)", "pub", count=1)
    p.contract(f"""        ensures {CANARY}
            // disable: always inherited except to variants
            r.disable == (context != AttrInheritContext::Variant && self.disable),
            // namespace: only to modules/types
            (context == AttrInheritContext::Module || context == AttrInheritContext::Type) ==> (r.namespace is Some) == (self.namespace is Some),
            !(context == AttrInheritContext::Module || context == AttrInheritContext::Type) ==> r.namespace is None,
            // rename: inherited except module -> method-likes and variants
            r.rename.pattern == inherit_pattern(self.rename.pattern, context, false),
            // abi_rename was already inherited on the AST side; never inherited: special_method, custom_errors
            r.abi_rename.pattern is None,
            r.special_method is None,
            !r.custom_errors,""", ret_name="r")
    vf.add_piece(p, expected="for_inheritance")
    vf.add("}\n}\n")
    vf.add(LEMMAS)
    vf.expected += ["lemma_abi_rename_chain_method", "lemma_abi_rename_chain_dtor", "lemma_rename_vs_abi_rename"]
    vf.add(vhelp.FOOTER)
    return vf


ASSUMPTIONS = [
    "A-derive: derived Clone/Default on RenameAttr/RenamePattern are structural (trusted stubs); Option::default() is None (vstd specification)",
    "E7: a.clone_from(&b) == (a = b.clone())",
    "the inheritance chain of ast/modules.rs (module -> impl -> method, module -> type) is transcribed in the lemma statements from the call sites; the call sites themselves (syn-typed code) are not verified",
]
UNVERIFIED = {
    "C06": ["RenamePattern::from_str / RenameAttr::apply are unit rename_pattern (byte-sequence string model)",
            "OpaqueType::dtor_abi_name, Method::from_syn (syn)", "every backend printing abi_name rather than a display name (template text)"],
    "C13": ["Attrs::from_ast meta dispatch (syn)", "backends' `if attrs.disable { continue }`"],
}
