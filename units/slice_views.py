"""K slice_views: every From/Into/Deref/DerefMut/Drop impl of runtime/src/slices.rs."""
from kunit import define

F = "runtime/src/slices.rs"
def f(p): return (F, p)
B_FROM = f("impl From<&'a[T]> for DiplomatSlice<'a,T>::from")
B_INTO = f("impl From<DiplomatSlice<'a,T>> for &'a[T]::from")
B_DEREF = f("impl Deref for DiplomatSlice<'_,T>::deref")
M_FROM = f("impl From<&'amut[T]> for DiplomatSliceMut<'a,T>::from")
M_INTO = f("impl From<DiplomatSliceMut<'a,T>> for &'amut[T]::from")
M_DEREF = f("impl Deref for DiplomatSliceMut<'_,T>::deref")
M_DEREFMUT = f("impl DerefMut for DiplomatSliceMut<'_,T>::deref_mut")
O_DROP = f("impl Drop for DiplomatOwnedSlice<T>::drop")
O_FROM = f("impl From<Box<[T]>> for DiplomatOwnedSlice<T>::from")
O_INTO = f("impl From<DiplomatOwnedSlice<T>> for Box<[T]>::from")
O_DEREF = f("impl Deref for DiplomatOwnedSlice<T>::deref")
O_DEREFMUT = f("impl DerefMut for DiplomatOwnedSlice<T>::deref_mut")
S_FROM = f("impl From<&'astr> for DiplomatUtf8StrSlice<'a>::from")
S_INTO = f("impl From<DiplomatUtf8StrSlice<'a>> for &'astr::from")
S_DEREF = f("impl Deref for DiplomatUtf8StrSlice<'_>::deref")
OS_FROM = f("impl From<Box<str>> for DiplomatOwnedUTF8StrSlice::from")
OS_INTO = f("impl From<DiplomatOwnedUTF8StrSlice> for Box<str>::from")
OS_DEREF = f("impl Deref for DiplomatOwnedUTF8StrSlice::deref")

bnd = lambda p: f"backing storage <= {p['N']} elements (conversion functions are loop-free; the bound only sizes the allocation)"
bnd_loop = lambda p: f"length <= {p['N']} elements (setup loop unwound {p['UNWIND']}, unwinding assertions on)"
E = []
for t in ("u8", "u16", "u32", "u64", "struct"):
    E.append((f"slice_roundtrip_{t}", f"&[{t}] -> DiplomatSlice -> &[{t}]: same pointer/len/contents; Deref agrees", [B_FROM, B_INTO, B_DEREF], 2, ["C16"], "bounded", bnd))
for t in ("u8", "u32", "u64", "struct"):
    E.append((f"slice_mut_roundtrip_{t}", f"&mut [{t}] -> DiplomatSliceMut -> &mut [{t}]: same pointer/len; Deref/DerefMut agree; writes land in the original storage, other elements untouched", [M_FROM, M_INTO, M_DEREF, M_DEREFMUT], 2, ["C16"], "bounded", bnd))
E.append(("null_views_are_empty", "(NULL,0) is accepted as the empty slice by every view type's Into/Deref/DerefMut; Drop of (NULL,0) owned slice frees nothing; (NULL,0) owned -> empty Box<[T]>", [B_INTO, B_DEREF, M_INTO, M_DEREF, M_DEREFMUT, O_DROP, O_INTO, O_DEREF, O_DEREFMUT], None, ["C16", "C03"], "complete", "none"))
for t in ("u8", "u16", "u64", "struct"):
    E.append((f"owned_roundtrip_{t}", f"Box<[{t}]> -> DiplomatOwnedSlice -> Box<[{t}]>: same address/len/contents incl. zero-length; freed exactly once (CBMC free checks)", [O_FROM, O_INTO, O_DEREF, O_DEREFMUT], 2, ["C16", "C03"], "bounded", bnd_loop))
for t in ("u8", "u32"):
    E.append((f"owned_drop_{t}", f"Drop for DiplomatOwnedSlice<{t}> releases the allocation exactly once incl. zero-length", [O_FROM, O_DROP], 2, ["C03", "C16"], "bounded", bnd_loop))
E.append(("owned_elements_dropped_once", "owned slice of elements with drop glue: every element dropped exactly once whether dropped as DiplomatOwnedSlice or converted back to Box<[T]>", [O_FROM, O_DROP, O_INTO], None, ["C03"], "bounded", bnd_loop))
E.append(("utf8_str_view_roundtrip", "&str -> DiplomatUtf8StrSlice -> &str same pointer/len; Deref agrees; (NULL,0) -> \"\"", [S_FROM, S_INTO, S_DEREF], None, ["C16"], "bounded", bnd))
E.append(("owned_utf8_str_roundtrip", "Box<str> -> DiplomatOwnedUTF8StrSlice -> Box<str> same address/len/contents, freed once; (NULL,0) -> empty Box<str>", [OS_FROM, OS_INTO, OS_DEREF], None, ["C16", "C03"], "bounded", bnd_loop))
anyb = "all lengths with len*size_of::<T>() <= 2^40 bytes (symbolic-size zeroed allocation in CBMC's allocator model; conversions are loop-free and read no element)"
for t in ("u8", "u16", "u64"):
    E.append((f"slice_roundtrip_anylen_{t}", f"&[{t}] <-> DiplomatSlice for every length: same pointer/len, Deref agrees, element i identical", [B_FROM, B_INTO, B_DEREF], 2, ["C16"], "complete", anyb))
for t in ("u8", "u32"):
    E.append((f"slice_mut_roundtrip_anylen_{t}", f"&mut [{t}] <-> DiplomatSliceMut for every length: same pointer/len, Deref/DerefMut agree, a write lands in the original storage", [M_FROM, M_INTO, M_DEREF, M_DEREFMUT], 2, ["C16"], "complete", anyb))
for t in ("u8", "u16"):
    E.append((f"owned_roundtrip_anylen_{t}", f"Box<[{t}]> <-> DiplomatOwnedSlice for every length: same address/len; dropped or converted back, freed exactly once", [O_FROM, O_INTO, O_DROP, O_DEREF, O_DEREFMUT], 2, ["C16", "C03"], "complete", anyb))
E.append(("slice_layout", "DiplomatSlice/SliceMut/OwnedSlice/Utf8StrSlice are {ptr,len} in that order, two words", [], None, ["C01"], "complete", "none"))

define(globals(), "slice_views", "runtime", F, "verif_slices", "slice_views.rs",
       {"C16": "slice/str views round-trip pointer, length and contents; NULL,0 accepted as empty",
        "C03": "owned slices released exactly once",
        "C01": "view struct layout {ptr,len}"},
       E, lambda tier: {"N": 4 if tier == "quick" else 6, "UNWIND": 6 if tier == "quick" else 8},
       ["precondition = documented type invariant of the views (ptr valid for len elements, or NULL with len 0): harnesses construct views only from real slices or (NULL,0)",
        "str views are built from ASCII bytes (valid UTF-8 for every length); the conversions never inspect the bytes",
        "element types instantiated: u8,u16,u32,u64, 3-byte repr(C) struct, drop-counting El",
        "CBMC allocator model"],
       {"C16": ["random longer strings for the UTF-8 predicate (not addressed by this family)"],
        "C03": ["macro-generated destroy functions", "C++ wrappers"], "C01": []})
