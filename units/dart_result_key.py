"""V dart_result_key: tool/src/dart/mod.rs gen_result — the name (and cache key in `helper_classes`) of the Dart helper class for a
result / option record is built from the PRECISE dart:ffi type names of its payloads (`gen_type_name_ffi(.., cast = false)`:
ffi.Uint8 vs ffi.Int64 ...), not from the Dart-side cast names (int / double), so two records whose payloads differ in native width
never share one declaration."""
import re
from rsrc import Src, Piece
from verus_engine import VerusFile, CANARY
from common import Undecided
import vhelp

NAME = "dart_result_key"
ENGINE = "verus"
PROPERTIES = {"C07": "Dart result/option record shapes: one helper declaration per pair of precise FFI payload types (cache key uses the uncast dart:ffi names)"}
DART = "tool/src/dart/mod.rs"

PRELUDE = r"""
#[verifier::external_body] pub struct Type { x: u8 }
pub mod hir { pub use super::Type; }
// E6t: names carried as what they denote
pub struct FfiName { pub of: Ghost<Type>, pub cast: bool }         // gen_type_name_ffi(ty, cast): the dart:ffi name (cast = false) or the Dart-side name (cast = true)
pub struct IdentPart { pub of: Option<FfiName> }                  // fmt_type_as_ident(Some(name) | None): an injective identifier fragment
pub struct ResultKey { pub ok: IdentPart, pub err: IdentPart }    // format!("_Result{}{}", ok, err)
pub struct DartFormatter { pub x: u8 }
impl DartFormatter { pub fn fmt_type_as_ident(&self, n: Option<FfiName>) -> (r: IdentPart) ensures r.of == n { IdentPart { of: n } } }
pub struct TyGenContext { pub formatter: DartFormatter }
impl TyGenContext {
    #[verifier::external_body] pub fn gen_type_name_ffi(&self, ty: &Type, cast: bool) -> (r: FfiName) ensures r.of@ == *ty, r.cast == cast { unimplemented!() }
}
// oracle: the key identifies the pair of PRECISE ffi payload types
pub open spec fn precise(t: Option<&Type>, p: IdentPart) -> bool {
    match t { Some(t) => p.of is Some && p.of->0.of@ == *t && !p.of->0.cast, None => p.of is None }
}
"""


def build(tier):
    vf = VerusFile(NAME)
    src = Src(DART)
    vf.add(vhelp.HEADER)
    vf.add(PRELUDE)
    it = src.item("impl TyGenContext<'_,'cx>::gen_result", "fn")
    a, b = it["stmts"][0]
    if not src.slice(a, b).startswith("let name = format!("):
        raise Undecided("anchor-lost", "gen_result: first statement is no longer `let name = format!(..)`")
    frag = {"path": it["path"] + "#let name", "kind": "stmt", "start": a, "after_attrs": a, "end": b, "loops": []}
    p = Piece(src, frag)
    p.sub("E6t", r'format!\(\s*"_Result\{\}\{\}",', "ResultKey::of(", count=1, why='format!("_Result{}{}", a, b) -> tagged key of its two parts')
    p.sub("E10", r"(\w+)\.map\(\|o\| self\.gen_type_name_ffi\(o, (\w+)\)\)\.as_deref\(\)", r"(match \1 { Some(o) => Some(self.gen_type_name_ffi(o, \2)), None => None })", count=2,
          why="Option::map unfolded to its definition; as_deref() only reborrows the name")
    p.sub("E6t", r"&self\s*\.formatter", "self.formatter", count=2, why="reference to a temporary dropped (the part is moved into the key)")
    org = {"file": DART, "item": frag["path"], "line": src.line_of(a), "end_line": src.line_of(b)}
    vf.add(f"""impl ResultKey {{ pub fn of(ok: IdentPart, err: IdentPart) -> (r: ResultKey) ensures r.ok == ok, r.err == err {{ ResultKey {{ ok, err }} }} }}
impl TyGenContext {{
    // E15: first statement of gen_result as a function of the two payload types
    fn dart_result_key(&self, ok: Option<&Type>, err: Option<&Type>) -> (name: ResultKey)
        ensures {CANARY} precise(ok, name.ok), precise(err, name.err),
    {{
        """, origin=org)
    vf.add(p.render(), origin=org, edits=p.log)
    vf.add("\n        name\n    }\n}\n", origin=org)
    vf.functions.append({"path": frag["path"], "file": DART, "line": src.line_of(a), "end_line": src.line_of(b), "engine": "verus", "mode": "verus (statement fragment, E15/E6t)", "bound": "none"})
    vf.expected.append("dart_result_key")
    vf.add(vhelp.FOOTER)
    return vf


CANARY_FUNCTIONS = ["dart_result_key"]
ASSUMPTIONS = [
    "E6t: gen_type_name_ffi / fmt_type_as_ident / the format! template carried as what they denote (type, cast flag; injective identifier part; pair)",
    "that distinct precise dart:ffi names are distinct strings and fmt_type_as_ident is injective on them is assumed (name tables: unit dart_tables for primitives)",
]
UNVERIFIED = {"C07": ["the body of the helper class (result.dart.jinja)", "injectivity of the name functions on non-primitive types"]}
