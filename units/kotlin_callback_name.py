"""V kotlin_callback_name: tool/src/kotlin/mod.rs gen_method names the wrapper class of a callback parameter after the type:
`struct_name.unwrap()` in the `Type::Callback` arm.  The statement is verified under the precondition it needs (struct_name is
Some), and every call of gen_method in the file is verified against that precondition (modular: the callee's contract, not its
body) — methods are not inspected for callback parameters at the call sites, so `None` is a panic for any such method."""
import re
from rsrc import Src, Piece, code_positions, match_close
from verus_engine import VerusFile, CANARY
from common import Undecided
import vhelp

NAME = "kotlin_callback_name"
ENGINE = "verus"
PROPERTIES = {"C15": "Kotlin gen_method does not panic on a callback parameter: every call site hands it the type name it unwraps (opaque, struct and enum methods, with and without self)"}
F = "tool/src/kotlin/mod.rs"

GEN_METHOD_PRE = "struct_name is Some"

PRELUDE = r"""
#[verifier::external_body] pub struct Ident { x: u8 }
impl Ident { #[verifier::external_body] pub fn as_ref(&self) -> &Ident { unimplemented!() } }
#[verifier::external_body] pub struct SpecialMethods { x: u8 }
#[verifier::external_body] pub struct SelfType { x: u8 }
#[verifier::external_body] pub struct MethodRest { x: u8 }
pub struct Method { pub name: Ident, pub rest: MethodRest }
pub mod hir { pub use super::Method; }
#[verifier::external_body] pub struct OwnedName { x: u8 }
// "diplomatCallback_" + <param name>  /  <type> + "_" + <method> + "_" + <that>: string concatenations, not judged here
#[verifier::external_body] pub fn __cb_param_name(param_name: &OwnedName) -> OwnedName { unimplemented!() }
#[verifier::external_body] pub fn __cb_wrapper_name(struct_name: &str, method: &Ident, param_name: &OwnedName) -> OwnedName { unimplemented!() }
pub struct TyGenContext { pub x: u8 }
impl TyGenContext {
    // gen_method through its contract: the precondition is what its `Type::Callback` arm needs (fragment below)
    #[verifier::external_body]
    pub fn gen_method(&mut self, special_methods: &mut SpecialMethods, method: &Method, self_type: Option<&SelfType>, struct_name: Option<&str>, use_finalizers_not_cleaners: bool) -> String
        requires @PRE@
    { unimplemented!() }
}
"""


def build(tier):
    vf = VerusFile(NAME)
    src = Src(F)
    vf.add(vhelp.HEADER)
    vf.add(PRELUDE.replace("@PRE@", GEN_METHOD_PRE))
    text = src.bytes.decode("utf-8")
    it = src.item("impl TyGenContext<'_,'cx>::gen_method", "fn")
    body = src.slice(it["start"], it["end"])
    # ---- callee side: the two statements at the head of the Type::Callback arm
    m = re.search(r"let param_name = \"diplomatCallback_\"\.to_owned\(\) \+ &param_name;\s*additional_name = Some\(", body)
    if not m:
        raise Undecided("anchor-lost", "gen_method: head of the `Type::Callback` arm (`let param_name = \"diplomatCallback_\".. ; additional_name = Some(`) not found")
    k = match_close(body, m.end() - 1)
    if body[k + 1] != ";":
        raise Undecided("anchor-lost", "gen_method: `additional_name = Some(..);` statement end not found")
    a, b = it["start"] + m.start(), it["start"] + k + 2
    frag = {"path": it["path"] + "#Type::Callback arm: let param_name; additional_name = Some(..)", "kind": "stmt", "start": a, "after_attrs": a, "end": b, "loops": []}
    org = {"file": F, "item": frag["path"], "line": src.line_of(a), "end_line": src.line_of(b)}
    p = Piece(src, frag)
    p.sub("E6", r'"diplomatCallback_"\.to_owned\(\) \+ &param_name', "__cb_param_name(&param_name)", count=1, why="string concatenation abstracted")
    p.sub("E6", r'(struct_name\.unwrap\(\))\.to_owned\(\)\s*\+\s*"_"\s*\+\s*method\.name\.as_ref\(\)\s*\+\s*"_"\s*\+\s*&param_name', r"__cb_wrapper_name(\1, method.name.as_ref(), &param_name)", count=1,
          why="string concatenation abstracted; the `struct_name.unwrap()` operand is kept")
    vf.add("// E15: head of gen_method's `Type::Callback` arm as a function of the locals it reads\n"
           "fn callback_arm_head(struct_name: Option<&str>, method: &Method, param_name: OwnedName) -> (additional_name: Option<OwnedName>)\n"
           f"    requires {GEN_METHOD_PRE},\n"
           f"    ensures {CANARY} additional_name is Some,\n"
           "{\n    let mut additional_name: Option<OwnedName> = None;\n    ", origin=org)
    vf.add(p.render(), origin=org, edits=p.log)
    vf.add("\n    additional_name\n}\n", origin=org)
    vf.functions.append({"path": frag["path"], "file": F, "line": src.line_of(a), "end_line": src.line_of(b), "engine": "verus", "mode": "verus (statement range)", "bound": "none"})
    vf.expected.append("callback_arm_head")
    # ---- caller side: every `self.gen_method(..)` call in the file
    calls = [q for q in code_positions(text, "self.gen_method(")]
    if not calls:
        raise Undecided("anchor-lost", "no `self.gen_method(` call found")
    fns = [i for i in src.index["items"] if i["kind"] == "fn"]
    vf.add("impl TyGenContext {\n")
    for n, q in enumerate(calls):
        op = q + len("self.gen_method")
        cl = match_close(text, op)
        a, b = len(text[:q].encode("utf-8")), len(text[:cl + 1].encode("utf-8"))
        enc = [i for i in fns if i["start"] <= a and b <= i["end"]]
        owner = min(enc, key=lambda i: i["end"] - i["start"])["path"] if enc else "?"
        frag = {"path": f"{owner}#call {n} of gen_method (line {src.line_of(a)})", "kind": "stmt", "start": a, "after_attrs": a, "end": b, "loops": []}
        org = {"file": F, "item": frag["path"], "line": src.line_of(a), "end_line": src.line_of(b)}
        p = Piece(src, frag)
        vf.add(f"// E15: call expression at line {src.line_of(a)}, as a function of the locals it names\n"
               f"fn gen_method_call_{n}(&mut self, mut special_methods: SpecialMethods, mut unused_special_methods: SpecialMethods, method: &Method, self_param: &SelfType,\n"
               f"        type_name: &str, use_finalizers_not_cleaners: bool) -> String\n{{\n        ", origin=org)
        vf.add(p.render(), origin=org, edits=p.log)
        vf.add("\n}\n", origin=org)
        vf.functions.append({"path": frag["path"], "file": F, "line": src.line_of(a), "end_line": src.line_of(b), "engine": "verus", "mode": "verus (call expression against the callee's contract)", "bound": "none"})
        vf.expected.append(f"gen_method_call_{n}")
    vf.add("}\n")
    vf.add(vhelp.FOOTER)
    return vf


CANARY_FUNCTIONS = ["callback_arm_head"]
ASSUMPTIONS = [
    "E15: the head of gen_method's Type::Callback arm is verified under the precondition `struct_name is Some`; the call sites are verified against that precondition (gen_method itself is used through this contract only)",
    "the precondition is required for every method (the call sites do not know whether the method has a callback parameter)",
    "string concatenations abstracted (names not judged here)",
]
UNVERIFIED = {"C15": ["the rest of gen_method (other todo!/unwrap sites)"]}
