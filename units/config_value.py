"""V config_value: tool/src/config.rs toml_value_from_str — the value text of a `--config key=value` setting or of a
`#[diplomat::config(key = value)]` attribute becomes a typed toml::Value: the boolean literals must come out as booleans (otherwise
unsafe_references_in_callbacks cannot be given in two of the three sources at all: SharedConfig::set rejects a non-boolean), and
text that is not TOML is kept as a string.  The toml crate's two parsers are dependencies with assumed contracts."""
import os
import re
from rsrc import Src, Piece
from verus_engine import VerusFile, CANARY
from common import Undecided, VERIF, read
import vhelp

NAME = "config_value"
ENGINE = "verus"
PROPERTIES = {"C17": "a boolean setting (unsafe_references_in_callbacks) given on the command line or in #[diplomat::config] reaches Config::set as a boolean, so that these two sources can take part in the precedence order"}
F = "tool/src/config.rs"

PRELUDE = r"""
pub enum Value { String(Str), Boolean(bool), Table(u8), Other(u8) }
#[verifier::external_body] pub struct TomlError { x: u8 }
// ---- assumed contracts on the toml crate (0.8):
//   toml::from_str::<Value>(s) parses s as a TOML DOCUMENT; a document is a table (toml docs: "interpret s as a TOML document")
//   Value::deserialize(toml::de::ValueDeserializer::new(s)) parses s as ONE TOML VALUE; `true` / `false` are the boolean literals (TOML spec)
pub uninterp spec fn toml_doc(s: Seq<u8>) -> Option<Value>;
pub uninterp spec fn toml_val(s: Seq<u8>) -> Option<Value>;
pub mod toml {
    use super::*;
    pub use super::Value;
    #[verifier::external_body] pub fn from_str_document(s: &Str) -> (r: Result<Value, TomlError>)
        ensures (r is Ok) == (toml_doc(s@) is Some), r is Ok ==> r->Ok_0 == toml_doc(s@)->0 && (r->Ok_0 is Table) { unimplemented!() }
    #[verifier::external_body] pub fn parse_single_value(s: &Str) -> (r: Result<Value, TomlError>)
        ensures (r is Ok) == (toml_val(s@) is Some), r is Ok ==> r->Ok_0 == toml_val(s@)->0,
            s@ == lit("true") ==> toml_val(s@) == Some(Value::Boolean(true)),
            s@ == lit("false") ==> toml_val(s@) == Some(Value::Boolean(false)) { unimplemented!() }
}
"""


def build(tier):
    vf = VerusFile(NAME)
    src = Src(F)
    vf.add(vhelp.HEADER)
    vf.add(read(os.path.join(VERIF, "units", "prelude", "str_model.rs")))
    vf.add(PRELUDE)
    p = Piece(src, src.item("toml_value_from_str", "fn"))
    p.sub("E3s", r"string: &str\b", "string: &Str", count=1, why="&str -> &Str")
    p.sub("E6", r"toml::from_str::<toml::Value>\((\w+)\)", r"toml::from_str_document(\1)", count=None, why="toml::from_str::<Value>: the document parser (assumed contract)")
    p.sub("E6", r"toml::Value::deserialize\(toml::de::ValueDeserializer::new\((\w+)\)\)", r"toml::parse_single_value(\1)", count=None,
          why="Value::deserialize(ValueDeserializer::new(..)): the single-value parser (assumed contract)")
    p.sub("E2", r"\n\s*use serde::Deserialize;", "", count=None, why="trait import dropped")
    p.contract(f"""        ensures {CANARY}
            // the boolean literals are booleans
            string@ == lit("true") ==> r == Value::Boolean(true),
            string@ == lit("false") ==> r == Value::Boolean(false),
            // text that is neither a TOML value nor a TOML document is the string itself
            toml_val(string@) is None && toml_doc(string@) is None ==> r == Value::String(*string),""", ret_name="r")
    vf.add_piece(p, expected="toml_value_from_str")
    text = vf.text()
    if "toml::from_str_document(" not in text and "toml::parse_single_value(" not in text:
        raise Undecided("anchor-lost", "toml_value_from_str: neither of the two toml parser calls found")
    vf.add(vhelp.FOOTER)
    return vf


CANARY_FUNCTIONS = ["toml_value_from_str"]
ASSUMPTIONS = [
    "assumed contracts on the toml crate: from_str::<Value> parses a whole TOML document (result is a table); Value::deserialize(ValueDeserializer::new(s)) parses one TOML value and `true`/`false` are the boolean literals",
    "E3s: &str carried as the byte-sequence model `Str`",
]
UNVERIFIED = {"C17": ["the toml crate"]}
