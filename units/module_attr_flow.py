"""V module_attr_flow: core/src/ast/modules.rs Module::from_syn — how attributes flow from a module to what its impl blocks,
types and nested modules start from.  Three statement fragments (E15):
  A. `let mod_attrs .. let type_parent_attrs`: the module's attrs come from the module's OWN attribute list, and the two
     inheritance seeds are attrs_for_inheritance(MethodOrImplFromModule) / (Type) of exactly those;
  B. Item::Impl arm, `.. let method_parent_attrs = ..;`: what an impl block's methods inherit is
     inherit(module seed + THIS impl's attributes, MethodFromImpl) — and the module seed is left unchanged for the next impl block;
  C. Item::Mod arm: a nested module is parsed from its own item alone, and analysed only if it carries its own bridge attribute."""
import re
from rsrc import Src, Piece, match_close
from verus_engine import VerusFile, CANARY
from common import Undecided
import vhelp

NAME = "module_attr_flow"
ENGINE = "verus"
PROPERTIES = {"C06": "the abi_rename a method inherits is module -> impl -> method, per impl block: attributes of one impl block (or of an enclosing module of a separately-expanded nested bridge) never reach another's methods",
              "C13": "disable / rename / backend attrs of one impl block do not leak to later impl blocks; nested modules do not inherit"}
F = "core/src/ast/modules.rs"
ATTRS = "core/src/ast/attrs.rs"

PRELUDE = r"""
#[verifier::external_body] pub struct Attribute { x: u8 }
#[verifier::external_body] pub struct ItemRest { x: u8 }
pub struct ItemMod { pub attrs: Vec<Attribute>, pub rest: ItemRest }
pub struct ItemImpl { pub attrs: Vec<Attribute>, pub rest: ItemRest }
#[verifier::external_body] pub struct Attrs { x: u8 }
// Attrs::from(&[Attribute]) / add_attrs / attrs_for_inheritance: abstract deterministic functions here (their content is unit attr_inherit)
pub uninterp spec fn spec_from(own: Seq<Attribute>) -> Attrs;
pub uninterp spec fn spec_add(base: Attrs, own: Seq<Attribute>) -> Attrs;
pub uninterp spec fn spec_inherit(a: Attrs, c: AttrInheritContext) -> Attrs;
impl Clone for Attrs { #[verifier::external_body] fn clone(&self) -> (r: Self) ensures r == *self { unimplemented!() } }
impl Attrs {
    #[verifier::external_body] pub fn from_syn_attrs(a: &Vec<Attribute>) -> (r: Attrs) ensures r == spec_from(a@) { unimplemented!() }
    #[verifier::external_body] pub fn add_attrs(&mut self, attrs: &Vec<Attribute>) ensures *final(self) == spec_add(*old(self), attrs@) { unimplemented!() }
    #[verifier::external_body] pub fn attrs_for_inheritance(&self, c: AttrInheritContext) -> (r: Attrs) ensures r == spec_inherit(*self, c) { unimplemented!() }
}
#[verifier::external_body] pub struct Module { x: u8 }
pub uninterp spec fn spec_module(input: ItemMod, force_analyze: bool) -> Module;
impl Module {
    // the function itself (recursive call in the Item::Mod arm): a deterministic function of its two arguments
    #[verifier::external_body] pub fn from_syn(input: &ItemMod, force_analyze: bool) -> (r: Module) ensures r == spec_module(*input, force_analyze) { unimplemented!() }
}
"""


def build(tier):
    vf = VerusFile(NAME)
    src = Src(F)
    at = Src(ATTRS)
    vf.add(vhelp.HEADER)
    vhelp.typedef(vf, at, "AttrInheritContext", "enum", derive=vhelp.FIELDLESS_DERIVE)
    vf.add(PRELUDE)
    it = src.item("impl Module::from_syn", "fn")
    stmts = it.get("stmts", [])
    body = src.slice(it["start"], it["end"])
    off = it["start"]
    # ---------------- A
    ia = ib = None
    for i, (a, b) in enumerate(stmts):
        t = src.slice(a, b)
        if ia is None and re.match(r"let\s+(mut\s+)?mod_attrs\b", t):
            ia = i
        if ib is None and re.match(r"input\s*\.\s*content", t):
            ib = i
    if ia is None or ib is None or ib <= ia:
        raise Undecided("anchor-lost", "Module::from_syn: statements `let mod_attrs ..` up to the `input.content..for_each(..)` statement not found")
    a, b = stmts[ia][0], stmts[ib - 1][1]
    ftext = src.slice(a, b)
    m_impl = re.search(r"let\s+(mut\s+)?(\w+)\s*(?::\s*Attrs\s*)?=\s*mod_attrs\s*\.\s*attrs_for_inheritance\(\s*AttrInheritContext::MethodOrImplFromModule\s*\)", ftext)
    m_type = re.search(r"let\s+(mut\s+)?(\w+)\s*(?::\s*Attrs\s*)?=\s*mod_attrs\s*\.\s*attrs_for_inheritance\(\s*AttrInheritContext::Type\s*\)", ftext)
    if not m_impl or not m_type:
        raise Undecided("anchor-lost", "Module::from_syn: the two `mod_attrs.attrs_for_inheritance(..)` seed bindings not found")
    impl_var, impl_mut = m_impl.group(2), bool(m_impl.group(1))
    type_var = m_type.group(2)
    frag = {"path": it["path"] + "#stmts(let mod_attrs .. before input.content.for_each)", "kind": "stmt", "start": a, "after_attrs": a, "end": b, "loops": []}
    org = {"file": F, "item": frag["path"], "line": src.line_of(a), "end_line": src.line_of(b)}
    p = Piece(src, frag)
    p.sub("E6", r"\(&\*input\.attrs\)\.into\(\)", "Attrs::from_syn_attrs(&input.attrs)", count=None, why="From<&[Attribute]> for Attrs named (abstract; unit attr_inherit)")
    vf.add("// E15: statement range of Module::from_syn as a function of the module item\n"
           "fn module_attr_seeds(input: &ItemMod) -> (r: (Attrs, Attrs, Attrs))\n"
           f"    ensures {CANARY}\n"
           "        // a module's attributes are its OWN attribute list (a bridge module nested in another is expanded by a separate macro invocation that sees nothing else)\n"
           "        r.0 == spec_from(input.attrs@),\n"
           "        r.1 == spec_inherit(r.0, AttrInheritContext::MethodOrImplFromModule),\n"
           "        r.2 == spec_inherit(r.0, AttrInheritContext::Type),\n{\n        ", origin=org)
    vf.add(p.render(), origin=org, edits=p.log)
    vf.add(f"\n        (mod_attrs, {impl_var}, {type_var})\n}}\n", origin=org)
    vf.functions.append({"path": frag["path"], "file": F, "line": src.line_of(a), "end_line": src.line_of(b), "engine": "verus", "mode": "verus (statement range)", "bound": "none"})
    vf.expected.append("module_attr_seeds")
    # ---------------- B
    mi = re.search(r"Item::Impl\((\w+)\)\s*=>\s*\{", body)
    if not mi:
        raise Undecided("anchor-lost", "Module::from_syn: `Item::Impl(imp) => {` arm not found")
    imp = mi.group(1)
    arm_open = mi.end() - 1
    arm_close = match_close(body, arm_open)
    arm = body[arm_open:arm_close]
    ms = re.search(r"let\s+self_path\s*=\s*match\b[^{]*\{", arm)
    me = re.search(r"let\s+method_parent_attrs\s*=[^;]*;", arm)
    if not ms or not me:
        raise Undecided("anchor-lost", "Item::Impl arm: `let self_path = match ..;` / `let method_parent_attrs = ..;` not found")
    k = match_close(arm, ms.end() - 1)
    k = arm.index(";", k) + 1
    if k >= me.start() + 1 and k > me.start():
        raise Undecided("anchor-lost", "Item::Impl arm: statement order changed")
    a, b = off + arm_open + k, off + arm_open + me.end()
    frag = {"path": it["path"] + "#Item::Impl arm: stmts(after let self_path ..= let method_parent_attrs)", "kind": "stmt", "start": a, "after_attrs": a, "end": b, "loops": []}
    org = {"file": F, "item": frag["path"], "line": src.line_of(a), "end_line": src.line_of(b)}
    p = Piece(src, frag)
    outer_ty = "&mut Attrs" if impl_mut else "&Attrs"
    o = (lambda s: f"old({s})") if impl_mut else (lambda s: s)
    frame = f"        *final({impl_var}) == *old({impl_var}),\n" if impl_mut else ""
    vf.add("// E15: statements of the Item::Impl arm that compute what the impl block's methods inherit; the module-level seed is the\n"
           "// variable bound in fragment A (passed `&mut` iff it is declared `mut` there)\n"
           f"fn impl_block_attrs({impl_var}: {outer_ty}, {imp}: &ItemImpl) -> (r: Attrs)\n"
           f"    ensures {CANARY}\n"
           f"        r == spec_inherit(spec_add(*{o(impl_var)}, {imp}.attrs@), AttrInheritContext::MethodFromImpl),\n"
           "        // the seed inherited from the module is the same for the NEXT impl block\n"
           f"{frame}{{\n        ", origin=org)
    vf.add(p.render(), origin=org, edits=p.log)
    vf.add("\n        method_parent_attrs\n}\n", origin=org)
    vf.functions.append({"path": frag["path"], "file": F, "line": src.line_of(a), "end_line": src.line_of(b), "engine": "verus", "mode": "verus (statement range in match arm)", "bound": "none"})
    vf.expected.append("impl_block_attrs")
    # ---------------- C
    mm = re.search(r"Item::Mod\((\w+)\)\s*=>\s*\{", body)
    if not mm:
        raise Undecided("anchor-lost", "Module::from_syn: `Item::Mod(item_mod) => {` arm not found")
    im = mm.group(1)
    c_open = mm.end() - 1
    c_close = match_close(body, c_open)
    a, b = off + c_open + 1, off + c_close
    frag = {"path": it["path"] + "#Item::Mod arm body", "kind": "stmt", "start": a, "after_attrs": a, "end": b, "loops": []}
    org = {"file": F, "item": frag["path"], "line": src.line_of(a), "end_line": src.line_of(b)}
    p = Piece(src, frag)
    vf.add("// E15: body of the Item::Mod arm\n"
           f"fn nested_module_step({im}: &ItemMod, sub_modules: &mut Vec<Module>)\n"
           f"    ensures {CANARY}\n"
           "        // parsed from the nested item ALONE, analysed only if it carries its own #[diplomat::bridge] (force_analyze == false)\n"
           f"        final(sub_modules)@ == old(sub_modules)@.push(spec_module(*{im}, false)),\n{{", origin=org)
    vf.add(p.render(), origin=org, edits=p.log)
    vf.add("}\n", origin=org)
    vf.functions.append({"path": frag["path"], "file": F, "line": src.line_of(a), "end_line": src.line_of(b), "engine": "verus", "mode": "verus (match arm body)", "bound": "none"})
    vf.expected.append("nested_module_step")
    vf.add(vhelp.FOOTER)
    return vf


CANARY_FUNCTIONS = ["module_attr_seeds", "impl_block_attrs", "nested_module_step"]
ASSUMPTIONS = [
    "E15: three statement fragments of Module::from_syn are under contract; the rest of the for_each closure (syn item matching, Struct::new / Enum::new / OpaqueType::new_* / Trait::new / Method::from_syn calls and that they are handed the seeds) is read, not verified",
    "Attrs::from(&[Attribute]), Attrs::add_attrs and Attrs::attrs_for_inheritance are abstract deterministic functions here; their content is unit attr_inherit",
    "the module-level seed variable of fragment B is the one bound in fragment A by attrs_for_inheritance(MethodOrImplFromModule), passed `&mut` iff declared `mut` (mechanical rule)",
    "Module::from_syn's recursive call is a deterministic function of (item, force_analyze)",
]
UNVERIFIED = {"C06": ["that each arm passes the right seed to the constructors (read)"], "C13": ["same"]}
