"""V cfg_parse_list: core/src/ast/attrs.rs `impl Parse for DiplomatBackendAttrCfg::parse`, the `any(..)` / `all(..)` branch after the operands
have been parsed (E15): the node built is Any / All (by the keyword) of EXACTLY the parsed operands, in order — the syntax tree mirrors the written
condition; its meaning is the evaluator's (unit cfg_eval).  A parser that rearranges operands (e.g. splices a nested any(..) into an enclosing
all(..)) changes the meaning of the formula before evaluation."""
import re
from rsrc import Src, Piece
from verus_engine import VerusFile, CANARY
from common import Undecided
import vhelp

NAME = "cfg_parse_list"
ENGINE = "verus"
PROPERTIES = {"C13": "the parsed form of any(..) / all(..) has the written operands as its children, unflattened and in order"}
F = "core/src/ast/attrs.rs"

PRELUDE = r"""
#[verifier::external_body] pub struct SynError { x: u8 }
pub mod syn { pub type Result<T> = core::result::Result<T, super::SynError>; }
// syn::Ident compared with string literals: which keyword it is
#[verifier::external_body] pub struct Ident { x: u8 }
pub uninterp spec fn ident_is(i: Ident, s: Seq<char>) -> bool;
impl Ident { #[verifier::external_body] pub fn is(&self, s: &str) -> (r: bool) ensures r == ident_is(*self, s@) { unimplemented!() } }
"""


def build(tier):
    vf = VerusFile(NAME)
    src = Src(F)
    vf.add(vhelp.HEADER)
    vf.add(PRELUDE)
    vhelp.typedef(vf, src, "DiplomatBackendAttrCfg", "enum")
    it = src.item("impl Parse for DiplomatBackendAttrCfg::parse", "fn")
    body = src.slice(it["start"], it["end"])
    m1 = re.search(r"let list = content\.parse_terminated\([^;]*;\n", body)
    m2 = re.search(r"\n(\s*)\} else if input\.peek\(Token!\[=\]\)", body)
    if not m1 or not m2 or m2.start() < m1.end():
        raise Undecided("anchor-lost", "DiplomatBackendAttrCfg::parse: statements between `let list = content.parse_terminated(..);` and the `else if input.peek(Token![=])` branch not found")
    a, b = it["start"] + m1.end(), it["start"] + m2.start()
    frag = {"path": it["path"] + "#any/all branch: stmts(after let list ..)", "kind": "stmt", "start": a, "after_attrs": a, "end": b, "loops": []}
    org = {"file": F, "item": frag["path"], "line": src.line_of(a), "end_line": src.line_of(b)}
    p = Piece(src, frag)
    p.sub("E7", r"\blist\.into_iter\(\)\.collect\(\)", "list", count=None, why="Punctuated<Cfg, Token![,]> carried as the Vec of its items (E11); into_iter().collect() is then the vector itself")
    p.sub("E3s", r'\bname == ("[a-z]+")', r"name.is(\1)", count=None, why="syn::Ident == \"literal\"")
    vf.add("// E15: the tail of the `any(..)` / `all(..)` branch as a function of the keyword and the parsed operands\n"
           "fn cfg_list_node(name: &Ident, list: Vec<DiplomatBackendAttrCfg>) -> (r: syn::Result<DiplomatBackendAttrCfg>)\n"
           f"    ensures {CANARY}\n"
           "        r == Ok::<DiplomatBackendAttrCfg, SynError>(if ident_is(*name, \"any\"@) { DiplomatBackendAttrCfg::Any(list) } else { DiplomatBackendAttrCfg::All(list) }),\n{\n", origin=org)
    vf.add(p.render(), origin=org, edits=p.log)
    vf.add("\n}\n", origin=org)
    vf.functions.append({"path": frag["path"], "file": F, "line": src.line_of(a), "end_line": src.line_of(b), "engine": "verus", "mode": "verus (statement range)", "bound": "none"})
    vf.expected.append("cfg_list_node")
    vf.add(vhelp.FOOTER)
    return vf


CANARY_FUNCTIONS = ["cfg_list_node"]
ASSUMPTIONS = [
    "E15: only the tail of the any/all branch; syn's parse_terminated yields the operands in source order (Punctuated carried as the Vec of its items); keyword comparison `name == \"any\"` abstract",
    "the other branches of the parser (not, name, name = value, *, auto) are syn code outside this unit",
]
UNVERIFIED = {"C13": ["the rest of the cfg parser (syn)"]}
