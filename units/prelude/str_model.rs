// ---- E3s: Rust strings (&str / String / Cow<str>) carried as one value type viewed as its UTF-8 byte sequence; each std operation
// used by the verified functions is given std's documented behaviour as its spec (slicing panics beyond the length: `requires`)
#[verifier::external_body] pub struct Str { x: u8 }
impl Clone for Str { #[verifier::external_body] fn clone(&self) -> (r: Self) ensures r == *self { unimplemented!() } }
impl Copy for Str {}
pub open spec fn placeholder() -> Seq<u8> { seq![0x7bu8, 0x30u8, 0x7du8] } // "{0}"
pub open spec fn occurs_at(s: Seq<u8>, p: Seq<u8>, i: int) -> bool { 0 <= i && i + p.len() <= s.len() && s.subrange(i, i + p.len()) == p }
// the UTF-8 bytes of a string literal (a function of the literal; no two literals are confused because equal bytes <=> equal literal)
pub uninterp spec fn lit_bytes(s: Seq<char>) -> Seq<u8>;
pub open spec fn lit(s: &str) -> Seq<u8> { lit_bytes(s@) }
// str::replace(pat, to): abstract function of the three texts (all non-overlapping occurrences, left to right: std)
pub uninterp spec fn spec_replace(s: Seq<u8>, pat: Seq<u8>, to: Seq<u8>) -> Seq<u8>;
// anything that denotes a text where std takes a `&str` pattern argument (the model value or a reference to it)
pub trait StrLike { spec fn bytes(&self) -> Seq<u8>; }
impl StrLike for Str { open spec fn bytes(&self) -> Seq<u8> { self.view() } }
impl StrLike for &Str { open spec fn bytes(&self) -> Seq<u8> { (**self).view() } }
impl Str {
    pub uninterp spec fn view(&self) -> Seq<u8>;
    #[verifier::external_body] pub fn len(&self) -> (r: usize) ensures r == self@.len() { unimplemented!() }
    #[verifier::external_body] pub fn is_empty(&self) -> (r: bool) ensures r == (self@.len() == 0) { unimplemented!() }
    // &s[..i]
    #[verifier::external_body] pub fn slice_to(&self, i: usize) -> (r: Str) requires i <= self@.len() ensures r@ == self@.subrange(0, i as int) { unimplemented!() }
    // &s[i..]
    #[verifier::external_body] pub fn slice_from(&self, i: usize) -> (r: Str) requires i <= self@.len() ensures r@ == self@.subrange(i as int, self@.len() as int) { unimplemented!() }
    #[verifier::external_body] pub fn split_at(&self, i: usize) -> (r: (Str, Str)) requires i <= self@.len()
        ensures r.0@ == self@.subrange(0, i as int), r.1@ == self@.subrange(i as int, self@.len() as int) { unimplemented!() }
    // str::find("{0}"): byte index of the FIRST occurrence
    #[verifier::external_body] pub fn find_placeholder(&self) -> (r: Option<usize>)
        ensures self@.len() <= isize::MAX, // a Rust allocation never exceeds isize::MAX bytes
          match r {
            Some(i) => occurs_at(self@, placeholder(), i as int) && forall|j: int| 0 <= j < i ==> !occurs_at(self@, placeholder(), j),
            None => forall|j: int| !occurs_at(self@, placeholder(), j),
        } { unimplemented!() }
    #[verifier::external_body] pub fn starts_with<P: StrLike>(&self, p: P) -> (r: bool) ensures r == occurs_at(self@, p.bytes(), 0) { unimplemented!() }
    #[verifier::external_body] pub fn ends_with<P: StrLike>(&self, p: P) -> (r: bool) ensures r == occurs_at(self@, p.bytes(), self@.len() - p.bytes().len()) { unimplemented!() }
    #[verifier::external_body] pub fn contains<P: StrLike>(&self, p: P) -> (r: bool) ensures r == (exists|i: int| occurs_at(self@, p.bytes(), i)) { unimplemented!() }
    // String::from(&str) / Cow::from(&String) / .into() / .to_string() between string types: same text (the model value IS the text)
    #[verifier::external_body] pub fn conv(&self) -> (r: Str) ensures r == *self { unimplemented!() }
    #[verifier::external_body] pub fn to_string(&self) -> (r: Str) ensures r == *self { unimplemented!() }
    // format! with a template made only of placeholders: the arguments' text in order
    #[verifier::external_body] pub fn concat2(a: Str, b: Str) -> (r: Str) ensures r@ == a@ + b@ { unimplemented!() }
    #[verifier::external_body] pub fn concat3(a: Str, b: Str, c: Str) -> (r: Str) ensures r@ == a@ + b@ + c@ { unimplemented!() }
    // a string literal
    #[verifier::external_body] pub fn lit(s: &str) -> (r: Str) ensures r@ == lit(s) { unimplemented!() }
    // `s == "literal"` / `match s { "literal" => .. }`
    #[verifier::external_body] pub fn eq_lit(&self, s: &str) -> (r: bool) ensures r == (self@ == lit(s)) { unimplemented!() }
    #[verifier::external_body] pub fn starts_with_lit(&self, s: &str) -> (r: bool) ensures r == occurs_at(self@, lit(s), 0) { unimplemented!() }
    #[verifier::external_body] pub fn contains_lit(&self, s: &str) -> (r: bool) ensures r == (exists|i: int| occurs_at(self@, lit(s), i)) { unimplemented!() }
    #[verifier::external_body] pub fn ends_with_lit(&self, s: &str) -> (r: bool) ensures r == occurs_at(self@, lit(s), self@.len() - lit(s).len()) { unimplemented!() }
    // str::replace
    #[verifier::external_body] pub fn replace_lit(&self, pat: &str, to: &str) -> (r: Str) ensures r@ == spec_replace(self@, lit(pat), lit(to)) { unimplemented!() }
    #[verifier::external_body] pub fn replace<P: StrLike>(&self, pat: P, to: &str) -> (r: Str) ensures r@ == spec_replace(self@, pat.bytes(), lit(to)) { unimplemented!() }
    // str::strip_prefix
    #[verifier::external_body] pub fn strip_prefix(&self, p: Str) -> (r: Option<Str>)
        ensures match r { Some(t) => occurs_at(self@, p@, 0) && t@ == self@.subrange(p@.len() as int, self@.len() as int), None => !occurs_at(self@, p@, 0) } { unimplemented!() }
    #[verifier::external_body] pub fn strip_prefix_lit(&self, p: &str) -> (r: Option<Str>)
        ensures match r { Some(t) => occurs_at(self@, lit(p), 0) && t@ == self@.subrange(lit(p).len() as int, self@.len() as int), None => !occurs_at(self@, lit(p), 0) } { unimplemented!() }
}
    // str::split_once("<literal>")
impl Str {
    // yields references, like std (the pieces are used where a `&str` is expected)
    #[verifier::external_body] pub fn split_once_lit<'a>(&'a self, d: &str) -> (r: Option<(&'a Str, &'a Str)>)
        ensures match (r, spec_split_once(*self, lit(d))) { (Some(p), Some(q)) => *p.0 == q.0 && *p.1 == q.1, (None, None) => true, _ => false },
          match spec_split_once(*self, lit(d)) {
              Some(q) => self@ == q.0@ + lit(d) + q.1@ && (forall|i: int| 0 <= i < q.0@.len() ==> !occurs_at(self@, lit(d), i)),
              None => forall|i: int| !occurs_at(self@, lit(d), i) } { unimplemented!() }
}
pub uninterp spec fn spec_split_once(s: Str, d: Seq<u8>) -> Option<(Str, Str)>;
// str::split("<literal>") consumed by `.skip(n).collect::<String>()`: the segments as a vector, and the concatenation of a suffix of them
pub uninterp spec fn spec_split(s: Seq<u8>, d: Seq<u8>) -> Seq<Seq<u8>>;
pub open spec fn flatten_from(segs: Seq<Seq<u8>>, n: int) -> Seq<u8> decreases segs.len() - n {
    if n < 0 || n >= segs.len() { Seq::<u8>::empty() } else { segs[n] + flatten_from(segs, n + 1) }
}
pub struct Segments { pub v: Vec<Str> }
impl Segments {
    pub open spec fn view(&self) -> Seq<Seq<u8>> { Seq::new(self.v@.len(), |i: int| self.v@[i]@) }
    // Iterator::skip(n) followed by collect::<String>(): the remaining segments concatenated WITHOUT separator
    #[verifier::external_body] pub fn skip_collect(&self, n: usize) -> (r: Str) ensures r@ == flatten_from(self@, n as int) { unimplemented!() }
}
impl Str {
    #[verifier::external_body] pub fn split_lit(&self, d: &str) -> (r: Segments)
        ensures r@ == spec_split(self@, lit(d)), r@.len() >= 1 { unimplemented!() }
    // Option<&str>::unwrap_or_default() on the result of toml's as_str(): "" when absent
    #[verifier::external_body] pub fn empty() -> (r: Str) ensures r@ == Seq::<u8>::empty() { unimplemented!() }
}
// std: splitting `L d K` where neither L nor K contains d yields exactly [L, K]
#[verifier::external_body]
pub proof fn axiom_split_two(l: Seq<u8>, d: Seq<u8>, k: Seq<u8>)
    requires d.len() > 0, forall|i: int| !occurs_at(l, d, i), forall|i: int| !occurs_at(k, d, i), forall|i: int| 0 <= i < l.len() ==> !occurs_at(l + d + k, d, i),
    ensures spec_split(l + d + k, d) == seq![l, k],
{ }
