pub assume_specification<T: ?Sized, A: core::alloc::Allocator> [<Box<T, A> as core::convert::AsRef<T>>::as_ref] (b: &Box<T, A>) -> (r: &T)
    ensures r == &**b;

#[verifier::external_body]
pub fn __msg() -> String { unimplemented!() }

/*@TOP_ENUMS@*/

pub mod ast {
    use vstd::prelude::*;
    #[verifier::external_body] pub struct Ident { s: String }
    pub use super::Mutability;
    pub use super::StdlibOrDiplomat;
/*@AST_TYPES@*/
    #[verifier::external_body] pub struct LifetimeEnv { x: u8 }
    #[verifier::external_body] pub struct FieldsOpaque { x: u8 }
    pub struct Struct { pub fields: Vec<(Ident, TypeName)>, pub lifetimes: LifetimeEnv, pub name: Ident }
    pub struct OpaqueType { pub lifetimes: LifetimeEnv }
    pub struct Enum { pub name: Ident }
    pub struct Trait { pub lifetimes: LifetimeEnv }
    pub enum CustomType { Struct(Struct), Opaque(OpaqueType), Enum(Enum) }
    #[verifier::external_body] pub struct Attrs { x: u8 }
/*@AST_SELFPARAM@*/
    #[verifier::external_body] pub struct Env { x: u8 }
    pub uninterp spec fn spec_resolve(p: PathType, in_path: Path, env: Env) -> CustomType;
    impl PathType {
        #[verifier::external_body]
        pub fn resolve<'a>(&self, in_path: &Path, env: &'a Env) -> (r: &'a CustomType)
            ensures *r == spec_resolve(*self, *in_path, *env)
        { unimplemented!() }
        #[verifier::external_body]
        pub fn resolve_trait<'a>(&self, in_path: &Path, env: &'a Env) -> Trait { unimplemented!() }
    }
}
use ast::Env;

pub enum LoweringError { Other(String) }
pub struct ErrorStore { pub errors: Vec<LoweringError> }
impl ErrorStore {
    pub fn push(&mut self, error: LoweringError)
        ensures final(self).errors@.len() == old(self).errors@.len() + 1
    { self.errors.push(error); }
}

#[derive(Copy, Clone)] pub struct Lifetime(pub usize);
#[derive(Copy, Clone)] pub enum MaybeStatic<T> { Static, NonStatic(T) }
pub struct Lifetimes { pub indices: Vec<MaybeStatic<Lifetime>> }
#[derive(Copy, Clone)] pub struct Borrow { pub lifetime: MaybeStatic<Lifetime>, pub mutability: Mutability }
impl Borrow { pub fn new(lifetime: MaybeStatic<Lifetime>, mutability: Mutability) -> (r: Self) ensures r.lifetime == lifetime, r.mutability == mutability { Self { lifetime, mutability } } }
#[derive(Copy, Clone)] pub struct StructId(pub usize);
#[derive(Copy, Clone)] pub struct OutStructId(pub usize);
#[derive(Copy, Clone)] pub struct OpaqueId(pub usize);
#[derive(Copy, Clone)] pub struct EnumId(pub usize);
#[derive(Copy, Clone)] pub struct TraitId(pub usize);
#[derive(Copy, Clone)] pub struct Optional(pub bool);
pub struct StructPath { pub lifetimes: Lifetimes, pub tcx_id: StructId }
impl StructPath { pub fn new(lifetimes: Lifetimes, tcx_id: StructId) -> (r: Self) ensures r.lifetimes == lifetimes, r.tcx_id == tcx_id { Self { lifetimes, tcx_id } } }
pub struct TraitPath { pub lifetimes: Lifetimes, pub tcx_id: TraitId }
impl TraitPath { pub fn new(lifetimes: Lifetimes, tcx_id: TraitId) -> (r: Self) ensures r.lifetimes == lifetimes, r.tcx_id == tcx_id { Self { lifetimes, tcx_id } } }
pub struct EnumPath { pub tcx_id: EnumId }
impl EnumPath { pub fn new(tcx_id: EnumId) -> (r: Self) ensures r.tcx_id == tcx_id { Self { tcx_id } } }
pub struct OpaquePath<Opt, Owner> { pub lifetimes: Lifetimes, pub optional: Opt, pub owner: Owner, pub tcx_id: OpaqueId }
impl<Opt, Owner> OpaquePath<Opt, Owner> {
    pub fn new(lifetimes: Lifetimes, optional: Opt, owner: Owner, tcx_id: OpaqueId) -> (r: Self) ensures r.lifetimes == lifetimes, r.optional == optional, r.owner == owner, r.tcx_id == tcx_id { Self { lifetimes, optional, owner, tcx_id } }
}
pub use ast::StringEncoding;
#[derive(Copy, Clone)] pub enum IntType { I8, I16, I32, I64, U8, U16, U32, U64 }
#[derive(Copy, Clone)] pub enum PrimitiveType { Bool, Char, Byte, Int(IntType), Other }
// the HIR primitive an AST primitive lowers to (unit prim_lowering proves on the real from_ast that width/signedness/kind are preserved)
pub uninterp spec fn spec_prim_from_ast(p: ast::PrimitiveType) -> PrimitiveType;
impl PrimitiveType {
    #[verifier::external_body]
    pub fn from_ast(prim: ast::PrimitiveType) -> (r: Self) ensures r == spec_prim_from_ast(prim) { unimplemented!() }
}
#[derive(Copy, Clone)]
pub enum Slice { Str(Option<MaybeStatic<Lifetime>>, StringEncoding), Primitive(Option<Borrow>, PrimitiveType), Strs(StringEncoding) }

#[verifier::external_body] pub struct IdentBuf { s: String }
pub struct CallbackParam { pub name: Option<IdentBuf>, pub ty: Type<OutputOnly> }
pub struct Callback { pub param_self: Option<u8>, pub params: Vec<CallbackParam>, pub output: Box<Option<Type<Everywhere>>>, pub name: Option<u8>, pub attrs: Option<u8>, pub docs: Option<u8> }

pub trait TyPosition: Sized {
    type OpaqueOwnership;
    type StructPath;
    type TraitPath;
    type CallbackInstantiation;
    fn build_callback(cb: Callback) -> Self::CallbackInstantiation;
    fn build_trait_path(trait_path: TraitPath) -> Self::TraitPath;
}
pub struct Everywhere;
pub struct OutputOnly;
#[verifier::external_body] pub struct Never { x: u8 }
impl TyPosition for Everywhere {
    type OpaqueOwnership = Borrow; type StructPath = StructPath; type TraitPath = Never; type CallbackInstantiation = Never;
    #[verifier::external_body] fn build_callback(cb: Callback) -> Never { unimplemented!() }
    #[verifier::external_body] fn build_trait_path(t: TraitPath) -> Never { unimplemented!() }
}
#[derive(Copy, Clone)] pub enum MaybeOwn { Own, Borrow(Borrow) }
pub struct OutStructPath { pub lifetimes: Lifetimes, pub tcx_id: OutStructId }
impl OutStructPath { pub fn new(lifetimes: Lifetimes, tcx_id: OutStructId) -> (r: Self) ensures r.lifetimes == lifetimes, r.tcx_id == tcx_id { Self { lifetimes, tcx_id } } }
pub enum ReturnableStructPath { Struct(StructPath), OutStruct(OutStructPath) }
impl TyPosition for OutputOnly {
    type OpaqueOwnership = MaybeOwn; type StructPath = ReturnableStructPath; type TraitPath = Never; type CallbackInstantiation = Never;
    #[verifier::external_body] fn build_callback(cb: Callback) -> Never { unimplemented!() }
    #[verifier::external_body] fn build_trait_path(t: TraitPath) -> Never { unimplemented!() }
}

pub enum Type<P: TyPosition> {
    Primitive(PrimitiveType),
    Opaque(OpaquePath<Optional, P::OpaqueOwnership>),
    Struct(P::StructPath),
    ImplTrait(P::TraitPath),
    Enum(EnumPath),
    Slice(Slice),
    Callback(P::CallbackInstantiation),
    DiplomatOption(Box<Type<P>>),
}

pub type OutType = Type<OutputOnly>;
pub enum SuccessType { Write, OutType(OutType), Unit }
pub enum ReturnType { Infallible(SuccessType), Fallible(SuccessType, Option<OutType>), Nullable(SuccessType) }
impl ReturnType {
    pub open spec fn success_spec(&self) -> SuccessType { match *self { ReturnType::Infallible(s) => s, ReturnType::Fallible(s, _) => s, ReturnType::Nullable(s) => s } }
    // hir::ReturnType::success_type: contract proved on the real function in unit return_type_helpers
    #[verifier::external_body] pub fn success_type(&self) -> (r: &SuccessType) ensures *r == self.success_spec() { unimplemented!() }
}
impl SuccessType {
    // hir::SuccessType::is_write: contract proved on the real function in unit return_type_helpers
    #[verifier::external_body] pub fn is_write(&self) -> (r: bool) ensures r == (*self is Write) { unimplemented!() }
}
#[verifier::external_body] pub struct LifetimeEnv { x: u8 }

pub trait LifetimeLowerer {
    // every implementor maps 'static to Static (proved for Base/Param/ReturnLifetimeLowerer in unit `elision`)
    fn lower_lifetime(&mut self, lifetime: &ast::Lifetime) -> (r: MaybeStatic<Lifetime>)
        ensures (*lifetime is Static) ==> (r is Static);
    fn lower_generics(&mut self, lifetimes: &[ast::Lifetime], type_generics: &ast::LifetimeEnv, is_self: bool) -> Lifetimes;
}

#[verifier::external_body] pub struct ReturnLifetimeLowerer<'ast> { x: &'ast u8 }
impl<'ast> LifetimeLowerer for ReturnLifetimeLowerer<'ast> {
    #[verifier::external_body] fn lower_lifetime(&mut self, lifetime: &ast::Lifetime) -> MaybeStatic<Lifetime> { unimplemented!() }
    #[verifier::external_body] fn lower_generics(&mut self, lifetimes: &[ast::Lifetime], type_generics: &ast::LifetimeEnv, is_self: bool) -> Lifetimes { unimplemented!() }
}
impl<'ast> ReturnLifetimeLowerer<'ast> {
    #[verifier::external_body] pub fn finish(self) -> LifetimeEnv { unimplemented!() }
}
pub struct LoweringConfig { pub unsafe_references_in_callbacks: bool }
// abstraction of `ty.lifetimes().any(|lt| matches!(lt, MaybeStatic::NonStatic(..)))` (iterator adapter; only decides whether an
// additional error is pushed, never the Ok/Err outcome)
#[verifier::external_body] pub fn __type_has_nonstatic_lifetime(ty: &OutType) -> bool { unimplemented!() }

#[derive(Copy, Clone)]
pub struct BackendAttrSupport { pub option: bool, pub callbacks: bool, pub traits: bool, pub static_slices: bool }
#[verifier::external_body] pub struct Attrs { x: u8 }
impl Attrs { #[verifier::external_body] pub fn default() -> Attrs { unimplemented!() } }
#[derive(Copy, Clone)] pub enum AttributeContext { SelfParam, Param, Other }
pub trait AttributeValidator {
    spec fn attrs_supported_spec(&self) -> BackendAttrSupport;
    fn attrs_supported(&self) -> (r: BackendAttrSupport) ensures r == self.attrs_supported_spec();
    // provided methods of the real trait (Attrs::from_ast / Attrs::validate): abstract here, they may only add errors
    fn attr_from_ast(&self, ast: &ast::Attrs, parent_attrs: &Attrs, errors: &mut ErrorStore) -> (r: Attrs)
        ensures final(errors).errors@.len() >= old(errors).errors@.len();
    fn validate(&self, attrs: &Attrs, context: AttributeContext, errors: &mut ErrorStore)
        ensures final(errors).errors@.len() >= old(errors).errors@.len();
}
#[derive(Copy, Clone)] pub struct NonOptional;
pub enum SelfType { Opaque(OpaquePath<NonOptional, Borrow>), Struct(StructPath), Enum(EnumPath) }
pub struct ParamSelf { pub ty: SelfType, pub attrs: Attrs }
impl ParamSelf { pub fn new(ty: SelfType, attrs: Attrs) -> (r: Self) ensures r.ty == ty, r.attrs == attrs { Self { ty, attrs } } }
#[verifier::external_body] pub struct ParamLifetimeLowerer<'ast> { x: &'ast u8 }
impl<'ast> LifetimeLowerer for ParamLifetimeLowerer<'ast> {
    #[verifier::external_body] fn lower_lifetime(&mut self, lifetime: &ast::Lifetime) -> MaybeStatic<Lifetime> { unimplemented!() }
    #[verifier::external_body] fn lower_generics(&mut self, lifetimes: &[ast::Lifetime], type_generics: &ast::LifetimeEnv, is_self: bool) -> Lifetimes { unimplemented!() }
}
#[verifier::external_body] pub struct SelfParamLifetimeLowerer<'ast> { x: &'ast u8 }
impl<'ast> SelfParamLifetimeLowerer<'ast> {
    #[verifier::external_body] pub fn lower_self_ref(self, lifetime: &ast::Lifetime) -> (MaybeStatic<Lifetime>, ParamLifetimeLowerer<'ast>) { unimplemented!() }
    #[verifier::external_body] pub fn no_self_ref(self) -> ParamLifetimeLowerer<'ast> { unimplemented!() }
}

// ---- oracle: self parameters. Structs by value only, opaques by reference only, out-structs never, enums by value.
pub open spec fn self_ok(l: &LookupId, sp: ast::SelfParam, in_path: ast::Path, env: Env) -> bool {
    match ast::spec_resolve(sp.path_type, in_path, env) {
        ast::CustomType::Struct(st) => l.is_in_struct(st) && (sp.reference is None),
        ast::CustomType::Opaque(_) => sp.reference is Some,
        ast::CustomType::Enum(_) => true,
    }
}

#[verifier::external_body] pub struct LookupId { x: u8 }
impl LookupId {
    pub uninterp spec fn is_in_struct(&self, strct: ast::Struct) -> bool;
    // assumed LookupId contract: established by LookupId::new from the same Env
    #[verifier::external_body] pub fn resolve_out_struct(&self, strct: &ast::Struct) -> (r: Option<OutStructId>)
        ensures r.is_some() == !self.is_in_struct(*strct) { unimplemented!() }
    #[verifier::external_body] pub fn resolve_struct(&self, strct: &ast::Struct) -> (r: Option<StructId>)
        ensures r.is_some() == self.is_in_struct(*strct) { unimplemented!() }
    #[verifier::external_body] pub fn resolve_opaque(&self, opaque: &ast::OpaqueType) -> (r: Option<OpaqueId>) ensures r.is_some() { unimplemented!() }
    #[verifier::external_body] pub fn resolve_enum(&self, enm: &ast::Enum) -> (r: Option<EnumId>) ensures r.is_some() { unimplemented!() }
    #[verifier::external_body] pub fn resolve_trait(&self, trt: &ast::Trait) -> (r: Option<TraitId>) ensures r.is_some() { unimplemented!() }
}


// FFI-safety of a written type (proved equal to this spec on the real TypeName::is_ffi_safe in unit ffi_safe)
pub open spec fn is_ptr(t: ast::TypeName) -> bool { t is Reference || t is Box }
pub open spec fn spec_ffi_safe(t: ast::TypeName) -> bool {
    match t {
        ast::TypeName::Option(inner, sd) => if is_ptr(*inner) { sd == StdlibOrDiplomat::Stdlib } else { sd == StdlibOrDiplomat::Diplomat },
        ast::TypeName::StrReference(_, _, sd) => sd == StdlibOrDiplomat::Diplomat,
        ast::TypeName::StrSlice(_, sd) => sd == StdlibOrDiplomat::Diplomat,
        ast::TypeName::PrimitiveSlice(_, _, sd) => sd == StdlibOrDiplomat::Diplomat,
        ast::TypeName::Unit | ast::TypeName::Write | ast::TypeName::Result(..) | ast::TypeName::Ordering => false,
        _ => true,
    }
}
#[verifier::external_body] pub fn __is_ffi_safe(t: &ast::TypeName) -> (r: bool) ensures r == spec_ffi_safe(*t) { unimplemented!() }


// ======================= oracle: the documented input-position rules =======================
pub open spec fn is_opaque_path(p: ast::PathType, in_path: ast::Path, env: Env) -> bool {
    ast::spec_resolve(p, in_path, env) is Opaque
}
pub open spec fn named_of(t: ast::TypeName) -> Option<ast::PathType> {
    match t { ast::TypeName::Named(p) => Some(p), ast::TypeName::SelfType(p) => Some(p), _ => None }
}
// ---- oracle: the documented output-position rules (return values, out-struct fields, callback parameters)
pub open spec fn allowed_out(t: ast::TypeName, in_path: ast::Path, env: Env, in_struct: bool, in_result_option: bool) -> bool
    decreases t
{
    match t {
        ast::TypeName::Primitive(_) => true,
        // Ordering is returned as i8, never stored in a struct
        ast::TypeName::Ordering => !in_struct,
        ast::TypeName::Named(p) | ast::TypeName::SelfType(p) => match ast::spec_resolve(p, in_path, env) {
            // structs and out-structs by value; zero-sized only as the payload of a Result/Option
            ast::CustomType::Struct(st) => in_result_option || st.fields@.len() > 0,
            ast::CustomType::Opaque(_) => false,
            ast::CustomType::Enum(_) => true,
        },
        // opaques behind a reference or (outputs only) a Box
        ast::TypeName::Reference(_, _, inner) => match named_of(*inner) { Some(p) => is_opaque_path(p, in_path, env), None => false },
        ast::TypeName::Box(inner) => match named_of(*inner) { Some(p) => is_opaque_path(p, in_path, env), None => false },
        ast::TypeName::Option(inner, sd) => match *inner {
            ast::TypeName::Reference(_, _, r) => match named_of(*r) {
                Some(p) => is_opaque_path(p, in_path, env) && sd == StdlibOrDiplomat::Stdlib, None => false },
            ast::TypeName::Box(b) => match named_of(*b) {
                Some(p) => is_opaque_path(p, in_path, env) && sd == StdlibOrDiplomat::Stdlib, None => false },
            ast::TypeName::Named(p) | ast::TypeName::SelfType(p) =>
                !is_opaque_path(p, in_path, env) && !((in_struct || in_result_option) && sd == StdlibOrDiplomat::Stdlib)
                && allowed_out(*inner, in_path, env, in_struct, true),
            // C10: an Option of a non-pointer payload crosses as {payload, is_ok}.  The macro converts a std `Option<T>` to that
            // encoding only at the top level of a parameter / return type; in a struct field or nested in a Result / Option arm
            // the type is compiled as written, so only the `DiplomatOption<T>` spelling has the declared layout there
            ast::TypeName::Primitive(_) => !((in_struct || in_result_option) && sd == StdlibOrDiplomat::Stdlib),
            _ => false,
        },
        ast::TypeName::Result(..) => false,
        ast::TypeName::Write => false,
        // borrowed slices only; owned slices cannot be returned
        ast::TypeName::StrReference(lt, _, _) => lt is Some,
        ast::TypeName::PrimitiveSlice(lm, _, _) => lm is Some,
        ast::TypeName::StrSlice(..) => false,
        ast::TypeName::Unit => false,
        ast::TypeName::Function(..) => false,
        ast::TypeName::ImplTrait(_) => false,
    }
}

// callback parameters are lowered as outputs (not in a struct, not in a Result/Option)
pub open spec fn cb_param_ok(t: ast::TypeName, in_path: ast::Path, env: Env) -> bool {
    allowed_out(t, in_path, env, false, false)
}

// ---- oracle: return types. Result only at top level; unit arms allowed; Option<pointer> stays a (nullable) pointer
pub open spec fn unit_or_out(t: ast::TypeName, in_path: ast::Path, env: Env) -> bool {
    (t is Unit) || allowed_out(t, in_path, env, false, true)
}
pub open spec fn return_ok(rt: Option<ast::TypeName>, in_path: ast::Path, env: Env) -> bool {
    match rt {
        None => true,
        Some(ast::TypeName::Unit) => true,
        Some(ast::TypeName::Result(ok, err, _)) => unit_or_out(*ok, in_path, env) && unit_or_out(*err, in_path, env),
        Some(ast::TypeName::Option(v, sd)) =>
            if (*v is Box) || (*v is Reference) { allowed_out(ast::TypeName::Option(v, sd), in_path, env, false, true) }
            else { unit_or_out(*v, in_path, env) },
        Some(t) => allowed_out(t, in_path, env, false, false),
    }
}

pub open spec fn all_cb_ok(ts: Seq<Box<ast::TypeName>>, in_path: ast::Path, env: Env) -> bool {
    forall|i: int| 0 <= i < ts.len() ==> cb_param_ok(*#[trigger] ts[i], in_path, env)
}

pub open spec fn allowed_in(l: &LookupId, t: ast::TypeName, in_path: ast::Path, env: Env, in_struct: bool) -> bool
    decreases t
{
    match t {
        ast::TypeName::Primitive(_) => true,
        ast::TypeName::Ordering => false,
        ast::TypeName::Named(p) | ast::TypeName::SelfType(p) => match ast::spec_resolve(p, in_path, env) {
            // by-value struct: not a ZST, not an out-struct
            ast::CustomType::Struct(st) => st.fields@.len() > 0 && l.is_in_struct(st),
            // opaques must be behind a reference
            ast::CustomType::Opaque(_) => false,
            ast::CustomType::Enum(_) => true,
        },
        ast::TypeName::ImplTrait(_) => true,
        // references only to opaques
        ast::TypeName::Reference(_, _, inner) => match named_of(*inner) { Some(p) => is_opaque_path(p, in_path, env), None => false },
        // no owned anything in inputs
        ast::TypeName::Box(_) => false,
        ast::TypeName::Option(inner, sd) => match *inner {
            ast::TypeName::Reference(_, _, r) => match named_of(*r) {
                Some(p) => is_opaque_path(p, in_path, env) && sd == StdlibOrDiplomat::Stdlib,
                None => false },
            ast::TypeName::Named(p) | ast::TypeName::SelfType(p) =>
                !is_opaque_path(p, in_path, env) && !(in_struct && sd == StdlibOrDiplomat::Stdlib)
                && allowed_in(l, *inner, in_path, env, in_struct),
            ast::TypeName::Primitive(_) => !(in_struct && sd == StdlibOrDiplomat::Stdlib),
            ast::TypeName::StrSlice(..) => true,
            ast::TypeName::StrReference(..) | ast::TypeName::PrimitiveSlice(..) => true,
            _ => false,
        },
        ast::TypeName::Result(..) => false,
        ast::TypeName::Write => false,
        ast::TypeName::StrReference(..) => true,
        ast::TypeName::StrSlice(..) => true,
        ast::TypeName::PrimitiveSlice(..) => true,
        // C10: the macro emits a callback's return type as written (the value is produced by foreign code in the declared
        // {payload, is_ok} / pointer encoding), so it must be FFI-safe as written - in particular no std Option of a non-pointer
        ast::TypeName::Function(ins, out, _) => !in_struct && all_cb_ok(ins@, in_path, env)
            && ((*out is Unit) || (spec_ffi_safe(*out) && allowed_in(l, *out, in_path, env, in_struct))),
        ast::TypeName::Unit => false,
    }
}

pub struct LoweringContext<'ast, V: AttributeValidator> {
    pub lookup_id: LookupId,
    pub errors: ErrorStore,
    pub env: &'ast Env,
    pub attr_validator: Box<V>,
    pub cfg: LoweringConfig,
}

impl<'ast, V: AttributeValidator> LoweringContext<'ast, V> {


