pub assume_specification<T: ?Sized, A: core::alloc::Allocator> [<Box<T, A> as core::convert::AsRef<T>>::as_ref] (b: &Box<T, A>) -> (r: &T)
    ensures r == &**b;

#[verifier::external_body]
pub fn __msg() -> String { unimplemented!() }

/*@TOP_ENUMS@*/

pub mod ast {
    use vstd::prelude::*;
    #[verifier::external_body] pub struct Ident { s: String }
    pub use super::Mutability;
    pub use super::StdlibOrDiplomat;
/*@AST_TYPES@*/
    #[verifier::external_body] pub struct LifetimeEnv { x: u8 }
    #[verifier::external_body] pub struct FieldsOpaque { x: u8 }
    pub struct Struct { pub fields: Vec<(Ident, TypeName)>, pub lifetimes: LifetimeEnv, pub name: Ident }
    pub struct OpaqueType { pub lifetimes: LifetimeEnv }
    pub struct Enum { pub name: Ident }
    pub struct Trait { pub lifetimes: LifetimeEnv }
    pub enum CustomType { Struct(Struct), Opaque(OpaqueType), Enum(Enum) }
    #[verifier::external_body] pub struct Env { x: u8 }
    pub uninterp spec fn spec_resolve(p: PathType, in_path: Path, env: Env) -> CustomType;
    impl PathType {
        #[verifier::external_body]
        pub fn resolve<'a>(&self, in_path: &Path, env: &'a Env) -> (r: &'a CustomType)
            ensures *r == spec_resolve(*self, *in_path, *env)
        { unimplemented!() }
        #[verifier::external_body]
        pub fn resolve_trait<'a>(&self, in_path: &Path, env: &'a Env) -> Trait { unimplemented!() }
    }
}
use ast::Env;

pub enum LoweringError { Other(String) }
pub struct ErrorStore { pub errors: Vec<LoweringError> }
impl ErrorStore {
    pub fn push(&mut self, error: LoweringError)
        ensures final(self).errors@.len() == old(self).errors@.len() + 1
    { self.errors.push(error); }
}

#[derive(Copy, Clone)] pub struct Lifetime(pub usize);
#[derive(Copy, Clone)] pub enum MaybeStatic<T> { Static, NonStatic(T) }
pub struct Lifetimes { pub indices: Vec<MaybeStatic<Lifetime>> }
#[derive(Copy, Clone)] pub struct Borrow { pub lifetime: MaybeStatic<Lifetime>, pub mutability: Mutability }
impl Borrow { pub fn new(lifetime: MaybeStatic<Lifetime>, mutability: Mutability) -> (r: Self) ensures r.lifetime == lifetime, r.mutability == mutability { Self { lifetime, mutability } } }
#[derive(Copy, Clone)] pub struct StructId(pub usize);
#[derive(Copy, Clone)] pub struct OutStructId(pub usize);
#[derive(Copy, Clone)] pub struct OpaqueId(pub usize);
#[derive(Copy, Clone)] pub struct EnumId(pub usize);
#[derive(Copy, Clone)] pub struct TraitId(pub usize);
#[derive(Copy, Clone)] pub struct Optional(pub bool);
pub struct StructPath { pub lifetimes: Lifetimes, pub tcx_id: StructId }
impl StructPath { pub fn new(lifetimes: Lifetimes, tcx_id: StructId) -> (r: Self) ensures r.lifetimes == lifetimes, r.tcx_id == tcx_id { Self { lifetimes, tcx_id } } }
pub struct TraitPath { pub lifetimes: Lifetimes, pub tcx_id: TraitId }
impl TraitPath { pub fn new(lifetimes: Lifetimes, tcx_id: TraitId) -> (r: Self) ensures r.lifetimes == lifetimes, r.tcx_id == tcx_id { Self { lifetimes, tcx_id } } }
pub struct EnumPath { pub tcx_id: EnumId }
impl EnumPath { pub fn new(tcx_id: EnumId) -> (r: Self) ensures r.tcx_id == tcx_id { Self { tcx_id } } }
pub struct OpaquePath<Opt, Owner> { pub lifetimes: Lifetimes, pub optional: Opt, pub owner: Owner, pub tcx_id: OpaqueId }
impl<Opt, Owner> OpaquePath<Opt, Owner> {
    pub fn new(lifetimes: Lifetimes, optional: Opt, owner: Owner, tcx_id: OpaqueId) -> (r: Self) ensures r.lifetimes == lifetimes, r.optional == optional, r.owner == owner, r.tcx_id == tcx_id { Self { lifetimes, optional, owner, tcx_id } }
}
pub use ast::StringEncoding;
#[derive(Copy, Clone)] pub enum IntType { I8, I16, I32, I64, U8, U16, U32, U64 }
#[derive(Copy, Clone)] pub enum PrimitiveType { Bool, Char, Byte, Int(IntType), Other }
impl PrimitiveType {
    #[verifier::external_body]
    pub fn from_ast(prim: ast::PrimitiveType) -> Self { unimplemented!() }
}
#[derive(Copy, Clone)]
pub enum Slice { Str(Option<MaybeStatic<Lifetime>>, StringEncoding), Primitive(Option<Borrow>, PrimitiveType), Strs(StringEncoding) }

pub struct CallbackParam { pub ty: Type<OutputOnly> }
pub struct Callback { pub param_self: Option<u8>, pub params: Vec<CallbackParam>, pub output: Box<Option<Type<Everywhere>>>, pub name: Option<u8>, pub attrs: Option<u8>, pub docs: Option<u8> }

pub trait TyPosition: Sized {
    type OpaqueOwnership;
    type StructPath;
    type TraitPath;
    type CallbackInstantiation;
    fn build_callback(cb: Callback) -> Self::CallbackInstantiation;
    fn build_trait_path(trait_path: TraitPath) -> Self::TraitPath;
}
pub struct Everywhere;
pub struct OutputOnly;
#[verifier::external_body] pub struct Never { x: u8 }
impl TyPosition for Everywhere {
    type OpaqueOwnership = Borrow; type StructPath = StructPath; type TraitPath = Never; type CallbackInstantiation = Never;
    #[verifier::external_body] fn build_callback(cb: Callback) -> Never { unimplemented!() }
    #[verifier::external_body] fn build_trait_path(t: TraitPath) -> Never { unimplemented!() }
}
impl TyPosition for OutputOnly {
    type OpaqueOwnership = Borrow; type StructPath = StructPath; type TraitPath = Never; type CallbackInstantiation = Never;
    #[verifier::external_body] fn build_callback(cb: Callback) -> Never { unimplemented!() }
    #[verifier::external_body] fn build_trait_path(t: TraitPath) -> Never { unimplemented!() }
}

pub enum Type<P: TyPosition> {
    Primitive(PrimitiveType),
    Opaque(OpaquePath<Optional, P::OpaqueOwnership>),
    Struct(P::StructPath),
    ImplTrait(P::TraitPath),
    Enum(EnumPath),
    Slice(Slice),
    Callback(P::CallbackInstantiation),
    DiplomatOption(Box<Type<P>>),
}

pub trait LifetimeLowerer {
    fn lower_lifetime(&mut self, lifetime: &ast::Lifetime) -> MaybeStatic<Lifetime>;
    fn lower_generics(&mut self, lifetimes: &[ast::Lifetime], type_generics: &ast::LifetimeEnv, is_self: bool) -> Lifetimes;
}

#[derive(Copy, Clone)]
pub struct BackendAttrSupport { pub option: bool, pub callbacks: bool, pub traits: bool, pub static_slices: bool }
pub trait AttributeValidator {
    spec fn attrs_supported_spec(&self) -> BackendAttrSupport;
    fn attrs_supported(&self) -> (r: BackendAttrSupport) ensures r == self.attrs_supported_spec();
}

#[verifier::external_body] pub struct LookupId { x: u8 }
impl LookupId {
    pub uninterp spec fn is_in_struct(&self, strct: ast::Struct) -> bool;
    // assumed LookupId contract: established by LookupId::new from the same Env
    #[verifier::external_body] pub fn resolve_out_struct(&self, strct: &ast::Struct) -> (r: Option<OutStructId>)
        ensures r.is_some() == !self.is_in_struct(*strct) { unimplemented!() }
    #[verifier::external_body] pub fn resolve_struct(&self, strct: &ast::Struct) -> (r: Option<StructId>)
        ensures r.is_some() == self.is_in_struct(*strct) { unimplemented!() }
    #[verifier::external_body] pub fn resolve_opaque(&self, opaque: &ast::OpaqueType) -> (r: Option<OpaqueId>) ensures r.is_some() { unimplemented!() }
    #[verifier::external_body] pub fn resolve_enum(&self, enm: &ast::Enum) -> (r: Option<EnumId>) ensures r.is_some() { unimplemented!() }
    #[verifier::external_body] pub fn resolve_trait(&self, trt: &ast::Trait) -> (r: Option<TraitId>) ensures r.is_some() { unimplemented!() }
}


// ======================= oracle: the documented input-position rules =======================
pub open spec fn is_opaque_path(p: ast::PathType, in_path: ast::Path, env: Env) -> bool {
    ast::spec_resolve(p, in_path, env) is Opaque
}
pub open spec fn named_of(t: ast::TypeName) -> Option<ast::PathType> {
    match t { ast::TypeName::Named(p) => Some(p), ast::TypeName::SelfType(p) => Some(p), _ => None }
}
pub uninterp spec fn cb_param_ok(t: ast::TypeName, in_path: ast::Path, env: Env) -> bool;

pub open spec fn all_cb_ok(ts: Seq<Box<ast::TypeName>>, in_path: ast::Path, env: Env) -> bool {
    forall|i: int| 0 <= i < ts.len() ==> cb_param_ok(*#[trigger] ts[i], in_path, env)
}

pub open spec fn allowed_in(l: &LookupId, t: ast::TypeName, in_path: ast::Path, env: Env, in_struct: bool) -> bool
    decreases t
{
    match t {
        ast::TypeName::Primitive(_) => true,
        ast::TypeName::Ordering => false,
        ast::TypeName::Named(p) | ast::TypeName::SelfType(p) => match ast::spec_resolve(p, in_path, env) {
            // by-value struct: not a ZST, not an out-struct
            ast::CustomType::Struct(st) => st.fields@.len() > 0 && l.is_in_struct(st),
            // opaques must be behind a reference
            ast::CustomType::Opaque(_) => false,
            ast::CustomType::Enum(_) => true,
        },
        ast::TypeName::ImplTrait(_) => true,
        // references only to opaques
        ast::TypeName::Reference(_, _, inner) => match named_of(*inner) { Some(p) => is_opaque_path(p, in_path, env), None => false },
        // no owned anything in inputs
        ast::TypeName::Box(_) => false,
        ast::TypeName::Option(inner, sd) => match *inner {
            ast::TypeName::Reference(_, _, r) => match named_of(*r) {
                Some(p) => is_opaque_path(p, in_path, env) && sd == StdlibOrDiplomat::Stdlib,
                None => false },
            ast::TypeName::Named(p) | ast::TypeName::SelfType(p) =>
                !is_opaque_path(p, in_path, env) && !(in_struct && sd == StdlibOrDiplomat::Stdlib)
                && allowed_in(l, *inner, in_path, env, in_struct),
            ast::TypeName::Primitive(_) => !(in_struct && sd == StdlibOrDiplomat::Stdlib),
            ast::TypeName::StrSlice(..) => true,
            ast::TypeName::StrReference(..) | ast::TypeName::PrimitiveSlice(..) => true,
            _ => false,
        },
        ast::TypeName::Result(..) => false,
        ast::TypeName::Write => false,
        ast::TypeName::StrReference(..) => true,
        ast::TypeName::StrSlice(..) => true,
        ast::TypeName::PrimitiveSlice(..) => true,
        ast::TypeName::Function(ins, out, _) => !in_struct && all_cb_ok(ins@, in_path, env)
            && ((*out is Unit) || allowed_in(l, *out, in_path, env, in_struct)),
        ast::TypeName::Unit => false,
    }
}

pub struct LoweringContext<'ast, V: AttributeValidator> {
    pub lookup_id: LookupId,
    pub errors: ErrorStore,
    pub env: &'ast Env,
    pub attr_validator: Box<V>,
}

impl<'ast, V: AttributeValidator> LoweringContext<'ast, V> {
    #[verifier::external_body]
    fn lower_callback_param(&mut self, name: Option<u8>, ty: &ast::TypeName, ltl: &mut impl LifetimeLowerer, in_path: &ast::Path) -> (res: Result<CallbackParam, ()>)
        ensures res.is_ok() == cb_param_ok(*ty, *in_path, *old(self).env),
            final(self).env == old(self).env, final(self).lookup_id == old(self).lookup_id,
            final(self).attr_validator == old(self).attr_validator,
            final(self).errors.errors@.len() >= old(self).errors.errors@.len(),
            res.is_err() ==> final(self).errors.errors@.len() > old(self).errors.errors@.len(),
    { unimplemented!() }

