global size_of usize == 8;
/*@LIFETIME_TYPES@*/
#[verifier::external_body] pub struct LifetimeEnv { x: u8 }
#[verifier::external_body] pub struct TypeContext { x: u8 }
#[verifier::external_body] #[verifier::reject_recursive_types(T)] pub struct BTreeSet<T> { x: Vec<T> }
impl<T> BTreeSet<T> {
    pub uninterp spec fn view(&self) -> Set<T>;
    #[verifier::external_body] pub fn contains(&self, v: &T) -> (b: bool) ensures b == self@.contains(*v) { unimplemented!() }
    #[verifier::external_body] pub fn is_empty(&self) -> (b: bool) ensures b == (self@ =~= Set::<T>::empty()) { unimplemented!() }
}
pub struct MapEntry<K, V> { pub k: K, pub v: V }
pub struct EntryMap<K, V> { pub entries: Vec<MapEntry<K, V>> }
// BTreeMap<Lifetime, BTreeSet<Lifetime>> as the set of (key, member) pairs
#[verifier::external_body] pub struct PairMap { x: u8 }
impl PairMap {
    pub uninterp spec fn view(&self) -> Set<(Lifetime, Lifetime)>;
    #[verifier::external_body] pub fn new() -> (r: Self) ensures r@ == Set::<(Lifetime, Lifetime)>::empty() { unimplemented!() }
    #[verifier::external_body] pub fn add_pair(&mut self, k: Lifetime, v: Lifetime) ensures final(self)@ == old(self)@.insert((k, v)) { unimplemented!() }
    #[verifier::external_body] pub fn is_empty(&self) -> (b: bool) ensures b == (self@ =~= Set::<(Lifetime, Lifetime)>::empty()) { unimplemented!() }
}

/*@EDGE_TYPES@*/

#[verifier::external_body] pub struct StructPath { x: u8 }
#[verifier::external_body] pub struct SliceT { x: u8 }
#[verifier::external_body] pub struct OpaqueT { x: u8 }
pub enum Type { Slice(SliceT), Opaque(OpaqueT), Struct(StructPath), DiplomatOption(Box<Type>), Other(u8) }
pub mod hir { pub use super::Type; }
pub uninterp spec fn lts_of(t: &Type) -> Seq<MaybeStatic<Lifetime>>;
pub uninterp spec fn spec_is_option(t: &Type) -> bool;
impl Type {
    #[verifier::external_body] pub fn lifetimes(&self) -> (r: Vec<MaybeStatic<Lifetime>>) ensures r@ == lts_of(self) { unimplemented!() }
    #[verifier::external_body] pub fn is_option(&self) -> (r: bool) ensures r == spec_is_option(self) { unimplemented!() }
}
pub struct LinkedLifetimes<'tcx> { pub env: &'tcx LifetimeEnv, pub pairs: Ghost<Seq<(MaybeStatic<Lifetime>, Lifetime)>> }
pub uninterp spec fn link_of<'tcx>(s: &StructPath, tcx: &'tcx TypeContext) -> LinkedLifetimes<'tcx>;
impl StructPath {
    #[verifier::external_body] pub fn link_lifetimes<'tcx>(&self, tcx: &'tcx TypeContext) -> (r: LinkedLifetimes<'tcx>) ensures r == link_of(self, tcx) { unimplemented!() }
}
// ---- collaborators of the `let borrow_map = ..` statement of BorrowingParamVisitor::new
// the iterator returned by LifetimeEnv::all_longer_lifetimes / all_shorter_lifetimes: direction flag and start node are what unit
// hir_transitivity proves about the two wrappers; collecting it yields the closure (driver theorem collect_all there)
pub struct LtIter<'env> { pub env: &'env LifetimeEnv, pub longer: bool, pub start: Lifetime }
pub uninterp spec fn closure_set(env: &LifetimeEnv, longer: bool, start: Lifetime) -> Set<Lifetime>;
impl LifetimeEnv {
    #[verifier::external_body] pub fn all_longer_lifetimes<'a>(&'a self, lt: &Lifetime) -> (r: LtIter<'a>) ensures r.env == self, r.longer, r.start == *lt { unimplemented!() }
    #[verifier::external_body] pub fn all_shorter_lifetimes<'a>(&'a self, lt: &Lifetime) -> (r: LtIter<'a>) ensures r.env == self, !r.longer, r.start == *lt { unimplemented!() }
}
impl<'env> LtIter<'env> {
    // E7: Iterator::collect::<BTreeSet<Lifetime>>()
    #[verifier::external_body] pub fn collect(self) -> (r: BTreeSet<Lifetime>) ensures r@ == closure_set(self.env, self.longer, self.start) { unimplemented!() }
}
impl BTreeSet<Lifetime> {
    // E7: BTreeSet::iter() yields the members in ascending order, each once
    #[verifier::external_body] pub fn members(&self) -> (r: Vec<Lifetime>)
        ensures forall|l: Lifetime| self@.contains(l) <==> exists|i: int| 0 <= i < r@.len() && #[trigger] r@[i] == l, forall|i: int, j: int| 0 <= i < j < r@.len() ==> r@[i].0 < r@[j].0 { unimplemented!() }
}
impl<K, V> EntryMap<K, V> { pub fn new() -> (r: Self) ensures r.entries@.len() == 0 { EntryMap { entries: Vec::new() } } }
pub struct MethodStub { pub lifetime_env: LifetimeEnv }

// ---- collaborators of StructBorrowInfo::compute_for_struct_field
#[verifier::external_body] pub struct Lifetimes { x: u8 }
pub uninterp spec fn path_lts(s: &StructPath) -> Seq<MaybeStatic<Lifetime>>;
impl Lifetimes {
    pub uninterp spec fn view(&self) -> Seq<MaybeStatic<Lifetime>>;
    #[verifier::external_body] pub fn as_slice(&self) -> (r: &[MaybeStatic<Lifetime>]) ensures r@ == self@ { unimplemented!() }
}
impl StructPath {
    #[verifier::external_body] pub fn lifetimes(&self) -> (r: &Lifetimes) ensures r@ == path_lts(self) { unimplemented!() }
}
// the lifetime env of the enclosing struct definition: all_lifetimes() yields Lifetime(0) .. Lifetime(n-1)
pub struct DefLifetimeEnv { pub num_lifetimes: usize }
impl DefLifetimeEnv {
    #[verifier::external_body] pub fn all_lifetimes(&self) -> (r: Vec<Lifetime>)
        ensures r@.len() == self.num_lifetimes, forall|i: int| 0 <= i < r@.len() ==> r@[i] == Lifetime(i as usize) { unimplemented!() }
}
pub struct StructDef { pub lifetimes: DefLifetimeEnv }
pub open spec fn want_field_pair(pairs: Pairs, n_outer: int, n_inner: int, d: Lifetime, m: Lifetime) -> bool {
    0 <= m.0 < n_outer && exists|j: int| #![trigger pairs[j]] 0 <= j < n_inner && j < pairs.len() && pairs[j].1 == d && pairs[j].0 == MaybeStatic::NonStatic(m)
}
impl<'tcx> LinkedLifetimes<'tcx> {
    #[verifier::external_body] pub fn lifetimes_def_only(&self) -> (r: Vec<(MaybeStatic<Lifetime>, Lifetime)>) ensures r@ == self.pairs@ { unimplemented!() }
    pub fn def_env(&self) -> (r: &'tcx LifetimeEnv) ensures r == self.env { self.env }
}
#[verifier::external_body] pub fn __name(s: &str) -> (r: String) ensures r@ == s@ { unimplemented!() }

// ---------------- oracle
pub open spec fn mentions_upto(s: Seq<MaybeStatic<Lifetime>>, n: int, set: Set<Lifetime>) -> bool {
    exists|i: int| #![trigger s[i]] 0 <= i < n && i < s.len() && (s[i] matches MaybeStatic::NonStatic(l) && set.contains(l))
}
pub open spec fn mentions(s: Seq<MaybeStatic<Lifetime>>, set: Set<Lifetime>) -> bool { mentions_upto(s, s.len() as int, set) }


pub type Pairs = Seq<(MaybeStatic<Lifetime>, Lifetime)>;
pub open spec fn psel(pairs: Pairs, j: int, set: Set<Lifetime>) -> bool {
    0 <= j < pairs.len() && (pairs[j].0 matches MaybeStatic::NonStatic(u) && set.contains(u))
}
pub open spec fn pmentions_upto(pairs: Pairs, n: int, set: Set<Lifetime>) -> bool { exists|j: int| #![trigger pairs[j]] j < n && psel(pairs, j, set) }
pub open spec fn pmentions(pairs: Pairs, set: Set<Lifetime>) -> bool { pmentions_upto(pairs, pairs.len() as int, set) }
// the def-site slots of a struct parameter that flow into an output lifetime, in declaration order
pub open spec fn slots_upto(pairs: Pairs, n: int, set: Set<Lifetime>) -> Seq<Lifetime>
    decreases n
{
    if n <= 0 { Seq::<Lifetime>::empty() } else {
        let prev = slots_upto(pairs, n - 1, set);
        if psel(pairs, n - 1, set) { prev.push(pairs[n - 1].1) } else { prev }
    }
}
pub open spec fn is_ext<'tcx>(new: Seq<LifetimeEdge<'tcx>>, old: Seq<LifetimeEdge<'tcx>>, slots: Seq<Lifetime>, name: Seq<char>, env: &'tcx LifetimeEnv, opt: bool) -> bool {
    new.len() == old.len() + slots.len()
    && (forall|k: int| 0 <= k < old.len() ==> new[k] == old[k])
    && (forall|k: int| #![trigger slots[k]] 0 <= k < slots.len() ==> new[old.len() + k].param_name@ == name && new[old.len() + k].kind == LifetimeEdgeKind::StructLifetime(env, slots[k], opt))
}
pub open spec fn one_edge<'tcx>(new: Seq<LifetimeEdge<'tcx>>, old: Seq<LifetimeEdge<'tcx>>, name: Seq<char>, ty: Type) -> bool {
    new.len() == old.len() + 1
    && (forall|k: int| 0 <= k < old.len() ==> new[k] == old[k])
    && new[old.len() as int].param_name@ == name
    && ((ty is Slice) ==> new[old.len() as int].kind is SliceParam)
    && ((ty is Opaque) ==> new[old.len() as int].kind is OpaqueParam)
}
pub type Entries<'tcx> = Seq<MapEntry<Lifetime, BorrowedLifetimeInfo<'tcx>>>;
pub open spec fn frame<'tcx>(n: Entries<'tcx>, o: Entries<'tcx>, i: int) -> bool { n[i].k == o[i].k && n[i].v.all_longer_lifetimes == o[i].v.all_longer_lifetimes }
pub open spec fn any_entry<'tcx>(o: Entries<'tcx>, n: int, lts: Seq<MaybeStatic<Lifetime>>) -> bool {
    exists|i: int| #![trigger o[i]] 0 <= i < n && i < o.len() && mentions(lts, o[i].v.all_longer_lifetimes@)
}
pub open spec fn any_entry_p<'tcx>(o: Entries<'tcx>, n: int, pairs: Pairs) -> bool {
    exists|i: int| #![trigger o[i]] 0 <= i < n && i < o.len() && pmentions(pairs, o[i].v.all_longer_lifetimes@)
}
pub open spec fn want_inner(pairs: Pairs, n: int, set: Set<Lifetime>, d: Lifetime) -> bool {
    exists|j: int| #![trigger pairs[j]] j < n && psel(pairs, j, set) && pairs[j].1 == d
}
pub open spec fn want_pairs<'tcx>(o: Entries<'tcx>, ni: int, pairs: Pairs, d: Lifetime, m: Lifetime) -> bool {
    exists|i: int, j: int| #![trigger o[i], pairs[j]] 0 <= i < ni && i < o.len() && o[i].k == m && psel(pairs, j, o[i].v.all_longer_lifetimes@) && pairs[j].1 == d
}

pub proof fn lemma_want_inner_step(pairs: Pairs, n: int, set: Set<Lifetime>, d: Lifetime)
    requires 0 <= n < pairs.len()
    ensures want_inner(pairs, n + 1, set, d) == (want_inner(pairs, n, set, d) || (psel(pairs, n, set) && pairs[n].1 == d))
{
    if want_inner(pairs, n + 1, set, d) {
        let j = choose|j: int| #![trigger pairs[j]] j < n + 1 && psel(pairs, j, set) && pairs[j].1 == d;
        if j < n { assert(want_inner(pairs, n, set, d)); }
    }
    if want_inner(pairs, n, set, d) {
        let j = choose|j: int| #![trigger pairs[j]] j < n && psel(pairs, j, set) && pairs[j].1 == d;
        assert(j < n + 1 && psel(pairs, j, set) && pairs[j].1 == d);
    }
    if psel(pairs, n, set) && pairs[n].1 == d { assert(n < n + 1 && psel(pairs, n, set) && pairs[n].1 == d); }
}
pub proof fn lemma_want_pairs_step<'tcx>(o: Entries<'tcx>, i: int, pairs: Pairs, d: Lifetime, m: Lifetime)
    requires 0 <= i < o.len()
    ensures want_pairs(o, i + 1, pairs, d, m) == (want_pairs(o, i, pairs, d, m) || (o[i].k == m && want_inner(pairs, pairs.len() as int, o[i].v.all_longer_lifetimes@, d)))
{
    if want_pairs(o, i + 1, pairs, d, m) {
        let (a, j) = choose|a: int, j: int| #![trigger o[a], pairs[j]] 0 <= a < i + 1 && a < o.len() && o[a].k == m && psel(pairs, j, o[a].v.all_longer_lifetimes@) && pairs[j].1 == d;
        if a < i { assert(want_pairs(o, i, pairs, d, m)); } else { assert(j < pairs.len() && psel(pairs, j, o[i].v.all_longer_lifetimes@) && pairs[j].1 == d); }
    }
    if want_pairs(o, i, pairs, d, m) {
        let (a, j) = choose|a: int, j: int| #![trigger o[a], pairs[j]] 0 <= a < i && a < o.len() && o[a].k == m && psel(pairs, j, o[a].v.all_longer_lifetimes@) && pairs[j].1 == d;
        assert(0 <= a < i + 1 && a < o.len() && o[a].k == m && psel(pairs, j, o[a].v.all_longer_lifetimes@) && pairs[j].1 == d);
    }
    if o[i].k == m && want_inner(pairs, pairs.len() as int, o[i].v.all_longer_lifetimes@, d) {
        let j = choose|j: int| #![trigger pairs[j]] j < pairs.len() && psel(pairs, j, o[i].v.all_longer_lifetimes@) && pairs[j].1 == d;
        assert(0 <= i < i + 1 && i < o.len() && o[i].k == m && psel(pairs, j, o[i].v.all_longer_lifetimes@) && pairs[j].1 == d);
    }
}

