global size_of usize == 8;
/*@LIFETIME_TYPES@*/
#[verifier::external_body] pub struct IdentBuf { x: u8 }
/*@ENV_TYPES@*/
#[verifier::external_body] pub struct CowStr { x: u8 }
impl LifetimeEnv {
/*@GET_BOUNDS@*/
    #[verifier::external_body] pub fn all_lifetimes_vec(&self) -> (r: Vec<Lifetime>)
        ensures r@.len() == self.num_lifetimes, forall|i: int| 0 <= i < r@.len() ==> r@[i] == Lifetime(i as usize) { unimplemented!() }
    #[verifier::external_body] pub fn fmt_lifetime<B>(&self, lt: B) -> CowStr { unimplemented!() }
}
pub struct ErrorStore { pub errors: Vec<LoweringError> }
pub enum LoweringError { Other(String) }
impl ErrorStore { pub fn push(&mut self, e: LoweringError) ensures final(self).errors@ == old(self).errors@.push(e) { self.errors.push(e); } }
#[verifier::external_body] pub fn __msg() -> String { unimplemented!() }
pub enum Param<'a> { Input(&'a str), Return }
#[verifier::external_body] pub struct TypeContext { x: u8 }
// hir::Method / ParamSelf / Param / SelfType with the fields the validation driver reads
pub enum SelfType { Opaque(OpaquePath), Struct(StructPath), Enum(u8) }
impl Clone for SelfType { #[verifier::external_body] fn clone(&self) -> (r: Self) ensures r == *self { unimplemented!() } }
pub open spec fn self_as_type(s: SelfType) -> Type {
    match s { SelfType::Opaque(o) => Type::Opaque(o), SelfType::Struct(p) => Type::Struct(p), SelfType::Enum(e) => Type::Other(e) }
}
// hir: `impl From<SelfType> for Type` (Opaque(o) => Type::Opaque(o.wrap_optional()), Struct(s) => Type::Struct(s), Enum(e) => Type::Enum(e))
impl From<SelfType> for Type { #[verifier::external_body] fn from(s: SelfType) -> (r: Type) ensures r == self_as_type(s) { unimplemented!() } }
pub struct ParamSelf { pub ty: SelfType }
pub struct HirParam { pub name: IdentBuf, pub ty: Type }
impl IdentBuf { #[verifier::external_body] pub fn as_str(&self) -> &str { unimplemented!() } }
pub struct Method { pub lifetime_env: LifetimeEnv, pub param_self: Option<ParamSelf>, pub params: Vec<HirParam> }
pub struct LinkedLifetimes<'tcx> { pub env: &'tcx LifetimeEnv, pub all: Ghost<Seq<(MaybeStatic<Lifetime>, Option<Lifetime>)>>, pub uses: Ghost<Seq<MaybeStatic<Lifetime>>> }
impl<'tcx> LinkedLifetimes<'tcx> {
    #[verifier::external_body] pub fn lifetimes_all(&self) -> (r: Vec<(MaybeStatic<Lifetime>, Option<Lifetime>)>) ensures r@ == self.all@ { unimplemented!() }
    pub fn def_env(&self) -> (r: &'tcx LifetimeEnv) ensures r == self.env { self.env }
    // hir: `*self.lifetimes.as_slice().get(def_lt.0).expect(..)`: total only for def lifetimes in range
    #[verifier::external_body] pub fn def_to_use(&self, def_lt: Lifetime) -> (r: MaybeStatic<Lifetime>)
        requires def_lt.0 < self.uses@.len() ensures r == self.uses@[def_lt.0 as int] { unimplemented!() }
}
#[verifier::external_body] pub struct OpaquePath { x: u8 }
#[verifier::external_body] pub struct StructPath { x: u8 }
pub uninterp spec fn link_o<'tcx>(p: &OpaquePath, tcx: &'tcx TypeContext) -> LinkedLifetimes<'tcx>;
pub uninterp spec fn link_s<'tcx>(p: &StructPath, tcx: &'tcx TypeContext) -> LinkedLifetimes<'tcx>;
impl OpaquePath { #[verifier::external_body] pub fn link_lifetimes<'tcx>(&self, tcx: &'tcx TypeContext) -> (r: LinkedLifetimes<'tcx>) ensures r == link_o(self, tcx) { unimplemented!() } }
impl StructPath { #[verifier::external_body] pub fn link_lifetimes<'tcx>(&self, tcx: &'tcx TypeContext) -> (r: LinkedLifetimes<'tcx>) ensures r == link_s(self, tcx) { unimplemented!() } }
pub enum Type { Opaque(OpaquePath), Struct(StructPath), DiplomatOption(Box<Type>), Other(u8) }
pub mod hir { pub use super::Type; pub use super::Method; }
pub fn __contains(v: &Vec<Lifetime>, x: &Lifetime) -> (r: bool) ensures r == v@.contains(*x)
{
    let mut i = 0;
    while i < v.len() invariant i <= v@.len(), forall|j: int| 0 <= j < i ==> v@[j] != *x decreases v@.len() - i
    { if v[i] == *x { return true; } i += 1; }
    false
}

// ---------------- oracle (C04 mechanism: def-site bounds must be restated on the method)
pub type LL<'tcx> = LinkedLifetimes<'tcx>;
// the def-site lifetimes that must outlive def slot `def_o` (for the self lifetime of `&'c Foo<..>`: every def lifetime)
pub open spec fn def_longer_seq(linked: LL, def_o: Option<Lifetime>) -> Option<Seq<Lifetime>> {
    match def_o {
        Some(d) => if d.0 < linked.env.nodes@.len() { Some(linked.env.nodes@[d.0 as int].longer@) } else { None },
        None => Some(Seq::new(linked.env.num_lifetimes as nat, |i: int| Lifetime(i as usize))),
    }
}
// pair (oi, ii): use-site lifetime u = all[oi].0 is a named method lifetime; the def site says def_longer[ii] outlives its slot;
// the corresponding use-site lifetime c is a different non-static lifetime and the method does NOT declare c: u  => an error is due
pub open spec fn viol(linked: LL, menv: &LifetimeEnv, oi: int, ii: int) -> bool {
    0 <= oi < linked.all@.len() && {
        let use_m = linked.all@[oi].0; let def_o = linked.all@[oi].1;
        (use_m matches MaybeStatic::NonStatic(u) && u.0 < menv.nodes@.len() && {
            let dl = def_longer_seq(linked, def_o);
            (dl matches Some(s) && 0 <= ii < s.len() && s[ii].0 < linked.uses@.len() && {
                let c = linked.uses@[s[ii].0 as int];
                (c matches MaybeStatic::NonStatic(cu) && cu != u && !menv.nodes@[u.0 as int].longer@.contains(cu))
            })
        })
    }
}
pub open spec fn any_viol(linked: LL, menv: &LifetimeEnv, n_o: int, last_n_i: int) -> bool {
    exists|oi: int, ii: int| #![trigger viol(linked, menv, oi, ii)] viol(linked, menv, oi, ii) && (oi < n_o || (oi == n_o && ii < last_n_i))
}
// every def-site lifetime mentioned by the def env has a use-site counterpart (LinkedLifetimes::new: one use lifetime per def lifetime)
pub open spec fn linked_wf(linked: LL) -> bool {
    linked.env.num_lifetimes <= linked.uses@.len()
    && forall|d: int, k: int| 0 <= d < linked.env.nodes@.len() && 0 <= k < linked.env.nodes@[d].longer@.len() ==> (#[trigger] linked.env.nodes@[d].longer@[k]).0 < linked.uses@.len()
}
// the named type a (parameter / return) type USES: the property speaks of "every lifetime bound implied by a used type", and an optional
// struct or opaque uses that type just as the bare spelling does (DiplomatOption<Foo<'x,'y>> is well-formed only if Foo<'x,'y> is)
pub open spec fn link_of_ty<'tcx>(t: &Type, tcx: &'tcx TypeContext) -> Option<LL<'tcx>> decreases t {
    match t { Type::Opaque(p) => Some(link_o(p, tcx)), Type::Struct(p) => Some(link_s(p, tcx)), Type::DiplomatOption(inner) => link_of_ty(&**inner, tcx), _ => None }
}
pub proof fn lemma_any_viol_next_inner(linked: LL, menv: &LifetimeEnv, oi: int, ii: int)
    ensures any_viol(linked, menv, oi, ii + 1) == (any_viol(linked, menv, oi, ii) || viol(linked, menv, oi, ii))
{
    if any_viol(linked, menv, oi, ii + 1) {
        let (a, b) = choose|a: int, b: int| #![trigger viol(linked, menv, a, b)] viol(linked, menv, a, b) && (a < oi || (a == oi && b < ii + 1));
        if !(a == oi && b == ii) { assert(viol(linked, menv, a, b) && (a < oi || (a == oi && b < ii))); }
    }
    if any_viol(linked, menv, oi, ii) {
        let (a, b) = choose|a: int, b: int| #![trigger viol(linked, menv, a, b)] viol(linked, menv, a, b) && (a < oi || (a == oi && b < ii));
        assert(viol(linked, menv, a, b) && (a < oi || (a == oi && b < ii + 1)));
    }
    if viol(linked, menv, oi, ii) { assert(viol(linked, menv, oi, ii) && (oi < oi || (oi == oi && ii < ii + 1))); }
}
// moving to the next outer index: once every pair (oi, ii) that can be a violation has ii < n, the pairs before (oi + 1, 0) are those before (oi, n)
pub proof fn lemma_any_viol_next_outer(linked: LL, menv: &LifetimeEnv, oi: int, n: int)
    requires forall|ii: int| #![trigger viol(linked, menv, oi, ii)] viol(linked, menv, oi, ii) ==> ii < n
    ensures any_viol(linked, menv, oi + 1, 0) == any_viol(linked, menv, oi, n)
{
    if any_viol(linked, menv, oi + 1, 0) {
        let (a, b) = choose|a: int, b: int| #![trigger viol(linked, menv, a, b)] viol(linked, menv, a, b) && (a < oi + 1 || (a == oi + 1 && b < 0));
        assert(viol(linked, menv, a, b) && (a < oi || (a == oi && b < n)));
    }
    if any_viol(linked, menv, oi, n) {
        let (a, b) = choose|a: int, b: int| #![trigger viol(linked, menv, a, b)] viol(linked, menv, a, b) && (a < oi || (a == oi && b < n));
        assert(viol(linked, menv, a, b) && (a < oi + 1 || (a == oi + 1 && b < 0)));
    }
}
// validate_ty_in_method(ty) reports an error  <=>  ty_viol(ty)
pub open spec fn ty_viol(tcx: &TypeContext, t: &Type, method: &Method) -> bool {
    link_of_ty(t, tcx) matches Some(l) && any_viol(l, &method.lifetime_env, l.all@.len() as int, 0)
}
pub open spec fn ty_wf(tcx: &TypeContext, t: &Type) -> bool { link_of_ty(t, tcx) matches Some(l) ==> linked_wf(l) }
pub open spec fn params_viol_upto(tcx: &TypeContext, method: &Method, n: int) -> bool {
    exists|i: int| #![trigger method.params@[i]] 0 <= i < n && i < method.params@.len() && ty_viol(tcx, &method.params@[i].ty, method)
}
