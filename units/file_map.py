"""V file_map: tool/src/lib.rs FileMap::add_file (verbatim) — every backend stores each generated file through it, under a name derived from the
(possibly renamed) type name.  It panics when the name is already present.  Nothing upstream makes the names unique: attribute validation does not compare
the `rename`d names of different types, so two types renamed to one name (`#[diplomat::attr(*, rename = "Same")]` twice) abort cpp / js / dart / nanobind /
demo_gen with "File map already contains Same.d.hpp" (known finding).  The contract therefore has no precondition on the name."""
import re
from rsrc import Src, Piece, rule_panics
from verus_engine import VerusFile, CANARY
from common import Undecided
import vhelp

NAME = "file_map"
ENGINE = "verus"
PROPERTIES = {"C15": "FileMap::add_file does not panic for the file names backends hand it (names are not unique after renames: known finding)"}
F = "tool/src/lib.rs"

PRELUDE = r"""
// E3: RefCell<HashMap<String, String>> carried as an abstract cell; what it contains is a ghost set of names.  Only presence matters for the panic;
// the insertion itself (interior mutability) is not modelled
#[verifier::external_body] pub struct Files { x: u8 }
#[verifier::external_body] pub struct FilesRef<'a> { x: &'a u8 }
#[verifier::external_body] pub struct FilesMut<'a> { x: &'a u8 }
pub uninterp spec fn has_file(f: &Files, name: String) -> bool;
impl Files {
    #[verifier::external_body] pub fn borrow(&self) -> (r: FilesRef<'_>) ensures r.of() == self { unimplemented!() }
    #[verifier::external_body] pub fn borrow_mut(&self) -> (r: FilesMut<'_>) { unimplemented!() }
}
impl<'a> FilesRef<'a> {
    pub uninterp spec fn of(&self) -> &'a Files;
    #[verifier::external_body] pub fn get(&self, k: &String) -> (r: Option<&String>) ensures r.is_some() == has_file(self.of(), *k) { unimplemented!() }
}
impl<'a> FilesMut<'a> {
    #[verifier::external_body] pub fn insert(&mut self, k: String, v: String) -> Option<String> { unimplemented!() }
}
pub struct FileMap { pub files: Files }
"""


def build(tier):
    vf = VerusFile(NAME)
    src = Src(F)
    vf.add(vhelp.HEADER)
    vf.add(PRELUDE)
    vf.add("impl FileMap {\n")
    p = Piece(src, src.item("impl FileMap::add_file", "fn"))
    p.sub("E6", r'panic!\("File map already contains \{\}", name\)', 'panic!("File map already contains")', count=1, why="message argument dropped")
    p.fn("E5", rule_panics, why="panic! becomes an obligation")
    # no precondition: see the module doc comment
    p.contract("        requires true,")
    vf.add_piece(p, expected="add_file")
    vf.add("}\n")
    vf.add(vhelp.FOOTER)
    return vf


ASSUMPTIONS = [
    "RefCell<HashMap<String,String>> carried as an abstract cell with a ghost presence predicate; interior mutation not modelled (only the panic is judged)",
    "no precondition on the file name: read from hir attribute validation (no uniqueness check on renamed names) and the backends' `format!(\"{type_name}.<ext>\")` call sites",
]
UNVERIFIED = {"C15": ["the backends' call sites (which names are passed)", "RefCell double-borrow freedom of add_file (borrow() is released before borrow_mut(): read)"]}
