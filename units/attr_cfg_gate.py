"""V attr_cfg_gate: core/src/hir/attrs.rs Attrs::from_ast — the head of the per-attribute loop: a `#[diplomat::attr(<cfg>, ..)]` is
applied to the item exactly when AttributeValidator::satisfies_cfg says the condition holds for this backend; it is skipped when the
condition is false, and skipped WITH an error pushed when the condition cannot be evaluated.  (What satisfies_cfg computes is unit
cfg_eval.)  Statement fragment with `continue` turned into `return true` (skip)."""
import re
from rsrc import Src, Piece
from verus_engine import VerusFile, CANARY
from common import Undecided
import vhelp

NAME = "attr_cfg_gate"
ENGINE = "verus"
PROPERTIES = {"C13": "a backend-conditional attribute takes effect iff its condition holds for the backend (as evaluated by satisfies_cfg); an unevaluable condition is reported and the attribute not applied"}
F = "core/src/hir/attrs.rs"

PRELUDE = r"""
#[verifier::external_body] pub struct LoweringError { x: u8 }
#[verifier::external_body] pub struct Cfg { x: u8 }
#[verifier::external_body] pub struct Meta { x: u8 }
pub struct AstAttr { pub cfg: Cfg, pub meta: Meta }
pub struct ErrorStore { pub errors: Vec<LoweringError> }
impl ErrorStore { pub fn push(&mut self, e: LoweringError) ensures final(self).errors@ == old(self).errors@.push(e) { self.errors.push(e); } }
#[verifier::external_body] pub struct Validator { x: u8 }
// what satisfies_cfg answers for this backend (its meaning is unit cfg_eval)
pub uninterp spec fn spec_sat(v: &Validator, c: Cfg) -> Result<bool, LoweringError>;
impl Validator {
    #[verifier::external_body] pub fn satisfies_cfg(&self, cfg: &Cfg, auto_found: Option<&mut bool>) -> (r: Result<bool, LoweringError>)
        ensures r == spec_sat(self, *cfg) { unimplemented!() }
}
"""


def build(tier):
    vf = VerusFile(NAME)
    src = Src(F)
    vf.add(vhelp.HEADER)
    vf.add(PRELUDE)
    it = src.item("impl Attrs::from_ast", "fn")
    lp = [l for l in it.get("loops", []) if src.slice(l["start"], l["body_open"]).startswith("for attr in &ast.attrs")]
    if len(lp) != 1:
        raise Undecided("anchor-lost", "Attrs::from_ast: `for attr in &ast.attrs` loop not found")
    lp = lp[0]
    body = src.slice(lp["body_open"] + 1, lp["end"] - 1)
    m = re.search(r"\n\s*let path = attr\.meta\.path\(\);", body)
    if not m:
        raise Undecided("anchor-lost", "Attrs::from_ast: `let path = attr.meta.path();` (end of the loop head) not found")
    a, b = lp["body_open"] + 1, lp["body_open"] + 1 + m.start()
    frag = {"path": it["path"] + "#for attr: stmts(.. before let path)", "kind": "stmt", "start": a, "after_attrs": a, "end": b, "loops": []}
    org = {"file": F, "item": frag["path"], "line": src.line_of(a), "end_line": src.line_of(b)}
    p = Piece(src, frag)
    p.sub("E17c", r"\bcontinue\b", "return true", count="+", why="`continue` of the enclosing loop -> the fragment function returns `skip = true`")
    vf.add("// E15/E17c: head of the per-attribute loop body of Attrs::from_ast; returns whether the attribute is skipped\n"
           "fn attr_is_skipped(validator: &Validator, attr: &AstAttr, errors: &mut ErrorStore) -> (skip: bool)\n"
           f"    ensures {CANARY}\n"
           "        // applied exactly when the condition holds for this backend\n"
           "        skip == !(spec_sat(validator, attr.cfg) == Ok::<bool, LoweringError>(true)),\n"
           "        // a condition that cannot be evaluated is reported; otherwise the error list is untouched\n"
           "        match spec_sat(validator, attr.cfg) { Err(e) => final(errors).errors@ == old(errors).errors@.push(e), Ok(_) => final(errors).errors@ == old(errors).errors@ },\n{\n", origin=org)
    vf.add(p.render(), origin=org, edits=p.log)
    vf.add("\n    false\n}\n", origin=org)
    vf.functions.append({"path": frag["path"], "file": F, "line": src.line_of(a), "end_line": src.line_of(b), "engine": "verus", "mode": "verus (loop body head, continue -> return)", "bound": "none"})
    vf.expected.append("attr_is_skipped")
    vf.add(vhelp.FOOTER)
    return vf


CANARY_FUNCTIONS = ["attr_is_skipped"]
ASSUMPTIONS = [
    "E15/E17c: only the head of the loop body (up to `let path = attr.meta.path();`) is under contract, with `continue` rewritten to `return true`; what an applied attribute then does (disable / rename / namespace / special methods: syn Meta matching) is not part of this unit",
    "satisfies_cfg is used through an abstract result function (its semantics: unit cfg_eval)",
]
UNVERIFIED = {"C13": ["the body of the loop after the gate (syn Meta matching)"]}
