"""K tool_error_store: tool::ErrorStore::{set_context_ty, set_context_method, push_error, take_all} and ErrorContextGuard::drop —
the diagnostics list backends use instead of panicking (C15 mechanism "backend error stores for recoverable problems")."""
from kunit import define
F = "tool/src/lib.rs"
E = [
    ("repeated_push_in_a_context_keeps_every_error", "two pushes (arbitrary, possibly equal errors) inside a type context: no RefCell panic, both kept in order, guard drop restores the default context",
     [(F, "impl ErrorStore<'tcx,E>::push_error"), (F, "impl ErrorStore<'tcx,E>::set_context_ty"), (F, "impl Drop for ErrorContextGuard<'_,'_,E>::drop")], 1, ["C15"], "bounded", "fixed call sequence, arbitrary u8 errors", ["thorough"]),
    ("nested_contexts_restore_in_order", "type context > method context: pushes carry the context current at the push; guards restore in LIFO order; no panic",
     [(F, "impl ErrorStore<'tcx,E>::set_context_method"), (F, "impl ErrorStore<'tcx,E>::push_error")], 1, ["C15"], "bounded", "fixed nesting shape, optional outer push", ["thorough"]),
    ("push_without_context_and_take_all", "push with no context set, take_all returns it and drains the store",
     [(F, "impl ErrorStore<'tcx,E>::take_all")], 1, ["C15"], "bounded", "fixed call sequence"),
]
define(globals(), "tool_error_store", "tool", F, "verif_error_store", "tool_error_store.rs",
       {"C15": "reporting a problem through the backend ErrorStore never panics and loses nothing"},
       E, lambda tier: {}, ["bounded: fixed call sequences (one nesting shape); E = u8"], {"C15": ["every backend's own unreachable!/unwrap sites not listed under a unit"]},
       kani_args=["-Z", "stubbing"], extra_appends=[("core/src/hir/type_context.rs", "core_hooks.rs"), ("tool/src/lib.rs", "tool_common.rs")])
