"""V dart_param_order: tool/src/dart/mod.rs gen_method_info — the native (dart:ffi) parameter lists are built in the C ABI's order:
`self` first (when there is one), then each Rust parameter APPENDED in declaration order to the names / ffi types / cast ffi types /
conversions lists (the trailing write pointer is unit dart_write_param).  Two statement fragments (E15); the conversions list is unit dart_param_conv."""
import re
from rsrc import Src, Piece
from verus_engine import VerusFile, CANARY
from common import Undecided
import vhelp

NAME = "dart_param_order"
ENGINE = "verus"
PROPERTIES = {"C07": "Dart native declaration and call list parameters in the C ABI's order: self, then every parameter in Rust declaration order, for required and optional parameters alike"}
F = "tool/src/dart/mod.rs"

PRELUDE = r"""
#[verifier::external_body] pub struct CowStr { x: u8 }
impl Clone for CowStr { #[verifier::external_body] fn clone(&self) -> (r: Self) ensures r == *self { unimplemented!() } }
#[verifier::external_body] pub struct Ident { x: u8 }
impl Ident { #[verifier::external_body] pub fn as_str(&self) -> (r: &Ident) ensures *r == *self { unimplemented!() } }
#[verifier::external_body] pub struct TypeRest { x: u8 }
// hir::Type / hir::SelfType: only "is it an Option" / "is it a struct" is inspected here
pub enum Type { DiplomatOption(TypeRest), Other(TypeRest) }
impl Type { pub fn is_option(&self) -> (r: bool) ensures r == (*self is DiplomatOption) { matches!(self, Type::DiplomatOption(_)) } }
pub enum SelfType { Opaque(TypeRest), Struct(TypeRest), Enum(TypeRest) }
pub mod hir { pub use super::SelfType; pub use super::Type; }
pub struct Param { pub name: Ident, pub ty: Type }
pub struct ParamSelf { pub ty: SelfType }
pub struct Method { pub param_self: Option<ParamSelf>, pub params: Vec<Param> }
#[verifier::external_body] pub struct Visitor { x: u8 }
#[verifier::external_body] pub struct ParamBorrowInfo { x: u8 }
impl Visitor {
    #[verifier::external_body] pub fn visit_param_self(&mut self, ty: &SelfType, name: &str) -> ParamBorrowInfo { unimplemented!() }
}
#[verifier::external_body] pub struct StructBorrowContext { x: u8 }
// the `alloc: Option<String>` local: only `.as_deref()` is used on it
#[verifier::external_body] pub struct AllocName { x: u8 }
impl AllocName { #[verifier::external_body] pub fn as_deref(&self) -> Option<&str> { unimplemented!() } }
// ---- the generated names, as functions of what they are generated FROM
pub uninterp spec fn name_of(n: Ident) -> CowStr;
pub uninterp spec fn ffi_of(t: Type, cast: bool) -> CowStr;
pub uninterp spec fn self_ffi_of(t: SelfType, cast: bool) -> CowStr;
pub uninterp spec fn self_name() -> CowStr;
pub uninterp spec fn self_conv(t: SelfType) -> CowStr;
pub uninterp spec fn decl_of(t: Type, n: CowStr) -> CowStr;
pub uninterp spec fn conv_of(t: Type, n: CowStr) -> CowStr;
#[verifier::external_body] pub fn __self_name() -> (r: CowStr) ensures r == self_name() { unimplemented!() }
#[verifier::external_body] pub fn __decl(t: CowStr, t_of: Ghost<Type>, n: &CowStr) -> (r: CowStr) ensures r == decl_of(t_of@, *n) { unimplemented!() }
pub struct DartFormatter { pub x: u8 }
impl DartFormatter {
    #[verifier::external_body] pub fn fmt_param_name(&self, n: &Ident) -> (r: CowStr) ensures r == name_of(*n) { unimplemented!() }
}
pub struct TyGenContext { pub formatter: DartFormatter }
impl TyGenContext {
    #[verifier::external_body] pub fn gen_type_name(&mut self, t: &Type) -> CowStr { unimplemented!() }
    #[verifier::external_body] pub fn gen_type_name_ffi(&mut self, t: &Type, cast: bool) -> (r: CowStr) ensures r == ffi_of(*t, cast) { unimplemented!() }
    #[verifier::external_body] pub fn gen_self_type_name_ffi(&mut self, t: &SelfType, cast: bool) -> (r: CowStr) ensures r == self_ffi_of(*t, cast) { unimplemented!() }
    #[verifier::external_body] pub fn gen_dart_to_c_self(&mut self, t: &SelfType, arena: &str) -> (r: CowStr) ensures r == self_conv(*t) { unimplemented!() }
    #[verifier::external_body] pub fn gen_dart_to_c_for_type(&mut self, t: &Type, n: CowStr, s: Option<&StructBorrowContext>, a: Option<&str>) -> (r: CowStr) ensures r == conv_of(*t, n) { unimplemented!() }
}
"""


def build(tier):
    vf = VerusFile(NAME)
    src = Src(F)
    vf.add(vhelp.HEADER)
    vf.add(PRELUDE)
    it = src.item("impl TyGenContext<'_,'cx>::gen_method_info", "fn")
    stmts = it.get("stmts", [])
    # ---------------- A: list creation + self
    ia = ib = None
    for i, (a, b) in enumerate(stmts):
        t = src.slice(a, b)
        if ia is None and re.match(r"let mut param_decls_dart_required\b", t):
            ia = i
        if re.match(r"if let Some\(param_self\)", t):
            ib = i
    if ia is None or ib is None or ib < ia:
        raise Undecided("anchor-lost", "gen_method_info: `let mut param_decls_dart_required ..` through the `if let Some(param_self)` block not found")
    a, b = stmts[ia][0], stmts[ib][1]
    frag = {"path": it["path"] + "#stmts(let mut param_decls_dart_required ..= if let Some(param_self))", "kind": "stmt", "start": a, "after_attrs": a, "end": b, "loops": []}
    org = {"file": F, "item": frag["path"], "line": src.line_of(a), "end_line": src.line_of(b)}
    p = Piece(src, frag)
    p.sub("E6", r"visitor\.visit_param\(&param_self\.ty\.clone\(\)\.into\(\), \"this\"\)", 'visitor.visit_param_self(&param_self.ty, "this")', count=None,
          why="SelfType -> Type conversion of the visitor argument dropped (borrow analysis is units borrow_edges / dart_alloc_name)")
    p.sub("E6t", r'"self"\.into\(\)', "__self_name()", count=None, why='the literal "self" as a named constant')
    p.sub("E3", r"= Vec::new\(\);", "= Vec::<CowStr>::new();", count=None, why="element type written out (inference across the dropped rest of the function)")
    vf.add("impl TyGenContext {\n// E15: statement range of gen_method_info: creation of the lists and the `self` entries\n"
           "fn dart_lists_start(&mut self, method: &Method, visitor: &mut Visitor) -> (r: (Vec<CowStr>, Vec<CowStr>, Vec<CowStr>, Vec<CowStr>))\n"
           f"    ensures {CANARY}\n"
           "        // (ffi types, cast ffi types, names, conversions): `self` is the first entry of each, or they are empty\n"
           "        match method.param_self {\n"
           "            Some(s) => r.0@ == seq![self_ffi_of(s.ty, false)] && r.1@ == seq![self_ffi_of(s.ty, true)] && r.2@ == seq![self_name()] && r.3@ == seq![self_conv(s.ty)],\n"
           "            None => r.0@.len() == 0 && r.1@.len() == 0 && r.2@.len() == 0 && r.3@.len() == 0,\n"
           "        },\n{\n        ", origin=org)
    vf.add(p.render(), origin=org, edits=p.log)
    vf.add("\n        (param_types_ffi, param_types_ffi_cast, param_names_ffi, param_conversions)\n}\n", origin=org)
    vf.functions.append({"path": frag["path"], "file": F, "line": src.line_of(a), "end_line": src.line_of(b), "engine": "verus", "mode": "verus (statement range)", "bound": "none"})
    vf.expected.append("dart_lists_start")
    # ---------------- B: loop body head
    lp = [l for l in it.get("loops", []) if src.slice(l["start"], l["body_open"]).startswith("for param in method.params")]
    if len(lp) != 1:
        raise Undecided("anchor-lost", "gen_method_info: `for param in method.params..` loop not found")
    lp = lp[0]
    body = src.slice(lp["body_open"] + 1, lp["end"] - 1)
    m = re.search(r"\n\s*let param_borrow_kind\b", body)
    if not m:
        raise Undecided("anchor-lost", "parameter loop: `let param_borrow_kind` not found")
    a, b = lp["body_open"] + 1, lp["body_open"] + 1 + m.start()
    frag = {"path": it["path"] + "#for param: stmts(.. before let param_borrow_kind)", "kind": "stmt", "start": a, "after_attrs": a, "end": b, "loops": []}
    org = {"file": F, "item": frag["path"], "line": src.line_of(a), "end_line": src.line_of(b)}
    p = Piece(src, frag)
    p.sub("E6", r'format!\("\{\} \{param_name\}", self\.gen_type_name\(&param\.ty\),?\s*\)', "__decl(self.gen_type_name(&param.ty), Ghost(param.ty), &param_name)", count=None,
          why="Dart-side declaration text `<type> <name>` as a function of the parameter")
    p.sub("E7", r"if param\.ty\.is_option\(\) \{\s*&mut param_decls_dart_optional\s*\} else \{\s*&mut param_decls_dart_required\s*\}\s*\.push\(((?:[^()]|\((?:[^()]|\([^()]*\))*\))*)\);",
          r"let __d = \1; if param.ty.is_option() { param_decls_dart_optional.push(__d); } else { param_decls_dart_required.push(__d); }", count=None,
          why="`if c {&mut a} else {&mut b}.push(x)` written as `let d = x; if c {a.push(d)} else {b.push(d)}` (argument evaluated once, same target)")
    vf.add("// E15: head of the per-parameter loop body as a function of the parameter and the lists\n"
           "fn dart_param_step(&mut self, param: &Param, param_decls_dart_required: &mut Vec<CowStr>, param_decls_dart_optional: &mut Vec<CowStr>,\n"
           "        param_names_ffi: &mut Vec<CowStr>, param_types_ffi: &mut Vec<CowStr>, param_types_ffi_cast: &mut Vec<CowStr>) -> (param_name: CowStr)\n"
           f"    ensures {CANARY}\n"
           "        param_name == name_of(param.name),\n"
           "        // the native lists get this parameter's entry at the END: native order == Rust declaration order, optional or not\n"
           "        final(param_names_ffi)@ == old(param_names_ffi)@.push(name_of(param.name)),\n"
           "        final(param_types_ffi)@ == old(param_types_ffi)@.push(ffi_of(param.ty, false)),\n"
           "        final(param_types_ffi_cast)@ == old(param_types_ffi_cast)@.push(ffi_of(param.ty, true)),\n"
           "        // the Dart-side declaration goes to exactly one of the two Dart lists\n"
           "        final(param_decls_dart_optional)@ == (if param.ty is DiplomatOption { old(param_decls_dart_optional)@.push(decl_of(param.ty, name_of(param.name))) } else { old(param_decls_dart_optional)@ }),\n"
           "        final(param_decls_dart_required)@ == (if param.ty is DiplomatOption { old(param_decls_dart_required)@ } else { old(param_decls_dart_required)@.push(decl_of(param.ty, name_of(param.name))) }),\n"
           "{", origin=org)
    vf.add(p.render(), origin=org, edits=p.log)
    vf.add("\n        param_name\n}\n", origin=org)
    vf.functions.append({"path": frag["path"], "file": F, "line": src.line_of(a), "end_line": src.line_of(b), "engine": "verus", "mode": "verus (loop body head)", "bound": "none"})
    vf.expected.append("dart_param_step")
    vf.add("}\n")
    vf.add(vhelp.FOOTER)
    return vf


CANARY_FUNCTIONS = ["dart_lists_start", "dart_param_step"]
ASSUMPTIONS = [
    "E15: two statement fragments of gen_method_info (list creation + self entries; head of the parameter loop body); its last statement is unit dart_param_conv; the loop itself (`for param in method.params.iter()` visits parameters in declaration order: std) and the middle of the body (borrow kind, allocator choice: units dart_alloc_name / borrow_edges) are not part of this unit",
    "generated names are abstract deterministic functions of what they are generated from (name_of, ffi_of, self_ffi_of, decl_of, conv_of); the primitive tables behind them are unit dart_tables",
    "E7: `if c {&mut a} else {&mut b}.push(x)` rewritten to `let d = x; if c {a.push(d)} else {b.push(d)}`",
    "that the template prints the lists in list order (native_method.dart.jinja: read)",
]
UNVERIFIED = {"C07": ["the jinja template joining the lists in order (read)", "C-side order is the Rust declaration order (macro gen_custom_type_method: unit macro_params if present, else read)"]}
