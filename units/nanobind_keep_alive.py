"""V nanobind_keep_alive: tool/src/nanobind/ty.rs gen_method_info — the `nb::keep_alive<nurse, patient>()` call policies.  Statement
range from `let self_number = ..` through the `if !matches!(.. Str ..) { lifetime_args.extend(..) }` statement (E15): for every
position j of the borrow-info list (self first when there is one, then the parameters in order) whose entry says the return value
borrows from it, exactly one policy with patient index j + 1 + self_number is emitted (nanobind numbers arguments from 1; a
constructor's return value is its `self`, argument 1), in order, and none for the others."""
import re
from rsrc import Src, Piece, match_close
from verus_engine import VerusFile, CANARY
from common import Undecided
import vhelp

NAME = "nanobind_keep_alive"
ENGINE = "verus"
PROPERTIES = {"C04": "nanobind keeps alive exactly the arguments the borrow analysis reports as borrowed by the return value: keep_alive's patient index is the argument's own position (self / constructor offset included), for any number of parameters in any mix",
              "C15": "index arithmetic of the policy list does not overflow"}
F = "tool/src/nanobind/ty.rs"
BP = "core/src/hir/methods/borrowing_param.rs"

PRELUDE = r"""
#[verifier::external_body] pub struct StructBorrowInfo { x: u8 }
pub mod hir {
    pub use super::SpecialMethod; pub use super::SuccessType; pub use super::Type; pub use super::Slice;
    pub mod borrowing_param { pub use super::super::ParamBorrowInfo; }
}
#[verifier::external_body] pub struct Rest { x: u8 }
pub enum SpecialMethod { Constructor, Other(Rest) }
pub enum Slice { Str(Rest, Rest), Other(Rest) }
pub enum Type { Slice(Slice), Opaque(Rest), Other(Rest) }
pub enum SuccessType { Write, OutType(Type), Unit }
pub struct MethodAttrs { pub special_method: Option<SpecialMethod> }
pub struct Output { pub s: SuccessType }
impl Output { pub fn success_type(&self) -> (r: &SuccessType) ensures *r == self.s { &self.s } }
pub struct Method { pub attrs: MethodAttrs, pub output: Output }
// E6t: one call policy, by what its text declares: nb::keep_alive<nurse, patient>()
#[derive(PartialEq, Eq, Structural, Copy, Clone)] pub struct KeepAlive { pub nurse: usize, pub patient: usize }
impl KeepAlive { pub fn of(nurse: usize, patient: usize) -> (r: KeepAlive) ensures r == (KeepAlive { nurse, patient }) { KeepAlive { nurse, patient } } }

// ---- oracle, from the property statement + nanobind's argument numbering (0 = return value, 1.. = arguments; for __init__ the
// constructed object is argument 1 and plays the role of the return value)
pub open spec fn borrowed(p: ParamBorrowInfo) -> bool { (p is BorrowedSlice) || (p is Struct) || (p is BorrowedOpaque) }
pub open spec fn base(m: Method) -> int { if m.attrs.special_method matches Some(SpecialMethod::Constructor) { 1 } else { 0 } }
pub open spec fn expected(b: Seq<ParamBorrowInfo>, base: int, n: int) -> Seq<KeepAlive> decreases n {
    if n <= 0 { Seq::<KeepAlive>::empty() } else {
        let pre = expected(b, base, n - 1);
        if borrowed(b[n - 1]) { pre.push(KeepAlive { nurse: base as usize, patient: (n - 1 + 1 + base) as usize }) } else { pre }
    }
}
pub open spec fn returns_str(m: Method) -> bool { m.output.s matches SuccessType::OutType(Type::Slice(Slice::Str(..))) }
"""

E7_PAT = (r"lifetime_args\.extend\(\s*param_borrows\s*\.into_iter\(\)\s*\.enumerate\(\)\s*\.filter_map\(\|\(i, p\)\| match p \{\s*"
          r"((?:\|?\s*hir::borrowing_param::ParamBorrowInfo::\w+(?:\(_\))?\s*)+)=> \{\s*Some\(format!\(\s*\"nb::keep_alive<\{self_number\}, \{\}>\(\)\",\s*"
          r"((?:[^(),]|\([^()]*\))+?),?\s*\)\)(?:\s*//[^\n]*)?\s*\}\s*_ => None,\s*\}\)\s*\.collect::<Vec<_>>\(\),\s*\);")


def build(tier):
    vf = VerusFile(NAME)
    src = Src(F)
    bp = Src(BP)
    vf.add(vhelp.HEADER)
    vhelp.typedef(vf, bp, "ParamBorrowInfo", "enum", subs=[("E12", r"<'tcx>", "")])
    vf.add(PRELUDE)
    it = src.item("impl TyGenContext<'ccx,'tcx>::gen_method_info", "fn")
    stmts = it.get("stmts", [])
    ia = ib = None
    for i, (a, b) in enumerate(stmts):
        t = src.slice(a, b)
        if ia is None and re.match(r"let self_number\s*=", t):
            ia = i
        if ia is not None and ib is None and re.match(r"if !matches!\(\s*method\.output\.success_type\(\)", t):
            ib = i
    if ia is None or ib is None:
        raise Undecided("anchor-lost", "gen_method_info: `let self_number = ..` ..= `if !matches!(method.output.success_type(), ..) {..}` not found")
    a, b = stmts[ia][0], stmts[ib][1]
    frag = {"path": it["path"] + "#stmts(let self_number ..= if !matches!(.. Str ..) { lifetime_args.extend(..) })", "kind": "stmt", "start": a, "after_attrs": a, "end": b, "loops": []}
    org = {"file": F, "item": frag["path"], "line": src.line_of(a), "end_line": src.line_of(b)}
    p = Piece(src, frag)
    p.sub("E3", r"let mut lifetime_args = vec!\[\];", "let mut lifetime_args: Vec<KeepAlive> = Vec::new();", count=1, why="element type written out; vec![] -> Vec::new()")
    p.sub("E7", E7_PAT,
          lambda m: ("{ let mut i: usize = 0;\n"
                     "            while i < param_borrows.len()\n"
                     "                invariant i <= param_borrows@.len(), self_number == base(*method), param_borrows@.len() + 2 <= usize::MAX,\n"
                     "                    lifetime_args@ =~= expected(param_borrows@, self_number as int, i as int),\n"
                     "                decreases param_borrows@.len() - i,\n"
                     "            {\n"
                     "                let p = &param_borrows[i];\n"
                     "                match p {\n                    " + re.sub(r"hir::borrowing_param::", "", m.group(1)).strip() +
                     " => { lifetime_args.push(KeepAlive::of(self_number, " + m.group(2).strip() + ")); }\n"
                     "                    _ => {}\n                }\n"
                     "                i = i + 1;\n            } }"),
          count=1, why="V.extend(S.into_iter().enumerate().filter_map(|(i, p)| match p { PATS => Some(E), _ => None }).collect()) -> index loop pushing E for matching elements (definition of enumerate/filter_map/extend); the policy text format!(\"nb::keep_alive<{self_number}, {}>()\", X) -> tag KeepAlive::of(self_number, X) (E6t)")
    vf.add("// E15: statement range of nanobind gen_method_info as a function of the method and the borrow-info list\n"
           "fn nanobind_keep_alive(method: &Method, param_borrows: Vec<ParamBorrowInfo>) -> (lifetime_args: Vec<KeepAlive>)\n"
           "    requires param_borrows@.len() + 2 <= usize::MAX,\n"
           f"    ensures {CANARY}\n"
           "        // (string-typed outputs are copied by the type caster: no policy at all)\n"
           "        lifetime_args@ =~= (if returns_str(*method) { Seq::<KeepAlive>::empty() } else { expected(param_borrows@, base(*method), param_borrows@.len() as int) }),\n{\n        ", origin=org)
    vf.add(p.render(), origin=org, edits=p.log)
    vf.add("\n        lifetime_args\n}\n", origin=org)
    vf.functions.append({"path": frag["path"], "file": F, "line": src.line_of(a), "end_line": src.line_of(b), "engine": "verus", "mode": "verus (statement range; iterator chain desugared, E7)", "bound": "none"})
    vf.expected.append("nanobind_keep_alive")
    vf.add(vhelp.FOOTER)
    return vf


CANARY_FUNCTIONS = ["nanobind_keep_alive"]
ASSUMPTIONS = [
    "E7: the `extend(into_iter().enumerate().filter_map(..).collect())` chain is desugared to an index loop by one exact-shape rewrite (any other shape: undecided); E6t: the policy text is carried as KeepAlive{nurse, patient}",
    "that param_borrows is [self?] + parameters in order (two statements above: `.map(|s| visitor.visit_param(..self..)).collect()` then `extend(params.iter().map(visit_param))`): read; what each entry says is unit borrow_edges",
    "nanobind's argument numbering (0 = return, 1.. = arguments, constructor: nurse = 1) is taken from nanobind's documentation",
    "hir types re-declared with the variants inspected; ParamBorrowInfo is the verbatim definition",
]
UNVERIFIED = {"C04": ["the construction of param_borrows (iterator adapters)", "the nanobind templates printing lifetime_args"], "C15": []}
