"""V write_sequence: lemma over the write_str step contract — for ANY number of writes and ANY pattern of grow outcomes the
buffer holds exactly the chunks written before the first failed growth (unbounded in the number of writes)."""
from verus_engine import VerusFile
import vhelp

NAME = "write_sequence"
ENGINE = "verus"
PROPERTIES = {"C12": "sequence theorem over the step contract proved per step by Kani unit write_step"}

TEXT = r"""
// Abstract DiplomatWrite state: the bytes [0,len) of the buffer, the capacity, and the sticky flag.
pub struct W { pub content: Seq<u8>, pub cap: nat, pub failed: bool }

// One write_str step, transcribed from the postcondition checked on the real code by Kani harness
// verif_write_step::check_write_str (units/harness/write_step.rs):
//   old.grow_failed                         => nothing changes
//   len + |s| > cap and grow refuses        => grow_failed set, len/cap/content unchanged (no partial chunk)
//   otherwise                               => content = old content ++ s, cap >= len (grown to >= requested if needed)
pub open spec fn step(w: W, s: Seq<u8>, grow_ok: bool, w2: W) -> bool {
    if w.failed { w2 == w }
    else if w.content.len() + s.len() > w.cap && !grow_ok { w2.failed && w2.content == w.content && w2.cap == w.cap }
    else { !w2.failed && w2.content == w.content + s && w2.cap >= w2.content.len() && (w.content.len() + s.len() <= w.cap ==> w2.cap == w.cap) }
}
pub open spec fn wf(w: W) -> bool { w.content.len() <= w.cap }

// a run: states ws[0..=n], chunks cs[0..n), grow outcomes gs[0..n)
pub open spec fn run(ws: Seq<W>, cs: Seq<Seq<u8>>, gs: Seq<bool>) -> bool {
    ws.len() == cs.len() + 1 && gs.len() == cs.len()
    && forall|i: int| 0 <= i < cs.len() ==> step(#[trigger] ws[i], cs[i], gs[i], ws[i + 1])
}
// did write i hit a refused growth (given the state before it)?
pub open spec fn refused(ws: Seq<W>, cs: Seq<Seq<u8>>, gs: Seq<bool>, i: int) -> bool {
    !ws[i].failed && ws[i].content.len() + cs[i].len() > ws[i].cap && !gs[i]
}
// oracle from the property statement: concatenation of the chunks written before the first failed growth
pub open spec fn accepted(ws: Seq<W>, cs: Seq<Seq<u8>>, gs: Seq<bool>, n: int) -> Seq<u8>
    decreases n
{
    if n <= 0 { ws[0].content }
    else if ws[n - 1].failed || refused(ws, cs, gs, n - 1) { accepted(ws, cs, gs, n - 1) }
    else { accepted(ws, cs, gs, n - 1) + cs[n - 1] }
}

pub proof fn lemma_sequence(ws: Seq<W>, cs: Seq<Seq<u8>>, gs: Seq<bool>, n: int)
    requires run(ws, cs, gs), 0 <= n <= cs.len(), wf(ws[0]),
    ensures
        ws[n].content == accepted(ws, cs, gs, n),
        wf(ws[n]),
        // sticky flag: set exactly when some earlier write was refused (or it was set initially)
        ws[n].failed == (ws[0].failed || exists|i: int| 0 <= i < n && refused(ws, cs, gs, i)),
        // once failed, nothing further is ever written
        forall|i: int| 0 <= i < n && ws[i].failed ==> ws[n].content == #[trigger] ws[i].content && ws[n].failed,
    decreases n
{
    if n > 0 {
        lemma_sequence(ws, cs, gs, n - 1);
        assert(step(ws[n - 1], cs[n - 1], gs[n - 1], ws[n]));
        if ws[n].failed {
            if !ws[n - 1].failed { assert(refused(ws, cs, gs, n - 1)); }
        } else {
            assert(!ws[n - 1].failed);
            assert forall|i: int| 0 <= i < n implies !refused(ws, cs, gs, i) by {
                if i == n - 1 { } else { }
            }
        }
        assert forall|i: int| 0 <= i < n && ws[i].failed implies ws[n].content == #[trigger] ws[i].content && ws[n].failed by {
            if i < n - 1 { assert(ws[n - 1].failed); } else { }
        }
    }
}

// no partial chunk: the final content is ws[0].content followed by whole chunks only
pub open spec fn whole_chunks(base: Seq<u8>, cs: Seq<Seq<u8>>, keep: Seq<bool>, n: int) -> Seq<u8>
    decreases n
{
    if n <= 0 { base } else if keep[n - 1] { whole_chunks(base, cs, keep, n - 1) + cs[n - 1] } else { whole_chunks(base, cs, keep, n - 1) }
}
pub proof fn lemma_no_partial_chunk(ws: Seq<W>, cs: Seq<Seq<u8>>, gs: Seq<bool>, n: int)
    requires run(ws, cs, gs), 0 <= n <= cs.len(), wf(ws[0]),
    ensures exists|keep: Seq<bool>| keep.len() == cs.len() && ws[n].content == whole_chunks(ws[0].content, cs, keep, n),
{
    let keep = Seq::new(cs.len(), |i: int| !(ws[i].failed || refused(ws, cs, gs, i)));
    lemma_sequence(ws, cs, gs, n);
    lemma_accepted_is_whole(ws, cs, gs, keep, n);
}
pub proof fn lemma_accepted_is_whole(ws: Seq<W>, cs: Seq<Seq<u8>>, gs: Seq<bool>, keep: Seq<bool>, n: int)
    requires run(ws, cs, gs), 0 <= n <= cs.len(), keep.len() == cs.len(),
        forall|i: int| 0 <= i < cs.len() ==> keep[i] == !(ws[i].failed || refused(ws, cs, gs, i)),
    ensures accepted(ws, cs, gs, n) == whole_chunks(ws[0].content, cs, keep, n),
    decreases n
{
    if n > 0 { lemma_accepted_is_whole(ws, cs, gs, keep, n - 1); }
}
"""


def build(tier):
    vf = VerusFile(NAME)
    vf.add(vhelp.HEADER)
    vf.add(TEXT)
    vf.expected += ["lemma_sequence", "lemma_no_partial_chunk", "lemma_accepted_is_whole"]
    vf.add(vhelp.FOOTER)
    return vf


ASSUMPTIONS = [
    "the abstract step relation is a transcription of the postcondition that Kani unit write_step checks on the real write_str (trusted link; both texts are in /verif/units)",
    "the per-step contract itself is proved only within the stated buffer bound (unit write_step)",
]
UNVERIFIED = {"C12": []}
