"""K runtime_lib: diplomat_is_str vs RFC 3629, diplomat_alloc/free."""
from kunit import define
F = "runtime/src/lib.rs"
E = [
    ("is_str_matches_rfc3629", "diplomat_is_str(p,n) == RFC 3629 acceptor (ranges incl. surrogates, overlongs, > U+10FFFF) for every byte string of length <= L", [(F, "diplomat_is_str")], 3, ["C16"], "bounded",
     lambda p: f"all byte strings of length 0..{p['L']} (symbolic: every such string at once); unwind {p['UNWIND']} with unwinding assertions"),
    ("alloc_free_contract", "diplomat_alloc(size,align) returns a non-null, aligned, size-byte writable region that diplomat_free releases (no invalid free)", [(F, "diplomat_alloc"), (F, "diplomat_free")], None, ["C16", "C03"], "bounded",
     "1 <= size <= 16, align in {1,2,4,8,16}"),
]
define(globals(), "runtime_lib", "runtime", F, "verif_lib", "runtime_lib.rs",
       {"C16": "exported UTF-8 check answers true exactly for valid UTF-8", "C03": "alloc/free pair"},
       E, lambda tier: {"L": 4, "UNWIND": 6} if tier == "quick" else {"L": 5, "UNWIND": 7},
       ["core::str::from_utf8 is the real std implementation compiled by Kani (not stubbed)", "CBMC allocator model"],
       {"C16": ["UTF-8 predicate on strings longer than the bound"]})
