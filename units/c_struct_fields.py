"""V c_struct_fields: tool/src/c/ty.rs TyGenContext::gen_struct_def (prefix up to the template, E16): the C struct declares exactly one
member per Rust struct field, in declaration order, each spelled by gen_ty_decl from THAT field's type and name — so member offsets in the
header are those of the repr(C) Rust struct (C field types: unit c_ty_name)."""
import re
from rsrc import Src, Piece
from verus_engine import VerusFile, CANARY
from common import Undecided
import vhelp

NAME = "c_struct_fields"
ENGINE = "verus"
PROPERTIES = {"C01": "a C struct mirror lists the Rust struct's fields one for one, in order, each declared from its own type and name (any number of fields)",
              "C15": "no panic site besides the type-id conversion of the struct being generated"}
F = "tool/src/c/ty.rs"

PRELUDE = r"""
#[verifier::external_body] pub struct Ty { x: u8 }
#[verifier::external_body] pub struct IdentBuf { x: u8 }
impl IdentBuf { #[verifier::external_body] pub fn as_str(&self) -> (r: &IdentBuf) ensures *r == *self { unimplemented!() } }
pub struct StructField { pub name: IdentBuf, pub ty: Ty }
pub struct StructDef { pub fields: Vec<StructField> }
pub mod hir { pub use super::StructDef; }
#[verifier::external_body] pub struct Header { x: u8 }
impl Header { #[verifier::external_body] pub fn new(p: HeaderPath, cpp: bool) -> Header { unimplemented!() } }
#[verifier::external_body] pub struct HeaderPath { x: u8 }
impl HeaderPath { #[verifier::external_body] pub fn to_owned(&self) -> HeaderPath { unimplemented!() } }
#[verifier::external_body] pub struct CallbackAndStructDef { x: u8 }
#[verifier::external_body] pub struct Name { x: u8 }
#[verifier::external_body] pub struct SymbolId { x: u8 }
impl Clone for SymbolId { #[verifier::external_body] fn clone(&self) -> Self { unimplemented!() } }
impl Copy for SymbolId {}
#[verifier::external_body] pub struct TypeId { x: u8 }
// `self.id.try_into().unwrap()`: the struct being generated has a type id (gen_struct_def is only called for types: read)
#[verifier::external_body] pub fn __type_id_of(id: SymbolId) -> TypeId { unimplemented!() }
pub struct CFormatter { pub x: u8 }
impl CFormatter { #[verifier::external_body] pub fn fmt_type_name(&self, id: TypeId) -> Name { unimplemented!() } }
// E6t: one member declaration (type text, member name), by what it was generated from
pub struct Decl { pub of_ty: Ghost<Ty>, pub of_name: Ghost<IdentBuf> }
pub struct TyGenContext<'a> { pub formatter: &'a CFormatter, pub decl_header_path: &'a HeaderPath, pub is_for_cpp: bool, pub id: SymbolId }
impl<'a> TyGenContext<'a> {
    #[verifier::external_body]
    pub fn gen_ty_decl(&self, ty: &Ty, ident: &IdentBuf, header: &mut Header, abi: Option<String>, cbs: &mut Vec<CallbackAndStructDef>) -> (r: Decl)
        ensures r.of_ty@ == *ty, r.of_name@ == *ident { unimplemented!() }
}
pub open spec fn decl_matches(d: Decl, f: StructField) -> bool { d.of_ty@ == f.ty && d.of_name@ == f.name }
"""


def build(tier):
    vf = VerusFile(NAME)
    src = Src(F)
    vf.add(vhelp.HEADER)
    vf.add(PRELUDE)
    it = src.item("impl TyGenContext<'_,'tcx>::gen_struct_def", "fn")
    stmts = it.get("stmts", [])
    k = None
    for i, (a, b) in enumerate(stmts):
        if re.match(r"StructTemplate\s*\{", src.slice(a, b)):
            k = i
    if k is None or k == 0:
        raise Undecided("anchor-lost", "gen_struct_def: the `StructTemplate { .. }.render_into(..)` statement not found")
    frag = dict(it)
    frag["end"] = stmts[k - 1][1]
    frag["path"] = it["path"] + "#prefix(.. before StructTemplate)"
    frag["loops"] = [l for l in it.get("loops", []) if l["end"] <= frag["end"]]
    p = Piece(src, frag)
    p.expect_loops(1)
    (r0, r1) = it["ret"]
    p.replace("E16", r0, r1, "(r: Vec<Decl>)", "function prefix returns the member declaration list")
    p.sub("E12", r"<P: TyPosition>", "", count=1, why="TyPosition marker erased")
    p.sub("E12", r"def: &'tcx hir::StructDef<P>", "def: &hir::StructDef", count=1, why="TyPosition marker erased")
    p.sub("E6", r"self\.id\.try_into\(\)\.unwrap\(\)", "__type_id_of(self.id)", count=1, why="TryFrom<SymbolId> for TypeId of the struct being generated: abstract")
    p.sub("E3", r"let mut fields = vec!\[\];", "let mut fields: Vec<Decl> = Vec::new();", count=1, why="element type written out; vec![] -> Vec::new()")
    p.sub("E3", r"let mut cb_structs_and_defs = vec!\[\];", "let mut cb_structs_and_defs: Vec<CallbackAndStructDef> = Vec::new();", count=1, why="element type written out")
    p.insert("E4", it["body_open"], f"""
        ensures {CANARY}
            r@.len() == def.fields@.len(),
            forall|j: int| 0 <= j < r@.len() ==> decl_matches(#[trigger] r@[j], def.fields@[j]),
""", "contract")
    p.loop_spec(0, """            invariant
                it.seq().len() == def.fields@.len(),
                forall|j: int| 0 <= j < it.seq().len() ==> *#[trigger] it.seq()[j] == def.fields@[j],
                fields@.len() == it.index@,
                forall|j: int| 0 <= j < fields@.len() ==> decl_matches(#[trigger] fields@[j], def.fields@[j]),""", iter_name="it")
    text = p.render()
    org = {"file": F, "item": frag["path"], "line": src.line_of(p.a), "end_line": src.line_of(p.b)}
    vf.add("impl<'a> TyGenContext<'a> {\n")
    vf.add(text + "\n        fields\n    }\n", origin=org, edits=p.log)
    vf.add("}\n")
    vf.functions.append({"path": frag["path"], "file": F, "line": src.line_of(p.a), "end_line": src.line_of(p.b), "engine": "verus", "mode": "verus (function prefix up to the template)", "bound": "none"})
    vf.expected.append("gen_struct_def")
    vf.add(vhelp.FOOTER)
    return vf


CANARY_FUNCTIONS = ["gen_struct_def"]
ASSUMPTIONS = [
    "E16: the prefix of gen_struct_def up to (excluding) the StructTemplate statement; the template prints `fields` in list order (struct.h.jinja: read)",
    "gen_ty_decl is abstract, tagged with the type and name it was called with (its type spelling: unit c_ty_name)",
    "self.id.try_into().unwrap(): gen_struct_def is only called for type ids (read: c/mod.rs run)",
]
UNVERIFIED = {"C01": ["struct.h.jinja (read)", "gen_ty_decl's callback branch"], "C15": []}
