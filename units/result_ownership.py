"""K result_ownership: every impl of runtime/src/result.rs — exactly-once drop, arm/flag agreement, wire layout."""
import os
from common import VERIF, read
from kunit import add_end_covers

NAME = "result_ownership"
ENGINE = "kani"
CRATE = "runtime"
FILE = "runtime/src/result.rs"
PROPERTIES = {"C03": "DiplomatResult/DiplomatOption never drop a payload twice or leak it when converted or dropped",
              "C10": "is_ok true exactly for Ok/Some; {payload,is_ok} layout; unit arms occupy no payload; pointer niche",
              "C01": "DiplomatResult{value,is_ok} layout as hard-coded by the C mirror"}
PLAYBACK_MODULE = (FILE, "verif_result")

F_FROM_RES = (FILE, "impl From<Result<T,E>> for DiplomatResult<T,E>::from")
F_INTO_RES = (FILE, "impl From<DiplomatResult<T,E>> for Result<T,E>::from")
F_DROP = (FILE, "impl Drop for DiplomatResult<T,E>::drop")
F_CLONE = (FILE, "impl Clone for DiplomatResult<T,E>::clone")
F_ASREF = (FILE, "impl DiplomatResult<T,E>::as_ref")
F_FROM_OPT = (FILE, "impl From<Option<T>> for DiplomatOption<T>::from")
F_INTO_OPT = (FILE, "impl From<DiplomatOption<T>> for Option<T>::from")
F_INTO_OPTION = (FILE, "impl DiplomatOption<T>::into_option")
F_INTO_CONV = (FILE, "impl DiplomatOption<T>::into_converted_option")

_H = [
    ("from_result_contract", "From<Result> for DiplomatResult: drops nothing, is_ok == result.is_ok(), payload identical", [F_FROM_RES, F_ASREF], 2, ["C03", "C10", "C01"]),
    ("drop_contract", "Drop for DiplomatResult: exactly the live arm dropped, exactly once", [F_DROP], 2, ["C03"]),
    ("into_result_contract", "From<DiplomatResult> for Result: conversion drops nothing, arm == flag, payload identical, later drop happens exactly once", [F_INTO_RES], 2, ["C03", "C10"]),
    ("into_result_box_memsafe", "Result<Box,Box> round trip: no double free / use after free (CBMC memory checks)", [F_INTO_RES, F_FROM_RES], 2, ["C03"]),
    ("drop_box_memsafe", "drop of DiplomatResult<Box,Box>: memory safe", [F_DROP, F_ASREF], 2, ["C03"]),
    ("clone_contract", "Clone: original untouched, clone independent, two drops in total", [F_CLONE], None, ["C03"]),
    ("clone_box_memsafe", "Clone with heap payloads: clone valid after original dropped, no double free", [F_CLONE], None, ["C03"]),
    ("as_ref_contract", "as_ref borrows the live arm in place (offset 0), drops nothing", [F_ASREF], None, ["C03", "C10", "C01"]),
    ("option_contract", "Option <-> DiplomatOption: is_ok == is_some, round trip identity, payload dropped exactly once", [F_FROM_OPT, F_INTO_OPT, F_INTO_OPTION], 2, ["C03", "C10"]),
    ("into_converted_option_contract", "into_converted_option: converts payload, drops nothing", [F_INTO_CONV], None, ["C03"]),
    ("option_box_memsafe", "Option<Box> round trip memory safe", [F_FROM_OPT, F_INTO_OPT], None, ["C03"]),
    ("lifecycle_plain_ok_glue_err", "Result<Plain,Glue>: dropped as DiplomatResult or converted back and dropped - live arm's payload dropped exactly once, never leaked or double dropped (drop glue on the Err arm only)", [F_FROM_RES, F_INTO_RES, F_DROP], 4, ["C03"]),
    ("lifecycle_glue_ok_plain_err", "same, drop glue on the Ok arm only", [F_FROM_RES, F_INTO_RES, F_DROP], 4, ["C03"]),
    ("lifecycle_unit_ok_glue_err", "same, Result<(), Glue> (unit Ok arm, as produced for Result<(), E> returns)", [F_FROM_RES, F_INTO_RES, F_DROP], 4, ["C03"]),
    ("lifecycle_glue_ok_unit_err", "same, Result<Glue, ()> (the DiplomatOption shape)", [F_FROM_RES, F_INTO_RES, F_DROP], 4, ["C03"]),
    ("lifecycle_plain_plain", "same, no drop glue at all: nothing dropped", [F_FROM_RES, F_INTO_RES, F_DROP], 4, ["C03"]),
    ("lifecycle_glue_glue", "same, drop glue on both arms", [F_FROM_RES, F_INTO_RES, F_DROP], 4, ["C03"]),
    ("lifecycle_unit_ok_zst_glue_err", "same, Result<(), Z> with a ZERO-SIZED error type that has drop glue (token / guard type): dropped exactly once", [F_FROM_RES, F_INTO_RES, F_DROP], 4, ["C03"]),
    ("lifecycle_zst_glue_ok_unit_err", "same, zero-sized Ok payload with drop glue", [F_FROM_RES, F_INTO_RES, F_DROP], 4, ["C03"]),
    ("lifecycle_plain_ok_zst_glue_err", "same, plain Ok payload and zero-sized error type with drop glue", [F_FROM_RES, F_INTO_RES, F_DROP], 4, ["C03"]),
    ("wire_encoding_primitives", "{payload,is_ok}: flag offset = max payload size rounded, size/align per repr(C), unit arms occupy no payload, round trip identity on (arm,payload) for 11 (T,E) pairs", [F_FROM_RES, F_INTO_RES], None, ["C10", "C01"]),
    ("wire_option_flag", "DiplomatOption<u32/u64>: is_ok == is_some and round trip", [F_FROM_OPT, F_INTO_OPT], None, ["C10"]),
    ("wire_pointer_niche", "Option<&T>/Option<Box<T>>: None is the null pointer, Some is non-null, pointer sized", [], None, ["C10"]),
]


def splice(sess, tier):
    sess.append(FILE, add_end_covers(read(os.path.join(VERIF, "units/harness/result_ownership.rs"))))


def harnesses(tier, prop=None):
    out = []
    for (n, ob, fns, covers, props) in _H:
        if prop and prop not in props:
            continue
        out.append({"name": "verif_result::" + n, "obligation": ob, "functions": fns, "mode": "complete",
                    "bound": "none (loop-free, full-domain symbolic payload ids / arms; payload types as instantiated)",
                    "covers": (covers or 0) + 1, "timeout": 600})
    return out


ASSUMPTIONS = [
    "payload types instantiated: Tok (drop-counting), Box<u8>/Box<u16>/Box<u32>, u8..u64/usize/bool/()/repr(C) Pair; generic code is monomorphised per type by rustc",
    "CBMC allocator model (malloc succeeds; free of freed object is reported)",
]
UNVERIFIED = {
    "C03": ["macro-generated Type_destroy(this: Box<T>) {} (token stream)", "C++ operator delete forwarding / unique_ptr wrappers (template text)", "wasm glue"],
    "C10": ["macro return rewriting ok_or(()).into() (token stream)", "C++ side of option/result conversion"],
    "C01": ["macro gen_custom_type_method/param_conversion (token streams)", "C templates (*.jinja) incl. capi.h mirror"],
}
