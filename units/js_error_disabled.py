"""V js_error_disabled: tool/src/js/converter.rs gen_c_to_js_for_return_type, head of the `Fallible(s, Some(e))` arm (up to
`let fields_empty`): the error type of a Result is imported and thrown by name, so a type that is disabled for the JS backend must be
reported there like in every other type position ("Found usage of disabled type") — otherwise the wrapper imports a module that is
never generated and, the disabled struct having no lowered fields, treats the error payload as empty."""
import re
from rsrc import Src, Piece, rule_format_msgs
from verus_engine import VerusFile, CANARY
from common import Undecided
import vhelp

NAME = "js_error_disabled"
ENGINE = "verus"
PROPERTIES = {"C13": "a type disabled for the JS backend and used as the error type of a Result is reported, not silently imported"}
F = "tool/src/js/converter.rs"

PRELUDE = r"""
#[derive(Copy, Clone, PartialEq, Eq, Structural)] pub struct TypeId { pub n: u32 }
#[verifier::external_body] pub struct Rest { x: u8 }
pub struct Type { pub id: Option<TypeId>, pub rest: Rest }
impl Type { pub fn id(&self) -> (r: Option<TypeId>) ensures r == self.id { self.id } }
#[verifier::external_body] pub struct Text { x: u8 }
impl Clone for Text { #[verifier::external_body] fn clone(&self) -> Self { unimplemented!() } }
#[verifier::external_body] pub struct Msg { x: u8 }
#[verifier::external_body] pub fn __msg() -> Msg { unimplemented!() }
pub struct AttrsV { pub disable: bool }
pub struct DefView { pub a: AttrsV }
impl DefView { pub fn attrs(&self) -> (r: &AttrsV) ensures *r == self.a { &self.a } }
#[verifier::external_body] pub struct Tcx { x: u8 }
pub uninterp spec fn disabled_in(tcx: &Tcx, id: TypeId) -> bool;
impl Tcx { #[verifier::external_body] pub fn resolve_type(&self, id: TypeId) -> (r: &DefView) ensures r.a.disable == disabled_in(self, id) { unimplemented!() } }
// the backend's diagnostics channel (tool::ErrorStore, interior mutability): modelled by an explicit count
pub struct ErrorStore { pub n: usize }
impl ErrorStore { #[verifier::external_body] pub fn push_error(&mut self, m: Msg) ensures final(self).n == old(self).n + 1 { unimplemented!() } }
pub struct JsFormatter { pub x: u8 }
impl JsFormatter { #[verifier::external_body] pub fn fmt_type_name(&self, id: TypeId) -> Text { unimplemented!() } }
pub mod super_gen { #[derive(Copy, Clone)] pub enum ImportUsage { Both } }
pub struct TyGenContext<'a> { pub formatter: &'a JsFormatter, pub tcx: &'a Tcx, pub errors: ErrorStore }
impl<'a> TyGenContext<'a> {
    #[verifier::external_body] pub fn add_import(&mut self, t: Text, f: Option<u8>, u: super_gen::ImportUsage) ensures final(self).errors == old(self).errors, final(self).tcx == old(self).tcx { unimplemented!() }
}
"""


def build(tier):
    vf = VerusFile(NAME)
    src = Src(F)
    vf.add(vhelp.HEADER)
    vf.add(PRELUDE)
    it = src.item("impl TyGenContext<'_,'tcx>::gen_c_to_js_for_return_type", "fn")
    body = src.slice(it["start"], it["end"])
    m = re.search(r"ReturnType::Fallible\(s, Some\(e\)\) => \{", body)
    k = re.search(r"\n\s*let fields_empty\b", body[m.end():]) if m else None
    if not m or not k:
        raise Undecided("anchor-lost", "gen_c_to_js_for_return_type: `ReturnType::Fallible(s, Some(e)) => {` .. `let fields_empty` not found")
    a = it["start"] + m.end()
    b = it["start"] + m.end() + k.start()
    frag = {"path": it["path"] + "#Fallible(s, Some(e)) arm: stmts(.. before let fields_empty)", "kind": "stmt", "start": a, "after_attrs": a, "end": b, "loops": []}
    org = {"file": F, "item": frag["path"], "line": src.line_of(a), "end_line": src.line_of(b)}
    p = Piece(src, frag)
    p.fn("E6", rule_format_msgs, why="diagnostic text dropped")
    p.sub("E12", r"super::gen::ImportUsage", "super_gen::ImportUsage", count=None, why="module path re-rooted")
    p.sub("E3", r"self\s*\.errors\s*\.push_error\(", "self.errors.push_error(", count=None, why="ErrorStore's interior mutability modelled as &mut (explicit count)")
    vf.add("impl<'a> TyGenContext<'a> {\n// E15: head of the `Fallible(s, Some(e))` arm as a function of the error type\n"
           "fn js_error_type_head(&mut self, e: &Type)\n"
           "    requires e.id is Some, // error payloads without a TypeId: known finding of unit js_return_conv\n"
           f"    ensures {CANARY}\n"
           "        disabled_in(old(self).tcx, e.id.unwrap()) ==> final(self).errors.n > old(self).errors.n,\n{", origin=org)
    vf.add(p.render(), origin=org, edits=p.log)
    vf.add("\n}\n}\n", origin=org)
    vf.functions.append({"path": frag["path"], "file": F, "line": src.line_of(a), "end_line": src.line_of(b), "engine": "verus", "mode": "verus (statement range)", "bound": "none"})
    vf.expected.append("js_error_type_head")
    vf.add(vhelp.FOOTER)
    return vf


CANARY_FUNCTIONS = ["js_error_type_head"]
ASSUMPTIONS = [
    "E15: the statements of the arm before `let fields_empty`; tool::ErrorStore::push_error (RefCell) modelled as a counter on &mut self; hir::Type reduced to its id",
    "precondition: the error type has a TypeId (the other case is the known finding of unit js_return_conv)",
]
UNVERIFIED = {"C13": ["the ok type of a Result and other positions are checked in gen_js_type_str (read)"]}
