"""K dart_tables: dart:ffi annotations chosen for primitives denote the C ABI of the Rust function."""
from kunit import define
F = "tool/src/dart/formatter.rs"
def f(n): return (F, "impl DartFormatter<'tcx>::" + n)
E = [
    ("dart_ffi_annotations_match_rust_abi", "all 15 primitives: dart:ffi meaning of fmt_primitive_as_ffi(p,false) == Rust ABI of p; Dart-side type by kind; slice record element and allocator helper of the same width/signedness",
     [f("fmt_primitive_as_ffi"), f("fmt_slice_type"), f("fmt_prim_slice_type"), f("fmt_primitive_alloc_in")], 2, ["C07", "C15"], "complete", "none (finite domain)"),
    ("dart_string_element_width", "string element annotation width = encoding code-unit width", [f("fmt_string_element_as_ffi")], None, ["C07"], "complete", "none"),
]
define(globals(), "dart_tables", "tool", F, "verif_dart_tables", "dart_tables.rs",
       {"C07": "Dart native declarations: primitive width/signedness/float kind", "C15": "no panic outside Int128 / Byte allocator (documented)"},
       E, lambda tier: {},
       ["dart:ffi meaning table written from the dart:ffi API docs", "RandomState::new stubbed; TypeContext::__verif_empty hook"],
       {"C07": ["parameter order/arity in gen_method_info", "struct field order, result/option/slice record shapes (template text)"], "C15": []},
       kani_args=["-Z", "stubbing"],
       extra_appends=[("core/src/hir/type_context.rs", "core_hooks.rs"), ("tool/src/lib.rs", "tool_common.rs")],
       quick_elsewhere={"C15": "C07"})
