"""V js_option_layout: tool/src/js/layout.rs type_size_alignment_and_scalar_count, the `Type::DiplomatOption(inner)` arm: the layout of
a `DiplomatOption<T>` is T's size + T's alignment, aligned like T (repr(C) struct { union { T }, bool }: the flag right after the
payload, then padding up to the alignment), passed in memory.  The arm starts with `unimplemented!("Option<ZST> ..")`: lowering lets a
`DiplomatOption<ZeroSizedStruct>` field of an #[diplomat::out] struct through, so the arm is reachable: known finding."""
import re
from rsrc import Src, Piece, rule_panics, rule_asserts, match_close
from verus_engine import VerusFile, CANARY
from common import Undecided
import vhelp
import units.layout_arith as LA

NAME = "js_option_layout"
ENGINE = "verus"
PROPERTIES = {"C08": "JS layout of an Option field: size_T + align_T bytes aligned like T (flag immediately after the payload), for every payload layout",
              "C15": "the DiplomatOption arm of the JS layout routine does not panic for the payloads lowering lets through"}
F = "tool/src/js/layout.rs"


def build(tier):
    vf = VerusFile(NAME)
    src = Src(F)
    vf.add(vhelp.HEADER)
    vf.add(LA.PRELUDE)
    vhelp.typedef(vf, src, "ScalarCount", "enum", derive="#[derive(Copy, Clone, PartialEq, Eq, Structural)]")
    vf.add("""
// std: smallest power of two >= self (only this much is assumed)
pub assume_specification [usize::next_power_of_two] (a: usize) -> (r: usize) ensures r >= a;
pub assume_specification [usize::next_multiple_of] (a: usize, b: usize) -> (r: usize) requires b > 0 ensures r >= a, r % b == 0;
// the recursive call on the payload, through its contract (unit layout_arith's callee contract: power-of-two alignment, size a multiple of it)
pub uninterp spec fn ty_size<P>(t: &Type<P>, tcx: &TypeContext) -> usize;
pub uninterp spec fn ty_align<P>(t: &Type<P>, tcx: &TypeContext) -> usize;
pub uninterp spec fn ty_sc<P>(t: &Type<P>, tcx: &TypeContext) -> ScalarCount;
pub open spec fn ty_ok<P>(t: &Type<P>, tcx: &TypeContext) -> bool { pow2(ty_align(t, tcx)) && ty_size(t, tcx) % ty_align(t, tcx) == 0 && ty_size(t, tcx) <= 0x1000_0000 }
#[verifier::external_body]
pub fn type_size_alignment_and_scalar_count<P: TyPosition>(typ: &Type<P>, tcx: &TypeContext) -> (r: (Layout, ScalarCount))
    ensures lsize(r.0) == ty_size(typ, tcx), lalign(r.0) == ty_align(typ, tcx), r.1 == ty_sc(typ, tcx), ty_ok(typ, tcx),
{ unimplemented!() }
""")
    it = src.item("type_size_alignment_and_scalar_count", "fn")
    body = src.slice(it["start"], it["end"])
    m = re.search(r"Type::DiplomatOption\((\w+)\)\s*=>\s*\{", body)
    if not m:
        raise Undecided("anchor-lost", "type_size_alignment_and_scalar_count: `Type::DiplomatOption(inner) => {` arm not found")
    inner = m.group(1)
    o = m.end() - 1
    c = match_close(body, o)
    a, b = it["start"] + o + 1, it["start"] + c
    frag = {"path": it["path"] + "#Type::DiplomatOption arm", "kind": "stmt", "start": a, "after_attrs": a, "end": b, "loops": []}
    org = {"file": F, "item": frag["path"], "line": src.line_of(a), "end_line": src.line_of(b)}
    p = Piece(src, frag)
    p.fn("E5", rule_panics, why="unimplemented! becomes an obligation")
    p.fn("E5", rule_asserts, why="debug_assert! becomes an obligation")
    vf.add("// E15: body of the `Type::DiplomatOption(inner)` arm as a function of the payload type\n"
           f"fn js_option_layout<P: TyPosition>({inner}: &Type<P>, tcx: &TypeContext, typ: &Type<P>) -> (r: (Layout, ScalarCount))\n"
           f"    ensures {CANARY}\n"
           f"        lsize(r.0) == ty_size({inner}, tcx) + ty_align({inner}, tcx), lalign(r.0) == ty_align({inner}, tcx), r.1 == ScalarCount::Memory,\n{{", origin=org)
    vf.add(p.render(), origin=org, edits=p.log)
    vf.add("}\n", origin=org)
    vf.functions.append({"path": frag["path"], "file": F, "line": src.line_of(a), "end_line": src.line_of(b), "engine": "verus", "mode": "verus (match arm body)", "bound": "none"})
    vf.expected.append("js_option_layout")
    vf.add(vhelp.FOOTER)
    return vf


ASSUMPTIONS = [
    "the recursive call is used through the callee contract of unit layout_arith (ty_ok); std Layout::{size, align, from_size_align} contracts assumed",
    "no precondition excludes a zero-sized payload: lowering rejects zero-sized structs as method ARGUMENTS only; an #[diplomat::out] struct may carry DiplomatOption<ZeroSized>",
]
UNVERIFIED = {"C08": [], "C15": []}
