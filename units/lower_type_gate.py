"""V lower_type_gate: LoweringContext::lower_type (verbatim, ~290 lines) accepts exactly the documented input-position shapes."""
import os
import re
from rsrc import Src, Piece, rule_panics, rule_format_msgs, match_close, code_positions, unfold_maps_after
from verus_engine import VerusFile, CANARY
from common import Undecided, VERIF, read
import vhelp

NAME = "lower_type_gate"
ENGINE = "verus"
PROPERTIES = {"C05": "input-position gate: lower_type returns Ok exactly for the documented shapes and pushes an error on every rejection",
              "C15": "the expect/unreachable! sites of lower_type are unreachable under the LookupId contract",
              "C10": "Option<&Opaque> lowers to an optional opaque (null niche), other options to DiplomatOption",
              "C13": "unsupported backend features (option/callbacks/traits/static_slices) push an error",
              "C01": "the gate lowers a primitive to the HIR primitive of the same AST primitive and core::cmp::Ordering to i8 (what the macro compiles), so the C backend renders the compiled width",
              "C07": "same clause: Dart/Kotlin tables are indexed by the primitive the macro compiled (Ordering == i8)"}
F = "core/src/hir/lowering.rs"
TYPES = "core/src/ast/types.rs"

LT_CONTRACT = f"""        ensures {CANARY}
            res.is_ok() == allowed_in(&old(self).lookup_id, *ty, *in_path, *old(self).env, in_struct),
            final(self).env == old(self).env, final(self).lookup_id == old(self).lookup_id,
            final(self).attr_validator == old(self).attr_validator, final(self).cfg == old(self).cfg,
            final(self).errors.errors@.len() >= old(self).errors.errors@.len(),
            res.is_err() ==> final(self).errors.errors@.len() > old(self).errors.errors@.len(),
            // C10: an optional reference to an opaque is an optional opaque pointer, not a DiplomatOption
            res.is_ok() && (*ty is Option) ==> (opt_is_ref(*ty) ==> opaque_optional(res) == Some(true)) && (!opt_is_ref(*ty) ==> res.unwrap() is DiplomatOption),
            res.is_ok() && (*ty is Reference) ==> opaque_optional(res) == Some(false),
            // C01/C07: a primitive lowers to the HIR primitive of the same AST primitive (no width/sign change in the gate)
            res.is_ok() ==> match *ty {{ ast::TypeName::Primitive(p) => prim_of(res) == Some(spec_prim_from_ast(p)), _ => true }},
            // C13: a feature the backend does not support is reported
            unsupported_feature_used(*ty, old(self).attr_validator.attrs_supported_spec()) ==> final(self).errors.errors@.len() > old(self).errors.errors@.len(),
        decreases ty,"""

LOOP_INV = """                    invariant
                        *ty == ast::TypeName::Function(*input_types, *out_type, *_mutability),
                        self.env == old(self).env, self.lookup_id == old(self).lookup_id,
                        self.attr_validator == old(self).attr_validator, self.cfg == old(self).cfg,
                        self.errors.errors@.len() >= old(self).errors.errors@.len(),
                        !old(self).attr_validator.attrs_supported_spec().callbacks ==> self.errors.errors@.len() > old(self).errors.errors@.len(),
                        forall|i: int| 0 <= i < it.index@ ==> cb_param_ok(*#[trigger] input_types@[i], *in_path, *old(self).env),"""
LOOP_HINT = """                    proof {
                        assert(in_ty == input_types@[it.index@]);
                        if !cb_param_ok(**in_ty, *in_path, *old(self).env) {
                            assert(!cb_param_ok(*input_types@[it.index@], *in_path, *old(self).env));
                            assert(!all_cb_ok(input_types@, *in_path, *old(self).env));
                            assert(*ty == ast::TypeName::Function(*input_types, *out_type, *_mutability));
                            assert(!allowed_in(&old(self).lookup_id, *ty, *in_path, *old(self).env, in_struct));
                        }
                    }"""

EXTRA_SPECS = r"""
// ---- C10 / C13 observers
pub open spec fn opt_is_ref(t: ast::TypeName) -> bool {
    match t { ast::TypeName::Option(inner, _) => *inner is Reference, _ => false }
}
pub open spec fn prim_of<P: TyPosition<StructPath = StructPath, OpaqueOwnership = Borrow>>(r: Result<Type<P>, ()>) -> Option<PrimitiveType> {
    match r { Ok(Type::Primitive(p)) => Some(p), _ => None }
}
pub open spec fn opaque_optional<P: TyPosition<StructPath = StructPath, OpaqueOwnership = Borrow>>(r: Result<Type<P>, ()>) -> Option<bool> {
    match r { Ok(Type::Opaque(p)) => Some(p.optional.0), _ => None }
}
// a feature-gated shape at the top of the type (the gate reports these even though it still returns Ok)
pub open spec fn unsupported_feature_used(t: ast::TypeName, s: BackendAttrSupport) -> bool {
    match t {
        ast::TypeName::ImplTrait(_) => !s.traits,
        ast::TypeName::Function(..) => !s.callbacks,
        ast::TypeName::Option(inner, _) => ((*inner is Primitive) && !s.option) || (static_slice(*inner) && !s.static_slices),
        t2 => static_slice(t2) && !s.static_slices,
    }
}
// a borrowed slice / str with the 'static lifetime (backends without static_slices support must get an error)
pub open spec fn static_slice(t: ast::TypeName) -> bool {
    match t {
        ast::TypeName::StrReference(Some(lt), _, _) => lt is Static,
        ast::TypeName::PrimitiveSlice(Some(lm), _, _) => lm.0 is Static,
        _ => false,
    }
}
"""


FRAME = """            final(self).env == old(self).env, final(self).lookup_id == old(self).lookup_id,
            final(self).attr_validator == old(self).attr_validator, final(self).cfg == old(self).cfg,
            final(self).errors.errors@.len() >= old(self).errors.errors@.len(),
            res.is_err() ==> final(self).errors.errors@.len() > old(self).errors.errors@.len(),"""

LOT_CONTRACT = f"""        ensures {CANARY}
            res.is_ok() == allowed_out(*ty, *in_path, *old(self).env, in_struct, in_result_option),
{FRAME}
            // C10: optional pointers stay (nullable) pointers, every other Option is a DiplomatOption
            res.is_ok() && (*ty is Option) ==> (opt_is_ptr(*ty) ==> out_opaque_optional(res) == Some(true)) && (!opt_is_ptr(*ty) ==> res.unwrap() is DiplomatOption),
            res.is_ok() && ((*ty is Reference) || (*ty is Box)) ==> out_opaque_optional(res) == Some(false),
            // C01/C07: primitives keep their AST primitive; core::cmp::Ordering is returned as i8 (what the macro's ffi_safe_version compiles)
            res.is_ok() ==> match *ty {{
                ast::TypeName::Primitive(p) => out_prim_of(res) == Some(spec_prim_from_ast(p)),
                ast::TypeName::Ordering => out_prim_of(res) == Some(PrimitiveType::Int(IntType::I8)),
                _ => true }},
            // C03: Box<Opaque> is handed out owned, &Opaque borrowed
            res.is_ok() && (*ty is Box || opt_inner_is_box(*ty)) ==> out_opaque_owned(res) == Some(true),
            res.is_ok() && (*ty is Reference || opt_is_ref(*ty)) ==> out_opaque_owned(res) == Some(false),
        decreases ty,"""

LSP_CONTRACT = f"""        ensures {CANARY}
            res.is_ok() == self_ok(&old(self).lookup_id, *self_param, *in_path, *old(self).env),
{FRAME}
            res.is_ok() ==> match ast::spec_resolve(self_param.path_type, *in_path, *old(self).env) {{
                ast::CustomType::Struct(_) => res.unwrap().0.ty is Struct,
                ast::CustomType::Opaque(_) => res.unwrap().0.ty is Opaque,
                ast::CustomType::Enum(_) => res.unwrap().0.ty is Enum,
            }},"""

LCP_CONTRACT = f"""        ensures {CANARY}
            res.is_ok() == cb_param_ok(*ty, *in_path, *old(self).env),
{FRAME}"""

LRT_CONTRACT = f"""        ensures {CANARY}
            res.is_ok() == return_ok(rt_view(return_type), *in_path, *old(self).env),
{FRAME}
            // C10: Result only at top level -> Fallible; Option<pointer> -> Infallible (nullable pointer); other Option -> Nullable;
            // a unit success arm is Write exactly when the method takes a DiplomatWrite
            res.is_ok() ==> return_shape(rt_view(return_type), takes_write, res.unwrap().0),"""

OUT_SPECS = r"""
pub open spec fn opt_is_ptr(t: ast::TypeName) -> bool {
    match t { ast::TypeName::Option(inner, _) => (*inner is Reference) || (*inner is Box), _ => false }
}
pub open spec fn opt_inner_is_box(t: ast::TypeName) -> bool {
    match t { ast::TypeName::Option(inner, _) => *inner is Box, _ => false }
}
pub open spec fn out_opaque_optional(r: Result<OutType, ()>) -> Option<bool> {
    match r { Ok(Type::Opaque(p)) => Some(p.optional.0), _ => None }
}
pub open spec fn out_prim_of(r: Result<OutType, ()>) -> Option<PrimitiveType> {
    match r { Ok(Type::Primitive(p)) => Some(p), _ => None }
}
pub open spec fn out_opaque_owned(r: Result<OutType, ()>) -> Option<bool> {
    match r { Ok(Type::Opaque(p)) => Some(p.owner is Own), _ => None }
}
pub open spec fn rt_view(rt: Option<&ast::TypeName>) -> Option<ast::TypeName> {
    match rt { Some(t) => Some(*t), None => None }
}
pub open spec fn wu(takes_write: bool) -> SuccessType { if takes_write { SuccessType::Write } else { SuccessType::Unit } }
pub open spec fn return_shape(rt: Option<ast::TypeName>, takes_write: bool, r: ReturnType) -> bool {
    match rt {
        None => r == ReturnType::Infallible(wu(takes_write)),
        Some(ast::TypeName::Unit) => r == ReturnType::Infallible(wu(takes_write)),
        Some(ast::TypeName::Result(ok, err, _)) => (r is Fallible)
            && ((*ok is Unit) ==> r->Fallible_0 == wu(takes_write)) && (!(*ok is Unit) ==> r->Fallible_0 is OutType)
            && ((*err is Unit) == (r->Fallible_1 is None)),
        Some(ast::TypeName::Option(v, _)) =>
            if (*v is Box) || (*v is Reference) { (r is Infallible) && (r->Infallible_0 is OutType) }
            else { (r is Nullable) && ((*v is Unit) ==> r->Nullable_0 == wu(takes_write)) && (!(*v is Unit) ==> r->Nullable_0 is OutType) },
        Some(_) => (r is Infallible) && (r->Infallible_0 is OutType),
    }
}
"""


def e10_result_maps(text):
    """E10/E14: `self.lower_out_type(..).map(F).map(G)` and the trailing `.map(|r_ty| ..)` unfolded to matches."""
    pairs = []
    # inner chains
    while True:
        hit = None
        for m in re.finditer(r"self\s*\.lower_out_type\(", text):
            o = m.end() - 1
            c = match_close(text, o)
            r = unfold_maps_after(text, m.start(), c + 1, "Result")
            if r:
                hit = r
                break
        if not hit:
            break
        text, b, a = hit
        pairs.append((b, a))
    return text, pairs


def e10_trailing_map(piece_item, src):
    """the function's tail expression `match .. { .. }.map(|r_ty| ..)`: receiver = the match expression."""
    def f(text):
        # last top-level `.map(` in the body: find the final "}\n        .map(" pattern
        ms = list(re.finditer(r"\}\s*\.map\(", text))
        if not ms:
            raise Undecided("edit-mismatch", "E10: trailing .map on the match expression not found")
        m = ms[-1]
        recv_end = m.start() + 1
        # receiver start: the `match` keyword that opens this brace
        # walk back: find matching open brace of the `}` at m.start()
        depth = 0
        i = m.start()
        # simple backwards brace matching (no braces in strings after E6)
        while i >= 0:
            ch = text[i]
            if ch == "}":
                depth += 1
            elif ch == "{":
                depth -= 1
                if depth == 0:
                    break
            i -= 1
        if i < 0:
            raise Undecided("edit-mismatch", "E10: cannot find the start of the tail match")
        ms2 = list(re.finditer(r"\bmatch\b", text[:i]))
        if not ms2:
            raise Undecided("edit-mismatch", "E10: cannot find the tail match keyword")
        recv_start = ms2[-1].start()
        r = unfold_maps_after(text, recv_start, recv_end, "Result")
        if not r:
            raise Undecided("edit-mismatch", "E10: no trailing map")
        t2, b, a = r
        return t2, [(b[-120:], a[-200:])]
    return f


def e6_messages(text):
    """E6: error-message construction -> opaque __msg(); message text dropped, error presence kept."""
    pairs = []
    text, p1 = rule_format_msgs(text)
    pairs += p1
    # string-literal messages: "...".into() / "...".to_string() (possibly spread over lines inside LoweringError::Other( .. ))
    pat = re.compile(r'"(?:[^"\\]|\\.)*"\s*\.(?:into|to_string)\(\)', re.S)
    out = []
    pos = 0
    for m in pat.finditer(text):
        out.append(text[pos:m.start()])
        out.append("__msg()")
        pairs.append((m.group(0), "__msg()"))
        pos = m.end()
    out.append(text[pos:])
    return "".join(out), pairs


def e10_closures(text):
    """E10: OPT.as_ref().map(|PAT| EXPR) where EXPR uses the &mut lifetime lowerer -> explicit match."""
    pairs = []
    pat = re.compile(r"(\w+)\s*\.as_ref\(\)\s*\.map\(\|([^|]+)\|\s*")
    while True:
        m = None
        for mm in pat.finditer(text):
            m = mm
            break
        if not m:
            break
        # find the closing paren of .map(
        open_idx = text.rfind("(", m.start(), m.end())
        # the `(` of `.map(`: search backwards from m.end() for ".map("
        k = text.rfind(".map(", m.start(), m.end()) + 4
        close = match_close(text, k)
        expr = text[m.end():close].strip()
        opt = m.group(1)
        patn = m.group(2).strip()
        new = f"(match {opt} {{ Some({patn}) => Some({expr}), None => None }})"
        pairs.append((text[m.start():close + 1], new))
        text = text[:m.start()] + new + text[close + 1:]
    return text, pairs


def e14_ctor_fn(text):
    pairs = []
    pat = re.compile(r"\.map\((SuccessType::OutType|Some|ReturnType::Infallible|ReturnType::Nullable)\)")

    def r(m):
        new = f".map(|v__| {m.group(1)}(v__))"
        pairs.append((m.group(0), new))
        return new
    text = pat.sub(r, text)
    return text, pairs


def common_body_edits(p):
    p.sub("E2", r"!(\w+)\.is_ffi_safe\(\)", r"!__is_ffi_safe(\1)", count=None, why="TypeName::is_ffi_safe: contract proved in unit ffi_safe")
    p.sub("E6", r"[ \t]*let ffisafe = \w+\.ffi_safe_version\(\);\n", "", count=None, why="only used in the error message")
    p.fn("E6", e6_messages, why="error message text dropped; error presence kept")
    p.fn("E5", rule_panics, why="panic site becomes an obligation: unreachable")
    p.fn("E10", e10_closures, why="closure capturing &mut unfolded to a match (definition of Option::map)")
    p.sub("E12", r"super::MaybeStatic", "MaybeStatic", count=None, why="path re-rooted")


def ast_types(vf_parts, types, lts, paths):
    pass


def build(tier):
    vf = VerusFile(NAME)
    src = Src(F)
    types = Src(TYPES)
    lts = Src("core/src/ast/lifetimes.rs")
    paths = Src("core/src/ast/paths.rs")
    prelude = read(os.path.join(VERIF, "units/prelude/lower_type_gate.rs"))
    a, rest = prelude.split("/*@TOP_ENUMS@*/")
    b, c = rest.split("/*@AST_TYPES@*/")
    c0, c = c.split("/*@AST_SELFPARAM@*/")
    vf.add(vhelp.HEADER)
    vf.add(a)
    vhelp.typedef(vf, types, "Mutability", "enum", derive=vhelp.FIELDLESS_DERIVE)
    vhelp.typedef(vf, types, "StdlibOrDiplomat", "enum", derive=vhelp.FIELDLESS_DERIVE)
    vf.add(b)
    vhelp.typedef(vf, lts, "NamedLifetime", "struct", pub_tuple_fields=True)
    vhelp.typedef(vf, lts, "Lifetime", "enum")
    vhelp.typedef(vf, paths, "Path", "struct")
    vhelp.typedef(vf, types, "PathType", "struct")
    vhelp.typedef(vf, types, "StringEncoding", "enum", derive="#[derive(Copy, Clone)]")
    vhelp.typedef(vf, types, "PrimitiveType", "enum", derive="#[derive(Copy, Clone)]")
    vhelp.typedef(vf, types, "TypeName", "enum")
    vf.add("    impl TypeName {\n")
    p = Piece(types, types.item("impl TypeName::is_self", "fn"))
    p.contract("        ensures r == (*self is SelfType),", ret_name="r")
    vf.add_piece(p)
    vf.add("    }\n")
    vf.add(c0)
    methods = Src("core/src/ast/methods.rs")
    vhelp.typedef(vf, methods, "SelfParam", "struct")
    # splice extra specs + the function under proof after the prelude's `impl LoweringContext {` opening
    head, tail = c.rsplit("impl<'ast, V: AttributeValidator> LoweringContext<'ast, V> {", 1)
    vf.add(head)
    vf.add(EXTRA_SPECS)
    vf.add(OUT_SPECS)
    vf.add("impl<'ast, V: AttributeValidator> LoweringContext<'ast, V> {" + tail)
    it = src.item("impl LoweringContext<'ast>::lower_type", "fn")
    p = Piece(src, it)
    p.expect_loops(1)
    p.contract(LT_CONTRACT, ret_name="res")
    p.loop_spec(0, LOOP_INV, iter_name="it")
    p.loop_body_prefix(0, LOOP_HINT)
    common_body_edits(p)
    vf.add_piece(p, expected="lower_type")

    it = src.item("impl LoweringContext<'ast>::lower_out_type", "fn")
    p = Piece(src, it)
    p.expect_loops(0)
    p.contract(LOT_CONTRACT, ret_name="res")
    common_body_edits(p)
    vf.add_piece(p, expected="lower_out_type")

    it = src.item("impl LoweringContext<'ast>::lower_callback_param", "fn")
    p = Piece(src, it)
    p.contract(LCP_CONTRACT, ret_name="res")
    p.sub("E7", r"ty\s*\.lifetimes\(\)\s*\.any\(\|lt\| matches!\(lt, super::MaybeStatic::NonStatic\(\.\.\)\)\)", "__type_has_nonstatic_lifetime(&ty)", count=1,
          why="iterator adapter abstracted: only decides whether an extra error is pushed")
    common_body_edits(p)
    vf.add_piece(p, expected="lower_callback_param")

    it = src.item("impl LoweringContext<'ast>::lower_return_type", "fn")
    p = Piece(src, it)
    p.contract(LRT_CONTRACT, ret_name="res")
    (a0, a1) = it["params"][3]
    if not src.slice(a0, a1).startswith("mut return_ltl:"):
        raise Undecided("anchor-lost", "lower_return_type: parameter `mut return_ltl` not found")
    common_body_edits(p)
    p.fn("E10", e10_result_maps, why="Result::map unfolded to a match (closure/constructor results must be visible to the proof)")
    p.fn("E10", e10_trailing_map(it, src), why="Result::map on the tail match unfolded")
    vf.add_piece(p, expected="lower_return_type")

    it = src.item("impl LoweringContext<'ast>::lower_self_param", "fn")
    p = Piece(src, it)
    p.contract(LSP_CONTRACT, ret_name="res")
    common_body_edits(p)
    vf.add_piece(p, expected="lower_self_param")
    vf.add("}\n")
    vf.add(vhelp.FOOTER)
    return vf


CANARY_FUNCTIONS = ["lower_type", "lower_out_type", "lower_callback_param", "lower_return_type", "lower_self_param"]
ASSUMPTIONS = [
    "collaborator types (StructPath, OpaquePath, Type<P>, Slice, Callback, TyPosition, LifetimeLowerer, BackendAttrSupport, ErrorStore) are re-declared in the unit prelude with the fields lower_type uses; ast::TypeName/PathType/Lifetime/PrimitiveType/... are extracted verbatim",
    "PathType::resolve is abstract: uninterpreted spec_resolve(path, in_path, env) (HashMap-based Env lookup not verified)",
    "LookupId contract (assumed; LookupId::new uses HashMap): every enum/opaque/trait of the env has an id; every struct has a struct id xor an out-struct id (is_in_struct)",
    "lower_callback_param is abstract: Ok iff cb_param_ok (uninterpreted), errors grow on Err",
    "LifetimeLowerer methods and PrimitiveType::from_ast are unconstrained (their results do not influence acceptance)",
    "E6: error message text dropped; E5: unreachable!/expect become obligations",
]
UNVERIFIED = {
    "C05": ["validate / validate_ty_in_method (post-lowering lifetime validation)", "attribute validation", "syn parsing (TypeName::from_syn)",
            "ErrorStore context attribution (set_item / set_subitem)"],
    "C15": [], "C10": [], "C13": [], "C01": [], "C07": [],
}
