"""V config_lang_sets: the per-language halves of Config::set — KotlinConfig::set, DemoConfig::set, JsConfig::set — and
SharedConfig::overrides_shared (which keys count as `<language>.<shared key>`).  A well-typed value for a known key replaces that
field and nothing else (=> the source applied later wins, field by field); unknown keys change nothing."""
import os
import re
from rsrc import Src, Piece, rule_match_strlits
from verus_engine import VerusFile, CANARY
from common import Undecided, VERIF, read
import vhelp

NAME = "config_lang_sets"
ENGINE = "verus"
PROPERTIES = {"C17": "kotlin.domain, kotlin.use_finalizers_not_cleaners, js.abi, demo_gen.*: setting a key replaces exactly that field (later source wins), other fields and unknown keys untouched; `<language>.<shared key>` is recognised for a dot-free language name"}
CFG = "tool/src/config.rs"
KT = "tool/src/kotlin/mod.rs"
JS = "tool/src/js/mod.rs"
DEMO = "tool/src/demo_gen/mod.rs"

PRELUDE = r"""
pub enum Value { String(Str), Boolean(bool), Other(u8) }
impl Value {
    pub fn is_str(&self) -> (r: bool) ensures r == (*self is String) { matches!(self, Value::String(_)) }
    pub fn is_bool(&self) -> (r: bool) ensures r == (*self is Boolean) { matches!(self, Value::Boolean(_)) }
    pub fn as_str(&self) -> (r: Option<&Str>) ensures r == (match *self { Value::String(s) => Some(&s), _ => None::<&Str> }) { match self { Value::String(s) => Some(s), _ => None } }
    pub fn as_bool(&self) -> (r: Option<bool>) ensures r == (match *self { Value::Boolean(b) => Some(b), _ => None::<bool> }) { match self { Value::Boolean(b) => Some(*b), _ => None } }
    // value.as_str().unwrap_or_default()
    pub fn as_str_or_empty(&self) -> (r: Str) ensures r@ == str_or_empty(*self) { match self { Value::String(s) => *s, _ => Str::empty() } }
}
pub mod toml { pub use super::Value; }
pub open spec fn str_or_empty(v: Value) -> Seq<u8> { match v { Value::String(s) => s@, _ => Seq::<u8>::empty() } }
pub open spec fn opt_str(v: Value) -> Option<Str> { match v { Value::String(s) => Some(s), _ => None } }
pub open spec fn opt_bool(v: Value) -> Option<bool> { match v { Value::Boolean(b) => Some(b), _ => None } }
"""

SPEC = r"""
// ---- oracles: a key names one field; setting it replaces that field's value and nothing else
pub open spec fn kotlin_set(c: KotlinConfig, k: Seq<u8>, v: Value) -> KotlinConfig {
    if k == lit("domain") { if v is String { KotlinConfig { domain: opt_str(v), ..c } } else { c } }
    else if k == lit("use_finalizers_not_cleaners") { KotlinConfig { use_finalizers_not_cleaners: opt_bool(v), ..c } }
    else { c }
}
pub open spec fn demo_set(c: DemoConfig, k: Seq<u8>, v: Value) -> DemoConfig {
    if k == lit("explicit_generation") { DemoConfig { explicit_generation: opt_bool(v), ..c } }
    else if k == lit("hide_default_renderer") { DemoConfig { hide_default_renderer: opt_bool(v), ..c } }
    else if k == lit("module_name") { DemoConfig { module_name: opt_str(v), ..c } }
    else if k == lit("relative_js_path") { DemoConfig { relative_js_path: opt_str(v), ..c } }
    else { c }
}
pub open spec fn js_set(c: JsConfig, k: Seq<u8>, v: Value) -> JsConfig {
    if k == lit("abi") { JsConfig { abi: (if str_or_empty(v) == lit("spec") { WasmABI::CSpec } else { WasmABI::Legacy }) } } else { c }
}
// `<language>.<shared key>`: what remains after the first `.`-separated segment is one of the two shared keys
pub open spec fn ov_shared(k: Seq<u8>) -> bool {
    let rest = flatten_from(spec_split(k, lit(".")), 1);
    rest == lit("lib_name") || rest == lit("unsafe_references_in_callbacks")
}
// meaning for a well-formed key: language name and key without dots
pub proof fn lemma_scoped_key(l: Seq<u8>, k: Seq<u8>)
    requires lit(".").len() > 0, forall|i: int| !occurs_at(l, lit("."), i), forall|i: int| !occurs_at(k, lit("."), i),
        forall|i: int| 0 <= i < l.len() ==> !occurs_at(l + lit(".") + k, lit("."), i),
    ensures ov_shared(l + lit(".") + k) == (k == lit("lib_name") || k == lit("unsafe_references_in_callbacks")),
{
    axiom_split_two(l, lit("."), k);
    let segs = seq![l, k];
    assert(flatten_from(segs, 2) =~= Seq::<u8>::empty());
    assert(flatten_from(segs, 1) =~= k) by { reveal_with_fuel(flatten_from, 3); }
}
"""


def str_edits(p):
    p.sub("E3s", r"(\w+): &str\b", r"\1: &Str", count=None, why="&str -> &Str")
    p.sub("E3s", r'(\bkey) == ("[^"]*")', r"\1.eq_lit(\2)", count=None, why="== on a string literal")
    p.sub("E3s", r"value\.as_str\(\)\.unwrap_or_default\(\)", "value.as_str_or_empty()", count=None, why="Option<&str>::unwrap_or_default(): \"\" when absent")
    p.fn("E3s", rule_match_strlits, why="match on string literals -> if / else-if chain in arm order")
    p.sub("E10", r"value\.as_str\(\)\.map\(\|(\w+)\| \1\.to_string\(\)\)", r"(match value.as_str() { Some(\1) => Some(\1.to_string()), None => None })", count=None,
          why="Option::map unfolded to its definition")


def build(tier):
    vf = VerusFile(NAME)
    vf.add(vhelp.HEADER)
    vf.add(read(os.path.join(VERIF, "units", "prelude", "str_model.rs")))
    vf.add(PRELUDE)
    kt, js, demo, cfg = Src(KT), Src(JS), Src(DEMO), Src(CFG)
    vhelp.typedef(vf, kt, "KotlinConfig", "struct", subs=[("E3s", r"Option<String>", "Option<Str>"), ("E1", r"\n    (domain|use_finalizers_not_cleaners):", r"\n    pub \1:")])
    vhelp.typedef(vf, demo, "DemoConfig", "struct", subs=[("E3s", r"Option<String>", "Option<Str>")])
    vhelp.typedef(vf, js, "WasmABI", "enum", subs=[("E2", r"\n\s*#\[(?:default|serde\([^\]]*\))\]", "")])
    vhelp.typedef(vf, js, "JsConfig", "struct", subs=[("E1", r"\n    abi:", r"\n    pub abi:")])
    vf.add("pub struct SharedConfig { pub x: u8 }\n")
    vf.add(SPEC)
    for (src, ty, oracle) in ((kt, "KotlinConfig", "kotlin_set"), (demo, "DemoConfig", "demo_set"), (js, "JsConfig", "js_set")):
        vf.add(f"impl {ty} {{\n")
        p = Piece(src, src.item(f"impl {ty}::set", "fn"))
        str_edits(p)
        p.contract(f"""        ensures {CANARY}
            *final(self) == {oracle}(*old(self), key@, value),""")
        vf.add_piece(p, expected="set")
        vf.add("}\n")
    vf.add("impl SharedConfig {\n")
    p = Piece(cfg, cfg.item("impl SharedConfig::overrides_shared", "fn"))
    p.sub("E3s", r"name: &str\b", "name: &Str", count=1, why="&str -> &Str")
    p.sub("E3s", r'let name: String = name\.split\(("[^"]*")\)\.skip\((\d+)\)\.collect\(\);', r"let name: Str = name.split_lit(\1).skip_collect(\2);", count=1,
          why="str::split(literal).skip(n).collect::<String>() -> the segments, then the concatenation of all but the first n")
    p.sub("E3s", r'matches!\(name\.as_str\(\), ("[^"]*") \| ("[^"]*")\)', r"(name.eq_lit(\1) || name.eq_lit(\2))", count=1, why="matches! on string literals -> equality tests")
    p.contract(f"""        ensures {CANARY}
            r == ov_shared(name@),""", ret_name="r")
    vf.add_piece(p, expected="overrides_shared")
    vf.add("}\n")
    vf.add(vhelp.FOOTER)
    return vf


CANARY_FUNCTIONS = ["set", "set", "set", "overrides_shared"]
ASSUMPTIONS = [
    "E3s: byte-sequence string model (units/prelude/str_model.rs) incl. str::split(literal) as an abstract segment function with the stated axiom for `L.K` with dot-free L and K (axiom_split_two), skip(n).collect::<String>() as concatenation of the remaining segments",
    "toml::Value re-declared with the variants inspected; `as_str().unwrap_or_default()` is \"\" for a non-string",
    "wrong-typed values: the oracles say what the code does (Kotlin `domain` keeps its value, every other field is cleared to None) — the property does not speak about them",
]
UNVERIFIED = {"C17": []}
