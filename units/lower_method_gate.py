"""V lower_method_gate: lower_param / lower_many_params / lower_method — a method is accepted only if every parameter,
the self parameter and the return type pass their gates; a DiplomatWrite is accepted only as the LAST parameter.
The five per-type gate functions are abstract here with exactly the contracts proved in unit lower_type_gate."""
import os
import re
from rsrc import Src, Piece
from verus_engine import VerusFile, CANARY
from common import Undecided, VERIF, read
import vhelp
import units.lower_type_gate as G

NAME = "lower_method_gate"
ENGINE = "verus"
PROPERTIES = {"C13": "methods whose attrs are disabled for the backend are skipped by lowering (absent from the backend's HIR), the others go through the gate",
              "C05": "method-level gate: Ok only if self, every non-write parameter and the return type are accepted; DiplomatWrite only as last parameter",
              "C06": "lower_method / lower_opaque copy the AST's abi_name / dtor_abi_name (the exported symbols) into the HIR unchanged (through lower_ident; OpaqueDef::new keeps its arguments apart)",
              "C15": "lower_method / lower_many_params / lower_param are panic-free"}
F = "core/src/hir/lowering.rs"
METHODS = "core/src/ast/methods.rs"

EXTRA_PRELUDE = r"""
// ---- additional collaborators of the method-level functions
pub struct InputOnly;
impl TyPosition for InputOnly {
    type OpaqueOwnership = Borrow; type StructPath = StructPath; type TraitPath = Never; type CallbackInstantiation = Never;
    #[verifier::external_body] fn build_callback(cb: Callback) -> Never { unimplemented!() }
    #[verifier::external_body] fn build_trait_path(t: TraitPath) -> Never { unimplemented!() }
}
pub struct Param { pub name: IdentBuf, pub ty: Type<InputOnly>, pub attrs: Attrs }
impl Param { pub fn new(name: IdentBuf, ty: Type<InputOnly>, attrs: Attrs) -> (r: Self) ensures r.ty == ty { Self { name, ty, attrs } } }
pub use ast::Docs;
#[derive(Copy, Clone)] pub struct TypeId(pub usize);
#[verifier::external_body] pub struct SpecialMethodPresence { x: u8 }
pub struct Method { pub docs: Docs, pub name: IdentBuf, pub abi_name: IdentBuf, pub lifetime_env: LifetimeEnv,
                    pub param_self: Option<ParamSelf>, pub params: Vec<Param>, pub output: ReturnType, pub attrs: Attrs }
impl<'ast> ParamLifetimeLowerer<'ast> {
    #[verifier::external_body] pub fn into_return_ltl(self) -> ReturnLifetimeLowerer<'ast> { unimplemented!() }
}
// derived PartialEq on ast::TypeName is structural (A-derive)
#[verifier::external_body]
pub fn __typename_eq(a: &ast::TypeName, b: &ast::TypeName) -> (r: bool) ensures r == (*a == *b) { unimplemented!() }
#[verifier::external_body]
pub fn __opt_typename_ne(a: &Option<ast::TypeName>, b: &Option<ast::TypeName>) -> (r: bool) ensures r == (*a != *b) { unimplemented!() }

pub assume_specification<T> [<[T]>::split_last] (s: &[T]) -> (r: Option<(&T, &[T])>)
    ensures s@.len() == 0 ==> r is None,
            s@.len() > 0 ==> r is Some && *r.unwrap().0 == s@[s@.len() - 1] && r.unwrap().1@ == s@.subrange(0, s@.len() - 1);

// ---- struct-level collaborators
pub struct StructField<P: TyPosition> { pub docs: Docs, pub name: IdentBuf, pub ty: Type<P>, pub attrs: Attrs }
pub type OutStructField = StructField<OutputOnly>;
pub struct StructDef { pub docs: Docs, pub name: IdentBuf, pub fields: Vec<StructField<Everywhere>>, pub methods: Vec<Method>, pub attrs: Attrs,
                       pub lifetimes: LifetimeEnv, pub special_method_presence: SpecialMethodPresence }
pub struct OutStructDef { pub docs: Docs, pub name: IdentBuf, pub fields: Vec<StructField<OutputOnly>>, pub methods: Vec<Method>, pub attrs: Attrs,
                          pub lifetimes: LifetimeEnv, pub special_method_presence: SpecialMethodPresence }
impl StructDef {
    pub fn new(docs: Docs, name: IdentBuf, fields: Vec<StructField<Everywhere>>, methods: Vec<Method>, attrs: Attrs, lifetimes: LifetimeEnv, special_method_presence: SpecialMethodPresence) -> (r: Self)
        ensures r.fields == fields, r.methods == methods, r.attrs == attrs
    { Self { docs, name, fields, methods, attrs, lifetimes, special_method_presence } }
}
impl OutStructDef {
    pub fn new(docs: Docs, name: IdentBuf, fields: Vec<StructField<OutputOnly>>, methods: Vec<Method>, attrs: Attrs, lifetimes: LifetimeEnv, special_method_presence: SpecialMethodPresence) -> (r: Self)
        ensures r.fields == fields, r.methods == methods, r.attrs == attrs
    { Self { docs, name, fields, methods, attrs, lifetimes, special_method_presence } }
}
pub enum TypeDef<'a> { Struct(&'a StructDef), OutStruct(&'a OutStructDef), Opaque(&'a OpaqueDef) }
impl<'a> TypeDef<'a> {
    // `TypeDef::from(&def)` (From impls): abstract
    #[verifier::external_body] pub fn from_struct(d: &'a StructDef) -> TypeDef<'a> { unimplemented!() }
    #[verifier::external_body] pub fn from_out_struct(d: &'a OutStructDef) -> TypeDef<'a> { unimplemented!() }
    #[verifier::external_body] pub fn from_opaque(d: &'a OpaqueDef) -> TypeDef<'a> { unimplemented!() }
}
impl SpecialMethodPresence { #[verifier::external_body] pub fn default() -> SpecialMethodPresence { unimplemented!() } }
#[derive(Copy, Clone)] pub enum SymbolId { TypeId(TypeId), TraitId(TraitId) }
// `item.id.try_into()?` (TryFrom<SymbolId> for TypeId, Error = ()): abstract
#[verifier::external_body] pub fn __symbol_to_type_id(id: SymbolId) -> (r: Result<TypeId, ()>) ensures (id is TypeId) ==> r is Ok { unimplemented!() }
// struct lifetimes are lowered by the AST env itself (no elision inside struct definitions)
impl<'x> LifetimeLowerer for &'x ast::LifetimeEnv {
    #[verifier::external_body] fn lower_lifetime(&mut self, lifetime: &ast::Lifetime) -> MaybeStatic<Lifetime> { unimplemented!() }
    #[verifier::external_body] fn lower_generics(&mut self, lifetimes: &[ast::Lifetime], type_generics: &ast::LifetimeEnv, is_self: bool) -> Lifetimes { unimplemented!() }
}
// ---- oracle (struct level)
pub open spec fn struct_fields_ok(l: &LookupId, st: &ast::Struct, in_path: ast::Path, env: Env) -> bool {
    forall|j: int| 0 <= j < st.fields@.len() ==> spec_ffi_safe((#[trigger] st.fields@[j]).1) && allowed_in(l, st.fields@[j].1, in_path, env, false)
}
pub open spec fn out_struct_fields_ok(st: &ast::Struct, in_path: ast::Path, env: Env) -> bool {
    // "struct fields FFI-safe" (property text) holds for out-structs as for input structs: the macro compiles both with the field types as written
    st.fields@.len() > 0 && forall|j: int| 0 <= j < st.fields@.len() ==> spec_ffi_safe((#[trigger] st.fields@[j]).1) && allowed_out(st.fields@[j].1, in_path, env, true, false)
}

// ---- oracle (method level)
pub open spec fn is_write_param(p: ast::Param) -> bool {
    match p.ty { ast::TypeName::Reference(_, m, w) => m == Mutability::Mutable && *w == ast::TypeName::Write, _ => false }
}
pub open spec fn spec_takes_write(m: &ast::Method) -> bool { m.params@.len() > 0 && is_write_param(m.params@[m.params@.len() - 1]) }
// the parameters that are lowered as ordinary inputs: all of them, minus a trailing DiplomatWrite
pub open spec fn input_params(m: &ast::Method) -> Seq<ast::Param> {
    if spec_takes_write(m) { m.params@.subrange(0, m.params@.len() - 1) } else { m.params@ }
}
pub open spec fn params_ok(l: &LookupId, ps: Seq<ast::Param>, in_path: ast::Path, env: Env) -> bool {
    forall|i: int| 0 <= i < ps.len() ==> allowed_in(l, (#[trigger] ps[i]).ty, in_path, env, false)
}
pub uninterp spec fn spec_lower_ident(i: ast::Ident) -> IdentBuf;
// return types whose success value is unit: (), Result<(), E>, Option<()> -- the shapes for which the HIR records SuccessType::Write
pub open spec fn unit_success(rt: Option<ast::TypeName>) -> bool {
    match rt {
        None => true,
        Some(ast::TypeName::Unit) => true,
        Some(ast::TypeName::Result(ok, _, _)) => *ok is Unit,
        Some(ast::TypeName::Option(v, _)) => *v is Unit,
        Some(_) => false,
    }
}
pub open spec fn method_ok(l: &LookupId, m: &ast::Method, in_path: ast::Path, env: Env) -> bool {
    &&& params_ok(l, input_params(m), in_path, env)
    &&& (m.self_param is Some ==> self_ok(l, m.self_param.unwrap(), in_path, env))
    &&& return_ok(m.return_type, in_path, env)
    // C01 / C05: the macro compiles the trailing DiplomatWrite as a real parameter of the extern "C" function; the HIR (what every backend declares the
    // function from) records it only as SuccessType::Write, so a write method whose success value is not unit would lose the parameter on the foreign side
    &&& (spec_takes_write(m) ==> unit_success(m.return_type))
}
// a DiplomatWrite anywhere but in last position is never an accepted input type
pub proof fn lemma_write_only_last(l: &LookupId, m: &ast::Method, in_path: ast::Path, env: Env, i: int)
    requires method_ok(l, m, in_path, env), 0 <= i < m.params@.len(), is_write_param(m.params@[i]),
    ensures i == m.params@.len() - 1,
{
    if i < input_params(m).len() {
        assert(input_params(m)[i] == m.params@[i]);
        assert(allowed_in(l, input_params(m)[i].ty, in_path, env, false));
        // &mut DiplomatWrite is a reference to a non-custom type: rejected by the input rules
        assert(!allowed_in(l, m.params@[i].ty, in_path, env, false));
    }
}
"""

LAM_SPECS = r"""
// ---- C13 at the lowering level: methods disabled for this backend are skipped entirely
pub open spec fn enabled_count<V: AttributeValidator>(v: &V, ms: Seq<ast::Method>, parent: Attrs, n: int) -> int
    decreases n
{
    if n <= 0 { 0 } else { enabled_count(v, ms, parent, n - 1) + (if v.disabled_spec(ms[n - 1].attrs, parent) { 0int } else { 1int }) }
}
"""

LAM_CONTRACT = f"""        ensures {CANARY}
            // every method that is NOT disabled for this backend went through the method gate
            res.is_ok() ==> forall|i: int| 0 <= i < ast_methods@.len() && !old(self).attr_validator.disabled_spec((#[trigger] ast_methods@[i]).attrs, *method_parent_attrs)
                ==> method_ok(&old(self).lookup_id, &ast_methods@[i], *in_path, *old(self).env),
            // disabled methods are absent from the backend's HIR (never lowered, never counted)
            res.is_ok() ==> res.unwrap()@.len() <= enabled_count(&*old(self).attr_validator, ast_methods@, *method_parent_attrs, ast_methods@.len() as int),
{G.FRAME}"""

LAM_INV = """            invariant
                self.env == old(self).env, self.lookup_id == old(self).lookup_id,
                self.attr_validator == old(self).attr_validator, self.cfg == old(self).cfg,
                self.errors.errors@.len() >= old(self).errors.errors@.len(),
                methods is Err ==> self.errors.errors@.len() > old(self).errors.errors@.len(),
                methods is Ok ==> (forall|i: int| 0 <= i < it.index@ && !old(self).attr_validator.disabled_spec((#[trigger] ast_methods@[i]).attrs, *method_parent_attrs)
                    ==> method_ok(&old(self).lookup_id, &ast_methods@[i], *in_path, *old(self).env)),
                methods is Ok ==> methods.unwrap()@.len() <= enabled_count(&*old(self).attr_validator, ast_methods@, *method_parent_attrs, it.index@ as int),"""

LAM_HINT = """            proof { assert(method == ast_methods@[it.index@]); }"""

ACCEPTED = "res.is_ok() && final(self).errors.errors@.len() == old(self).errors.errors@.len()"
LS_CONTRACT = f"""        requires item.id is TypeId, // lower_all_structs hands out type ids (a trait id would make `try_into()?` fail without an error message)
        ensures {CANARY}
            // accepted (Ok and no error reported) and not disabled for this backend ==> every field is FFI-safe as written and passes the input gate
            ({ACCEPTED}) && !old(self).attr_validator.disabled_spec(item.item.attrs, item.ty_parent_attrs)
                ==> struct_fields_ok(&old(self).lookup_id, item.item, *item.in_path, *old(self).env),
            // methods on zero-sized structs are rejected
            res.is_ok() && !old(self).attr_validator.disabled_spec(item.item.attrs, item.ty_parent_attrs) && item.item.fields@.len() == 0
                ==> item.item.methods@.len() == 0,
{G.FRAME}"""
LO_CONTRACT = f"""        requires item.id is TypeId,
        ensures {CANARY}
            // the destructor symbol computed on the AST side (unit opaque_dtor) and the type name reach the HIR unchanged (no mix-up of the two identifiers)
            res.is_ok() ==> res.unwrap().dtor_abi_name == spec_lower_ident(item.item.dtor_abi_name) && res.unwrap().name == spec_lower_ident(item.item.name),
{G.FRAME}"""
LOS_CONTRACT = f"""        requires item.id is TypeId,
        ensures {CANARY}
            res.is_ok() ==> item.item.fields@.len() > 0,
            // accepted (Ok and no error reported) and not disabled ==> every field is FFI-safe as written and passes the output gate
            ({ACCEPTED}) && !old(self).attr_validator.disabled_spec(item.item.attrs, item.ty_parent_attrs)
                ==> out_struct_fields_ok(item.item, *item.in_path, *old(self).env),
{G.FRAME}"""
LS_INV = """                invariant
                    self.env == old(self).env, self.lookup_id == old(self).lookup_id,
                    self.attr_validator == old(self).attr_validator, self.cfg == old(self).cfg,
                    self.errors.errors@.len() >= old(self).errors.errors@.len(),
                    ast_struct == item.item,
                    fields is Err ==> self.errors.errors@.len() > old(self).errors.errors@.len(),
                    // as long as no error was reported, all fields seen so far are FFI-safe and accepted
                    self.errors.errors@.len() == old(self).errors.errors@.len() ==>
                        (forall|j: int| 0 <= j < it.index@ ==> spec_ffi_safe((#[trigger] ast_struct.fields@[j]).1)
                            && allowed_in(&old(self).lookup_id, ast_struct.fields@[j].1, *item.in_path, *old(self).env, false)),"""
LOS_INV = """                    invariant
                        self.env == old(self).env, self.lookup_id == old(self).lookup_id,
                        self.attr_validator == old(self).attr_validator, self.cfg == old(self).cfg,
                        self.errors.errors@.len() >= old(self).errors.errors@.len(),
                        ast_out_struct == item.item,
                        name is Err ==> self.errors.errors@.len() > old(self).errors.errors@.len(),
                        fields is Err ==> self.errors.errors@.len() > old(self).errors.errors@.len(),
                        fields is Ok ==> (forall|j: int| 0 <= j < it.index@ ==> allowed_out((#[trigger] ast_out_struct.fields@[j]).1, *item.in_path, *old(self).env, true, false)),
                        self.errors.errors@.len() == old(self).errors.errors@.len() ==> (forall|j: int| 0 <= j < it.index@ ==> spec_ffi_safe((#[trigger] ast_out_struct.fields@[j]).1)),"""
TUPLE_HINT = """                    let (name, ty, docs, attrs) = (&f__.0, &f__.1, &f__.2, &f__.3);
                    proof { assert(f__ == {S}.fields@[it.index@]); }"""

ABSTRACT_GATES = """
    // ---- the per-type gate functions, abstract here: contracts proved on the real code in unit lower_type_gate
    #[verifier::external_body]
    fn lower_type<P: TyPosition<StructPath = StructPath, OpaqueOwnership = Borrow>>(&mut self, ty: &ast::TypeName, ltl: &mut impl LifetimeLowerer, in_struct: bool, in_path: &ast::Path) -> (res: Result<Type<P>, ()>)
        ensures
            res.is_ok() == allowed_in(&old(self).lookup_id, *ty, *in_path, *old(self).env, in_struct),
{FRAME}
    {{ unimplemented!() }}
    #[verifier::external_body]
    fn lower_self_param(&mut self, self_param: &ast::SelfParam, self_param_ltl: SelfParamLifetimeLowerer<'ast>, method_full_path: &ast::Ident, in_path: &ast::Path) -> (res: Result<(ParamSelf, ParamLifetimeLowerer<'ast>), ()>)
        ensures
            res.is_ok() == self_ok(&old(self).lookup_id, *self_param, *in_path, *old(self).env),
{FRAME}
    {{ unimplemented!() }}
    #[verifier::external_body]
    fn lower_return_type(&mut self, return_type: Option<&ast::TypeName>, takes_write: bool, return_ltl: ReturnLifetimeLowerer<'_>, in_path: &ast::Path) -> (res: Result<(ReturnType, LifetimeEnv), ()>)
        ensures
            res.is_ok() == return_ok(rt_view(return_type), *in_path, *old(self).env),
{FRAME}
            res.is_ok() ==> return_shape(rt_view(return_type), takes_write, res.unwrap().0),
    {{ unimplemented!() }}
    #[verifier::external_body]
    fn lower_out_type(&mut self, ty: &ast::TypeName, ltl: &mut impl LifetimeLowerer, in_path: &ast::Path, in_struct: bool, in_result_option: bool) -> (res: Result<OutType, ()>)
        ensures
            res.is_ok() == allowed_out(*ty, *in_path, *old(self).env, in_struct, in_result_option),
{FRAME}
    {{ unimplemented!() }}
    #[verifier::external_body]
    fn lower_type_lifetime_env(&mut self, ast: &ast::LifetimeEnv) -> (res: Result<LifetimeEnv, ()>)
        ensures
{FRAME}
    {{ unimplemented!() }}
    // lower_ident validates the identifier string (strck): a partial function of the identifier
    #[verifier::external_body]
    fn lower_ident(&mut self, ident: &ast::Ident, context: &'static str) -> (res: Result<IdentBuf, ()>)
        ensures
            res.is_ok() ==> res.unwrap() == spec_lower_ident(*ident),
{FRAME}
    {{ unimplemented!() }}
"""

SPLL = r"""
impl<'ast> SelfParamLifetimeLowerer<'ast> {
    // copies the AST lifetime env (unit `elision`); fails only if a lifetime name is not a valid identifier
    #[verifier::external_body]
    pub fn new<V: AttributeValidator>(lifetime_env: &'ast ast::LifetimeEnv, ctx: &mut LoweringContext<'ast, V>) -> (res: Result<Self, ()>)
        ensures
            final(ctx).env == old(ctx).env, final(ctx).lookup_id == old(ctx).lookup_id,
            final(ctx).attr_validator == old(ctx).attr_validator, final(ctx).cfg == old(ctx).cfg,
            final(ctx).errors.errors@.len() >= old(ctx).errors.errors@.len(),
            res.is_err() ==> final(ctx).errors.errors@.len() > old(ctx).errors.errors@.len(),
    { unimplemented!() }
}
"""

LP_CONTRACT = f"""        ensures {CANARY}
            res.is_ok() ==> allowed_in(&old(self).lookup_id, param.ty, *in_path, *old(self).env, false),
            !allowed_in(&old(self).lookup_id, param.ty, *in_path, *old(self).env, false) ==> res.is_err(),
{G.FRAME}"""

LMP_CONTRACT = f"""        ensures {CANARY}
            res.is_ok() ==> params_ok(&old(self).lookup_id, ast_params@, *in_path, *old(self).env),
            !params_ok(&old(self).lookup_id, ast_params@, *in_path, *old(self).env) ==> res.is_err(),
            res.is_ok() ==> res.unwrap().0@.len() == ast_params@.len(),
{G.FRAME}"""

LMP_INV = """            invariant
                self.env == old(self).env, self.lookup_id == old(self).lookup_id,
                self.attr_validator == old(self).attr_validator, self.cfg == old(self).cfg,
                self.errors.errors@.len() >= old(self).errors.errors@.len(),
                params is Ok ==> params_ok(&old(self).lookup_id, ast_params@.subrange(0, it.index@ as int), *in_path, *old(self).env)
                    && params.unwrap()@.len() == it.index@,
                params is Err ==> self.errors.errors@.len() > old(self).errors.errors@.len(),
                !params_ok(&old(self).lookup_id, ast_params@.subrange(0, it.index@ as int), *in_path, *old(self).env) ==> params is Err,"""

LMP_HINT = """            proof {
                assert(param == ast_params@[it.index@]);
                let s0 = ast_params@.subrange(0, it.index@ as int);
                let s1 = ast_params@.subrange(0, it.index@ + 1);
                assert(forall|i: int| 0 <= i < s0.len() ==> s0[i] == s1[i]);
                assert(s1[it.index@ as int] == ast_params@[it.index@]);
                if !params_ok(&old(self).lookup_id, s0, *in_path, *old(self).env) {
                    let i = choose|i: int| 0 <= i < s0.len() && !allowed_in(&old(self).lookup_id, (#[trigger] s0[i]).ty, *in_path, *old(self).env, false);
                    assert(!allowed_in(&old(self).lookup_id, s1[i].ty, *in_path, *old(self).env, false));
                }
            }"""

LM_CONTRACT = f"""        ensures {CANARY}
            res.is_ok() ==> method_ok(&old(self).lookup_id, method, *in_path, *old(self).env),
            !method_ok(&old(self).lookup_id, method, *in_path, *old(self).env) ==> res.is_err(),
            // the trailing DiplomatWrite selects the Write success type (and is not an ordinary parameter)
            // a write parameter is never silently dropped: the HIR method of a write method has the Write success type
            res.is_ok() && spec_takes_write(method) ==> res.unwrap().output.success_spec() == SuccessType::Write,
            res.is_ok() ==> return_shape(method.return_type, spec_takes_write(method), res.unwrap().output)
                && res.unwrap().params@.len() == input_params(method).len()
                && (res.unwrap().param_self is Some) == (method.self_param is Some),
            // the exported symbol computed on the AST side (unit method_abi_name) is what every backend reads from the HIR
            res.is_ok() ==> res.unwrap().abi_name == spec_lower_ident(method.abi_name) && res.unwrap().name == spec_lower_ident(method.name),
{G.FRAME}"""


def e17_continue(text):
    m = re.search(r"if ([^{};]+?) \{\s*continue;\s*\}", text)
    if not m:
        return text, []   # no `continue` guard: verify as written
    # wrap the remainder of the loop body in the else branch: the loop body ends at the brace that closes the for
    from rsrc import match_close
    fo = text.rfind("{", 0, m.start())
    # find the opening brace of the enclosing for-body: the nearest `{` whose matching close lies after the guard
    k = m.start()
    depth_open = None
    i = m.start() - 1
    while i >= 0:
        if text[i] == "{":
            try:
                c = match_close(text, i)
            except Exception:
                c = -1
            if c > m.end():
                depth_open = (i, c)
                break
        i -= 1
    if depth_open is None:
        raise Undecided("edit-mismatch", "E17: enclosing loop body not found")
    (bo, bc) = depth_open
    rest = text[m.end():bc]
    new = "if !(" + m.group(1) + ") {" + rest + "}\n        "
    return text[:m.start()] + new + text[bc:], [(m.group(0), "if !(" + m.group(1) + ") { <rest of loop body> }")]


def build(tier):
    vf = VerusFile(NAME)
    src = Src(F)
    types = Src(G.TYPES)
    lts = Src("core/src/ast/lifetimes.rs")
    paths = Src("core/src/ast/paths.rs")
    ms = Src(METHODS)
    hm = Src("core/src/hir/methods.rs")
    prelude = read(os.path.join(VERIF, "units/prelude/lower_type_gate.rs"))
    a, rest = prelude.split("/*@TOP_ENUMS@*/")
    b, c = rest.split("/*@AST_TYPES@*/")
    c0, c = c.split("/*@AST_SELFPARAM@*/")
    vf.add(vhelp.HEADER)
    vf.add(a)
    vhelp.typedef(vf, types, "Mutability", "enum", derive=vhelp.FIELDLESS_DERIVE)
    vhelp.typedef(vf, types, "StdlibOrDiplomat", "enum", derive=vhelp.FIELDLESS_DERIVE)
    vf.add(b)
    vhelp.typedef(vf, lts, "NamedLifetime", "struct", pub_tuple_fields=True)
    vhelp.typedef(vf, lts, "Lifetime", "enum")
    vhelp.typedef(vf, paths, "Path", "struct")
    vhelp.typedef(vf, types, "PathType", "struct")
    vhelp.typedef(vf, types, "StringEncoding", "enum", derive="#[derive(Copy, Clone)]")
    vhelp.typedef(vf, types, "PrimitiveType", "enum", derive="#[derive(Copy, Clone)]")
    vhelp.typedef(vf, types, "TypeName", "enum")
    vf.add("    impl TypeName {\n")
    p = Piece(types, types.item("impl TypeName::is_self", "fn"))
    p.contract("        ensures r == (*self is SelfType),", ret_name="r")
    vf.add_piece(p, under_contract=False)
    vf.add("    }\n")
    hand = "    pub struct Struct { pub fields: Vec<(Ident, TypeName)>, pub lifetimes: LifetimeEnv, pub name: Ident }\n"
    if hand not in c0:
        raise Undecided("prelude-mismatch", "hand-declared ast::Struct not found in the prelude")
    hand2 = "    pub struct OpaqueType { pub lifetimes: LifetimeEnv }\n"
    if hand2 not in c0:
        raise Undecided("prelude-mismatch", "hand-declared ast::OpaqueType not found in the prelude")
    vf.add(c0.replace(hand, "").replace(hand2, ""))
    vhelp.typedef(vf, Src("core/src/ast/structs.rs"), "Struct", "struct")
    vhelp.typedef(vf, Src("core/src/ast/opaque.rs"), "OpaqueType", "struct")
    vhelp.typedef(vf, ms, "SelfParam", "struct")
    vhelp.typedef(vf, ms, "Param", "struct")
    vf.add("    #[verifier::external_body] pub struct Docs { x: u8 }\n    impl Clone for Docs { #[verifier::external_body] fn clone(&self) -> Self { unimplemented!() } }\n"
           "    impl Ident { #[verifier::external_body] pub fn as_str(&self) -> &str { unimplemented!() } }\n")
    vhelp.typedef(vf, ms, "Method", "struct")
    vf.add("    impl Param {\n")
    p = Piece(ms, ms.item("impl Param::is_write", "fn"))
    p.contract("        ensures r == super::is_write_param(*self),", ret_name="r")
    p.sub("E2", r"\*\*w == TypeName::Write", "super::__typename_eq(&**w, &TypeName::Write)", count=1, why="derived PartialEq on TypeName: structural equality stub (A-derive)")
    vf.add_piece(p, expected="is_write")
    vf.add("    }\n")
    head, tail = c.rsplit("impl<'ast, V: AttributeValidator> LoweringContext<'ast, V> {", 1)
    # hir Attrs needs a visible special_method field here
    head = head.replace("#[verifier::external_body] pub struct Attrs { x: u8 }\nimpl Attrs { #[verifier::external_body] pub fn default() -> Attrs { unimplemented!() } }",
                        "#[verifier::external_body] pub struct AttrsRest { x: u8 }\n#[derive(Copy, Clone)] pub enum SpecialMethod { Constructor, Comparison, Other }\n"
                        "pub struct Attrs { pub disable: bool, pub special_method: Option<SpecialMethod>, pub rest: AttrsRest }\n"
                        "impl Attrs { #[verifier::external_body] pub fn default() -> Attrs { unimplemented!() } }")
    head = head.replace("#[derive(Copy, Clone)] pub enum AttributeContext { SelfParam, Param, Other }",
                        "pub enum AttributeContext<'a> { SelfParam, Param, Other, Field, Type(TypeDef<'a>), Method(&'a Method, TypeId, &'a mut SpecialMethodPresence) }")
    head = head.replace("""    fn attr_from_ast(&self, ast: &ast::Attrs, parent_attrs: &Attrs, errors: &mut ErrorStore) -> (r: Attrs)
        ensures final(errors).errors@.len() >= old(errors).errors@.len();""", """    // whether the item is disabled for this backend: decided by Attrs::from_ast (cfg evaluation: unit cfg_eval); abstract here
    spec fn disabled_spec(&self, ast: ast::Attrs, parent_attrs: Attrs) -> bool;
    fn attr_from_ast(&self, ast: &ast::Attrs, parent_attrs: &Attrs, errors: &mut ErrorStore) -> (r: Attrs)
        ensures final(errors).errors@.len() >= old(errors).errors@.len(), r.disable == self.disabled_spec(*ast, *parent_attrs);""")
    head = head.replace("""    { self.errors.push(error); }
}""", """    { self.errors.push(error); }
    #[verifier::external_body]
    pub fn set_subitem(&mut self, subitem: &str) ensures final(self).errors == old(self).errors { unimplemented!() }
    #[verifier::external_body]
    pub fn set_item(&mut self, item: &str) ensures final(self).errors == old(self).errors { unimplemented!() }
}""")
    if "disabled_spec" not in head or "set_subitem" not in head:
        raise Undecided("prelude-mismatch", "lower_type_gate prelude changed shape (attr_from_ast / ErrorStore)")
    if "AttributeContext<'a>" not in head or "pub struct Attrs { pub disable" not in head:
        raise Undecided("prelude-mismatch", "lower_type_gate prelude changed shape")
    head = head.replace("fn validate(&self, attrs: &Attrs, context: AttributeContext, errors: &mut ErrorStore)",
                        "fn validate(&self, attrs: &Attrs, context: AttributeContext<'_>, errors: &mut ErrorStore)")
    vf.add(head)
    vf.add(G.EXTRA_SPECS)
    vf.add(G.OUT_SPECS)
    vf.add(EXTRA_PRELUDE)
    vf.add(SPLL)
    vf.add(LAM_SPECS)
    ii = src.item("ItemAndInfo", "struct")
    pi = Piece(src, ii)
    pi.sub("E1", r"pub\(crate\)", "pub", count=None)
    vf.add_piece(pi, under_contract=False)
    vf.add("impl<'ast, V: AttributeValidator> LoweringContext<'ast, V> {" + tail)
    vf.add(ABSTRACT_GATES.format(FRAME=G.FRAME))

    p = Piece(src, src.item("impl LoweringContext<'ast>::lower_param", "fn"))
    p.contract(LP_CONTRACT, ret_name="res")
    G.common_body_edits(p)
    vf.add_piece(p, expected="lower_param")

    it = src.item("impl LoweringContext<'ast>::lower_many_params", "fn")
    p = Piece(src, it)
    p.expect_loops(1)
    p.contract(LMP_CONTRACT, ret_name="res")
    (a0, a1) = it["params"][2]
    if not src.slice(a0, a1).startswith("mut param_ltl:"):
        raise Undecided("anchor-lost", "lower_many_params: parameter `mut param_ltl` not found")
    p.replace("E13", a0, a1, "param_ltl__0:" + src.slice(a0, a1)[len("mut param_ltl:"):], "mutable by-value parameter")
    p.body_prefix("        let mut param_ltl = param_ltl__0;", rule="E13")
    p.loop_spec(0, LMP_INV, iter_name="it")
    p.loop_body_prefix(0, LMP_HINT)
    p.insert("E4", it["loops"][0]["end"], "\n        proof { assert(ast_params@.subrange(0, ast_params@.len() as int) =~= ast_params@); }\n", "ghost hint after the loop")
    p.sub("E7", r"in it: ast_params \{", "in it: ast_params.iter() {", count=None, why="`for x in slice` spelled `slice.iter()`")
    p.fn("E17", e17_continue, why="`continue` in a for loop is unsupported by Verus: `if c { continue; } REST` rewritten to `if !c { REST }` (no-op when absent)")
    G.common_body_edits(p)
    vf.add_piece(p, expected="lower_many_params")

    it = src.item("impl LoweringContext<'ast>::lower_method", "fn")
    p = Piece(src, it)
    p.expect_loops(0)
    p.contract(LM_CONTRACT, ret_name="res")
    p.sub("E7", r"&method\.params\[\.\.\]", "method.params.as_slice()", count=1, why="`&v[..]` spelled `v.as_slice()`")
    p.sub("E7", r"method\.params\.split_last\(\)", "method.params.as_slice().split_last()", count=1, why="auto-deref Vec -> slice written out")
    p.sub("E2", r"method\.return_type != Some\(ast::TypeName::Ordering\)", "__opt_typename_ne(&method.return_type, &Some(ast::TypeName::Ordering))", count=1,
          why="derived PartialEq on Option<TypeName>: structural (A-derive)")
    p.sub("E4", r"(let self_param_ltl = SelfParamLifetimeLowerer::new\(&method\.lifetime_env, self\)\?;)",
          lambda m: "proof { assert(takes_write == spec_takes_write(method)); assert(ast_params@ == input_params(method)); }\n        " + m.group(1), count=1, why="ghost: link the split to the oracle")
    G.common_body_edits(p)
    vf.add_piece(p, expected="lower_method")
    it = src.item("impl LoweringContext<'ast>::lower_all_methods", "fn")
    p = Piece(src, it)
    p.expect_loops(1)
    p.contract(LAM_CONTRACT, ret_name="res")
    p.loop_spec(0, LAM_INV, iter_name="it")
    p.loop_body_prefix(0, LAM_HINT)
    p.sub("E7", r"in it: ast_methods \{", "in it: ast_methods.iter() {", count=None, why="`for x in slice` spelled `slice.iter()`")
    p.fn("E17", e17_continue, why="`continue` in a for loop is unsupported by Verus: `if c { continue; } REST` rewritten to `if !c { REST }`")
    G.common_body_edits(p)
    vf.add_piece(p, expected="lower_all_methods")
    for fn, contract, inv, var in (("lower_struct", LS_CONTRACT, LS_INV, "ast_struct"), ("lower_out_struct", LOS_CONTRACT, LOS_INV, "ast_out_struct")):
        it = src.item(f"impl LoweringContext<'ast>::{fn}", "fn")
        p = Piece(src, it)
        p.expect_loops(1)
        p.contract(contract, ret_name="res")
        lp = it["loops"][0]
        if src.slice(lp["pat"][0], lp["pat"][1]) != "(name, ty, docs, attrs)":
            raise Undecided("anchor-lost", f"{fn}: field loop pattern changed")
        p.replace("E10", lp["pat"][0], lp["pat"][1], "f__", "tuple pattern in `for` destructured in the body")
        p.loop_spec(0, inv, iter_name="it")
        p.loop_body_prefix(0, TUPLE_HINT.replace("{S}", var))
        p.sub("E6", r"item\.id\.try_into\(\)\?", "__symbol_to_type_id(item.id)?", count=1, why="TryFrom<SymbolId> for TypeId abstracted")
        p.sub("E2", r"!ty\.is_ffi_safe\(\)", "!__is_ffi_safe(ty)", count=None, why="TypeName::is_ffi_safe: contract proved in unit ffi_safe")
        p.sub("E6", r"[ \t]*let ffisafe = ty\.ffi_safe_version\(\);\n", "", count=None, why="only used in the error message")
        p.sub("E12", r"AttributeContext::Type\(TypeDef::from\(&def\)\)", "AttributeContext::Type(TypeDef::from_struct(&def))" if fn == "lower_struct" else "AttributeContext::Type(TypeDef::from_out_struct(&def))", count=1, why="From impl selected by hand")
        p.sub("E7", r"&(ast_struct|ast_out_struct)\.methods\[\.\.\]", r"\1.methods.as_slice()", count=1, why="`&v[..]` spelled `v.as_slice()`")
        p.sub("E12", r"item: ItemAndInfo<'ast, ast::Struct>", "item: ItemAndInfo<'ast, ast::Struct>", count=1)
        G.common_body_edits(p)
        vf.add_piece(p, expected=fn)
    # ---- lower_opaque + OpaqueDef::new
    p = Piece(src, src.item("impl LoweringContext<'ast>::lower_opaque", "fn"))
    p.contract(LO_CONTRACT, ret_name="res")
    p.sub("E6", r"item\.id\.try_into\(\)\?", "__symbol_to_type_id(item.id)?", count=1, why="TryFrom<SymbolId> for TypeId abstracted")
    p.sub("E12", r"AttributeContext::Type\(TypeDef::from\(&def\)\)", "AttributeContext::Type(TypeDef::from_opaque(&def))", count=1, why="From impl selected by hand")
    p.sub("E7", r"&ast_opaque\.methods\[\.\.\]", "ast_opaque.methods.as_slice()", count=1, why="`&v[..]` spelled `v.as_slice()`")
    G.common_body_edits(p)
    vf.add_piece(p, expected="lower_opaque")
    vf.add("}\n")
    defs = Src("core/src/hir/defs.rs")
    vhelp.typedef(vf, defs, "OpaqueDef", "struct")
    vf.add("impl OpaqueDef {\n")
    p = Piece(defs, defs.item("impl OpaqueDef::new", "fn"))
    p.sub("E1", r"pub\(super\)", "pub", count=1)
    p.contract(f"""        ensures {CANARY}
            r.name == name, r.dtor_abi_name == dtor_abi_name, r.methods == methods, r.attrs == attrs,""", ret_name="r")
    vf.add_piece(p, expected="new")
    vf.add("}\n")
    vf.expected += ["lemma_write_only_last"]
    vf.add(vhelp.FOOTER)
    return vf


CANARY_FUNCTIONS = ["lower_param", "lower_many_params", "lower_method", "lower_all_methods", "lower_struct", "lower_out_struct", "lower_opaque", "new"]
ASSUMPTIONS = list(G.ASSUMPTIONS) + [
    "lower_type / lower_self_param / lower_return_type are abstract in this unit with the contracts proved in unit lower_type_gate (same contract text constants)",
    "lower_ident (strck identifier validation) and SelfParamLifetimeLowerer::new abstract: may fail, and then push an error",
    "<[T]>::split_last assume_specification; derived PartialEq on TypeName structural",
]
UNVERIFIED = {"C13": ["Attrs::from_ast (how disable is computed from the cfg: syn Meta dispatch)"], "C05": ["lower_opaque / lower_enum / lower_trait", "validate / validate_ty_in_method"], "C15": [], "C06": []}
