"""Helpers shared by Verus units: verbatim type definitions with rules E1/E2, trusted Clone stubs."""
import re
from rsrc import Src, Piece
from common import Undecided

HEADER = """#![feature(allocator_api)]
#![allow(unused_imports, unused_variables, dead_code, non_camel_case_types, unused_mut, unreachable_patterns, unused_parens, unused_braces, unused_assignments)]
use vstd::prelude::*;
verus! {
"""
FOOTER = """
} // verus!
fn main() {}
"""

FIELDLESS_DERIVE = "#[derive(Copy, Clone, PartialEq, Eq, Structural)]"


def typedef(vf, src, path, kind, derive=None, pub_tuple_fields=False, subs=None):
    """Emit the verbatim definition of a struct/enum (attributes dropped: rule E2), optionally with a replacement derive."""
    it = src.item(path, kind)
    p = Piece(src, it)
    if pub_tuple_fields:
        p.sub("E1", r"\((?!pub)(\s*)([A-Za-z])", r"(\1pub \2", count=1, why="private tuple field made pub (visibility has no run-time meaning)")
    p.sub("E1", r"pub\((?:crate|super)\)", "pub", count=None, why="restricted visibility made pub")
    p.sub("E1", r"\A(\s*)(struct|enum|union) ", r"\1pub \2 ", count=None, why="private item made pub")
    for (a, b, c) in (subs or []):
        p.sub(a, b, c, count="+")
    hdr = ""
    if derive:
        hdr = derive + "\n"
    text = p.render()
    # attributes on the item were cut by starting at after_attrs; log that
    raw = src.slice(it["start"], it["after_attrs"])
    attrs = [l.strip() for l in raw.splitlines() if l.strip().startswith("#[")]
    p.log.append({"item": it["path"], "rule": "E2", "before": " ".join(attrs)[:200], "after": derive or "", "why": "derive/lint/serde attributes dropped"})
    vf.add(hdr + text.strip() + "\n", origin={"file": src.rel, "item": it["path"], "line": src.line_of(it["after_attrs"]), "end_line": src.line_of(it["end"])}, edits=p.log)


def clone_stub(ty, generics=""):
    return f"""impl{generics} Clone for {ty} {{
    #[verifier::external_body]
    fn clone(&self) -> (r: Self) ensures r == *self {{ unimplemented!() }}
}}
"""
