"""Boilerplate for Kani units: a unit module calls `define(globals(), ...)`."""
import os
import re
from common import VERIF, read
from rsrc import match_close

END_COVER = 'kani::cover!(true, "harness end reached");'


def add_end_covers(text):
    """Append a `cover!(true)` as the last statement of every #[kani::proof] fn: a harness whose tail is cut off (unreachable
    code, truncated instrumentation) then fails the expected-cover count instead of passing silently."""
    out = []
    pos = 0
    for m in re.finditer(r"#\[kani::proof\](?:\s*#\[[^\]]*\])*\s*fn\s+\w+\s*\(\s*\)\s*\{", text):
        o = m.end() - 1
        c = match_close(text, o)
        out.append(text[pos:c])
        out.append("\n        " + END_COVER + "\n    ")
        pos = c
    out.append(text[pos:])
    return "".join(out)



def define(g, name, crate, file, module, harness_file, properties, entries, params, assumptions, unverified,
           features=None, kani_args=None, extra_appends=None, tiers=None, quick_elsewhere=None):
    """entries: list of (harness fn, obligation text, [(file,item)...], covers|None, [props], mode, bound_fn(params)->str, tiers|None)
    params(tier) -> dict of @KEY@ substitutions."""
    g["NAME"] = name
    g["ENGINE"] = "kani"
    g["CRATE"] = crate
    g["PROPERTIES"] = properties
    g["PLAYBACK_MODULE"] = (file, module)
    g["ASSUMPTIONS"] = assumptions
    g["UNVERIFIED"] = unverified
    if features:
        g["FEATURES"] = features
    if kani_args:
        g["KANI_ARGS"] = kani_args
    if tiers:
        g["TIERS"] = tiers
    if quick_elsewhere:
        g["QUICK_ELSEWHERE"] = quick_elsewhere

    def splice(sess, tier):
        t = read(os.path.join(VERIF, "units/harness", harness_file))
        for k, v in params(tier).items():
            t = t.replace("@" + k + "@", str(v))
        t = add_end_covers(t)
        if "@" in t and any(("@" + k + "@") in t for k in ("N", "UNWIND", "L")):
            raise RuntimeError("unsubstituted template parameter in " + harness_file)
        sess.append(file, t)
        for (rel, hf) in (extra_appends or []):
            sess.append_once(rel, read(os.path.join(VERIF, "units/harness", hf)), hf)

    def harnesses(tier, prop=None):
        out = []
        ps = params(tier)
        for e in entries:
            (fn, ob, fns, covers, props, mode, bound) = e[:7]
            etiers = e[7] if len(e) > 7 else None
            if prop and prop not in props:
                continue
            if etiers and tier not in etiers:
                continue
            for k, v in ps.items():
                fn = fn.replace("@" + k + "@", str(v))
            out.append({"name": module + "::" + fn, "obligation": ob, "functions": fns, "mode": mode,
                        "bound": bound(ps) if callable(bound) else bound, "covers": (covers or 0) + 1, "timeout": 1200,
                        "optional": "anylen" in fn})
        return out

    g["splice"] = splice
    g["harnesses"] = harnesses
