"""Engine K: Kani on a scratch copy of the real crates with harness modules spliced in (add-only, cfg(kani))."""
import os
import re
import shutil

from common import REPO, VERIF, Undecided, run, scratch_dir, rm_rf, read, write
from rsrc import Src


class KaniSession:
    """One scratch copy of /repo. Units splice their harness text, then `run` invokes cargo kani per crate."""

    def __init__(self, keep=False):
        self.dir = scratch_dir("kani")
        self.keep = keep
        self.root = os.path.join(self.dir, "repo")
        r = run(["rsync", "-a", "--exclude", "target", "--exclude", ".git", "--exclude", "node_modules",
                 "--exclude", "book", REPO.rstrip("/") + "/", self.root + "/"], timeout=300)
        if r["rc"] != 0:
            raise Undecided("scratch-copy-failed", r["err"][:400])
        self.spliced = []

    def close(self):
        if not self.keep:
            rm_rf(self.dir)

    def append(self, rel, text):
        p = os.path.join(self.root, rel)
        if not os.path.exists(p):
            raise Undecided("anchor-lost", f"{rel} does not exist")
        with open(p, "a", encoding="utf-8") as f:
            f.write("\n" + text + "\n")
        self.spliced.append({"file": rel, "lines_appended": text.count("\n") + 1})

    def append_once(self, rel, text, key):
        if not hasattr(self, "_once"):
            self._once = set()
        if (rel, key) in self._once:
            return
        self._once.add((rel, key))
        self.append(rel, text)

    def prepend_crate_attr(self, rel, text):
        """Insert an inner attribute line (`#![cfg_attr(kani, ...)]`) at the top of a crate root."""
        p = os.path.join(self.root, rel)
        s = read(p)
        write(p, text.rstrip() + "\n" + s)
        self.spliced.append({"file": rel, "lines_prepended": text.count("\n") + 1})

    def cargo_kani(self, crate_rel, harnesses, extra=None, timeout=3600, rss_gb=40, jobs=None, features=None):
        cwd = os.path.join(self.root, crate_rel)
        cmd = ["cargo", "kani", "--output-format", "terse"]
        if features:
            cmd += ["--features", features]
        for h in harnesses:
            cmd += ["--harness", h, ]
        cmd += ["--exact"] if False else []
        if jobs:
            cmd += ["-j", str(jobs)]
        if extra:
            cmd += extra
        env = {"CARGO_TARGET_DIR": os.path.join(self.dir, "target")}
        r = run(cmd, cwd=cwd, env=env, timeout=timeout, rss_limit_gb=rss_gb)
        r["cmd"] = " ".join(cmd)
        return r


_H = re.compile(r"^(?:Thread (\d+): )?Checking harness (\S+?)\.\.\.\s*$")
_T = re.compile(r"^Thread (\d+):\s*$")


def _sections(output):
    """(harness, text) sections for both sequential and `-j` (Thread N:) output."""
    secs = []
    cur_by_thread = {}
    cur = None  # index into secs currently receiving lines
    for line in output.splitlines():
        m = _H.match(line)
        if m:
            th, name = m.group(1), m.group(2)
            secs.append([name, []])
            if th is None:
                cur = len(secs) - 1
            else:
                cur_by_thread[th] = len(secs) - 1
                cur = None
            continue
        m = _T.match(line)
        if m:
            cur = cur_by_thread.get(m.group(1))
            continue
        if line.startswith("Manual Harness Summary") or line.startswith("Contract Harness Summary"):
            cur = None
            continue
        if cur is not None:
            secs[cur][1].append(line)
    return [(n, "\n".join(ls) + "\n") for (n, ls) in secs]


def parse_kani(output):
    """Split cargo-kani terse output into per-harness records."""
    res = {}
    for (name, sec) in _sections(output):
        rec = {"name": name, "raw": sec}
        m = re.search(r"\*\* (\d+) of (\d+) failed(?: \((.*?)\))?", sec)
        if m:
            rec["failed"] = int(m.group(1))
            rec["checks"] = int(m.group(2))
            rec["note"] = m.group(3) or ""
        m = re.search(r"\*\* (\d+) of (\d+) cover properties satisfied", sec)
        if m:
            rec["covers_sat"] = int(m.group(1))
            rec["covers"] = int(m.group(2))
        if "VERIFICATION:- SUCCESSFUL" in sec:
            rec["status"] = "SUCCESSFUL"
        elif "VERIFICATION:- FAILED" in sec:
            rec["status"] = "FAILED"
        else:
            rec["status"] = "UNKNOWN"
        m = re.search(r"Verification Time: ([0-9.]+)s", sec)
        if m:
            rec["time_s"] = float(m.group(1))
        fails = []
        for fm in re.finditer(r"Failed Checks: (.*?)\n\s*File: \"(.*?)\", line (\d+), in (.*?)\n", sec):
            fails.append({"desc": fm.group(1).strip(), "file": fm.group(2), "line": int(fm.group(3)), "fn": fm.group(4).strip()})
        # failed checks without a File line
        for fm in re.finditer(r"Failed Checks: (.*?)\n(?!\s*File:)", sec):
            fails.append({"desc": fm.group(1).strip(), "file": "", "line": 0, "fn": ""})
        rec["failures"] = fails
        # playback tests
        tests = []
        for tm in re.finditer(r"Concrete playback unit test for `(.*?)`:\n```\n(.*?)```", sec, re.S):
            tests.append(tm.group(2))
        rec["playback_tests"] = tests
        res[name] = rec
    return res


def classify_failure(f):
    """'refuted' for user assertions / memory safety / overflow; 'undecided' for unwinding and unsupported constructs."""
    d = f["desc"].lower()
    if "unwinding assertion" in d:
        return "undecided"
    if "not currently supported" in d or "unsupported" in d or "is not supported" in d:
        return "undecided"
    if "recursion unwinding" in d:
        return "undecided"
    return "refuted"
